/-
  C07: the declarative checker `D` never rejects a script that has a
  well-typed, fully annotated completion (core fragment: literals, variables,
  unary and binary operators, if/else, blocks with `let` and expression
  statements).

  `fillsE e e'` : `e'` is `e` with every omitted literal suffix and `let`
  annotation filled in (nothing else changed). On such an `e'`, under a ground
  context, `D` is an ordinary type checker: no flexible type arises.
-/
import RotoV.Lemmas.Typing
import RotoV.Lemmas.TypingAux

namespace RotoV.Typing

mutual
def fillsE : Expr → Expr → Bool
  | .intLit none, .intLit (some _) => true
  | .intLit (some t), .intLit (some u) => t == u
  | .floatLit none, .floatLit (some _) => true
  | .floatLit (some a), .floatLit (some b) => a == b
  | .boolLit, .boolLit => true
  | .strLit, .strLit => true
  | .unitLit, .unitLit => true
  | .var x, .var y => x == y
  | .neg e, .neg e' => fillsE e e'
  | .not e, .not e' => fillsE e e'
  | .bin op l r, .bin op' l' r' => op == op' && fillsE l l' && fillsE r r'
  | .ite c t (some e), .ite c' t' (some e') => fillsE c c' && fillsB t t' && fillsB e e'
  | .ite c t none, .ite c' t' none => fillsE c c' && fillsB t t'
  | .while c b, .while c' b' => fillsE c c' && fillsB b b'
  | .block b, .block b' => fillsB b b'
  | .const c, .const c' => c == c'
  | .field e f, .field e' f' => f == f' && fillsE e e'
  | .call f args, .call f' args' => f == f' && fillsL args args'
  | .assign false x path e, .assign false x' path' e' => x == x' && path == path' && fillsE e e'
  | .cassign op false x path e, .cassign op' false x' path' e' =>
    op == op' && x == x' && path == path' && fillsE e e'
  | .some e, .some e' => fillsE e e'
  | .fstr es, .fstr es' => fillsL es es'
  | .listLit (e :: es), .listLit (e' :: es') => fillsE e e' && fillsL es es'
  | .for x e b, .for x' e' b' => x == x' && fillsE e e' && fillsB b b'
  | .ctor t k args, .ctor t' k' args' => t == t' && k == k' && fillsL args args'
  | .try e, .try e' => fillsE e e'
  | .record t fs, .record t' fs' => t == t' && fillsF fs fs'
  | .match e (a :: arms), .match e' (a' :: arms') => fillsE e e' && fillsA (a :: arms) (a' :: arms')
  | _, _ => false
def fillsA : List Arm → List Arm → Bool
  | [], [] => true
  | .mk p none b :: r, .mk p' none b' :: r' => patBeq p p' && fillsB b b' && fillsA r r'
  | .mk p (some gd) b :: r, .mk p' (some gd') b' :: r' =>
    patBeq p p' && fillsE gd gd' && fillsB b b' && fillsA r r'
  | _, _ => false
def fillsL : List Expr → List Expr → Bool
  | [], [] => true
  | e :: r, e' :: r' => fillsE e e' && fillsL r r'
  | _, _ => false
def fillsF : List Field → List Field → Bool
  | [], [] => true
  | .mk n e :: r, .mk n' e' :: r' => n == n' && fillsE e e' && fillsF r r'
  | _, _ => false
def fillsS : List Stmt → List Stmt → Bool
  | [], [] => true
  | .let_ x ann e :: r, .let_ x' (some t) e' :: r' =>
    x == x' && (ann == none || ann == some t) && fillsE e e' && fillsS r r'
  | .expr e :: r, .expr e' :: r' => fillsE e e' && fillsS r r'
  | _, _ => false
def fillsB : Block → Block → Bool
  | .mk ss (some e), .mk ss' (some e') => fillsS ss ss' && fillsE e e'
  | .mk ss none, .mk ss' none => fillsS ss ss'
  | _, _ => false
end

/-- what the three statements below say about one judgement -/
def MonoE (env : Env) (ctx : Ctx) (e e' : Expr) : Prop :=
  ∀ (g g' : Gamma) (tg : Ty) (d' : Bool), fillsE e e' = true → gammaInst g g' = true →
    synth env ctx g' e' = .ok (tg, d') →
    d' = false ∧ ∃ tf, synth env ctx g e = .ok (tf, false) ∧ inst tf tg = true ∧ ground tg = true

def MonoL (env : Env) (ctx : Ctx) (args args' : List Expr) : Prop :=
  ∀ (g g' : Gamma) (tys : List Ty) (d' : Bool), fillsL args args' = true → gammaInst g g' = true →
    tys.all ground = true → checkArgs env ctx g' args' tys = .ok d' →
    d' = false ∧ checkArgs env ctx g args tys = .ok false

def MonoList (env : Env) (ctx : Ctx) (es es' : List Expr) : Prop :=
  ∀ (g g' : Gamma) (ts' : List Ty) (d' : Bool), fillsL es es' = true → gammaInst g g' = true →
    synthList env ctx g' es' = .ok (ts', d') →
    d' = false ∧ ∃ ts, synthList env ctx g es = .ok (ts, false) ∧ instList ts ts' = true ∧
      ts'.all ground = true

def MonoF (env : Env) (ctx : Ctx) (fs fs' : List Field) : Prop :=
  ∀ (g g' : Gamma) (decl : List (Nat × Ty)) (d' : Bool), fillsF fs fs' = true → gammaInst g g' = true →
    (decl.all fun f => ground f.2) = true → checkFields env ctx g' fs' decl = .ok d' →
    d' = false ∧ checkFields env ctx g fs decl = .ok false

def MonoA (env : Env) (ctx : Ctx) (arms arms' : List Arm) : Prop :=
  ∀ (g g' : Gamma) (vsf : Option (List (PatName × List Ty))) (vs' : List (PatName × List Ty))
    (ts' : List Ty) (da' : Bool), fillsA arms arms' = true → gammaInst g g' = true →
    armVariantsOk vsf vs' = true → ArmsArity vs' arms' →
    (∀ n tys, lookupVariant vs' n = some tys → tys.all ground = true) →
    synthArms env ctx g' (some vs') arms' = .ok (ts', da') →
    (arms' ≠ [] → da' = false) ∧ ts'.length = arms'.length ∧
      ∃ ts, synthArms env ctx g vsf arms = .ok (ts, da') ∧
        instList ts ts' = true ∧ ts'.all ground = true

def MonoS (env : Env) (ctx : Ctx) (ss ss' : List Stmt) : Prop :=
  ∀ (g g' g1' : Gamma) (d' : Bool), fillsS ss ss' = true → gammaInst g g' = true →
    synthStmts env ctx g' ss' = .ok (g1', d') →
    d' = false ∧ ∃ g1, synthStmts env ctx g ss = .ok (g1, false) ∧ gammaInst g1 g1' = true

def MonoB (env : Env) (ctx : Ctx) (b b' : Block) : Prop :=
  ∀ (g g' : Gamma) (tg : Ty) (d' : Bool), fillsB b b' = true → gammaInst g g' = true →
    synthBlock env ctx g' b' = .ok (tg, d') →
    d' = false ∧ ∃ tf, synthBlock env ctx g b = .ok (tf, false) ∧ inst tf tg = true ∧ ground tg = true

theorem expect_ok {what : String} {a b : Ty} (h : compat a b = true) : expect what a b = .ok () := by
  simp [expect, h, pure, Except.pure]

theorem expect_inv {what : String} {a b : Ty} {u : Unit} (h : expect what a b = .ok u) : compat a b = true := by
  unfold expect at h
  by_cases hc : compat a b = true
  · exact hc
  · simp [hc, fail] at h

/-- every type mentioned by the items of the environment is ground (they are
    all written in the script) -/
def envGround (env : Env) : Bool :=
  env.consts.all (fun c => ground c.2) &&
  env.fns.all (fun f => f.2.params.all ground && ground f.2.ret) &&
  env.types.all (fun t => match t.2 with
    | .record fs => fs.all (fun f => ground f.2)
    | .enum vs => vs.all (fun v => v.2.all ground))

theorem lookup_all {α : Type} {l : List (Nat × α)} {p : Nat × α → Bool} (h : l.all p = true)
    {k : Nat} {v : α} (hl : l.lookup k = some v) : ∃ k', p (k', v) = true := by
  induction l with
  | nil => simp [List.lookup] at hl
  | cons e rest ih =>
    obtain ⟨k0, v0⟩ := e
    simp only [List.all_cons, Bool.and_eq_true] at h
    simp only [List.lookup] at hl
    by_cases hk : (k == k0) = true
    · simp only [hk] at hl
      injection hl with hl; subst hl
      exact ⟨k0, h.1⟩
    · simp only [hk] at hl
      exact ih h.2 hl

theorem inst_unit_compat (f : Ty) (h : inst f .unit = true) : compat f .unit = true := by
  cases f <;> simp_all [inst, compat]

/-- field access is monotone -/
theorem fieldTy_mono (env : Env) (henv : envGround env = true) (tf t : Ty) (f : Nat) (tp : Ty)
    (hi : inst tf t = true) (hgt : ground t = true) (h : fieldTy env t f = some tp) :
    ground tp = true ∧ ∃ tpf, fieldTy env tf f = some tpf ∧ inst tpf tp = true := by
  cases t with
  | named n =>
    simp only [fieldTy] at h
    cases hr : recordFields env n with
    | none => simp [hr] at h
    | some fs =>
      simp only [hr] at h
      -- the field's type is ground
      have hgr : ground tp = true := by
        unfold recordFields at hr
        cases hl : env.types.lookup n with
        | none => simp [hl] at hr
        | some d =>
          cases d with
          | record fs' =>
            simp only [hl, Option.some.injEq] at hr
            subst hr
            simp only [envGround, Bool.and_eq_true] at henv
            obtain ⟨_, hp⟩ := lookup_all henv.2 hl
            simp only at hp
            obtain ⟨_, hq⟩ := lookup_all hp h
            exact hq
          | enum vs => simp [hl] at hr
      refine ⟨hgr, ?_⟩
      cases tf <;> simp_all [inst, fieldTy]
      · exact inst_self tp hgr
  | unknown => simp [ground] at hgt
  | never => simp [ground] at hgt
  | _ => simp [fieldTy] at h

theorem pathTy_mono (env : Env) (henv : envGround env = true) : ∀ (path : List Nat) (tf t tp : Ty),
    inst tf t = true → ground t = true → pathTy env t path = some tp →
    ground tp = true ∧ ∃ tpf, pathTy env tf path = some tpf ∧ inst tpf tp = true := by
  intro path
  induction path with
  | nil =>
    intro tf t tp hi hg h
    simp only [pathTy, Option.some.injEq] at h
    subst h
    exact ⟨hg, tf, rfl, hi⟩
  | cons f rest ih =>
    intro tf t tp hi hg h
    simp only [pathTy] at h ⊢
    cases hf : fieldTy env t f with
    | none => simp [hf] at h
    | some t1 =>
      simp only [hf] at h
      obtain ⟨hg1, tf1, h1, h2⟩ := fieldTy_mono env henv tf t f t1 hi hg hf
      simp only [h1]
      exact ih tf1 t1 tp h2 hg1 h

/-- a type written in a script is ground -/
theorem wfTy_ground (env : Env) : ∀ t, wfTy env t = true → ground t = true := by
  intro t
  induction t with
  | opt a ih => intro h; simp only [wfTy] at h; simp only [ground]; exact ih h
  | list a ih => intro h; simp only [wfTy] at h; simp only [ground]; exact ih h
  | verdict a b iha ihb =>
    intro h; simp only [wfTy, Bool.and_eq_true] at h
    simp only [ground, Bool.and_eq_true]; exact ⟨iha h.1, ihb h.2⟩
  | _ => intro h; simp_all [wfTy, ground]

theorem fillsF_names : ∀ (fs fs' : List Field), fillsF fs fs' = true → fieldNames fs = fieldNames fs' := by
  intro fs
  induction fs with
  | nil => intro fs' h; cases fs' <;> simp_all [fillsF, fieldNames]
  | cons f r ih =>
    intro fs' h
    cases fs' with
    | nil => cases f; simp [fillsF] at h
    | cons f' r' =>
      cases f; cases f'
      simp only [fillsF, Bool.and_eq_true, beq_iff_eq] at h
      simp [fieldNames, h.1.1, ih r' h.2]

/-- all elements of a non-empty ground list that folds are the result -/
theorem foldCompat_ground (what : String) : ∀ (ts : List Ty) (acc tr : Ty), ts.all ground = true →
    ground acc = true → foldCompat what ts acc = .ok tr → tr = acc ∧ ∀ t ∈ ts, t = acc := by
  intro ts
  induction ts with
  | nil => intro acc tr _ _ h; simp only [foldCompat, pure, Except.pure, Except.ok.injEq] at h; exact ⟨h.symm, by simp⟩
  | cons t r ih =>
    intro acc tr hg ha h
    simp only [List.all_cons, Bool.and_eq_true] at hg
    simp only [foldCompat] at h
    by_cases hc : compat t acc = true
    · simp only [hc, ↓reduceIte] at h
      have := compat_ground_eq t acc hg.1 ha hc
      subst this
      rw [meet_self t hg.1] at h
      obtain ⟨h1, h2⟩ := ih t tr hg.2 ha h
      exact ⟨h1, by intro u hu; rcases List.mem_cons.1 hu with hu | hu; exact hu; exact h2 u hu⟩
    · simp [hc, fail] at h

theorem foldCompat_flex (what : String) : ∀ (ts ts' : List Ty) (acc g : Ty), instList ts ts' = true →
    (∀ t ∈ ts', t = g) → inst acc g = true → ∃ tr, foldCompat what ts acc = .ok tr ∧ inst tr g = true := by
  intro ts
  induction ts with
  | nil => intro ts' acc g h _ ha; cases ts' <;> simp_all [instList, foldCompat, pure, Except.pure]
  | cons t r ih =>
    intro ts' acc g h hall ha
    cases ts' with
    | nil => simp [instList] at h
    | cons t' r' =>
      simp only [instList, Bool.and_eq_true] at h
      have ht' : t' = g := hall t' List.mem_cons_self
      subst ht'
      obtain ⟨c, _⟩ := inst_compat_meet t' t acc h.1 ha
      obtain ⟨_, m⟩ := inst_compat_meet t' acc t ha h.1
      simp only [foldCompat, c, ↓reduceIte]
      exact ih r' (meet acc t) t' h.2 (fun u hu => hall u (List.mem_cons_of_mem _ hu)) m

/-- a non-empty list literal: the ground side has one element type, the flexible side an instance of it -/
theorem foldCompat_mono (what : String) (ts ts' : List Ty) (tr' : Ty) (hne : ts' ≠ [])
    (hi : instList ts ts' = true) (hg : ts'.all ground = true)
    (h : foldCompat what ts' .unknown = .ok tr') :
    ground tr' = true ∧ ∃ tr, foldCompat what ts .unknown = .ok tr ∧ inst tr tr' = true := by
  cases ts' with
  | nil => exact absurd rfl hne
  | cons t0 r' =>
    simp only [List.all_cons, Bool.and_eq_true] at hg
    simp only [foldCompat, compat] at h
    have hm : meet Ty.unknown t0 = t0 := by cases t0 <;> rfl
    have hc : compat t0 Ty.unknown = true := by cases t0 <;> rfl
    simp only [hc, ↓reduceIte, hm] at h
    obtain ⟨h1, h2⟩ := foldCompat_ground what r' t0 tr' hg.2 hg.1 h
    subst h1
    refine ⟨hg.1, ?_⟩
    exact foldCompat_flex what ts (tr' :: r') .unknown tr' hi
      (by intro u hu; rcases List.mem_cons.1 hu with hu | hu; exact hu; exact h2 u hu) (by simp [inst])

theorem fillsA_heads : ∀ (arms arms' : List Arm), fillsA arms arms' = true → armHeads arms = armHeads arms' := by
  intro arms
  induction arms with
  | nil => intro arms' h; cases arms' <;> simp_all [fillsA, armHeads]
  | cons a r ih =>
    intro arms' h
    cases arms' with
    | nil => cases a with | mk p gd b => cases gd <;> simp [fillsA] at h
    | cons a' r' =>
      cases a with
      | mk p gd b =>
      cases a' with
      | mk p' gd' b' =>
      cases gd with
      | none =>
        cases gd' with
        | none =>
          simp only [fillsA, Bool.and_eq_true] at h
          obtain ⟨⟨hp, _⟩, hr⟩ := h
          simp [armHeads, patBeq_eq p p' hp, ih r' hr]
        | some x => simp [fillsA] at h
      | some y =>
        cases gd' with
        | none => simp [fillsA] at h
        | some x =>
          simp only [fillsA, Bool.and_eq_true] at h
          obtain ⟨⟨⟨hp, _⟩, _⟩, hr⟩ := h
          simp [armHeads, patBeq_eq p p' hp, ih r' hr]

theorem variantsInst_self : ∀ (vs : List (PatName × List Ty)), (vs.all fun v => v.2.all ground) = true →
    variantsInst vs vs = true := by
  intro vs
  induction vs with
  | nil => intro _; rfl
  | cons v r ih =>
    intro h
    obtain ⟨n, ts⟩ := v
    simp only [List.all_cons, Bool.and_eq_true] at h
    have hself : ∀ (l : List Ty), l.all ground = true → instList l l = true := by
      intro l
      induction l with
      | nil => intro _; rfl
      | cons t r' ih' =>
        intro hl
        simp only [List.all_cons, Bool.and_eq_true] at hl
        simp [instList, inst_self t hl.1, ih' hl.2]
    have hn : patNameEq n n = true := by cases n <;> simp [patNameEq]
    simp [variantsInst, hn, hself ts h.1, h.1, ih h.2]

theorem lookupVariant_ground : ∀ (vs : List (PatName × List Ty)), (vs.all fun v => v.2.all ground) = true →
    ∀ n tys, lookupVariant vs n = some tys → tys.all ground = true := by
  intro vs
  induction vs with
  | nil => intro _ n tys h; simp [lookupVariant] at h
  | cons v r ih =>
    intro hg n tys h
    obtain ⟨m, ts⟩ := v
    simp only [List.all_cons, Bool.and_eq_true] at hg
    simp only [lookupVariant] at h
    by_cases hm : patNameEq m n = true
    · simp only [hm, ↓reduceIte, Option.some.injEq] at h; subst h; exact hg.1
    · simp only [hm, Bool.false_eq_true, ↓reduceIte] at h; exact ih hg.2 n tys h

/-- the variants of a ground examinee type are ground -/
theorem variantsOf_ground (env : Env) (henv : envGround env = true) (t : Ty) (hg : ground t = true)
    (vs : List (PatName × List Ty)) (h : variantsOf env t = some vs) :
    (vs.all fun v => v.2.all ground) = true := by
  cases t with
  | opt u =>
    simp only [variantsOf, Option.some.injEq] at h
    subst h
    simpa [ground] using hg
  | named n =>
    simp only [variantsOf] at h
    cases hl : env.types.lookup n with
    | none => simp [hl] at h
    | some df =>
      cases df with
      | record fs => simp [hl] at h
      | enum evs =>
        simp only [hl, Option.some.injEq] at h
        subst h
        simp only [envGround, Bool.and_eq_true] at henv
        obtain ⟨_, hp⟩ := lookup_all henv.2 hl
        simp only at hp
        simpa [List.all_map] using hp
  | _ => simp [variantsOf] at h

theorem fillsL_length : ∀ (xs ys : List Expr), fillsL xs ys = true → xs.length = ys.length := by
  intro xs
  induction xs with
  | nil => intro ys h; cases ys <;> simp_all [fillsL]
  | cons x r ih =>
    intro ys h
    cases ys with
    | nil => simp [fillsL] at h
    | cons y r' =>
      simp only [fillsL, Bool.and_eq_true] at h
      simp [ih r' h.2]

set_option maxHeartbeats 2000000 in
mutual
theorem monoE (env : Env) (henv : envGround env = true) (ctx : Ctx) (e e' : Expr) : MonoE env ctx e e' := by
  intro g g' tg d' hf hg hs
  cases e with
  | intLit suf =>
    cases e' with
    | intLit suf' =>
      cases suf <;> cases suf' <;> simp [fillsE] at hf
      · simp only [synth, pure, Except.pure, Except.ok.injEq, Prod.mk.injEq] at hs
        obtain ⟨h1, h2⟩ := hs; subst h1; subst h2
        exact ⟨rfl, .anyInt false, by simp [synth, pure, Except.pure], by simp [inst], by simp [ground]⟩
      · subst hf
        simp only [synth, pure, Except.pure, Except.ok.injEq, Prod.mk.injEq] at hs
        obtain ⟨h1, h2⟩ := hs; subst h1; subst h2
        rename_i t
        exact ⟨rfl, .int t, by simp [synth, pure, Except.pure], by simp [inst], by simp [ground]⟩
    | _ => simp [fillsE] at hf
  | floatLit suf =>
    cases e' with
    | floatLit suf' =>
      cases suf <;> cases suf' <;> simp [fillsE] at hf
      · rename_i b
        cases b <;>
        · simp only [synth, pure, Except.pure, Except.ok.injEq, Prod.mk.injEq] at hs
          obtain ⟨h1, h2⟩ := hs; subst h1; subst h2
          exact ⟨rfl, .anyFloat, by simp [synth, pure, Except.pure], by simp [inst], by simp [ground]⟩
      · subst hf
        rename_i b
        cases b
        · simp only [synth, pure, Except.pure, Except.ok.injEq, Prod.mk.injEq] at hs
          obtain ⟨h1, h2⟩ := hs; subst h1; subst h2
          exact ⟨rfl, .f32, by simp [synth, pure, Except.pure], by simp [inst], by simp [ground]⟩
        · simp only [synth, pure, Except.pure, Except.ok.injEq, Prod.mk.injEq] at hs
          obtain ⟨h1, h2⟩ := hs; subst h1; subst h2
          exact ⟨rfl, .f64, by simp [synth, pure, Except.pure], by simp [inst], by simp [ground]⟩
    | _ => simp [fillsE] at hf
  | boolLit =>
    cases e' with
    | boolLit =>
      simp only [synth, pure, Except.pure, Except.ok.injEq, Prod.mk.injEq] at hs
      obtain ⟨h1, h2⟩ := hs; subst h1; subst h2
      exact ⟨rfl, .bool, by simp [synth, pure, Except.pure], by simp [inst], by simp [ground]⟩
    | _ => simp [fillsE] at hf
  | strLit =>
    cases e' with
    | strLit =>
      simp only [synth, pure, Except.pure, Except.ok.injEq, Prod.mk.injEq] at hs
      obtain ⟨h1, h2⟩ := hs; subst h1; subst h2
      exact ⟨rfl, .string, by simp [synth, pure, Except.pure], by simp [inst], by simp [ground]⟩
    | _ => simp [fillsE] at hf
  | unitLit =>
    cases e' with
    | unitLit =>
      simp only [synth, pure, Except.pure, Except.ok.injEq, Prod.mk.injEq] at hs
      obtain ⟨h1, h2⟩ := hs; subst h1; subst h2
      exact ⟨rfl, .unit, by simp [synth, pure, Except.pure], by simp [inst], by simp [ground]⟩
    | _ => simp [fillsE] at hf
  | var x =>
    cases e' with
    | var y =>
      simp only [fillsE, beq_iff_eq] at hf
      subst hf
      simp only [synth] at hs
      cases hl : lookupVar g' x with
      | none => simp [hl, fail] at hs
      | some t =>
        simp only [hl, pure, Except.pure, Except.ok.injEq, Prod.mk.injEq] at hs
        obtain ⟨h1, h2⟩ := hs; subst h1; subst h2
        obtain ⟨tf, h3, h4, h5⟩ := gamma_lookup hg x t hl
        exact ⟨rfl, tf, by simp [synth, h3, pure, Except.pure], h4, h5⟩
    | _ => simp [fillsE] at hf
  | neg a =>
    cases e' with
    | neg a' =>
      simp only [fillsE] at hf
      simp only [synth, bind, Except.bind] at hs
      cases hsa : synth env ctx g' a' with
      | error err => simp [hsa] at hs
      | ok p =>
        obtain ⟨ta, da⟩ := p
        simp only [hsa] at hs
        obtain ⟨hd, tf, h1, h2, h3⟩ := monoE env henv ctx a a' g g' ta da hf hg hsa
        subst hd
        cases hn : negTy ta with
        | none => simp [hn, fail] at hs
        | some r' =>
          simp only [hn, pure, Except.pure, Except.ok.injEq, Prod.mk.injEq] at hs
          obtain ⟨e1, e2⟩ := hs; subst e1; subst e2
          obtain ⟨r, hr1, hr2, hr3⟩ := neg_mono tf ta r' h2 h3 hn
          exact ⟨rfl, r, by simp [synth, bind, Except.bind, h1, hr1, pure, Except.pure], hr2, hr3⟩
    | _ => simp [fillsE] at hf
  | not a =>
    cases e' with
    | not a' =>
      simp only [fillsE] at hf
      simp only [synth, bind, Except.bind] at hs
      cases hsa : synth env ctx g' a' with
      | error err => simp [hsa] at hs
      | ok p =>
        obtain ⟨ta, da⟩ := p
        simp only [hsa] at hs
        obtain ⟨hd, tf, h1, h2, h3⟩ := monoE env henv ctx a a' g g' ta da hf hg hsa
        subst hd
        cases he : expect "not-operand" ta .bool with
        | error err => simp [he] at hs
        | ok u =>
          simp only [he, pure, Except.pure, Except.ok.injEq, Prod.mk.injEq] at hs
          obtain ⟨e1, e2⟩ := hs; subst e1; subst e2
          have hb := compat_ground_eq ta .bool h3 rfl (expect_inv he)
          subst hb
          exact ⟨rfl, .bool, by simp [synth, bind, Except.bind, h1, expect_ok (inst_bool tf h2), pure, Except.pure],
            by simp [inst], by simp [ground]⟩
    | _ => simp [fillsE] at hf
  | bin op l r =>
    cases e' with
    | bin op' l' r' =>
      simp only [fillsE, Bool.and_eq_true, beq_iff_eq] at hf
      obtain ⟨⟨hop, hfl⟩, hfr⟩ := hf
      subst hop
      simp only [synth, bind, Except.bind] at hs
      cases hsl : synth env ctx g' l' with
      | error err => simp [hsl] at hs
      | ok p =>
        obtain ⟨tl, dl⟩ := p
        simp only [hsl] at hs
        cases hsr : synth env ctx g' r' with
        | error err => simp [hsr] at hs
        | ok q =>
          obtain ⟨tr, dr⟩ := q
          simp only [hsr] at hs
          obtain ⟨hdl, fl, l1, l2, l3⟩ := monoE env henv ctx l l' g g' tl dl hfl hg hsl
          obtain ⟨hdr, fr, r1, r2, r3⟩ := monoE env henv ctx r r' g g' tr dr hfr hg hsr
          subst hdl; subst hdr
          cases hb : binopTy op tl tr with
          | none => simp [hb, fail] at hs
          | some t' =>
            simp only [hb, pure, Except.pure, Except.ok.injEq, Prod.mk.injEq] at hs
            obtain ⟨e1, e2⟩ := hs; subst e1; subst e2
            obtain ⟨t, ht1, ht2, ht3⟩ := binop_mono op fl fr tl tr t' l2 r2 l3 r3 hb
            exact ⟨by cases op <;> rfl, t, by cases op <;> simp [synth, bind, Except.bind, l1, r1, ht1, pure, Except.pure, binDiv], ht2, ht3⟩
    | _ => simp [fillsE] at hf
  | ite c t el =>
    cases e' with
    | ite c' t' el' =>
      cases el with
      | none =>
        cases el' with
        | some eb' => simp [fillsE] at hf
        | none =>
          simp only [fillsE, Bool.and_eq_true] at hf
          obtain ⟨hfc, hft⟩ := hf
          simp only [synth, bind, Except.bind] at hs
          cases hsc : synth env ctx g' c' with
          | error err => simp [hsc] at hs
          | ok p =>
            obtain ⟨tc, dc⟩ := p
            simp only [hsc] at hs
            obtain ⟨hdc, fc, c1, c2, c3⟩ := monoE env henv ctx c c' g g' tc dc hfc hg hsc
            subst hdc
            cases hec : expect "condition" tc .bool with
            | error err => simp [hec] at hs
            | ok u =>
              simp only [hec] at hs
              have hb := compat_ground_eq tc .bool c3 rfl (expect_inv hec)
              subst hb
              cases hst : synthBlock env ctx ([] :: g') t' with
              | error err => simp [hst] at hs
              | ok q =>
                obtain ⟨tt, dt⟩ := q
                simp only [hst] at hs
                obtain ⟨_, ft, t1, t2, t3⟩ := monoB env henv ctx t t' ([] :: g) ([] :: g') tt dt hft (gamma_push hg) hst
                cases heb : expect "if-without-else-value" tt .unit with
                | error err => simp [heb] at hs
                | ok u2 =>
                  simp only [heb, pure, Except.pure, Except.ok.injEq, Prod.mk.injEq] at hs
                  obtain ⟨x1, x2⟩ := hs; subst x1; subst x2
                  have hu := compat_ground_eq tt .unit t3 rfl (expect_inv heb)
                  subst hu
                  refine ⟨rfl, .unit, ?_, by simp [inst], by simp [ground]⟩
                  simp [synth, bind, Except.bind, c1, expect_ok (inst_bool fc c2), t1,
                    expect_ok (inst_unit_compat ft t2), pure, Except.pure]
      | some eb =>
        cases el' with
        | none => simp [fillsE] at hf
        | some eb' =>
          simp only [fillsE, Bool.and_eq_true] at hf
          obtain ⟨⟨hfc, hft⟩, hfe⟩ := hf
          simp only [synth, bind, Except.bind] at hs
          cases hsc : synth env ctx g' c' with
          | error err => simp [hsc] at hs
          | ok p =>
            obtain ⟨tc, dc⟩ := p
            simp only [hsc] at hs
            obtain ⟨hdc, fc, c1, c2, c3⟩ := monoE env henv ctx c c' g g' tc dc hfc hg hsc
            subst hdc
            cases hec : expect "condition" tc .bool with
            | error err => simp [hec] at hs
            | ok u =>
              simp only [hec] at hs
              have hb := compat_ground_eq tc .bool c3 rfl (expect_inv hec)
              subst hb
              cases hst : synthBlock env ctx ([] :: g') t' with
              | error err => simp [hst] at hs
              | ok q =>
                obtain ⟨tt, dt⟩ := q
                simp only [hst] at hs
                cases hse : synthBlock env ctx ([] :: g') eb' with
                | error err => simp [hse] at hs
                | ok q2 =>
                  obtain ⟨te, de⟩ := q2
                  simp only [hse] at hs
                  obtain ⟨hdt, ft, t1, t2, t3⟩ := monoB env henv ctx t t' ([] :: g) ([] :: g') tt dt hft (gamma_push hg) hst
                  obtain ⟨hde, fe, e1, e2, e3⟩ := monoB env henv ctx eb eb' ([] :: g) ([] :: g') te de hfe (gamma_push hg) hse
                  subst hdt; subst hde
                  by_cases hc : compat tt te = true
                  · simp only [hc, ↓reduceIte, pure, Except.pure, Except.ok.injEq, Prod.mk.injEq] at hs
                    obtain ⟨x1, x2⟩ := hs; subst x1; subst x2
                    have := compat_ground_eq tt te t3 e3 hc
                    subst this
                    obtain ⟨k1, k2⟩ := inst_compat_meet tt ft fe t2 e2
                    rw [meet_self tt t3]
                    refine ⟨by simp, meet ft fe, ?_, k2, t3⟩
                    simp [synth, bind, Except.bind, c1, expect_ok (inst_bool fc c2), t1, e1, k1, pure, Except.pure]
                  · simp [hc, fail] at hs
    | _ => simp [fillsE] at hf
  | block b =>
    cases e' with
    | block b' =>
      simp only [fillsE] at hf
      simp only [synth] at hs
      obtain ⟨hd, tf, h1, h2, h3⟩ := monoB env henv ctx b b' ([] :: g) ([] :: g') tg d' hf (gamma_push hg) hs
      exact ⟨hd, tf, by simp [synth, h1], h2, h3⟩
    | _ => simp [fillsE] at hf
  | const c =>
    cases e' with
    | const c' =>
      simp only [fillsE, beq_iff_eq] at hf
      subst hf
      simp only [synth] at hs ⊢
      cases hl : env.consts.lookup c with
      | none => simp [hl, fail] at hs
      | some t =>
        simp only [hl, pure, Except.pure, Except.ok.injEq, Prod.mk.injEq] at hs ⊢
        obtain ⟨h1, h2⟩ := hs; subst h1; subst h2
        simp only [envGround, Bool.and_eq_true] at henv
        obtain ⟨_, hgr⟩ := lookup_all henv.1.1 hl
        exact ⟨rfl, t, by simp, inst_self t hgr, hgr⟩
    | _ => simp [fillsE] at hf
  | field a f =>
    cases e' with
    | field a' f' =>
      simp only [fillsE, Bool.and_eq_true, beq_iff_eq] at hf
      obtain ⟨hff, hfa⟩ := hf
      subst hff
      simp only [synth, bind, Except.bind] at hs
      cases hsa : synth env ctx g' a' with
      | error err => simp [hsa] at hs
      | ok p =>
        obtain ⟨ta, da⟩ := p
        simp only [hsa] at hs
        obtain ⟨hd, tf, h1, h2, h3⟩ := monoE env henv ctx a a' g g' ta da hfa hg hsa
        subst hd
        cases hft : fieldTy env ta f with
        | none => simp [hft, fail] at hs
        | some tp =>
          simp only [hft, pure, Except.pure, Except.ok.injEq, Prod.mk.injEq] at hs
          obtain ⟨x1, x2⟩ := hs; subst x1; subst x2
          obtain ⟨hg1, tpf, f1, f2⟩ := fieldTy_mono env henv tf ta f tp h2 h3 hft
          exact ⟨rfl, tpf, by simp [synth, bind, Except.bind, h1, f1, pure, Except.pure], f2, hg1⟩
    | _ => simp [fillsE] at hf
  | «while» c b =>
    cases e' with
    | «while» c' b' =>
      simp only [fillsE, Bool.and_eq_true] at hf
      obtain ⟨hfc, hfb⟩ := hf
      simp only [synth, bind, Except.bind] at hs
      cases hsc : synth env ctx g' c' with
      | error err => simp [hsc] at hs
      | ok p =>
        obtain ⟨tc, dc⟩ := p
        simp only [hsc] at hs
        obtain ⟨hdc, fc, c1, c2, c3⟩ := monoE env henv ctx c c' g g' tc dc hfc hg hsc
        subst hdc
        cases hec : expect "condition" tc .bool with
        | error err => simp [hec] at hs
        | ok u =>
          simp only [hec] at hs
          have hb := compat_ground_eq tc .bool c3 rfl (expect_inv hec)
          subst hb
          cases hsb : synthBlock env ctx ([] :: g') b' with
          | error err => simp [hsb] at hs
          | ok q =>
            obtain ⟨tb, db⟩ := q
            simp only [hsb] at hs
            obtain ⟨_, fb, b1, b2, b3⟩ := monoB env henv ctx b b' ([] :: g) ([] :: g') tb db hfb (gamma_push hg) hsb
            cases heb : expect "loop-body-value" tb .unit with
            | error err => simp [heb] at hs
            | ok u2 =>
              simp only [heb, pure, Except.pure, Except.ok.injEq, Prod.mk.injEq] at hs
              obtain ⟨x1, x2⟩ := hs; subst x1; subst x2
              have hu := compat_ground_eq tb .unit b3 rfl (expect_inv heb)
              subst hu
              refine ⟨rfl, .unit, ?_, by simp [inst], by simp [ground]⟩
              simp [synth, bind, Except.bind, c1, expect_ok (inst_bool fc c2), b1,
                expect_ok (inst_unit_compat fb b2), pure, Except.pure]
    | _ => simp [fillsE] at hf
  | call f args =>
    cases e' with
    | call f' args' =>
      simp only [fillsE, Bool.and_eq_true, beq_iff_eq] at hf
      obtain ⟨hff, hfa⟩ := hf
      subst hff
      simp only [synth, bind, Except.bind] at hs ⊢
      cases hl : env.fns.lookup f with
      | none => simp [hl, fail] at hs
      | some sig =>
        simp only [hl] at hs ⊢
        have hlen : args.length = args'.length := fillsL_length args args' hfa
        by_cases hne : (args'.length != sig.params.length) = true
        · simp [hne, fail] at hs
        · simp only [hne, Bool.false_eq_true, ↓reduceIte] at hs
          rw [hlen]
          simp only [hne, Bool.false_eq_true, ↓reduceIte]
          simp only [envGround, Bool.and_eq_true] at henv
          obtain ⟨_, hsig⟩ := lookup_all henv.1.2 hl
          simp only [Bool.and_eq_true] at hsig
          cases hca : checkArgs env ctx g' args' sig.params with
          | error err => simp [hca] at hs
          | ok d1 =>
            simp only [hca, pure, Except.pure, Except.ok.injEq, Prod.mk.injEq] at hs
            obtain ⟨x1, x2⟩ := hs; subst x1; subst x2
            obtain ⟨hd, h1⟩ := monoL env (by simp only [envGround, Bool.and_eq_true]; exact henv) ctx args args' g g' sig.params d1 hfa hg hsig.1 hca
            subst hd
            exact ⟨rfl, sig.ret, by simp [h1, pure, Except.pure], inst_self _ hsig.2, hsig.2⟩
    | _ => simp [fillsE] at hf
  | assign isC x path a =>
    cases e' with
    | assign isC' x' path' a' =>
      cases isC <;> cases isC' <;> simp [fillsE] at hf
      obtain ⟨⟨hx, hp⟩, hfa⟩ := hf
      subst hx; subst hp
      simp only [synth, bind, Except.bind, Bool.false_eq_true, ↓reduceIte] at hs ⊢
      cases hl : lookupVar g' x with
      | none => simp [hl, fail] at hs
      | some t =>
        simp only [hl] at hs
        obtain ⟨tf, l1, l2, l3⟩ := gamma_lookup hg x t hl
        simp only [l1]
        cases hpt : pathTy env t path with
        | none => simp [hpt, fail] at hs
        | some tp =>
          simp only [hpt] at hs
          obtain ⟨hgp, tpf, p1, p2⟩ := pathTy_mono env henv path tf t tp l2 l3 hpt
          simp only [p1]
          cases hsa : synth env ctx g' a' with
          | error err => simp [hsa] at hs
          | ok q =>
            obtain ⟨ta, da⟩ := q
            simp only [hsa] at hs
            obtain ⟨hd, fa, a1, a2, a3⟩ := monoE env henv ctx a a' g g' ta da hfa hg hsa
            subst hd
            cases hex : expect "assigned" ta tp with
            | error err => simp [hex] at hs
            | ok u =>
              simp only [hex, pure, Except.pure, Except.ok.injEq, Prod.mk.injEq] at hs
              obtain ⟨x1, x2⟩ := hs; subst x1; subst x2
              have := compat_ground_eq ta tp a3 hgp (expect_inv hex)
              subst this
              refine ⟨rfl, .unit, ?_, by simp [inst], by simp [ground]⟩
              simp [a1, expect_ok (inst_compat_meet ta fa tpf a2 p2).1, pure, Except.pure]
    | _ => simp [fillsE] at hf
  | cassign op isC x path a =>
    cases e' with
    | cassign op' isC' x' path' a' =>
      cases isC <;> cases isC' <;> simp [fillsE] at hf
      obtain ⟨⟨⟨hop, hx⟩, hp⟩, hfa⟩ := hf
      subst hop; subst hx; subst hp
      simp only [synth, bind, Except.bind, Bool.false_eq_true, ↓reduceIte] at hs ⊢
      cases hl : lookupVar g' x with
      | none => simp [hl, fail] at hs
      | some t =>
        simp only [hl] at hs
        obtain ⟨tf, l1, l2, l3⟩ := gamma_lookup hg x t hl
        simp only [l1]
        cases hpt : pathTy env t path with
        | none => simp [hpt, fail] at hs
        | some tp =>
          simp only [hpt] at hs
          obtain ⟨hgp, tpf, p1, p2⟩ := pathTy_mono env henv path tf t tp l2 l3 hpt
          simp only [p1]
          cases hsa : synth env ctx g' a' with
          | error err => simp [hsa] at hs
          | ok q =>
            obtain ⟨ta, da⟩ := q
            simp only [hsa] at hs
            obtain ⟨hd, fa, a1, a2, a3⟩ := monoE env henv ctx a a' g g' ta da hfa hg hsa
            subst hd
            cases hb : binopTy op tp ta with
            | none => simp [hb, fail] at hs
            | some tr =>
              simp only [hb] at hs
              obtain ⟨trf, b1, b2, b3⟩ := binop_mono op tpf fa tp ta tr p2 a2 hgp a3 hb
              cases hex : expect "assigned" tr tp with
              | error err => simp [hex] at hs
              | ok u =>
                simp only [hex, pure, Except.pure, Except.ok.injEq, Prod.mk.injEq] at hs
                obtain ⟨x1, x2⟩ := hs; subst x1; subst x2
                have := compat_ground_eq tr tp b3 hgp (expect_inv hex)
                subst this
                refine ⟨rfl, .unit, ?_, by simp [inst], by simp [ground]⟩
                simp [a1, b1, expect_ok (inst_compat_meet tr trf tpf b2 p2).1, pure, Except.pure]
    | _ => simp [fillsE] at hf
  | some a =>
    cases e' with
    | some a' =>
      simp only [fillsE] at hf
      simp only [synth, bind, Except.bind] at hs
      cases hsa : synth env ctx g' a' with
      | error err => simp [hsa] at hs
      | ok p =>
        obtain ⟨ta, da⟩ := p
        simp only [hsa, pure, Except.pure, Except.ok.injEq, Prod.mk.injEq] at hs
        obtain ⟨x1, x2⟩ := hs; subst x1; subst x2
        obtain ⟨hd, tf, h1, h2, h3⟩ := monoE env henv ctx a a' g g' ta da hf hg hsa
        subst hd
        exact ⟨rfl, .opt tf, by simp [synth, bind, Except.bind, h1, pure, Except.pure], by simpa [inst] using h2,
          by simpa [ground] using h3⟩
    | _ => simp [fillsE] at hf
  | fstr es =>
    cases e' with
    | fstr es' =>
      simp only [fillsE] at hf
      simp only [synth, bind, Except.bind] at hs
      cases hsl : synthList env ctx g' es' with
      | error err => simp [hsl] at hs
      | ok p =>
        obtain ⟨ts', dl⟩ := p
        simp only [hsl] at hs
        by_cases hpr : ts'.all printable = true
        · simp only [hpr, ↓reduceIte, pure, Except.pure, Except.ok.injEq, Prod.mk.injEq] at hs
          obtain ⟨x1, x2⟩ := hs; subst x1; subst x2
          obtain ⟨hd, ts, h1, h2, _⟩ := monoList env henv ctx es es' g g' ts' dl hf hg hsl
          subst hd
          have hpf := instList_printable ts ts' h2 hpr
          exact ⟨rfl, .string, by simp [synth, bind, Except.bind, h1, hpf, pure, Except.pure], by simp [inst], by simp [ground]⟩
        · simp [hpr, fail] at hs
    | _ => simp [fillsE] at hf
  | listLit es =>
    cases e' with
    | listLit es' =>
      cases es with
      | nil => cases es' <;> simp [fillsE] at hf
      | cons a r =>
        cases es' with
        | nil => simp [fillsE] at hf
        | cons a' r' =>
          have hfl : fillsL (a :: r) (a' :: r') = true := by simpa [fillsE, fillsL] using hf
          simp only [synth, bind, Except.bind] at hs
          cases hsl : synthList env ctx g' (a' :: r') with
          | error err => simp [hsl] at hs
          | ok p =>
            obtain ⟨ts', dl⟩ := p
            simp only [hsl] at hs
            obtain ⟨hd, ts, h1, h2, h3⟩ := monoList env henv ctx (a :: r) (a' :: r') g g' ts' dl hfl hg hsl
            subst hd
            cases hfc : foldCompat "element" ts' .unknown with
            | error err => simp [hfc] at hs
            | ok tr' =>
              simp only [hfc, pure, Except.pure, Except.ok.injEq, Prod.mk.injEq] at hs
              obtain ⟨x1, x2⟩ := hs; subst x1; subst x2
              have hne : ts' ≠ [] := by
                intro hnil; subst hnil
                simp only [synthList, bind, Except.bind] at hsl
                cases h0 : synth env ctx g' a' with
                | error err => simp [h0] at hsl
                | ok q =>
                  simp only [h0] at hsl
                  cases h1' : synthList env ctx g' r' with
                  | error err => simp [h1'] at hsl
                  | ok q2 => simp [h1', pure, Except.pure] at hsl
              obtain ⟨hgr, tr, f1, f2⟩ := foldCompat_mono "element" ts ts' tr' hne h2 h3 hfc
              exact ⟨rfl, .list tr, by simp [synth, bind, Except.bind, h1, f1, pure, Except.pure],
                by simpa [inst] using f2, by simpa [ground] using hgr⟩
    | _ => simp [fillsE] at hf
  | «for» x a b =>
    cases e' with
    | «for» x' a' b' =>
      simp only [fillsE, Bool.and_eq_true, beq_iff_eq] at hf
      obtain ⟨⟨hx, hfa⟩, hfb⟩ := hf
      subst hx
      simp only [synth, bind, Except.bind] at hs
      cases hsa : synth env ctx g' a' with
      | error err => simp [hsa] at hs
      | ok p =>
        obtain ⟨ta, da⟩ := p
        simp only [hsa] at hs
        obtain ⟨hd, tf, a1, a2, a3⟩ := monoE env henv ctx a a' g g' ta da hfa hg hsa
        subst hd
        -- the ground side iterates over a list
        cases ta with
        | list t =>
          simp only [pure, Except.pure] at hs
          have hgt : ground t = true := by simpa [ground] using a3
          cases hsb : synthBlock env ctx ([(x, t)] :: g') b' with
          | error err => simp [hsb] at hs
          | ok q =>
          obtain ⟨tb, db⟩ := q
          simp only [hsb] at hs
          cases heb : expect "loop-body-value" tb .unit with
          | error err => simp [heb] at hs
          | ok u2 =>
          simp only [heb, Except.ok.injEq, Prod.mk.injEq] at hs
          obtain ⟨x1, x2⟩ := hs; subst x1; subst x2
          -- the flexible side: a list of an instance, or fully flexible
          cases tf with
          | list tf' =>
            have hie : inst tf' t = true := by simpa [inst] using a2
            have hgi : gammaInst ([(x, tf')] :: g) ([(x, t)] :: g') = true := by
              simp [gammaInst, scopeInst, hie, hgt, hg]
            obtain ⟨_, fb, b1, b2, b3⟩ := monoB env henv ctx b b' _ _ tb db hfb hgi hsb
            have hu := compat_ground_eq tb .unit b3 rfl (expect_inv heb)
            subst hu
            refine ⟨rfl, .unit, ?_, by simp [inst], by simp [ground]⟩
            simp [synth, bind, Except.bind, a1, b1, expect_ok (inst_unit_compat fb b2), pure, Except.pure]
          | unknown =>
            have hie : inst Ty.unknown t = true := by simp [inst]
            have hgi : gammaInst ([(x, Ty.unknown)] :: g) ([(x, t)] :: g') = true := by
              simp [gammaInst, scopeInst, hie, hgt, hg]
            obtain ⟨_, fb, b1, b2, b3⟩ := monoB env henv ctx b b' _ _ tb db hfb hgi hsb
            have hu := compat_ground_eq tb .unit b3 rfl (expect_inv heb)
            subst hu
            refine ⟨rfl, .unit, ?_, by simp [inst], by simp [ground]⟩
            simp [synth, bind, Except.bind, a1, b1, expect_ok (inst_unit_compat fb b2), pure, Except.pure]
          | never =>
            have hie : inst Ty.unknown t = true := by simp [inst]
            have hgi : gammaInst ([(x, Ty.unknown)] :: g) ([(x, t)] :: g') = true := by
              simp [gammaInst, scopeInst, hie, hgt, hg]
            obtain ⟨_, fb, b1, b2, b3⟩ := monoB env henv ctx b b' _ _ tb db hfb hgi hsb
            have hu := compat_ground_eq tb .unit b3 rfl (expect_inv heb)
            subst hu
            refine ⟨rfl, .unit, ?_, by simp [inst], by simp [ground]⟩
            simp [synth, bind, Except.bind, a1, b1, expect_ok (inst_unit_compat fb b2), pure, Except.pure]
          | _ => simp [inst] at a2
        | unknown => simp [ground] at a3
        | never => simp [ground] at a3
        | _ => simp [fail] at hs
    | _ => simp [fillsE] at hf
  | ctor t k args =>
    cases e' with
    | ctor t' k' args' =>
      simp only [fillsE, Bool.and_eq_true, beq_iff_eq] at hf
      obtain ⟨⟨ht, hk⟩, hfa⟩ := hf
      subst ht; subst hk
      simp only [synth, bind, Except.bind] at hs ⊢
      cases hl : env.types.lookup t with
      | none => simp [hl, fail] at hs
      | some df =>
        cases df with
        | record fs => simp [hl, fail] at hs
        | enum vs =>
          simp only [hl] at hs ⊢
          cases hv : vs.lookup k with
          | none => simp [hv, fail] at hs
          | some tys =>
            simp only [hv] at hs ⊢
            have hlen : args.length = args'.length := fillsL_length args args' hfa
            by_cases hne : (args'.length != tys.length) = true
            · simp [hne, fail] at hs
            · simp only [hne, Bool.false_eq_true, ↓reduceIte] at hs
              rw [hlen]
              simp only [hne, Bool.false_eq_true, ↓reduceIte]
              have hgt : tys.all ground = true := by
                have henv' := henv
                simp only [envGround, Bool.and_eq_true] at henv'
                obtain ⟨_, hp⟩ := lookup_all henv'.2 hl
                simp only at hp
                obtain ⟨_, hq⟩ := lookup_all hp hv
                exact hq
              cases hca : checkArgs env ctx g' args' tys with
              | error err => simp [hca] at hs
              | ok d1 =>
                simp only [hca, pure, Except.pure, Except.ok.injEq, Prod.mk.injEq] at hs
                obtain ⟨x1, x2⟩ := hs; subst x1; subst x2
                obtain ⟨hd, h1⟩ := monoL env henv ctx args args' g g' tys d1 hfa hg hgt hca
                subst hd
                exact ⟨rfl, .named t, by simp [h1, pure, Except.pure], by simp [inst], by simp [ground]⟩
    | _ => simp [fillsE] at hf
  | «try» a =>
    cases e' with
    | «try» a' =>
      simp only [fillsE] at hf
      simp only [synth, bind, Except.bind] at hs
      cases hsa : synth env ctx g' a' with
      | error err => simp [hsa] at hs
      | ok p =>
        obtain ⟨ta, da⟩ := p
        simp only [hsa] at hs
        obtain ⟨hd, tf, a1, a2, a3⟩ := monoE env henv ctx a a' g g' ta da hf hg hsa
        subst hd
        cases ta with
        | opt t =>
          simp only [pure, Except.pure] at hs
          have hgt : ground t = true := by simpa [ground] using a3
          have hd' : d' = false ∧ t = tg := by
            cases hr : ctx.retTy with
            | none => simp [hr, fail] at hs
            | some rt => cases rt <;> simp_all [fail, pure, Except.pure]
          obtain ⟨hd', htg⟩ := hd'
          subst htg
          cases tf with
          | opt tf' =>
            have hie : inst tf' t = true := by simpa [inst] using a2
            refine ⟨hd', tf', ?_, hie, hgt⟩
            simp only [synth, bind, Except.bind, a1, pure, Except.pure]
            cases hr : ctx.retTy with
            | none => simp [hr, fail] at hs
            | some rt => cases rt <;> simp_all [fail, pure, Except.pure]
          | unknown =>
            have hie : inst Ty.unknown t = true := by simp [inst]
            refine ⟨hd', Ty.unknown, ?_, hie, hgt⟩
            simp only [synth, bind, Except.bind, a1, pure, Except.pure]
            cases hr : ctx.retTy with
            | none => simp [hr, fail] at hs
            | some rt => cases rt <;> simp_all [fail, pure, Except.pure]
          | never =>
            have hie : inst Ty.unknown t = true := by simp [inst]
            refine ⟨hd', Ty.unknown, ?_, hie, hgt⟩
            simp only [synth, bind, Except.bind, a1, pure, Except.pure]
            cases hr : ctx.retTy with
            | none => simp [hr, fail] at hs
            | some rt => cases rt <;> simp_all [fail, pure, Except.pure]
          | _ => simp [inst] at a2
        | unknown => simp [ground] at a3
        | never => simp [ground] at a3
        | _ => simp [fail] at hs
    | _ => simp [fillsE] at hf
  | record t fs =>
    cases e' with
    | record t' fs' =>
      simp only [fillsE, Bool.and_eq_true, beq_iff_eq] at hf
      obtain ⟨ht, hff⟩ := hf
      subst ht
      simp only [synth, bind, Except.bind] at hs ⊢
      cases hr : recordFields env t with
      | none => simp [hr, fail] at hs
      | some decl =>
        simp only [hr] at hs ⊢
        rw [fillsF_names fs fs' hff]
        cases hn : fieldNamesOk (decl.map (·.1)) (fieldNames fs') with
        | some err => simp [hn, fail] at hs
        | none =>
          simp only [hn] at hs ⊢
          have hgd : (decl.all fun f => ground f.2) = true := by
            unfold recordFields at hr
            cases hl : env.types.lookup t with
            | none => simp [hl] at hr
            | some df =>
              cases df with
              | record fs0 =>
                simp only [hl, Option.some.injEq] at hr
                subst hr
                have henv' := henv
                simp only [envGround, Bool.and_eq_true] at henv'
                obtain ⟨_, hp⟩ := lookup_all henv'.2 hl
                exact hp
              | enum vs => simp [hl] at hr
          cases hcf : checkFields env ctx g' fs' decl with
          | error err => simp [hcf] at hs
          | ok d1 =>
            simp only [hcf, pure, Except.pure, Except.ok.injEq, Prod.mk.injEq] at hs
            obtain ⟨x1, x2⟩ := hs; subst x1; subst x2
            obtain ⟨hd, h1⟩ := monoF env henv ctx fs fs' g g' decl d1 hff hg hgd hcf
            subst hd
            exact ⟨rfl, .named t, by simp [h1, pure, Except.pure], by simp [inst], by simp [ground]⟩
    | _ => simp [fillsE] at hf
  | «match» sc arms =>
    cases e' with
    | «match» sc' arms' =>
      cases arms with
      | nil => cases arms' <;> simp [fillsE] at hf
      | cons a0 ar =>
      cases arms' with
      | nil => simp [fillsE] at hf
      | cons a0' ar' =>
      simp only [fillsE, Bool.and_eq_true] at hf
      obtain ⟨hfe, hfa⟩ := hf
      simp only [synth, bind, Except.bind] at hs
      cases hse : synth env ctx g' sc' with
      | error err => simp [hse] at hs
      | ok q =>
        obtain ⟨t', de⟩ := q
        simp only [hse] at hs
        obtain ⟨hde, tf, e1, e2, e3⟩ := monoE env henv ctx sc sc' g g' t' de hfe hg hse
        subst hde
        -- the ground examinee is an enum type: its variants
        have hex : ∃ vs', variantsOf env t' = some vs' ∧
            matchHeads vs' (armHeads (a0' :: ar')) [] false = none ∧
            ∃ ts' da tr', synthArms env ctx g' (some vs') (a0' :: ar') = .ok (ts', da) ∧
              foldCompat "branches" ts' .unknown = .ok tr' ∧ tg = tr' ∧
              d' = (false || (!(a0' :: ar').isEmpty && da)) := by
          cases t' <;> simp only [ground] at e3 <;> simp only [] at hs <;>
          (first
            | (cases e3; done)
            | (cases hv : variantsOf env _ with
              | none => simp [hv, fail] at hs
              | some vs' =>
                simp only [hv] at hs
                cases hm : matchHeads vs' (armHeads (a0' :: ar')) [] false with
                | some err => simp [hm, fail] at hs
                | none =>
                  simp only [hm] at hs
                  cases hsa : synthArms env ctx g' (some vs') (a0' :: ar') with
                  | error err => simp [hsa] at hs
                  | ok q2 =>
                    obtain ⟨ts', da⟩ := q2
                    simp only [hsa] at hs
                    cases hfc : foldCompat "branches" ts' .unknown with
                    | error err => simp [hfc] at hs
                    | ok tr' =>
                      simp only [hfc, pure, Except.pure, Except.ok.injEq, Prod.mk.injEq] at hs
                      exact ⟨vs', rfl, hm, ts', da, tr', hsa, hfc, hs.1.symm, hs.2.symm⟩))
        obtain ⟨vs', hv', hmh', ts', da, tr', hsa, hfc, htg, hd'⟩ := hex
        rw [htg, hd']
        have hvgall := variantsOf_ground env henv t' e3 vs' hv'
        have hvg := lookupVariant_ground vs' hvgall
        have harity := matchHeads_arity vs' (a0' :: ar') [] false hmh'
        -- the flexible examinee: the same enum type with instances as arguments, or fully flexible
        cases t' with
        | opt u' =>
          simp only [variantsOf, Option.some.injEq] at hv'
          cases tf with
          | opt u =>
            have hvi : variantsInst [(PatName.some, [u]), (PatName.none, [])] vs' = true := by
              have hi : inst u u' = true := by simpa [inst] using e2
              have hg' : ground u' = true := by simpa [ground] using e3
              rw [← hv']
              simp [variantsInst, instList, patNameEq, hi, hg']
            obtain ⟨hda, hlen, ts, s1, s2, s3⟩ := monoA env henv ctx (a0 :: ar) (a0' :: ar') g g' (some [(PatName.some, [u]), (PatName.none, [])]) vs' ts' da hfa hg
              (by simpa [armVariantsOk] using hvi) harity hvg hsa
            have hne : ts' ≠ [] := by intro h0; rw [h0] at hlen; simp at hlen
            obtain ⟨hgr, tr, f1, f2⟩ := foldCompat_mono "branches" ts ts' tr' hne s2 s3 hfc
            have hda' := hda (by simp)
            subst hda'
            have hmh : matchHeads [(PatName.some, [u]), (PatName.none, [])] (armHeads (a0 :: ar)) [] false = none := by
              rw [matchHeads_rel _ vs' hvi, fillsA_heads _ _ hfa]; exact hmh'
            refine ⟨by simp, tr, ?_, f2, hgr⟩
            simp [synth, bind, Except.bind, e1, variantsOf, hmh, s1, f1, pure, Except.pure]
          | unknown =>
            -- nothing is known about the examinee on the flexible side: only the arms are checked
            obtain ⟨hda, hlen, ts, s1, s2, s3⟩ := monoA env henv ctx (a0 :: ar) (a0' :: ar') g g' none vs' ts' da hfa hg
              (by simp [armVariantsOk]) harity hvg hsa
            have hne : ts' ≠ [] := by intro h0; rw [h0] at hlen; simp at hlen
            obtain ⟨hgr, tr, f1, f2⟩ := foldCompat_mono "branches" ts ts' tr' hne s2 s3 hfc
            have hda' := hda (by simp)
            subst hda'
            refine ⟨by simp, tr, ?_, f2, hgr⟩
            simp [synth, bind, Except.bind, e1, s1, f1, pure, Except.pure]
          | never =>
            -- nothing is known about the examinee on the flexible side: only the arms are checked
            obtain ⟨hda, hlen, ts, s1, s2, s3⟩ := monoA env henv ctx (a0 :: ar) (a0' :: ar') g g' none vs' ts' da hfa hg
              (by simp [armVariantsOk]) harity hvg hsa
            have hne : ts' ≠ [] := by intro h0; rw [h0] at hlen; simp at hlen
            obtain ⟨hgr, tr, f1, f2⟩ := foldCompat_mono "branches" ts ts' tr' hne s2 s3 hfc
            have hda' := hda (by simp)
            subst hda'
            refine ⟨by simp, tr, ?_, f2, hgr⟩
            simp [synth, bind, Except.bind, e1, s1, f1, pure, Except.pure]
          | _ => simp [inst] at e2
        | named n =>
          cases tf with
          | named m =>
            have hnm : m = n := by simpa [inst] using e2
            subst hnm
            have hvi : variantsInst vs' vs' = true := variantsInst_self vs' hvgall
            obtain ⟨hda, hlen, ts, s1, s2, s3⟩ := monoA env henv ctx (a0 :: ar) (a0' :: ar') g g' (some vs') vs' ts' da hfa hg
              (by simpa [armVariantsOk] using hvi) harity hvg hsa
            have hne : ts' ≠ [] := by intro h0; rw [h0] at hlen; simp at hlen
            obtain ⟨hgr, tr, f1, f2⟩ := foldCompat_mono "branches" ts ts' tr' hne s2 s3 hfc
            have hda' := hda (by simp)
            subst hda'
            have hmh : matchHeads vs' (armHeads (a0 :: ar)) [] false = none := by
              rw [matchHeads_rel _ vs' hvi, fillsA_heads _ _ hfa]; exact hmh'
            refine ⟨by simp, tr, ?_, f2, hgr⟩
            simp [synth, bind, Except.bind, e1, hv', hmh, s1, f1, pure, Except.pure]
          | unknown =>
            -- nothing is known about the examinee on the flexible side: only the arms are checked
            obtain ⟨hda, hlen, ts, s1, s2, s3⟩ := monoA env henv ctx (a0 :: ar) (a0' :: ar') g g' none vs' ts' da hfa hg
              (by simp [armVariantsOk]) harity hvg hsa
            have hne : ts' ≠ [] := by intro h0; rw [h0] at hlen; simp at hlen
            obtain ⟨hgr, tr, f1, f2⟩ := foldCompat_mono "branches" ts ts' tr' hne s2 s3 hfc
            have hda' := hda (by simp)
            subst hda'
            refine ⟨by simp, tr, ?_, f2, hgr⟩
            simp [synth, bind, Except.bind, e1, s1, f1, pure, Except.pure]
          | never =>
            -- nothing is known about the examinee on the flexible side: only the arms are checked
            obtain ⟨hda, hlen, ts, s1, s2, s3⟩ := monoA env henv ctx (a0 :: ar) (a0' :: ar') g g' none vs' ts' da hfa hg
              (by simp [armVariantsOk]) harity hvg hsa
            have hne : ts' ≠ [] := by intro h0; rw [h0] at hlen; simp at hlen
            obtain ⟨hgr, tr, f1, f2⟩ := foldCompat_mono "branches" ts ts' tr' hne s2 s3 hfc
            have hda' := hda (by simp)
            subst hda'
            refine ⟨by simp, tr, ?_, f2, hgr⟩
            simp [synth, bind, Except.bind, e1, s1, f1, pure, Except.pure]
          | _ => simp [inst] at e2
        | _ => simp [variantsOf] at hv'
    | _ => simp [fillsE] at hf
  | _ => cases e' <;> simp [fillsE] at hf
termination_by sizeOf e

theorem monoL (env : Env) (henv : envGround env = true) (ctx : Ctx) (args args' : List Expr) :
    MonoL env ctx args args' := by
  intro g g' tys d' hf hg hty hs
  cases args with
  | nil =>
    cases args' with
    | nil =>
      simp only [checkArgs, pure, Except.pure, Except.ok.injEq] at hs ⊢
      exact ⟨hs.symm, by simp⟩
    | cons a' r' => simp [fillsL] at hf
  | cons a r =>
    cases args' with
    | nil => simp [fillsL] at hf
    | cons a' r' =>
      simp only [fillsL, Bool.and_eq_true] at hf
      obtain ⟨hfa, hfr⟩ := hf
      cases tys with
      | nil =>
        simp only [checkArgs, pure, Except.pure, Except.ok.injEq] at hs ⊢
        exact ⟨hs.symm, by simp⟩
      | cons t ts =>
        simp only [List.all_cons, Bool.and_eq_true] at hty
        simp only [checkArgs, bind, Except.bind] at hs ⊢
        cases hsa : synth env ctx g' a' with
        | error err => simp [hsa] at hs
        | ok q =>
          obtain ⟨ta, da⟩ := q
          simp only [hsa] at hs
          obtain ⟨hd, fa, a1, a2, a3⟩ := monoE env henv ctx a a' g g' ta da hfa hg hsa
          subst hd
          cases hex : expect "argument" ta t with
          | error err => simp [hex] at hs
          | ok u =>
            simp only [hex] at hs
            have := compat_ground_eq ta t a3 hty.1 (expect_inv hex)
            subst this
            cases hr : checkArgs env ctx g' r' ts with
            | error err => simp [hr] at hs
            | ok d2 =>
              simp only [hr, pure, Except.pure, Except.ok.injEq, Bool.false_or] at hs
              obtain ⟨hd2, h2⟩ := monoL env henv ctx r r' g g' ts d2 hfr hg hty.2 hr
              subst hd2
              refine ⟨hs.symm, ?_⟩
              simp [a1, expect_ok (inst_compat fa ta a3 a2), h2, pure, Except.pure]
termination_by sizeOf args

theorem monoList (env : Env) (henv : envGround env = true) (ctx : Ctx) (es es' : List Expr) :
    MonoList env ctx es es' := by
  intro g g' ts' d' hf hg hs
  cases es with
  | nil =>
    cases es' with
    | nil =>
      simp only [synthList, pure, Except.pure, Except.ok.injEq, Prod.mk.injEq] at hs
      obtain ⟨x1, x2⟩ := hs; subst x1; subst x2
      exact ⟨rfl, [], by simp [synthList, pure, Except.pure], by simp [instList], by simp⟩
    | cons a' r' => simp [fillsL] at hf
  | cons a r =>
    cases es' with
    | nil => simp [fillsL] at hf
    | cons a' r' =>
      simp only [fillsL, Bool.and_eq_true] at hf
      simp only [synthList, bind, Except.bind] at hs
      cases hsa : synth env ctx g' a' with
      | error err => simp [hsa] at hs
      | ok p =>
        obtain ⟨ta, da⟩ := p
        simp only [hsa] at hs
        obtain ⟨hd, fa, a1, a2, a3⟩ := monoE env henv ctx a a' g g' ta da hf.1 hg hsa
        subst hd
        cases hsr : synthList env ctx g' r' with
        | error err => simp [hsr] at hs
        | ok q =>
          obtain ⟨tr', dr⟩ := q
          simp only [hsr, pure, Except.pure, Except.ok.injEq, Prod.mk.injEq, Bool.false_or] at hs
          obtain ⟨x1, x2⟩ := hs; subst x1; subst x2
          obtain ⟨hdr, trs, r1, r2, r3⟩ := monoList env henv ctx r r' g g' tr' dr hf.2 hg hsr
          subst hdr
          refine ⟨rfl, fa :: trs, ?_, by simp [instList, a2, r2], by simp [a3, r3]⟩
          simp [synthList, bind, Except.bind, a1, r1, pure, Except.pure]
termination_by sizeOf es

theorem monoF (env : Env) (henv : envGround env = true) (ctx : Ctx) (fs fs' : List Field) :
    MonoF env ctx fs fs' := by
  intro g g' decl d' hf hg hgd hs
  cases fs with
  | nil =>
    cases fs' with
    | nil =>
      simp only [checkFields, pure, Except.pure, Except.ok.injEq] at hs ⊢
      exact ⟨hs.symm, by simp⟩
    | cons f' r' => cases f'; simp [fillsF] at hf
  | cons f r =>
    cases fs' with
    | nil => cases f; simp [fillsF] at hf
    | cons f' r' =>
      cases f with
      | mk n a =>
      cases f' with
      | mk n' a' =>
      simp only [fillsF, Bool.and_eq_true, beq_iff_eq] at hf
      obtain ⟨⟨hn, hfa⟩, hfr⟩ := hf
      subst hn
      simp only [checkFields, bind, Except.bind] at hs ⊢
      cases hsa : synth env ctx g' a' with
      | error err => simp [hsa] at hs
      | ok p =>
        obtain ⟨ta, da⟩ := p
        simp only [hsa] at hs
        obtain ⟨hd, fa, a1, a2, a3⟩ := monoE env henv ctx a a' g g' ta da hfa hg hsa
        subst hd
        simp only [a1]
        cases hl : decl.lookup n with
        | none => simp [hl, fail] at hs
        | some t =>
          simp only [hl] at hs ⊢
          obtain ⟨_, hgt⟩ := lookup_all hgd hl
          cases hex : expect "field" ta t with
          | error err => simp [hex] at hs
          | ok u =>
            simp only [hex] at hs
            have := compat_ground_eq ta t a3 hgt (expect_inv hex)
            subst this
            cases hr : checkFields env ctx g' r' decl with
            | error err => simp [hr] at hs
            | ok d2 =>
              simp only [hr, pure, Except.pure, Except.ok.injEq, Bool.false_or] at hs
              obtain ⟨hd2, h2⟩ := monoF env henv ctx r r' g g' decl d2 hfr hg hgd hr
              subst hd2
              refine ⟨hs.symm, ?_⟩
              simp [expect_ok (inst_compat fa ta a3 a2), h2, pure, Except.pure]
termination_by sizeOf fs

theorem monoArm (env : Env) (henv : envGround env = true) (ctx : Ctx) (a a' : Arm) :
    ∀ (g g' : Gamma) (tb : Ty) (db : Bool), fillsA [a] [a'] = true → gammaInst g g' = true →
      synthArm env ctx g' a' = .ok (tb, db) →
      db = false ∧ ∃ fb, synthArm env ctx g a = .ok (fb, false) ∧ inst fb tb = true ∧ ground tb = true := by
  intro g g' tb db hf hg hs
  cases a with
  | mk p gd b =>
  cases a' with
  | mk p' gd' b' =>
  cases gd with
  | none =>
    cases gd' with
    | none =>
      simp only [fillsA, Bool.and_eq_true] at hf
      simp only [synthArm] at hs ⊢
      exact monoB env henv ctx b b' g g' tb db hf.1.2 hg hs
    | some x' => simp [fillsA] at hf
  | some x =>
    cases gd' with
    | none => simp [fillsA] at hf
    | some x' =>
      simp only [fillsA, Bool.and_eq_true] at hf
      obtain ⟨⟨⟨_, hfx⟩, hfb⟩, _⟩ := hf
      simp only [synthArm, bind, Except.bind] at hs ⊢
      cases hsx : synth env ctx g' x' with
      | error err => simp [hsx] at hs
      | ok q =>
        obtain ⟨tx, dx⟩ := q
        simp only [hsx] at hs
        obtain ⟨_, fx, x1, x2, x3⟩ := monoE env henv ctx x x' g g' tx dx hfx hg hsx
        cases hex : expect "guard" tx .bool with
        | error err => simp [hex] at hs
        | ok u =>
          simp only [hex] at hs
          have hb := compat_ground_eq tx .bool x3 rfl (expect_inv hex)
          subst hb
          obtain ⟨hdb, fb, b1, b2, b3⟩ := monoB env henv ctx b b' g g' tb db hfb hg hs
          refine ⟨hdb, fb, ?_, b2, b3⟩
          simp [x1, expect_ok (inst_bool fx x2), b1]
termination_by sizeOf a

theorem monoA (env : Env) (henv : envGround env = true) (ctx : Ctx) (arms arms' : List Arm) :
    MonoA env ctx arms arms' := by
  intro g g' vsf vs' ts' da' hf hg hvs har hvg hs
  cases arms with
  | nil =>
    cases arms' with
    | nil =>
      simp only [synthArms, pure, Except.pure, Except.ok.injEq, Prod.mk.injEq] at hs
      obtain ⟨x1, x2⟩ := hs; subst x1; subst x2
      exact ⟨fun h => absurd rfl h, rfl, [], by simp [synthArms, pure, Except.pure], by simp [instList], by simp⟩
    | cons a' r' => simp [fillsA] at hf
  | cons a r =>
    cases arms' with
    | nil => cases a with | mk p gd b => cases gd <;> simp [fillsA] at hf
    | cons a' r' =>
      have hsplit : fillsA [a] [a'] = true ∧ fillsA r r' = true ∧ armPat a = armPat a' := by
        cases a with
        | mk p gd b =>
        cases a' with
        | mk p' gd' b' =>
        cases gd with
        | none =>
          cases gd' with
          | none =>
            simp only [fillsA, Bool.and_eq_true] at hf ⊢
            exact ⟨⟨hf.1, trivial⟩, hf.2, patBeq_eq p p' hf.1.1⟩
          | some x' => simp [fillsA] at hf
        | some x =>
          cases gd' with
          | none => simp [fillsA] at hf
          | some x' =>
            simp only [fillsA, Bool.and_eq_true] at hf ⊢
            exact ⟨⟨hf.1, trivial⟩, hf.2, patBeq_eq p p' hf.1.1.1⟩
      obtain ⟨hfa, hfr, hpat⟩ := hsplit
      -- the binders: ground below, instances (or fully flexible) above
      have harp : ∀ n bs, armPat a' = .variant n bs →
          ∃ tys, lookupVariant vs' n = some tys ∧ (bs.getD []).length = tys.length := by
        cases a' with
        | mk p' gd' b' => exact har.1
      have harr : ArmsArity vs' r' := by
        cases a' with
        | mk p' gd' b' => exact har.2
      have hbinds : scopeInst (armBinds vsf (armPat a)) (armBinds (some vs') (armPat a')) = true := by
        rw [hpat]
        cases hp : armPat a' with
        | wild => simp [armBinds, scopeInst]
        | variant n bs =>
          obtain ⟨tys', hl', hlen⟩ := harp n bs hp
          have hgt := hvg n tys' hl'
          simp only [armBinds, hl', Option.getD_some]
          cases vsf with
          | none => exact map_unknown_scopeInst _ tys' hlen hgt
          | some vs =>
            simp only [armVariantsOk] at hvs
            obtain ⟨tys, h1, h2, _⟩ := (lookupVariant_rel vs vs' n hvs).2 tys' hl'
            simp only [h1, Option.getD_some]
            exact zip_scopeInst _ tys tys' h2 hgt
      simp only [synthArms, bind, Except.bind] at hs ⊢
      cases hd' : declareAll ([] :: g') (armBinds (some vs') (armPat a')) with
      | none => simp [hd', fail] at hs
      | some g1' =>
        simp only [hd'] at hs
        obtain ⟨g1, d1, d2⟩ := declareAll_mono _ _ ([] :: g) ([] :: g') g1' hbinds (gamma_push hg) hd'
        simp only [d1]
        cases hsa : synthArm env ctx g1' a' with
        | error err => simp [hsa] at hs
        | ok q =>
          obtain ⟨tb, db⟩ := q
          simp only [hsa] at hs
          obtain ⟨hdb, fb, b1, b2, b3⟩ := monoArm env henv ctx a a' g1 g1' tb db hfa d2 hsa
          subst hdb
          cases hsr : synthArms env ctx g' (some vs') r' with
          | error err => simp [hsr] at hs
          | ok q2 =>
            obtain ⟨tsr, dr⟩ := q2
            simp only [hsr, pure, Except.pure, Except.ok.injEq, Prod.mk.injEq, Bool.false_and] at hs
            obtain ⟨x1, x2⟩ := hs; subst x1; subst x2
            obtain ⟨_, hlen, tsf, r1, r2, r3⟩ := monoA env henv ctx r r' g g' vsf vs' tsr dr hfr hg hvs harr hvg hsr
            refine ⟨fun _ => rfl, by simp [hlen], fb :: tsf, ?_, by simp [instList, b2, r2], by simp [b3, r3]⟩
            simp [b1, r1, pure, Except.pure]
termination_by sizeOf arms

theorem monoS (env : Env) (henv : envGround env = true) (ctx : Ctx) (ss ss' : List Stmt) : MonoS env ctx ss ss' := by
  intro g g' g1' d' hf hg hs
  cases ss with
  | nil =>
    cases ss' with
    | nil =>
      simp only [synthStmts, pure, Except.pure, Except.ok.injEq, Prod.mk.injEq] at hs
      obtain ⟨h1, h2⟩ := hs; subst h1; subst h2
      exact ⟨rfl, g, by simp [synthStmts, pure, Except.pure], hg⟩
    | cons s' r' => simp [fillsS] at hf
  | cons s r =>
    cases ss' with
    | nil => cases s <;> simp [fillsS] at hf
    | cons s' r' =>
      cases s with
      | let_ x ann e =>
        cases s' with
        | let_ x' ann' e' =>
          cases ann' with
          | none => simp [fillsS] at hf
          | some t =>
            simp only [fillsS, Bool.and_eq_true, beq_iff_eq, Bool.or_eq_true] at hf
            obtain ⟨⟨⟨hx, hann⟩, hfe⟩, hfr⟩ := hf
            subst hx
            simp only [synthStmts, bind, Except.bind] at hs
            cases hse : synth env ctx g' e' with
            | error err => simp [hse] at hs
            | ok p =>
              obtain ⟨te, de⟩ := p
              simp only [hse] at hs
              obtain ⟨hde, fe, e1, e2, e3⟩ := monoE env henv ctx e e' g g' te de hfe hg hse
              subst hde
              by_cases hwf : wfTy env t = true
              · simp only [hwf, Bool.not_true, Bool.false_eq_true, ↓reduceIte] at hs
                cases hex : expect "let-value" te t with
                | error err => simp [hex] at hs
                | ok u =>
                  simp only [hex, pure, Except.pure] at hs
                  cases hdc : declare g' x t with
                  | none => simp [hdc, fail] at hs
                  | some g2' =>
                    simp only [hdc] at hs
                    cases hsr : synthStmts env ctx g2' r' with
                    | error err => simp [hsr] at hs
                    | ok q =>
                      obtain ⟨g3', dr⟩ := q
                      simp only [hsr, Except.ok.injEq, Prod.mk.injEq] at hs
                      obtain ⟨x1, x2⟩ := hs; subst x1
                      -- the annotation is a ground type, equal to the value's type
                      have hgt : ground t = true := wfTy_ground env t hwf
                      have heq := compat_ground_eq te t e3 hgt (expect_inv hex)
                      subst heq
                      -- the flexible side: with or without the annotation
                      rcases hann with hnone | hsome
                      · subst hnone
                        obtain ⟨g2, d1, d2⟩ := gamma_declare hg x fe te e2 e3 hdc
                        obtain ⟨hdr, g3, s1, s2⟩ := monoS env henv ctx r r' g2 g2' g3' dr hfr d2 hsr
                        subst hdr
                        refine ⟨by simpa using x2.symm, g3, ?_, s2⟩
                        simp [synthStmts, bind, Except.bind, e1, pure, Except.pure, d1, s1]
                      · subst hsome
                        obtain ⟨g2, d1, d2⟩ := gamma_declare hg x te te (inst_self te e3) e3 hdc
                        obtain ⟨hdr, g3, s1, s2⟩ := monoS env henv ctx r r' g2 g2' g3' dr hfr d2 hsr
                        subst hdr
                        refine ⟨by simpa using x2.symm, g3, ?_, s2⟩
                        simp [synthStmts, bind, Except.bind, e1, hwf, expect_ok (inst_compat fe te e3 e2), pure,
                          Except.pure, d1, s1]
              · simp [hwf, fail] at hs
        | expr e' => simp [fillsS] at hf
      | expr e =>
        cases s' with
        | let_ x' ann' e' => cases ann' <;> simp [fillsS] at hf
        | expr e' =>
          simp only [fillsS, Bool.and_eq_true] at hf
          obtain ⟨hfe, hfr⟩ := hf
          simp only [synthStmts, bind, Except.bind] at hs
          cases hse : synth env ctx g' e' with
          | error err => simp [hse] at hs
          | ok p =>
            obtain ⟨te, de⟩ := p
            simp only [hse] at hs
            obtain ⟨hde, fe, e1, _, _⟩ := monoE env henv ctx e e' g g' te de hfe hg hse
            subst hde
            cases hsr : synthStmts env ctx g' r' with
            | error err => simp [hsr] at hs
            | ok q =>
              obtain ⟨g3', dr⟩ := q
              simp only [hsr, pure, Except.pure, Except.ok.injEq, Prod.mk.injEq] at hs
              obtain ⟨x1, x2⟩ := hs; subst x1
              obtain ⟨hdr, g3, s1, s2⟩ := monoS env henv ctx r r' g g' g3' dr hfr hg hsr
              subst hdr
              refine ⟨by simpa using x2.symm, g3, ?_, s2⟩
              simp [synthStmts, bind, Except.bind, e1, s1, pure, Except.pure]
termination_by sizeOf ss

theorem monoB (env : Env) (henv : envGround env = true) (ctx : Ctx) (b b' : Block) : MonoB env ctx b b' := by
  intro g g' tg d' hf hg hs
  cases b with
  | mk ss last =>
  cases b' with
  | mk ss' last' =>
  rw [synthBlock] at hs
  simp only [bind, Except.bind] at hs
  cases hss : synthStmts env ctx g' ss' with
  | error err => simp [hss] at hs
  | ok p =>
    obtain ⟨g1', d1⟩ := p
    simp only [hss] at hs
    cases last with
    | none =>
      cases last' with
      | none =>
        simp only [fillsB] at hf
        obtain ⟨hd1, g1, s1, s2⟩ := monoS env henv ctx ss ss' g g' g1' d1 hf hg hss
        subst hd1
        simp only [Bool.false_eq_true, ↓reduceIte, pure, Except.pure, Except.ok.injEq, Prod.mk.injEq] at hs
        obtain ⟨x1, x2⟩ := hs; subst x1; subst x2
        exact ⟨rfl, .unit, by simp [synthBlock, bind, Except.bind, s1, pure, Except.pure], by simp [inst], by simp [ground]⟩
      | some e' => simp [fillsB] at hf
    | some e =>
      cases last' with
      | none => simp [fillsB] at hf
      | some e' =>
        simp only [fillsB, Bool.and_eq_true] at hf
        obtain ⟨hfs, hfe⟩ := hf
        obtain ⟨hd1, g1, s1, s2⟩ := monoS env henv ctx ss ss' g g' g1' d1 hfs hg hss
        subst hd1
        simp only at hs
        cases hse : synth env ctx g1' e' with
        | error err => simp [hse] at hs
        | ok q =>
          obtain ⟨te, de⟩ := q
          simp only [hse, Bool.false_eq_true, ↓reduceIte, pure, Except.pure, Except.ok.injEq, Prod.mk.injEq,
            Bool.false_or] at hs
          obtain ⟨x1, x2⟩ := hs; subst x1; subst x2
          obtain ⟨hde, fe, e1, e2, e3⟩ := monoE env henv ctx e e' g1 g1' te de hfe s2 hse
          subst hde
          exact ⟨rfl, fe, by simp [synthBlock, bind, Except.bind, s1, e1, pure, Except.pure], e2, e3⟩
termination_by sizeOf b
end

theorem declareAll_self (env : Env) : ∀ (params : List (Nat × Ty)) (g0 g : Gamma),
    (params.all fun q => wfTy env q.2) = true → gammaInst g0 g0 = true →
    declareAll g0 params = some g → gammaInst g g = true := by
  intro params
  induction params with
  | nil => intro g0 g _ h0 hd; simp only [declareAll, Option.some.injEq] at hd; subst hd; exact h0
  | cons q rest ih =>
    intro g0 g hwf h0 hd
    obtain ⟨x, t⟩ := q
    simp only [List.all_cons, Bool.and_eq_true] at hwf
    simp only [declareAll] at hd
    cases hdc : declare g0 x t with
    | none => simp [hdc] at hd
    | some g1 =>
      simp only [hdc] at hd
      have hgt := wfTy_ground env t hwf.1
      obtain ⟨g1', h1, h2⟩ := gamma_declare h0 x t t (inst_self t hgt) hgt hdc
      rw [hdc] at h1
      injection h1 with h1; subst h1
      exact ih g1 g hwf.2 h2 hd

/-- a function whose fully annotated completion passes `D` passes `D` itself -/
theorem checkDecl_fn_mono (env : Env) (henv : envGround env = true) (p : Prog) (n : Nat) (params : List (Nat × Ty)) (rt : Ty)
    (body body' : Block) (hf : fillsB body body' = true)
    (h : checkDecl env p (.fn n params rt body') = .ok ()) :
    checkDecl env p (.fn n params rt body) = .ok () := by
  simp only [checkDecl, bind, Except.bind] at h ⊢
  by_cases hwf : (!(params.all fun q => wfTy env q.2) || !wfTy env rt) = true
  · simp [hwf, fail] at h
  · simp only [hwf, Bool.false_eq_true, ↓reduceIte] at h ⊢
    simp only [Bool.or_eq_true, Bool.not_eq_true', not_or, Bool.not_eq_false] at hwf
    cases hd : declareAll [[]] params with
    | none => simp [hd, fail] at h
    | some g =>
      simp only [hd] at h ⊢
      have hgg := declareAll_self env params [[]] g hwf.1 (by simp [gammaInst, scopeInst]) hd
      cases hs : synthBlock env { retTy := some rt } g body' with
      | error err => simp [hs] at h
      | ok q =>
        obtain ⟨tg, d'⟩ := q
        simp only [hs] at h
        obtain ⟨_, tf, h1, h2, h3⟩ := monoB env henv { retTy := some rt } body body' g g tg d' hf hgg hs
        simp only [h1]
        have hgr := wfTy_ground env rt hwf.2
        have heq := compat_ground_eq tg rt h3 hgr (expect_inv (u := ()) (by
          cases he : expect "returned" tg rt with
          | error err => simp [he] at h
          | ok u => rfl))
        subst heq
        exact expect_ok (inst_compat tf tg h3 h2)

end RotoV.Typing
