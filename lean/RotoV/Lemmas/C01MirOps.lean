/-
  C01MirOps: the scalar operators of the structured-MIR semantics
  (`LowerS.evalValue`: `binop`, `neg`, `not` — `TraceSpec.binop` on `i32` / `bool`
  values) are the GENERATED table composition: `lower_binop` (src/lir/lower.rs)
  selects the LIR instruction, the generated codegen arm (src/codegen/mod.rs) on
  CLIF semantics computes the result (T1 / T2 of `Props/C01.lean`).

  Values correspond through `cvOf`: an `i32` value `n` is the SSA value holding
  `BitVec.ofInt 32 n`, a boolean is an `i8` holding 0 / 1.
-/
import RotoV.Props.C01
import RotoV.Model.C01MirRun

namespace RotoV.C01MirOps
open RotoV RotoV.Gen RotoV.Gen.OpTables RotoV.C01MirRun RotoV.LowerS
open RotoV.TraceSpec (Val Trace)

theorem ofInt_wrap32 (z : Int) : BitVec.ofInt 32 (TraceSpec.wrap32 z) = BitVec.ofInt 32 z := by
  apply BitVec.eq_of_toNat_eq
  simp only [BitVec.toNat_ofInt, TraceSpec.wrap32]
  congr 1
  have : ((2 ^ 32 : Nat) : Int) = 4294967296 := by decide
  rw [this]
  split <;> omega

theorem wrap_wrap32 (z : Int) : wrap .Signed .I32 (TraceSpec.wrap32 z) = wrap .Signed .I32 z :=
  congrArg RInt.mk (ofInt_wrap32 z)

theorem val_wrap {n : Int} (h : inI32 n = true) : (wrap .Signed .I32 n).val = n :=
  RInt.val_ofInt_of_inRange (by decide) h

section
variable [F : FloatOps]

set_option hygiene false in
macro "opcase" g:term : tactic => `(tactic| (
  obtain ⟨i, h1, h2⟩ := C01.scalar_binop_correct dbg .Signed .I32 $g (wrap .Signed .I32 x) (wrap .Signed .I32 y) _ rfl
  refine ⟨_, i, _, rfl, h1, rfl, ?_⟩
  simp only [cvI32]
  rw [h2, hvx, hvy]
  try simp only [wrap_wrap32]))

/-- **`binop` of the MIR semantics on two `i32`s is the generated composition**: for every
    operator of the model and all operands in the `i32` range, the generated `lower_binop`
    at `Primitive.Int Signed I32` yields an instruction whose generated codegen arm, on CLIF
    semantics, computes the SSA value of what `TraceSpec.binop` (used by `LowerS.evalValue`)
    computes. -/
theorem binop_int_generated (dbg : Bool) (op : TraceSpec.BinOp) (x y : Int) (hx : inI32 x = true) (hy : inI32 y = true) :
    ∃ r i cr, TraceSpec.binop op (.int x) (.int y) = some r
      ∧ lower_binop dbg (genOp op) (.Primitive (.Int .Signed .I32)) = .ok i ∧ cvOf r = some cr
      ∧ runInstr dbg i (operands (cvI32 x) (cvI32 y)) = .ok cr := by
  have hvx := val_wrap hx
  have hvy := val_wrap hy
  cases op
  case add => opcase BinOp.Add
  case sub => opcase BinOp.Sub
  case mul => opcase BinOp.Mul
  case eq => opcase BinOp.Eq
  case ne => opcase BinOp.Ne
  case lt => opcase BinOp.Lt
  case le => opcase BinOp.Le
  case gt => opcase BinOp.Gt
  case ge => opcase BinOp.Ge

/-- … on two booleans (`==`, `!=`): `CallEq` -/
theorem binop_bool_generated (dbg : Bool) (op : TraceSpec.BinOp) (x y : Bool) (r : Val)
    (h : TraceSpec.binop op (.bool x) (.bool y) = some r) :
    ∃ i cr, lower_binop dbg (genOp op) (.Primitive .Bool) = .ok i ∧ cvOf r = some cr
      ∧ runInstr dbg i (operands (CVal.ofBool x) (CVal.ofBool y)) = .ok cr := by
  cases op <;> simp only [TraceSpec.binop, Option.some.injEq, reduceCtorEq] at h <;> subst h
  · refine ⟨_, _, rfl, rfl, ?_⟩
    cases x <;> cases y <;> cases dbg <;> rfl
  · refine ⟨_, _, rfl, rfl, ?_⟩
    cases x <;> cases y <;> cases dbg <;> rfl

/-- unary `-` of the MIR semantics is the generated `Negate` arm (`ineg`) -/
theorem neg_generated (dbg : Bool) (x : Int) (hx : inI32 x = true) :
    cg_Negate dbg (cvI32 x) = .ok (cvI32 (TraceSpec.wrap32 (-x))) := by
  have h := (C01.unary_correct dbg).1 .Signed .I32 (wrap .Signed .I32 x)
  simp only [cvI32]
  rw [h, val_wrap hx, wrap_wrap32]

omit F in
/-- `!` of the MIR semantics is the generated `Not` arm (`icmp_imm eq 0`) -/
theorem not_generated (dbg : Bool) (b : Bool) : cg_Not dbg (CVal.ofBool b) = .ok (CVal.ofBool (!b)) :=
  cg_Not_bool dbg b

end

/-! ### the executable semantics is sound for the relational one -/

theorem wrap32_inI32 (z : Int) : inI32 (TraceSpec.wrap32 z) = true := by
  simp only [inI32, RInt.inRange, RInt.minVal, RInt.maxVal, TraceSpec.wrap32, if_true, Bool.and_eq_true, decide_eq_true_eq]
  have h1 : ((2 : Int) ^ (32 - 1)) = 2147483648 := by decide
  rw [h1]
  split <;> omega

theorem decode_cvI32 {n : Int} (h : inI32 n = true) : decode (cvI32 n) = some (.int n) := by
  have hv := val_wrap h
  simp only [decode, cvI32, cvInt, CVal.ofBv, IntSize.cty]
  simp only [RInt.val, if_true] at hv
  simp only [BitVec.ofNat_toNat]
  have : BitVec.setWidth 32 (wrap .Signed .I32 n).bv = (wrap .Signed .I32 n).bv := BitVec.setWidth_eq _
  rw [this]
  exact congrArg (fun z => some (Val.int z)) hv

theorem decode_ofBool (b : Bool) : decode (CVal.ofBool b) = some (.bool b) := by
  cases b <;> rfl

section
variable [F : FloatOps]

theorem tableBinop_sound {op : TraceSpec.BinOp} {a b v : Val} (h : tableBinop op a b = some v) :
    TraceSpec.binop op a b = some v := by
  unfold tableBinop at h
  split at h
  · rename_i x y
    split at h
    · rename_i hr
      simp only [Bool.and_eq_true] at hr
      obtain ⟨r, i, cr, h1, h2, h3, h4⟩ := binop_int_generated false op x y hr.1 hr.2
      rw [h2] at h; simp only [h4] at h
      rw [h1]
      cases r with
      | int n =>
        simp only [cvOf, Option.some.injEq] at h3; subst h3
        have hn : inI32 n = true := by
          cases op <;> simp only [TraceSpec.binop, Option.some.injEq, Val.int.injEq, reduceCtorEq] at h1 <;>
            subst h1 <;> exact wrap32_inI32 _
        rw [decode_cvI32 hn] at h; exact h
      | bool c =>
        simp only [cvOf, Option.some.injEq] at h3; subst h3
        rw [decode_ofBool] at h; exact h
      | _ => simp [cvOf] at h3
    · cases h
  · rename_i x y
    cases op <;> simp only [reduceCtorEq] at h <;> try (cases h)
    · obtain ⟨i, cr, h2, h3, h4⟩ := binop_bool_generated false .eq x y _ rfl
      rw [h2] at h; simp only [h4] at h
      simp only [cvOf, Option.some.injEq] at h3; subst h3
      rw [decode_ofBool] at h; exact h
    · obtain ⟨i, cr, h2, h3, h4⟩ := binop_bool_generated false .ne x y _ rfl
      rw [h2] at h; simp only [h4] at h
      simp only [cvOf, Option.some.injEq] at h3; subst h3
      rw [decode_ofBool] at h; exact h
  · cases h

theorem tableNeg_sound {a v : Val} (h : tableNeg a = some v) :
    ∃ n, a = .int n ∧ v = .int (TraceSpec.wrap32 (-n)) := by
  unfold tableNeg at h
  split at h
  · rename_i x
    split at h
    · rename_i hr
      rw [neg_generated false x hr] at h
      simp only [decode_cvI32 (wrap32_inI32 _), Option.some.injEq] at h
      exact ⟨x, rfl, h.symm⟩
    · cases h
  · cases h

omit F in
theorem tableNot_sound {a v : Val} (h : tableNot a = some v) : ∃ b, a = .bool b ∧ v = .bool (!b) := by
  unfold tableNot at h
  split at h
  · rename_i b
    rw [not_generated false b] at h
    simp only [decode_ofBool, Option.some.injEq] at h
    exact ⟨b, rfl, h.symm⟩
  · cases h

end

section
variable [F : FloatOps]

/-- **Soundness of the executable, table-based semantics**: whatever `C01MirRun.evalV / execS /
    execC` return is an evaluation / execution of the relational semantics of structured MIR
    (`LowerS.EvalV / ExecS / ExecC`), for every program, store, code and fuel. -/
theorem exec_sound (P : Prog) : ∀ n,
    (∀ σ v t val, evalV P n σ v = some (t, val) → EvalV P σ v t val)
    ∧ (∀ σ s t o, execS P n σ s = some (t, o) → ExecS P σ s t o)
    ∧ (∀ σ c t o, execC P n σ c = some (t, o) → ExecC P σ c t o)
  | 0 => ⟨fun σ v t val h => by simp [evalV] at h, fun σ s t o h => by simp [execS] at h,
          fun σ c t o h => by simp [execC] at h⟩
  | n + 1 => by
    obtain ⟨ihV, ihS, ihC⟩ := exec_sound P n
    refine ⟨?_, ?_, ?_⟩
    · intro σ v t val h
      cases v <;> simp only [evalV, reduceCtorEq] at h
      case const c => cases h; exact .pure rfl
      case clone x => cases h; exact .pure rfl
      case move x => cases h; exact .pure rfl
      case binop l op r =>
        obtain ⟨w, hw, heq⟩ := Option.map_eq_some_iff.mp h
        cases heq
        exact .pure (by simp [evalValue, tableBinop_sound hw])
      case not x =>
        obtain ⟨w, hw, heq⟩ := Option.map_eq_some_iff.mp h
        cases heq
        obtain ⟨b, hb, rfl⟩ := tableNot_sound hw
        exact .pure (by simp [evalValue, hb])
      case neg x =>
        obtain ⟨w, hw, heq⟩ := Option.map_eq_some_iff.mp h
        cases heq
        obtain ⟨m, hm, rfl⟩ := tableNeg_sound hw
        exact .pure (by simp [evalValue, hm])
      case call f args =>
        split at h
        · rename_i params code hP
          split at h
          · rename_i cenv hb
            split at h
            · rename_i t' w hex
              cases h
              exact .call hP hb (ihC _ _ _ _ hex)
            · cases h
          · cases h
        · cases h
    · intro σ s t o h
      cases s <;> simp only [execS, reduceCtorEq] at h
      case assign x v =>
        split at h
        · rename_i t' w hv
          cases h
          exact .assign (ihV _ _ _ _ hv)
        · cases h
      case ret x => cases h; exact .ret
      case ite x k thn els =>
        split at h
        · rename_i b hb
          split at h
          · rename_i hk; subst hk
            exact .iteThen hb (ihC _ _ _ _ h)
          · rename_i hk
            have : b = !k := by cases b <;> cases k <;> simp_all
            subst this
            exact .iteElse hb (ihC _ _ _ _ h)
        · cases h
      case whl cond ex body =>
        split at h
        · rename_i t1 w hc
          cases h
          exact .whlCondRet (ihC _ _ _ _ hc)
        · rename_i t1 σ1 hc
          split at h
          · rename_i hex
            cases h
            exact .whlDone (ihC _ _ _ _ hc) hex
          · rename_i hex
            split at h
            · rename_i t2 w hb
              cases h
              exact .whlBodyRet (ihC _ _ _ _ hc) hex (ihC _ _ _ _ hb)
            · rename_i t2 σ2 hb
              split at h
              · rename_i t3 o' hw
                cases h
                exact .whlStep (ihC _ _ _ _ hc) hex (ihC _ _ _ _ hb) (ihS _ _ _ _ hw)
              · cases h
            · cases h
          · cases h
        · cases h
    · intro σ c t o h
      cases c with
      | nil => simp only [execC, Option.some.injEq, Prod.mk.injEq] at h; obtain ⟨rfl, rfl⟩ := h; exact .nil
      | cons s rest =>
        simp only [execC] at h
        split at h
        · rename_i t' w hs
          cases h
          exact .consRet (ihS _ _ _ _ hs)
        · rename_i t1 σ1 hs
          split at h
          · rename_i t2 o' hr
            cases h
            exact .cons (ihS _ _ _ _ hs) (ihC _ _ _ _ hr)
          · cases h
        · cases h

end

end RotoV.C01MirOps
