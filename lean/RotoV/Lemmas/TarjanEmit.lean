/-
  C14, lemmas about `Model/TarjanEmit`: with the generated groups emitted before
  the script items (any of the six such orders), a well-formed program whose
  script items stand in a compilation order (`progReady`) is laid out so that the
  positional condition `lirReady` of the item loop holds.
-/
import RotoV.Model.TarjanEmit
import RotoV.Lemmas.TarjanLir

namespace RotoV.Tarjan

theorem itemsReady_iff (L : List LItem) : ∀ (rest : List LItem) (i : Nat),
    itemsReady L i rest = true ↔ ∀ k (h : k < rest.length), itemReady L (i + k) rest[k] = true := by
  intro rest
  induction rest with
  | nil => intro i; simp [itemsReady]
  | cons it rest ih =>
    intro i
    simp only [itemsReady, Bool.and_eq_true, ih (i + 1)]
    constructor
    · rintro ⟨h0, hr⟩ k hk
      cases k with
      | zero => simpa using h0
      | succ k =>
        have := hr k (by simpa using hk)
        simpa [Nat.add_assoc, Nat.add_comm 1 k] using this
    · intro h
      refine ⟨h 0 (Nat.zero_lt_succ _), fun k hk => ?_⟩
      have := h (k + 1) (by simpa using hk)
      simpa [Nat.add_assoc, Nat.add_comm 1 k] using this

theorem sItemsReady_iff (p : Prog) : ∀ (rest : List SItem) (i : Nat),
    sItemsReady p i rest = true ↔ ∀ k (h : k < rest.length), sItemReady p (i + k) rest[k] = true := by
  intro rest
  induction rest with
  | nil => intro i; simp [sItemsReady]
  | cons it rest ih =>
    intro i
    simp only [sItemsReady, Bool.and_eq_true, ih (i + 1)]
    constructor
    · rintro ⟨h0, hr⟩ k hk
      cases k with
      | zero => simpa using h0
      | succ k =>
        have := hr k (by simpa using hk)
        simpa [Nat.add_assoc, Nat.add_comm 1 k] using this
    · intro h
      refine ⟨h 0 (Nat.zero_lt_succ _), fun k hk => ?_⟩
      have := h (k + 1) (by simpa using hk)
      simpa [Nat.add_assoc, Nat.add_comm 1 k] using this

/-- what emitting the generated groups first gives: the script items start at
`helperCount`, every generated group lies below, and the list is the generated
functions (in some arrangement) followed by the script items -/
structure Layout (p : Prog) (order : List EmitGroup) : Prop where
  items : offset p order .items = some p.helperCount
  helper : ∀ g, g ≠ .items → ∃ o, offset p order g = some o ∧ o + p.size g ≤ p.helperCount
  list : ∃ hs : List HItem, (∀ h, h ∈ hs → h ∈ p.clones ++ p.drops ++ p.eqs) ∧ hs.length = p.helperCount ∧
    lowerProg p order = hs.map (lowerH p order) ++ p.items.map (lowerS p order)

theorem layout_of_helpersFirst (p : Prog) (order : List EmitGroup) (h : order ∈ helperFirstOrders) :
    Layout p order := by
  simp only [helperFirstOrders, List.mem_cons, List.mem_nil_iff, or_false] at h
  rcases h with h | h | h | h | h | h <;> subst h
  all_goals
    refine ⟨?_, ?_, ?_⟩
    · simp [offset, Prog.size, Prog.helperCount] <;> omega
    · intro g hg
      cases g <;> simp [offset, Prog.size, Prog.helperCount] at hg ⊢ <;> omega
  · exact ⟨p.clones ++ p.drops ++ p.eqs, by simp, by simp [Prog.helperCount]; omega, by simp [lowerProg, lowerGroup]⟩
  · exact ⟨p.clones ++ p.eqs ++ p.drops, by intro h; simp only [List.mem_append]; rintro ((a | b) | c) <;> simp [*], by simp [Prog.helperCount]; omega, by simp [lowerProg, lowerGroup]⟩
  · exact ⟨p.drops ++ p.clones ++ p.eqs, by intro h; simp only [List.mem_append]; rintro ((a | b) | c) <;> simp [*], by simp [Prog.helperCount]; omega, by simp [lowerProg, lowerGroup]⟩
  · exact ⟨p.drops ++ p.eqs ++ p.clones, by intro h; simp only [List.mem_append]; rintro ((a | b) | c) <;> simp [*], by simp [Prog.helperCount]; omega, by simp [lowerProg, lowerGroup]⟩
  · exact ⟨p.eqs ++ p.clones ++ p.drops, by intro h; simp only [List.mem_append]; rintro ((a | b) | c) <;> simp [*], by simp [Prog.helperCount]; omega, by simp [lowerProg, lowerGroup]⟩
  · exact ⟨p.eqs ++ p.drops ++ p.clones, by intro h; simp only [List.mem_append]; rintro ((a | b) | c) <;> simp [*], by simp [Prog.helperCount]; omega, by simp [lowerProg, lowerGroup]⟩

end RotoV.Tarjan

namespace RotoV.Tarjan

theorem resolve_helper {p : Prog} {order : List EmitGroup} (lay : Layout p order) {r : EmitGroup × Nat}
    (h : helperOk p r = true) : ∃ x, resolve p order r = some x ∧ x < p.helperCount := by
  obtain ⟨g, k⟩ := r
  simp only [helperOk, Bool.and_eq_true, bne_iff_ne, ne_eq, decide_eq_true_eq] at h
  obtain ⟨o, ho, hle⟩ := lay.helper g h.1
  refine ⟨o + k, by simp [resolve, h.2, ho], by omega⟩

theorem resolve_item {p : Prog} {order : List EmitGroup} (lay : Layout p order) {j : Nat}
    (h : j < p.items.length) : resolve p order (.items, j) = some (p.helperCount + j) := by
  simp [resolve, Prog.size, h, lay.items]

end RotoV.Tarjan

namespace RotoV.Tarjan

/-- the emitted list, position by position -/
structure Emitted (p : Prog) (order : List EmitGroup) (L : List LItem) : Prop where
  len : L.length = p.helperCount + p.items.length
  /-- below `helperCount`: a generated function, referring to generated functions only -/
  low : ∀ q, q < p.helperCount → ∃ it, L[q]? = some it ∧ it.isConst = false ∧ it.consts = [] ∧
    ∀ o, o ∈ it.funcs → ∃ x, o = some x ∧ x < p.helperCount
  /-- from `helperCount` on: the script items -/
  high : ∀ j, (h : j < p.items.length) → L[p.helperCount + j]? = some (lowerS p order p.items[j])

theorem emitted_of_layout (p : Prog) (order : List EmitGroup) (lay : Layout p order)
    (hH : ∀ h, h ∈ p.clones ++ p.drops ++ p.eqs → h.refs.all (helperOk p) = true) :
    Emitted p order (lowerProg p order) := by
  obtain ⟨hs, hmem, hlen, hL⟩ := lay.list
  rw [hL]
  refine ⟨by simp [hlen], ?_, ?_⟩
  · intro q hq
    have hq' : q < hs.length := by omega
    refine ⟨lowerH p order hs[q], ?_, rfl, rfl, ?_⟩
    · rw [List.getElem?_append_left (by simpa using hq')]
      simp [hq']
    · intro o ho
      simp only [lowerH, List.mem_map] at ho
      obtain ⟨r, hr, rfl⟩ := ho
      have := hH hs[q] (hmem _ (List.getElem_mem hq'))
      rw [List.all_eq_true] at this
      exact resolve_helper lay (this r hr)
  · intro j hj
    rw [List.getElem?_append_right (by simp [hlen])]
    simp [hlen, hj]

end RotoV.Tarjan

namespace RotoV.Tarjan

section
variable {p : Prog} {order : List EmitGroup} {L : List LItem}

theorem funcs_low (em : Emitted p order L) {q : Nat} (hq : q < p.helperCount) :
    ∀ o, o ∈ lFuncs L q → ∃ x, o = some x ∧ x < p.helperCount := by
  obtain ⟨it, hit, _, _, hf⟩ := em.low q hq
  simp only [lFuncs, hit]
  exact hf

theorem funcs_high (lay : Layout p order) (em : Emitted p order L) {j : Nat} (hj : j < p.items.length)
    (hS : sItemReady p j p.items[j] = true) :
    ∀ o, o ∈ lFuncs L (p.helperCount + j) →
      ∃ x, o = some x ∧ (x < p.helperCount ∨ ∃ f, f ∈ (p.items[j]).funcs ∧ x = p.helperCount + f ∧ f < p.items.length) := by
  simp only [lFuncs, em.high j hj, lowerS, List.mem_append, List.mem_map]
  simp only [sItemReady, Bool.and_eq_true, List.all_eq_true, decide_eq_true_eq] at hS
  obtain ⟨⟨⟨hh, hf⟩, _⟩, _⟩ := hS
  rintro o (⟨r, hr, rfl⟩ | ⟨f, hfm, rfl⟩)
  · obtain ⟨x, hx, hlt⟩ := resolve_helper lay (hh r hr)
    exact ⟨x, hx, Or.inl hlt⟩
  · exact ⟨_, resolve_item lay (hf f hfm), Or.inr ⟨f, hfm, rfl, hf f hfm⟩⟩

end

end RotoV.Tarjan

namespace RotoV.Tarjan

section
variable {p : Prog} {order : List EmitGroup} {L : List LItem}

theorem getElem_of_getElem? {α} {l : List α} {k : Nat} {a : α} (hk : k < l.length) (h : l[k]? = some a) : l[k] = a := by
  rw [List.getElem?_eq_getElem hk] at h
  exact Option.some.inj h

theorem isConstAt_high (em : Emitted p order L) {c : Nat} (hc : c < p.items.length) :
    isConstAt L (p.helperCount + c) = sIsConst p c := by
  simp [isConstAt, em.high c hc, lowerS, sIsConst, hc]

theorem lirReady_of_emitted (lay : Layout p order) (em : Emitted p order L)
    (hS : ∀ j (h : j < p.items.length), sItemReady p j p.items[j] = true) : lirReady L = true := by
  have hlen := em.len
  simp only [lirReady, Bool.and_eq_true]
  refine ⟨?_, ?_⟩
  · rw [itemsReady_iff]
    intro k hk
    simp only [Nat.zero_add]
    by_cases hq : k < p.helperCount
    · obtain ⟨it, hit, hc, hcs, hf⟩ := em.low k hq
      rw [getElem_of_getElem? hk hit]
      simp only [itemReady, hc, hcs, Bool.not_false, Bool.true_or, Bool.and_true, List.all_nil, List.all_eq_true]
      intro o ho
      obtain ⟨x, rfl, _⟩ := hf o ho
      rfl
    · obtain ⟨j, rfl⟩ : ∃ j, k = p.helperCount + j := ⟨k - p.helperCount, by omega⟩
      have hj : j < p.items.length := by omega
      rw [getElem_of_getElem? hk (em.high j hj)]
      have hSj := hS j hj
      have hfun := funcs_high lay em hj hSj
      have hfun' : ∀ o, o ∈ (lowerS p order p.items[j]).funcs →
          ∃ x, o = some x ∧ (x < p.helperCount ∨ ∃ f, f ∈ (p.items[j]).funcs ∧ x = p.helperCount + f ∧ f < p.items.length) := by
        have := hfun
        simp only [lFuncs, em.high j hj] at this
        exact this
      simp only [sItemReady, Bool.and_eq_true, List.all_eq_true, decide_eq_true_eq, Bool.or_eq_true,
        Bool.not_eq_true'] at hSj
      obtain ⟨⟨⟨hh, hf⟩, hcs⟩, hconst⟩ := hSj
      simp only [itemReady, Bool.and_eq_true, List.all_eq_true, Bool.or_eq_true, Bool.not_eq_true']
      refine ⟨⟨?_, ?_⟩, ?_⟩
      · intro o ho
        obtain ⟨x, rfl, _⟩ := hfun' o ho
        rfl
      · intro o ho
        simp only [lowerS, List.mem_map] at ho
        obtain ⟨c, hc, rfl⟩ := ho
        obtain ⟨hcj, hcc⟩ := hcs c hc
        have hcn : c < p.items.length := by omega
        rw [resolve_item lay hcn]
        simp only [Bool.and_eq_true, decide_eq_true_eq]
        exact ⟨by omega, by rw [isConstAt_high em hcn]; exact hcc⟩
      · cases hic : (p.items[j]).isConst with
        | false => left; simp [lowerS, hic]
        | true =>
          right
          rcases hconst with hnc | ⟨hdrop, hpre⟩
          · rw [hic] at hnc; cases hnc
          · refine ⟨?_, ?_⟩
            · have hok : helperOk p (.drops, (p.items[j]).drop) = true := by
                simp [helperOk, Prog.size, hdrop]
              obtain ⟨x, hx, hlt⟩ := resolve_helper lay hok
              simp only [lowerS, hic, if_true, hx, optLe, decide_eq_true_eq]
              omega
            · intro q hq o ho
              rw [List.mem_range] at hq
              by_cases hql : q < p.helperCount
              · obtain ⟨x, rfl, hx⟩ := funcs_low em hql o ho
                simp only [optLe, decide_eq_true_eq]; omega
              · obtain ⟨j', rfl⟩ : ∃ j', q = p.helperCount + j' := ⟨q - p.helperCount, by omega⟩
                have hj' : j' < p.items.length := by omega
                obtain ⟨x, rfl, hx⟩ := funcs_high lay em hj' (hS j' hj') o ho
                simp only [optLe, decide_eq_true_eq]
                rcases hx with hx | ⟨f, hfm, rfl, _⟩
                · omega
                · have := hpre j' (by rw [List.mem_range]; omega) f (by simpa [sFuncs, hj'] using hfm)
                  omega
  · simp only [List.all_eq_true]
    intro q hq o ho
    rw [List.mem_range] at hq
    by_cases hql : q < p.helperCount
    · obtain ⟨x, rfl, hx⟩ := funcs_low em hql o ho
      simp only [optLt, decide_eq_true_eq]; omega
    · obtain ⟨j', rfl⟩ : ∃ j', q = p.helperCount + j' := ⟨q - p.helperCount, by omega⟩
      have hj' : j' < p.items.length := by omega
      obtain ⟨x, rfl, hx⟩ := funcs_high lay em hj' (hS j' hj') o ho
      simp only [optLt, decide_eq_true_eq]
      rcases hx with hx | ⟨f, _, rfl, hf⟩ <;> omega

end

end RotoV.Tarjan

namespace RotoV.Tarjan

theorem constPositions_append_nonconst : ∀ (A B : List LItem) (i : Nat), (∀ a, a ∈ A → a.isConst = false) →
    constPositions i (A ++ B) = constPositions (i + A.length) B := by
  intro A
  induction A with
  | nil => intro B i _; simp
  | cons a A ih =>
    intro B i h
    have ha : a.isConst = false := h a (by simp)
    simp only [List.cons_append, constPositions, ha, Bool.false_eq_true, if_false]
    rw [ih B (i + 1) (fun x hx => h x (by simp [hx]))]
    simp [Nat.add_assoc, Nat.add_comm 1]

theorem constPositions_lowerS (p : Prog) (order : List EmitGroup) (H : Nat) : ∀ (ss : List SItem) (j : Nat),
    constPositions (H + j) (ss.map (lowerS p order)) = (sConstIdx j ss).map (H + ·) := by
  intro ss
  induction ss with
  | nil => intro j; rfl
  | cons s ss ih =>
    intro j
    simp only [List.map_cons, constPositions, sConstIdx, lowerS]
    cases s.isConst <;> simp [← ih (j + 1), Nat.add_assoc]

/-- the constants of the emitted list are the script's constants, shifted by the
number of generated functions -/
theorem constPositions_lowerProg (p : Prog) (order : List EmitGroup) (lay : Layout p order) :
    constPositions 0 (lowerProg p order) = (sConstIdx 0 p.items).map (p.helperCount + ·) := by
  obtain ⟨hs, _, hlen, hL⟩ := lay.list
  rw [hL, constPositions_append_nonconst _ _ 0 (by intro a ha; simp only [List.mem_map] at ha; obtain ⟨h, _, rfl⟩ := ha; rfl)]
  simpa [hlen] using constPositions_lowerS p order p.helperCount p.items 0

theorem lirReady_of_progReady (p : Prog) (order : List EmitGroup) (ho : order ∈ helperFirstOrders)
    (h : progReady p = true) : lirReady (lowerProg p order) = true := by
  have lay := layout_of_helpersFirst p order ho
  simp only [progReady, Bool.and_eq_true, List.all_eq_true] at h
  obtain ⟨hH, hS⟩ := h
  have em := emitted_of_layout p order lay (fun h hm => by
    have := hH h hm
    simpa [List.all_eq_true] using this)
  refine lirReady_of_emitted lay em (fun j hj => ?_)
  have := (sItemsReady_iff p p.items 0).mp hS j hj
  simpa using this

end RotoV.Tarjan

/-! ## from a checked component order of the reference graph to `progReady` -/

namespace RotoV.Tarjan

theorem idxOf_split {l : List Nat} (hn : l.Nodup) {A B : List Nat} {c : Nat} (hl : l = A ++ c :: B) :
    l.idxOf c = A.length ∧ (∀ x, x ∈ A → l.idxOf x < A.length) ∧ (∀ x, x ∈ B → A.length < l.idxOf x) := by
  subst hl
  have hcA : c ∉ A := by
    intro h
    have := (List.nodup_append.1 hn).2.2 c h c (by simp)
    exact this rfl
  refine ⟨?_, ?_, ?_⟩
  · simp [List.idxOf_append, hcA]
  · intro x hx
    simp only [List.idxOf_append, hx, if_true]
    exact List.idxOf_lt_length_of_mem hx
  · intro x hx
    have hxA : x ∉ A := by
      intro h
      exact (List.nodup_append.1 hn).2.2 x h x (by simp [hx]) rfl
    have hxc : x ≠ c := by
      intro h
      subst h
      have := (List.nodup_append.1 hn).2.1
      simp only [List.nodup_cons] at this
      exact this.1 hx
    have hcx : (c == x) = false := by simp [Ne.symm hxc]
    simp only [List.idxOf_append, hxA, if_false, List.idxOf_cons, hcx, cond_false]
    omega

end RotoV.Tarjan

namespace RotoV.Tarjan

/-- a constant's component is a singleton: the item list splits around it -/
theorem items_split {g : Graph} {comps : List (List Nat)} (hc : NoConstCycle g comps) {c : Nat}
    (hci : c ∈ mirItems g comps.flatten) (hk : g.kind c = .const) :
    ∃ pre post, comps = pre ++ [c] :: post ∧
      mirItems g comps.flatten = mirItems g pre.flatten ++ c :: mirItems g post.flatten := by
  obtain ⟨hflat, hitem⟩ := mem_mirItems.1 hci
  obtain ⟨comp, hcomp, hcc⟩ := List.mem_flatten.1 hflat
  have hsingle : comp = [c] := hc.noMixed comp hcomp c hcc hk
  subst hsingle
  obtain ⟨pre, post, hsplit⟩ := List.append_of_mem hcomp
  refine ⟨pre, post, hsplit, ?_⟩
  rw [hsplit]
  simp only [List.flatten_append, List.flatten_cons, mirItems_append]
  simp [mirItems_eq, hitem]

theorem disjoint_pre {g : Graph} {comps : List (List Nat)} (h : TopoOrder g comps)
    {pre post : List (List Nat)} {c : Nat} (hs : comps = pre ++ [c] :: post) : c ∉ pre.flatten := by
  intro hin
  have hn := h.nodup
  rw [hs] at hn
  simp only [List.flatten_append, List.flatten_cons] at hn
  exact (List.nodup_append.1 hn).2.2 c hin c (by simp) rfl

end RotoV.Tarjan

namespace RotoV.Tarjan

theorem progReady_of_topo {g : Graph} {comps : List (List Nat)} (h : TopoOrder g comps)
    (hc : NoConstCycle g comps) (clones drops eqs : List HItem)
    (helpersOf : Nat → List (EmitGroup × Nat)) (dropOf : Nat → Nat)
    (hH : (clones ++ drops ++ eqs).all (fun x => x.refs.all
      (helperOk (progOfGraph g comps.flatten clones drops eqs helpersOf dropOf))) = true)
    (hS : ∀ n, (helpersOf n).all (helperOk (progOfGraph g comps.flatten clones drops eqs helpersOf dropOf)) = true
      ∧ dropOf n < drops.length) :
    progReady (progOfGraph g comps.flatten clones drops eqs helpersOf dropOf) = true := by
  have hnd : (mirItems g comps.flatten).Nodup := by
    rw [mirItems_eq]; exact h.nodup.filter _
  simp only [progReady, Bool.and_eq_true]
  refine ⟨hH, ?_⟩
  rw [sItemsReady_iff]
  intro j hj
  simp only [Nat.zero_add]
  have hlen : (progOfGraph g comps.flatten clones drops eqs helpersOf dropOf).items.length
      = (mirItems g comps.flatten).length := by simp [progOfGraph]
  have hj' : j < (mirItems g comps.flatten).length := by rw [← hlen]; exact hj
  have hget : ∀ k (hk : k < (mirItems g comps.flatten).length),
      (progOfGraph g comps.flatten clones drops eqs helpersOf dropOf).items[k]? =
        some ⟨g.kind (mirItems g comps.flatten)[k] == .const, dropOf (mirItems g comps.flatten)[k],
          helpersOf (mirItems g comps.flatten)[k],
          (funcRefs g (mirItems g comps.flatten) (mirItems g comps.flatten)[k]).map (mirItems g comps.flatten).idxOf,
          (constRefs g (mirItems g comps.flatten) (mirItems g comps.flatten)[k]).map (mirItems g comps.flatten).idxOf⟩ := by
    intro k hk
    simp [progOfGraph, hk]
  rw [getElem_of_getElem? hj (hget j hj')]
  simp only [sItemReady, Bool.and_eq_true, List.all_eq_true, decide_eq_true_eq, Bool.or_eq_true,
    Bool.not_eq_true', List.mem_map, forall_exists_index, and_imp, forall_apply_eq_imp_iff₂]
  refine ⟨⟨⟨?_, ?_⟩, ?_⟩, ?_⟩
  · have := (hS (mirItems g comps.flatten)[j]).1
    rw [List.all_eq_true] at this
    exact this
  · intro r hr
    rw [hlen]
    exact List.idxOf_lt_length_of_mem (mem_funcRefs.1 hr).2.2
  · intro c hcr
    obtain ⟨he, hk, hci⟩ := mem_constRefs.1 hcr
    obtain ⟨pre, post, hs, hitems⟩ := items_split hc hci hk
    obtain ⟨hic, hA, hB⟩ := idxOf_split hnd hitems
    have hjn : (mirItems g comps.flatten).idxOf (mirItems g comps.flatten)[j] = j := hnd.idxOf_getElem j hj'
    have hnmem : (mirItems g comps.flatten)[j] ∈ mirItems g comps.flatten := List.getElem_mem hj'
    have hlt : (mirItems g comps.flatten).idxOf c < j := by
      have hnmem2 : (mirItems g comps.flatten)[j] ∈ mirItems g pre.flatten ++ c :: mirItems g post.flatten := by
        rw [← hitems]; exact hnmem
      rw [List.mem_append, List.mem_cons] at hnmem2
      rcases hnmem2 with hn | hn | hn
      · exfalso
        have hnp : (mirItems g comps.flatten)[j] ∈ pre.flatten := (mem_mirItems.1 hn).1
        exact disjoint_pre h hs (h.pre_closed pre [c] post hs _ _ hnp he)
      · exfalso
        rw [hn] at he
        exact hc.noSelf c hk he
      · have := hB _ hn
        rw [hjn] at this
        omega
    refine ⟨hlt, ?_⟩
    have hcl : (mirItems g comps.flatten).idxOf c < (mirItems g comps.flatten).length := by omega
    simp [sIsConst, hget _ hcl, List.getElem_idxOf, hk]
  · cases hkj : g.kind (mirItems g comps.flatten)[j] == Kind.const with
    | false => left; rfl
    | true =>
      right
      have hk : g.kind (mirItems g comps.flatten)[j] = .const := by simpa using hkj
      have hnmem : (mirItems g comps.flatten)[j] ∈ mirItems g comps.flatten := List.getElem_mem hj'
      obtain ⟨pre, post, hs, hitems⟩ := items_split hc hnmem hk
      obtain ⟨hic, hA, hB⟩ := idxOf_split hnd hitems
      have hjn : (mirItems g comps.flatten).idxOf (mirItems g comps.flatten)[j] = j := hnd.idxOf_getElem j hj'
      have hjA : j = (mirItems g pre.flatten).length := by rw [← hjn]; exact hic
      refine ⟨by simpa [progOfGraph] using (hS (mirItems g comps.flatten)[j]).2, ?_⟩
      intro j2 hj2 f hf
      rw [List.mem_range] at hj2
      have hj2' : j2 < (mirItems g comps.flatten).length := by omega
      simp only [sFuncs, hget j2 hj2', List.mem_map] at hf
      obtain ⟨r, hr, rfl⟩ := hf
      obtain ⟨he, hkr, hri⟩ := mem_funcRefs.1 hr
      -- the referenced function lies in an earlier component
      have hrpre : r ∈ pre.flatten := by
        by_cases hlt : j2 < j
        · -- an item before the constant lies in `pre`
          have hmem2 : (mirItems g comps.flatten)[j2] ∈ mirItems g pre.flatten := by
            have : (mirItems g comps.flatten)[j2]? = (mirItems g pre.flatten ++ (mirItems g comps.flatten)[j] :: mirItems g post.flatten)[j2]? := by
              rw [← hitems]
            rw [List.getElem?_eq_getElem hj2', List.getElem?_append_left (by omega)] at this
            have hj2A : j2 < (mirItems g pre.flatten).length := by omega
            rw [List.getElem?_eq_getElem hj2A] at this
            rw [Option.some.inj this]
            exact List.getElem_mem hj2A
          exact h.pre_closed pre _ post hs _ _ (mem_mirItems.1 hmem2).1 he
        · have hj2j : j2 = j := by omega
          subst hj2j
          rcases h.back pre _ post hs _ (by simp) r he with hp | hp
          · exact hp
          · exfalso
            simp only [List.mem_singleton] at hp
            rw [hp, hk] at hkr
            cases hkr
      have hrA : r ∈ mirItems g pre.flatten := mem_mirItems.2 ⟨hrpre, (mem_mirItems.1 hri).2⟩
      have := hA r hrA
      omega

end RotoV.Tarjan

/-! ## the orders `helpersFirst` (T7's checker) accepts -/

namespace RotoV.Tarjan

theorem length_eq_counts (l : List EmitGroup) :
    l.length = l.count .clones + l.count .drops + l.count .eqs + l.count .items := by
  induction l with
  | nil => rfl
  | cons a l ih =>
    cases a <;> simp [ih] <;> omega

theorem count_take_add_drop (l : List EmitGroup) (k : Nat) (g : EmitGroup) :
    (l.take k).count g + (l.drop k).count g = l.count g := by
  rw [← List.count_append, List.take_append_drop]

/-- `helpersFirst` accepts exactly the six orders that put the three generated
groups, each once, before the script's items -/
theorem helpersFirst_iff (o : List EmitGroup) : helpersFirst o = true ↔ o ∈ helperFirstOrders := by
  constructor
  · intro h
    have h' := h
    unfold helpersFirst at h'
    cases hk : o.idxOf? EmitGroup.items with
    | none => simp [hk] at h'
    | some k =>
      simp only [hk, List.all_cons, List.all_nil, Bool.and_true, Bool.and_eq_true, beq_iff_eq] at h'
      obtain ⟨⟨⟨hc1, hc0⟩, ⟨hd1, hd0⟩, ⟨he1, he0⟩⟩, hi⟩ := h'
      have c1 := count_take_add_drop o k .clones
      have d1 := count_take_add_drop o k .drops
      have e1 := count_take_add_drop o k .eqs
      have hl := length_eq_counts o
      have hlen : o.length = 4 := by omega
      match o, hlen with
      | [a, b, c, d], _ =>
        revert h
        cases a <;> cases b <;> cases c <;> cases d <;> decide
  · intro h
    simp only [helperFirstOrders, List.mem_cons, List.mem_nil_iff, or_false] at h
    rcases h with h | h | h | h | h | h <;> subst h <;> decide

end RotoV.Tarjan
