/-
  C14, lemmas about `Model/TarjanEmit`: with the generated groups emitted before
  the script items (any of the six such orders), a well-formed program whose
  script items stand in a compilation order (`progReady`) is laid out so that the
  positional condition `lirReady` of the item loop holds.
-/
import RotoV.Model.TarjanEmit
import RotoV.Lemmas.TarjanLir

namespace RotoV.Tarjan

theorem itemsReady_iff (L : List LItem) : ∀ (rest : List LItem) (i : Nat),
    itemsReady L i rest = true ↔ ∀ k (h : k < rest.length), itemReady L (i + k) rest[k] = true := by
  intro rest
  induction rest with
  | nil => intro i; simp [itemsReady]
  | cons it rest ih =>
    intro i
    simp only [itemsReady, Bool.and_eq_true, ih (i + 1)]
    constructor
    · rintro ⟨h0, hr⟩ k hk
      cases k with
      | zero => simpa using h0
      | succ k =>
        have := hr k (by simpa using hk)
        simpa [Nat.add_assoc, Nat.add_comm 1 k] using this
    · intro h
      refine ⟨h 0 (Nat.zero_lt_succ _), fun k hk => ?_⟩
      have := h (k + 1) (by simpa using hk)
      simpa [Nat.add_assoc, Nat.add_comm 1 k] using this

theorem sItemsReady_iff (p : Prog) : ∀ (rest : List SItem) (i : Nat),
    sItemsReady p i rest = true ↔ ∀ k (h : k < rest.length), sItemReady p (i + k) rest[k] = true := by
  intro rest
  induction rest with
  | nil => intro i; simp [sItemsReady]
  | cons it rest ih =>
    intro i
    simp only [sItemsReady, Bool.and_eq_true, ih (i + 1)]
    constructor
    · rintro ⟨h0, hr⟩ k hk
      cases k with
      | zero => simpa using h0
      | succ k =>
        have := hr k (by simpa using hk)
        simpa [Nat.add_assoc, Nat.add_comm 1 k] using this
    · intro h
      refine ⟨h 0 (Nat.zero_lt_succ _), fun k hk => ?_⟩
      have := h (k + 1) (by simpa using hk)
      simpa [Nat.add_assoc, Nat.add_comm 1 k] using this

/-- what emitting the generated groups first gives: the script items start at
`helperCount`, every generated group lies below, and the list is the generated
functions (in some arrangement) followed by the script items -/
structure Layout (p : Prog) (order : List EmitGroup) : Prop where
  items : offset p order .items = some p.helperCount
  helper : ∀ g, g ≠ .items → ∃ o, offset p order g = some o ∧ o + p.size g ≤ p.helperCount
  list : ∃ hs : List HItem, (∀ h, h ∈ hs → h ∈ p.clones ++ p.drops ++ p.eqs) ∧ hs.length = p.helperCount ∧
    lowerProg p order = hs.map (lowerH p order) ++ p.items.map (lowerS p order)

theorem layout_of_helpersFirst (p : Prog) (order : List EmitGroup) (h : order ∈ helperFirstOrders) :
    Layout p order := by
  simp only [helperFirstOrders, List.mem_cons, List.mem_nil_iff, or_false] at h
  rcases h with h | h | h | h | h | h <;> subst h
  all_goals
    refine ⟨?_, ?_, ?_⟩
    · simp [offset, Prog.size, Prog.helperCount] <;> omega
    · intro g hg
      cases g <;> simp [offset, Prog.size, Prog.helperCount] at hg ⊢ <;> omega
  · exact ⟨p.clones ++ p.drops ++ p.eqs, by simp, by simp [Prog.helperCount]; omega, by simp [lowerProg, lowerGroup]⟩
  · exact ⟨p.clones ++ p.eqs ++ p.drops, by intro h; simp only [List.mem_append]; rintro ((a | b) | c) <;> simp [*], by simp [Prog.helperCount]; omega, by simp [lowerProg, lowerGroup]⟩
  · exact ⟨p.drops ++ p.clones ++ p.eqs, by intro h; simp only [List.mem_append]; rintro ((a | b) | c) <;> simp [*], by simp [Prog.helperCount]; omega, by simp [lowerProg, lowerGroup]⟩
  · exact ⟨p.drops ++ p.eqs ++ p.clones, by intro h; simp only [List.mem_append]; rintro ((a | b) | c) <;> simp [*], by simp [Prog.helperCount]; omega, by simp [lowerProg, lowerGroup]⟩
  · exact ⟨p.eqs ++ p.clones ++ p.drops, by intro h; simp only [List.mem_append]; rintro ((a | b) | c) <;> simp [*], by simp [Prog.helperCount]; omega, by simp [lowerProg, lowerGroup]⟩
  · exact ⟨p.eqs ++ p.drops ++ p.clones, by intro h; simp only [List.mem_append]; rintro ((a | b) | c) <;> simp [*], by simp [Prog.helperCount]; omega, by simp [lowerProg, lowerGroup]⟩

end RotoV.Tarjan

namespace RotoV.Tarjan

theorem resolve_helper {p : Prog} {order : List EmitGroup} (lay : Layout p order) {r : EmitGroup × Nat}
    (h : helperOk p r = true) : ∃ x, resolve p order r = some x ∧ x < p.helperCount := by
  obtain ⟨g, k⟩ := r
  simp only [helperOk, Bool.and_eq_true, bne_iff_ne, ne_eq, decide_eq_true_eq] at h
  obtain ⟨o, ho, hle⟩ := lay.helper g h.1
  refine ⟨o + k, by simp [resolve, h.2, ho], by omega⟩

theorem resolve_item {p : Prog} {order : List EmitGroup} (lay : Layout p order) {j : Nat}
    (h : j < p.items.length) : resolve p order (.items, j) = some (p.helperCount + j) := by
  simp [resolve, Prog.size, h, lay.items]

end RotoV.Tarjan

namespace RotoV.Tarjan

/-- the emitted list, position by position -/
structure Emitted (p : Prog) (order : List EmitGroup) (L : List LItem) : Prop where
  len : L.length = p.helperCount + p.items.length
  /-- below `helperCount`: a generated function, referring to generated functions only -/
  low : ∀ q, q < p.helperCount → ∃ it, L[q]? = some it ∧ it.isConst = false ∧ it.consts = [] ∧
    ∀ o, o ∈ it.funcs → ∃ x, o = some x ∧ x < p.helperCount
  /-- from `helperCount` on: the script items -/
  high : ∀ j, (h : j < p.items.length) → L[p.helperCount + j]? = some (lowerS p order p.items[j])

theorem emitted_of_layout (p : Prog) (order : List EmitGroup) (lay : Layout p order)
    (hH : ∀ h, h ∈ p.clones ++ p.drops ++ p.eqs → h.refs.all (helperOk p) = true) :
    Emitted p order (lowerProg p order) := by
  obtain ⟨hs, hmem, hlen, hL⟩ := lay.list
  rw [hL]
  refine ⟨by simp [hlen], ?_, ?_⟩
  · intro q hq
    have hq' : q < hs.length := by omega
    refine ⟨lowerH p order hs[q], ?_, rfl, rfl, ?_⟩
    · rw [List.getElem?_append_left (by simpa using hq')]
      simp [hq']
    · intro o ho
      simp only [lowerH, List.mem_map] at ho
      obtain ⟨r, hr, rfl⟩ := ho
      have := hH hs[q] (hmem _ (List.getElem_mem hq'))
      rw [List.all_eq_true] at this
      exact resolve_helper lay (this r hr)
  · intro j hj
    rw [List.getElem?_append_right (by simp [hlen])]
    simp [hlen, hj]

end RotoV.Tarjan

namespace RotoV.Tarjan

section
variable {p : Prog} {order : List EmitGroup} {L : List LItem}

theorem funcs_low (em : Emitted p order L) {q : Nat} (hq : q < p.helperCount) :
    ∀ o, o ∈ lFuncs L q → ∃ x, o = some x ∧ x < p.helperCount := by
  obtain ⟨it, hit, _, _, hf⟩ := em.low q hq
  simp only [lFuncs, hit]
  exact hf

theorem funcs_high (lay : Layout p order) (em : Emitted p order L) {j : Nat} (hj : j < p.items.length)
    (hS : sItemReady p j p.items[j] = true) :
    ∀ o, o ∈ lFuncs L (p.helperCount + j) →
      ∃ x, o = some x ∧ (x < p.helperCount ∨ ∃ f, f ∈ (p.items[j]).funcs ∧ x = p.helperCount + f ∧ f < p.items.length) := by
  simp only [lFuncs, em.high j hj, lowerS, List.mem_append, List.mem_map]
  simp only [sItemReady, Bool.and_eq_true, List.all_eq_true, decide_eq_true_eq] at hS
  obtain ⟨⟨⟨hh, hf⟩, _⟩, _⟩ := hS
  rintro o (⟨r, hr, rfl⟩ | ⟨f, hfm, rfl⟩)
  · obtain ⟨x, hx, hlt⟩ := resolve_helper lay (hh r hr)
    exact ⟨x, hx, Or.inl hlt⟩
  · exact ⟨_, resolve_item lay (hf f hfm), Or.inr ⟨f, hfm, rfl, hf f hfm⟩⟩

end

end RotoV.Tarjan

namespace RotoV.Tarjan

section
variable {p : Prog} {order : List EmitGroup} {L : List LItem}

theorem getElem_of_getElem? {α} {l : List α} {k : Nat} {a : α} (hk : k < l.length) (h : l[k]? = some a) : l[k] = a := by
  rw [List.getElem?_eq_getElem hk] at h
  exact Option.some.inj h

theorem isConstAt_high (em : Emitted p order L) {c : Nat} (hc : c < p.items.length) :
    isConstAt L (p.helperCount + c) = sIsConst p c := by
  simp [isConstAt, em.high c hc, lowerS, sIsConst, hc]

theorem lirReady_of_emitted (lay : Layout p order) (em : Emitted p order L)
    (hS : ∀ j (h : j < p.items.length), sItemReady p j p.items[j] = true) : lirReady L = true := by
  have hlen := em.len
  simp only [lirReady, Bool.and_eq_true]
  refine ⟨?_, ?_⟩
  · rw [itemsReady_iff]
    intro k hk
    simp only [Nat.zero_add]
    by_cases hq : k < p.helperCount
    · obtain ⟨it, hit, hc, hcs, hf⟩ := em.low k hq
      rw [getElem_of_getElem? hk hit]
      simp only [itemReady, hc, hcs, Bool.not_false, Bool.true_or, Bool.and_true, List.all_nil, List.all_eq_true]
      intro o ho
      obtain ⟨x, rfl, _⟩ := hf o ho
      rfl
    · obtain ⟨j, rfl⟩ : ∃ j, k = p.helperCount + j := ⟨k - p.helperCount, by omega⟩
      have hj : j < p.items.length := by omega
      rw [getElem_of_getElem? hk (em.high j hj)]
      have hSj := hS j hj
      have hfun := funcs_high lay em hj hSj
      have hfun' : ∀ o, o ∈ (lowerS p order p.items[j]).funcs →
          ∃ x, o = some x ∧ (x < p.helperCount ∨ ∃ f, f ∈ (p.items[j]).funcs ∧ x = p.helperCount + f ∧ f < p.items.length) := by
        have := hfun
        simp only [lFuncs, em.high j hj] at this
        exact this
      simp only [sItemReady, Bool.and_eq_true, List.all_eq_true, decide_eq_true_eq, Bool.or_eq_true,
        Bool.not_eq_true'] at hSj
      obtain ⟨⟨⟨hh, hf⟩, hcs⟩, hconst⟩ := hSj
      simp only [itemReady, Bool.and_eq_true, List.all_eq_true, Bool.or_eq_true, Bool.not_eq_true']
      refine ⟨⟨?_, ?_⟩, ?_⟩
      · intro o ho
        obtain ⟨x, rfl, _⟩ := hfun' o ho
        rfl
      · intro o ho
        simp only [lowerS, List.mem_map] at ho
        obtain ⟨c, hc, rfl⟩ := ho
        obtain ⟨hcj, hcc⟩ := hcs c hc
        have hcn : c < p.items.length := by omega
        rw [resolve_item lay hcn]
        simp only [Bool.and_eq_true, decide_eq_true_eq]
        exact ⟨by omega, by rw [isConstAt_high em hcn]; exact hcc⟩
      · cases hic : (p.items[j]).isConst with
        | false => left; simp [lowerS, hic]
        | true =>
          right
          rcases hconst with hnc | ⟨hdrop, hpre⟩
          · rw [hic] at hnc; cases hnc
          · refine ⟨?_, ?_⟩
            · have hok : helperOk p (.drops, (p.items[j]).drop) = true := by
                simp [helperOk, Prog.size, hdrop]
              obtain ⟨x, hx, hlt⟩ := resolve_helper lay hok
              simp only [lowerS, hic, if_true, hx, optLe, decide_eq_true_eq]
              omega
            · intro q hq o ho
              rw [List.mem_range] at hq
              by_cases hql : q < p.helperCount
              · obtain ⟨x, rfl, hx⟩ := funcs_low em hql o ho
                simp only [optLe, decide_eq_true_eq]; omega
              · obtain ⟨j', rfl⟩ : ∃ j', q = p.helperCount + j' := ⟨q - p.helperCount, by omega⟩
                have hj' : j' < p.items.length := by omega
                obtain ⟨x, rfl, hx⟩ := funcs_high lay em hj' (hS j' hj') o ho
                simp only [optLe, decide_eq_true_eq]
                rcases hx with hx | ⟨f, hfm, rfl, _⟩
                · omega
                · have := hpre j' (by rw [List.mem_range]; omega) f (by simpa [sFuncs, hj'] using hfm)
                  omega
  · simp only [List.all_eq_true]
    intro q hq o ho
    rw [List.mem_range] at hq
    by_cases hql : q < p.helperCount
    · obtain ⟨x, rfl, hx⟩ := funcs_low em hql o ho
      simp only [optLt, decide_eq_true_eq]; omega
    · obtain ⟨j', rfl⟩ : ∃ j', q = p.helperCount + j' := ⟨q - p.helperCount, by omega⟩
      have hj' : j' < p.items.length := by omega
      obtain ⟨x, rfl, hx⟩ := funcs_high lay em hj' (hS j' hj') o ho
      simp only [optLt, decide_eq_true_eq]
      rcases hx with hx | ⟨f, _, rfl, hf⟩ <;> omega

end

end RotoV.Tarjan

namespace RotoV.Tarjan

theorem constPositions_append_nonconst : ∀ (A B : List LItem) (i : Nat), (∀ a, a ∈ A → a.isConst = false) →
    constPositions i (A ++ B) = constPositions (i + A.length) B := by
  intro A
  induction A with
  | nil => intro B i _; simp
  | cons a A ih =>
    intro B i h
    have ha : a.isConst = false := h a (by simp)
    simp only [List.cons_append, constPositions, ha, Bool.false_eq_true, if_false]
    rw [ih B (i + 1) (fun x hx => h x (by simp [hx]))]
    simp [Nat.add_assoc, Nat.add_comm 1]

theorem constPositions_lowerS (p : Prog) (order : List EmitGroup) (H : Nat) : ∀ (ss : List SItem) (j : Nat),
    constPositions (H + j) (ss.map (lowerS p order)) = (sConstIdx j ss).map (H + ·) := by
  intro ss
  induction ss with
  | nil => intro j; rfl
  | cons s ss ih =>
    intro j
    simp only [List.map_cons, constPositions, sConstIdx, lowerS]
    cases s.isConst <;> simp [← ih (j + 1), Nat.add_assoc]

/-- the constants of the emitted list are the script's constants, shifted by the
number of generated functions -/
theorem constPositions_lowerProg (p : Prog) (order : List EmitGroup) (lay : Layout p order) :
    constPositions 0 (lowerProg p order) = (sConstIdx 0 p.items).map (p.helperCount + ·) := by
  obtain ⟨hs, _, hlen, hL⟩ := lay.list
  rw [hL, constPositions_append_nonconst _ _ 0 (by intro a ha; simp only [List.mem_map] at ha; obtain ⟨h, _, rfl⟩ := ha; rfl)]
  simpa [hlen] using constPositions_lowerS p order p.helperCount p.items 0

theorem lirReady_of_progReady (p : Prog) (order : List EmitGroup) (ho : order ∈ helperFirstOrders)
    (h : progReady p = true) : lirReady (lowerProg p order) = true := by
  have lay := layout_of_helpersFirst p order ho
  simp only [progReady, Bool.and_eq_true, List.all_eq_true] at h
  obtain ⟨hH, hS⟩ := h
  have em := emitted_of_layout p order lay (fun h hm => by
    have := hH h hm
    simpa [List.all_eq_true] using this)
  refine lirReady_of_emitted lay em (fun j hj => ?_)
  have := (sItemsReady_iff p p.items 0).mp hS j hj
  simpa using this

end RotoV.Tarjan
