/-
  Lemmas about the identifier scan (`Model/IdentScan`): the documented rule
  `docScan` returns exactly the maximal `(XID_Start | _) XID_Continue*` prefix.
  No assumption on the two predicates.
-/
import RotoV.Model.IdentScan

namespace RotoV.IdentScan

theorem dropWhile_head_false {α} (p : α → Bool) :
    ∀ (l : List α) (d : α) (r : List α), l.dropWhile p = d :: r → p d = false
  | [], _, _, h => by simp at h
  | a :: l, d, r, h => by
    by_cases ha : p a = true
    · rw [List.dropWhile_cons_of_pos ha] at h
      exact dropWhile_head_false p l d r h
    · rw [List.dropWhile_cons_of_neg ha] at h
      cases h
      simpa using ha

theorem mem_takeWhile_true {α} (p : α → Bool) :
    ∀ (l : List α) (d : α), d ∈ l.takeWhile p → p d = true
  | [], _, h => by simp at h
  | a :: l, d, h => by
    by_cases ha : p a = true
    · rw [List.takeWhile_cons_of_pos ha] at h
      rcases List.mem_cons.1 h with rfl | h
      · exact ha
      · exact mem_takeWhile_true p l d h
    · rw [List.takeWhile_cons_of_neg ha] at h
      simp at h

theorem takeWhile_dropWhile_append {α} (p : α → Bool) :
    ∀ (t r : List α), (∀ d ∈ t, p d = true) → (∀ d r', r = d :: r' → p d = false) →
      (t ++ r).takeWhile p = t ∧ (t ++ r).dropWhile p = r
  | [], r, _, hr => by
    cases r with
    | nil => simp
    | cons d r' =>
      have := hr d r' rfl
      simp [this]
  | a :: t, r, ht, hr => by
    have ha : p a = true := ht a (by simp)
    have ih := takeWhile_dropWhile_append p t r (fun d hd => ht d (by simp [hd])) hr
    simp [ha, ih.1, ih.2]

theorem length_le_takeWhile_append {α} (p : α → Bool) :
    ∀ (a b : List α), (∀ d ∈ a, p d = true) → a.length ≤ ((a ++ b).takeWhile p).length
  | [], _, _ => by simp
  | x :: a, b, h => by
    have hx : p x = true := h x (by simp)
    have ih := length_le_takeWhile_append p a b (fun d hd => h d (by simp [hd]))
    simp [hx]
    exact ih

theorem startCond_iff (xs : Char → Bool) (c : Char) :
    (xs c || c == '_') = true ↔ (xs c = true ∨ c = '_') := by
  simp [Bool.or_eq_true]

/-- the documented scan returns `(w, r)` iff `w` is a documented word, `r` does
    not continue it, and together they are the input -/
theorem docScan_spec (xs xc : Char → Bool) (inp w r : List Char) :
    docScan xs xc inp = some (w, r) ↔
      inp = w ++ r ∧ IsIdentWord xs xc w ∧ EndsWord xc r := by
  constructor
  · intro h
    cases inp with
    | nil => simp [docScan] at h
    | cons c t =>
      by_cases hc : (xs c || c == '_') = true
      · simp only [docScan, hc, if_true, Option.some.injEq, Prod.mk.injEq] at h
        obtain ⟨rfl, rfl⟩ := h
        refine ⟨by simp [List.takeWhile_append_dropWhile], ⟨c, _, rfl, (startCond_iff xs c).1 hc, ?_⟩, ?_⟩
        · intro d hd
          exact mem_takeWhile_true xc t d hd
        · intro d r' hr
          exact dropWhile_head_false xc t d r' hr
      · simp [docScan, hc] at h
  · rintro ⟨rfl, ⟨c, t, rfl, hc, ht⟩, hr⟩
    have := takeWhile_dropWhile_append xc t r ht hr
    simp only [List.cons_append, docScan, (startCond_iff xs c).2 hc, if_true, this.1, this.2]

theorem docScan_none (xs xc : Char → Bool) (inp : List Char) :
    docScan xs xc inp = none ↔ ∀ w r, inp = w ++ r → ¬ IsIdentWord xs xc w := by
  constructor
  · intro h w r hw ⟨c, t, hct, hc, _⟩
    subst hw; subst hct
    simp [docScan, (startCond_iff xs c).2 hc] at h
  · intro h
    cases hs : docScan xs xc inp with
    | none => rfl
    | some wr =>
      obtain ⟨w, r⟩ := wr
      have := (docScan_spec xs xc inp w r).1 hs
      exact absurd this.2.1 (h w r this.1)

theorem docScan_longest (xs xc : Char → Bool) (inp w r w' r' : List Char)
    (h : docScan xs xc inp = some (w, r)) (hsplit : inp = w' ++ r')
    (hw' : IsIdentWord xs xc w') : w'.length ≤ w.length := by
  obtain ⟨c, t, rfl, hc, ht⟩ := hw'
  subst hsplit
  simp only [List.cons_append, docScan, (startCond_iff xs c).2 hc, if_true,
    Option.some.injEq, Prod.mk.injEq] at h
  obtain ⟨rfl, _⟩ := h
  have := length_le_takeWhile_append xc t r' ht
  simp only [List.length_cons]
  omega

end RotoV.IdentScan
