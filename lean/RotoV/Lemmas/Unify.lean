/-
  Lemmas about the unification model (`Model/Unify.lean`): binding a variable
  after a negative occurs check keeps the union-find store acyclic, lookups in
  an acyclic store terminate.
-/
import RotoV.Model.Unify

namespace RotoV.Unify
open RotoV.Gen.UnifyFacts

/-! ## obligations on the GENERATED facts -/

/-- specification: the variable a type IS (if any) -/
def head : Ty → Option Nat
  | .var x => some x
  | .intVar x _ => some x
  | .floatVar x => some x
  | .recordVar x _ _ => some x
  | _ => none

/-- `UnionFind::find_ref` follows exactly the four kinds of variable -/
theorem findRefHead_eq : ∀ t, findRefHead t = head t := by
  intro t; cases t <;> rfl

/-- `UnionFind::find` follows exactly the four kinds of variable -/
theorem findHead_eq : ∀ t, findHead t = head t := by
  intro t; cases t <;> rfl

/-- `resolve_type` looks up exactly the four kinds of variable -/
theorem resolveHead_eq : ∀ t, resolveHead t = head t := by
  intro t; cases t <;> rfl

/-- what lies below a resolved type: nothing below an unset plain variable,
the fields of an unset record variable, every variable of any other type -/
def below : Ty → List Nat
  | .var _ => []
  | .intVar _ _ => []
  | .floatVar _ => []
  | .recordVar _ _ ts => subVarsL ts
  | t => subVars t

theorem subVarsL_append (as bs : List Ty) : subVarsL (as ++ bs) = subVarsL as ++ subVarsL bs := by
  induction as with
  | nil => simp [subVarsL]
  | cons a as ih => simp [subVarsL, ih]

/-- the occurs check searches everything below the resolved type: the arm of
every constructor compares the variable it is, or descends into ALL children
that contain variables. -/
theorem occursArm_complete (t : Ty) :
    match occursArm t with
    | .isVar x => head t = some x ∧ below t = []
    | .varOr x cs => head t = some x ∧ below t = subVarsL cs
    | .children cs => head t = none ∧ below t = subVarsL cs
    | .no => head t = none ∧ below t = [] := by
  cases t <;> simp [occursArm, head, below, subVars, subVarsL, subVarsL_append]

/-- a table of guards under which binding is safe: every `unionfind.set(v, t)`
with a compound `t` comes after `if self.occurs(v, &t) { return None; }` -/
def GuardsOk (G : SetArm → Guard) : Prop :=
  G .varLeft = .occursCheck ∧ G .varRight = .occursCheck ∧
  G .recRec = .occursCheck ∧ G .recRecord = .occursCheck ∧
  G .recordRec = .occursCheck ∧ G .recName = .occursCheck

/-- obligation on the GENERATED table of `unify_inner` -/
theorem guards_ok : GuardsOk setGuard := ⟨rfl, rfl, rfl, rfl, rfl, rfl⟩

/-! ## the graph -/

theorem Reach.trans {σ : Store} {i j k : Nat} (h1 : Reach σ i j) (h2 : Reach σ j k) : Reach σ i k := by
  induction h1 with
  | refl _ => exact h2
  | step e _ ih => exact Reach.step e (ih h2)

theorem Reach.single {σ : Store} {i j : Nat} (h : Edge σ i j) : Reach σ i j :=
  Reach.step h (Reach.refl _)

theorem Reach.head {σ : Store} {i k : Nat} (h : Reach σ i k) :
    i = k ∨ ∃ j, Edge σ i j ∧ Reach σ j k := by
  cases h with
  | refl _ => exact Or.inl rfl
  | step e r => exact Or.inr ⟨_, e, r⟩

theorem out_of_head_ne {i j : Nat} {e : Ty} (h : head e = some j) (hne : j ≠ i) : out i e = [j] := by
  cases e <;> simp [head] at h <;> subst h <;> simp [out, hne]

theorem out_of_head_self {i : Nat} {e : Ty} (h : head e = some i) : out i e = below e := by
  cases e <;> simp [head] at h <;> subst h <;> simp [out, below]

theorem out_of_head_none {i : Nat} {e : Ty} (h : head e = none) : out i e = below e := by
  cases e <;> simp [head] at h <;> simp [out, below]

theorem subVars_of_head {t : Ty} {x : Nat} (h : head t = some x) : subVars t = [x] := by
  cases t <;> simp [head] at h <;> subst h <;> simp [subVars]

theorem subVars_of_head_none {t : Ty} (h : head t = none) : subVars t = below t := by
  cases t <;> simp [head] at h <;> simp [below]

theorem edge_set_ne {σ : Store} {i k j : Nat} {e : Ty} (h : k ≠ i) :
    Edge (σ.set i e) k j ↔ Edge σ k j := by
  unfold Edge
  rw [List.getElem?_set_ne (Ne.symm h)]

theorem edge_set_self {σ : Store} {i j : Nat} {e : Ty} (h : Edge (σ.set i e) i j) : j ∈ out i e := by
  obtain ⟨e', he, hj⟩ := h
  rw [List.getElem?_set_self'] at he
  cases hσ : σ[i]? with
  | none => simp [hσ] at he
  | some e0 => simp [hσ] at he; subst he; exact hj

/-- KEY LEMMA: overwriting entry `i` by a type from whose variables `i` cannot
be reached keeps the store acyclic. -/
theorem set_acyclic {σ : Store} {i : Nat} {e : Ty} (hσ : Acyclic σ)
    (h : ∀ v ∈ out i e, ¬ Reach σ v i) : Acyclic (σ.set i e) := by
  have s1 : ∀ x, Acc (fun j i => Edge σ i j) x → ¬ Reach σ x i →
      Acc (fun j k => Edge (σ.set i e) k j) x := by
    intro x hx
    induction hx with
    | intro x _ ih =>
      intro hnr
      constructor
      intro y hy
      have hxi : x ≠ i := fun h => hnr (h ▸ Reach.refl _)
      have hy' : Edge σ x y := (edge_set_ne hxi).1 hy
      exact ih y hy' (fun hr => hnr (Reach.step hy' hr))
  have s2 : Acc (fun j k => Edge (σ.set i e) k j) i :=
    ⟨_, fun y hy => s1 y (hσ.apply y) (h y (edge_set_self hy))⟩
  constructor
  intro x
  induction hσ.apply x with
  | intro x _ ih =>
    by_cases hx : x = i
    · subst hx; exact s2
    · constructor
      intro y hy
      exact ih y ((edge_set_ne hx).1 hy)

/-! ## lookups -/

/-- what `find_ref` returns sits at an index reachable from the start, and is
either an unset variable (pointing to that very index) or not a variable -/
theorem findRef_spec : ∀ (f : Nat) (σ : Store) (i : Nat) (t : Ty), findRef f σ i = some t →
    ∃ r, Reach σ i r ∧ σ[r]? = some t ∧ (head t = some r ∨ head t = none) := by
  intro f
  induction f with
  | zero => intro σ i t h; simp [findRef] at h
  | succ f ih =>
    intro σ i t h
    unfold findRef at h
    split at h
    · simp at h
    · rename_i e he
      rw [findRefHead_eq] at h
      split at h
      · rename_i j hj
        split at h
        · rename_i hji
          simp at h; subst h; subst hji
          exact ⟨j, Reach.refl _, he, Or.inl hj⟩
        · rename_i hji
          obtain ⟨r, hr, hs, hh⟩ := ih σ j t h
          refine ⟨r, Reach.step ⟨e, he, ?_⟩ hr, hs, hh⟩
          rw [out_of_head_ne hj hji]; simp
      · rename_i hn
        simp at h; subst h
        exact ⟨i, Reach.refl _, he, Or.inr hn⟩

/-- IsRoot, in terms of `head` -/
theorem isRoot_iff {σ : Store} {v : Nat} : IsRoot σ v ↔ ∃ e, σ[v]? = some e ∧ head e = some v := by
  unfold IsRoot
  constructor <;> rintro ⟨e, h1, h2⟩ <;> exact ⟨e, h1, by simpa [findRefHead_eq] using h2⟩

/-- if an UNSET variable `var` can be reached from `i`, it is reached from
what `find_ref i` returns: it is that variable, or lies below it -/
theorem findRef_reach : ∀ (f : Nat) (σ : Store) (i var : Nat) (t : Ty), IsRoot σ var →
    findRef f σ i = some t → Reach σ i var →
    (head t = some var) ∨ ∃ w ∈ below t, Reach σ w var := by
  intro f
  induction f with
  | zero => intro σ i var t _ h; simp [findRef] at h
  | succ f ih =>
    intro σ i var t hroot h hreach
    obtain ⟨ev, hev, hhv⟩ := isRoot_iff.1 hroot
    unfold findRef at h
    split at h
    · simp at h
    · rename_i e he
      rw [findRefHead_eq] at h
      split at h
      · rename_i j hj
        split at h
        · rename_i hji
          simp at h; subst h; subst hji
          rcases hreach.head with heq | ⟨w, ⟨e', he', hw⟩, hr⟩
          · subst heq; exact Or.inl hj
          · rw [he] at he'; simp at he'; subst he'
            rw [out_of_head_self hj] at hw
            exact Or.inr ⟨w, hw, hr⟩
        · rename_i hji
          rcases hreach.head with heq | ⟨w, ⟨e', he', hw⟩, hr⟩
          · subst heq
            rw [he] at hev; simp at hev; subst hev
            rw [hj] at hhv; simp at hhv; exact absurd hhv hji
          · rw [he] at he'; simp at he'; subst he'
            rw [out_of_head_ne hj hji] at hw; simp at hw; rw [hw] at hr
            exact ih σ j var t hroot h hr
      · rename_i hn
        simp at h; subst h
        rcases hreach.head with heq | ⟨w, ⟨e', he', hw⟩, hr⟩
        · subst heq
          rw [he] at hev; simp at hev; subst hev
          rw [hn] at hhv; simp at hhv
        · rw [he] at he'; simp at he'; subst he'
          rw [out_of_head_none hn] at hw
          exact Or.inr ⟨w, hw, hr⟩

/-- a resolved type that is a variable is an unset one -/
theorem resolved_root {f : Nat} {σ : Store} {t0 t : Ty} {x : Nat}
    (h : resolveType f σ t0 = some t) (hx : head t = some x) : σ[x]? = some t := by
  unfold resolveType at h
  rw [resolveHead_eq] at h
  split at h
  · obtain ⟨r, _, hs, hh⟩ := findRef_spec _ _ _ _ h
    rcases hh with hh | hh
    · rw [hx] at hh; simp at hh; subst hh; exact hs
    · rw [hx] at hh; simp at hh
  · rename_i hn
    simp at h; subst h
    rw [hx] at hn; simp at hn

theorem resolved_isRoot {f : Nat} {σ : Store} {t0 t : Ty} {x : Nat}
    (h : resolveType f σ t0 = some t) (hx : head t = some x) : IsRoot σ x :=
  isRoot_iff.2 ⟨t, resolved_root h hx, hx⟩

/-! ## the occurs check is sound -/

/-- if `occurs(var, t)` answers `false` for an unset `var`, then `var` cannot
be reached from any variable of `t` -/
theorem occurs_sound : ∀ (f : Nat),
    (∀ (σ : Store) (var : Nat) (t : Ty), IsRoot σ var → occurs f σ var t = some false →
      ∀ v ∈ subVars t, ¬ Reach σ v var) ∧
    (∀ (σ : Store) (var : Nat) (ts : List Ty), IsRoot σ var → occursAny f σ var ts = some false →
      ∀ v ∈ subVarsL ts, ¬ Reach σ v var) := by
  intro f
  induction f with
  | zero => constructor <;> intro σ var t _ h <;> simp [occurs, occursAny] at h
  | succ f ih =>
    obtain ⟨ih1, ih2⟩ := ih
    constructor
    · intro σ var t hroot h
      unfold occurs at h
      split at h
      · simp at h
      · rename_i t' hres
        -- what the arm tells about the resolved type
        have arm : (∀ y, head t' = some y → y ≠ var) ∧ ∀ w ∈ below t', ¬ Reach σ w var := by
          have hc := occursArm_complete t'
          split at h
          · rename_i x hx
            rw [hx] at hc; simp at hc
            simp at h
            refine ⟨fun y hy => ?_, by simp [hc.2]⟩
            rw [hc.1] at hy; simp at hy; subst hy; exact h
          · rename_i x cs hx
            rw [hx] at hc; simp at hc
            split at h
            · simp at h
            · rename_i hxv
              refine ⟨fun y hy => ?_, ?_⟩
              · rw [hc.1] at hy; simp at hy; subst hy; simpa using hxv
              · rw [hc.2]; exact ih2 σ var cs hroot h
          · rename_i cs hx
            rw [hx] at hc; simp at hc
            refine ⟨fun y hy => ?_, ?_⟩
            · rw [hc.1] at hy; simp at hy
            · rw [hc.2]; exact ih2 σ var cs hroot h
          · rename_i hx
            rw [hx] at hc; simp at hc
            refine ⟨fun y hy => ?_, by simp [hc.2]⟩
            rw [hc.1] at hy; simp at hy
        intro v hv hreach
        unfold resolveType at hres
        rw [resolveHead_eq] at hres
        split at hres
        · rename_i x hx
          rw [subVars_of_head hx] at hv; simp at hv; subst hv
          rcases findRef_reach _ _ _ _ _ hroot hres hreach with hh | ⟨w, hw, hr⟩
          · exact arm.1 _ hh rfl
          · exact arm.2 w hw hr
        · rename_i hn
          simp at hres; subst hres
          rw [subVars_of_head_none hn] at hv
          exact arm.2 v hv hreach
    · intro σ var ts hroot h
      cases ts with
      | nil => intro v hv; simp [subVarsL] at hv
      | cons t ts =>
        unfold occursAny at h
        split at h
        · simp at h
        · simp at h
        · rename_i h1
          intro v hv
          simp [subVarsL] at hv
          rcases hv with hv | hv
          · exact ih1 σ var t hroot h1 v hv
          · exact ih2 σ var ts hroot h v hv

/-! ## binding a variable -/

theorem root_plain_reach {σ : Store} {x y : Nat} {e : Ty} (he : σ[x]? = some e) (ho : out x e = [])
    (h : Reach σ x y) : x = y := by
  rcases h.head with h | ⟨j, ⟨e', he', hj⟩, _⟩
  · exact h
  · rw [he] at he'; simp at he'; subst he'; rw [ho] at hj; simp at hj

theorem out_sub {σ : Store} {a : Nat} {t : Ty} (hs : ∀ v ∈ subVars t, ¬ Reach σ v a) :
    ∀ w ∈ out a t, ¬ Reach σ w a := by
  cases t <;> simp only [out, subVars] at * <;> try exact hs
  all_goals
    intro w hw
    split at hw
    · rename_i h; subst h
      exact absurd (Reach.refl _) (hs _ (by simp))
    · exact hs w hw

theorem isRootB_sound {σ : Store} {v : Nat} (h : isRootB σ v = true) : IsRoot σ v := by
  unfold isRootB at h
  split at h
  · rename_i e he; exact ⟨e, he, by simpa using h⟩
  · simp at h

/-- `bind` keeps the store acyclic: behind an occurs check when the variable
is unset; without one when the variable cannot be reached from the new entry -/
theorem bind_acyclic {G : SetArm → Guard} {arm : SetArm} {f : Nat} {σ σ' : Store} {v : Nat} {t : Ty} {r : Option Ty}
    (hσ : Acyclic σ)
    (h1 : G arm = .occursCheck → IsRoot σ v)
    (h2 : G arm ≠ .occursCheck → ∀ w ∈ out v t, ¬ Reach σ w v)
    (h : bind G arm f σ v t = some (r, σ')) : Acyclic σ' := by
  unfold bind at h
  split at h
  · rename_i hg
    split at h
    · simp at h
    · simp at h; rw [← h.2]; exact hσ
    · rename_i hocc
      simp at h; rw [← h.2]
      exact set_acyclic hσ (out_sub ((occurs_sound f).1 σ v t (h1 hg) hocc))
  · rename_i hg
    simp at h; rw [← h.2]
    exact set_acyclic hσ (h2 (by rw [hg]; decide))
  · rename_i hg
    simp at h; rw [← h.2]
    exact set_acyclic hσ (h2 (by rw [hg]; decide))

theorem afterFields_cases {res : Option (Bool × Store)} {k : Store → Option (Option Ty × Store)}
    {r : Option Ty} {σ' : Store} (h : afterFields res k = some (r, σ')) :
    res = some (false, σ') ∨ ∃ σ1, res = some (true, σ1) ∧ k σ1 = some (r, σ') := by
  unfold afterFields at h
  split at h
  · simp at h
  · simp at h; exact Or.inl (by rw [h.2])
  · exact Or.inr ⟨_, rfl, h⟩

/-- the arms that bind a record variable after `unify_fields` -/
theorem rec_arm {G : SetArm → Guard} {arm : SetArm} (hg : G arm = .occursCheck) {f : Nat} {v : Nat} {t : Ty}
    {res : Option (Bool × Store)} (hres : ∀ b σ1, res = some (b, σ1) → Acyclic σ1)
    {r : Option Ty} {σ' : Store}
    (h : afterFields res (fun σ1 => if isRootB σ1 v then bind G arm f σ1 v t else none) = some (r, σ')) :
    Acyclic σ' := by
  rcases afterFields_cases h with h | ⟨σ1, h1, h2⟩
  · exact hres _ _ h
  · split at h2
    · rename_i hroot
      exact bind_acyclic (hres _ _ h1) (fun _ => isRootB_sound hroot) (fun hne => absurd hg hne) h2
    · simp at h2

theorem plain_root_target {σ : Store} {v y : Nat} {t : Ty} (ht : σ[y]? = some t) (hy : head t = some y)
    (hb : below t = []) : ∀ w ∈ out v t, ¬ Reach σ w v := by
  intro w hw hr
  by_cases hyv : y = v
  · subst hyv; rw [out_of_head_self hy, hb] at hw; simp at hw
  · rw [out_of_head_ne hy hyv] at hw; simp at hw; subst hw
    have ho : out w t = [] := by rw [out_of_head_self hy, hb]
    exact hyv (root_plain_reach ht ho hr)

theorem name_empty_target {σ : Store} {v n : Nat} {args : List Ty} (h : ¬ (!args.isEmpty) = true) :
    ∀ w ∈ out v (.name n args), ¬ Reach σ w v := by
  cases args with
  | nil => intro w hw; simp [out, subVars, subVarsL] at hw
  | cons a as => simp at h

/-! ## unification keeps the store acyclic -/

theorem unify_acyclic_aux (G : SetArm → Guard) (g : GuardsOk G) (N : Bool) (D : Defs) : ∀ (f : Nat),
    (∀ (σ : Store) (a b : Ty) (r : Option Ty) (σ' : Store), Acyclic σ →
      unifyInner G N D f σ a b = some (r, σ') → Acyclic σ') ∧
    (∀ (σ : Store) (an : List Nat) (aty : List Ty) (bn : List Nat) (bt : List Ty) (r : Bool) (σ' : Store),
      Acyclic σ → unifyFields G N D f σ an aty bn bt = some (r, σ') → Acyclic σ') ∧
    (∀ (σ : Store) (an : List Nat) (aty : List Ty) (bn : List Nat) (bt : List Ty) (r : Bool) (σ' : Store),
      Acyclic σ → unifyFieldsLoop G N D f σ an aty bn bt = some (r, σ') → Acyclic σ') ∧
    (∀ (σ : Store) (as bs : List Ty) (r : Bool) (σ' : Store),
      Acyclic σ → unifyZip G N D f σ as bs = some (r, σ') → Acyclic σ') := by
  intro f
  induction f with
  | zero =>
    refine ⟨?_, ?_, ?_, ?_⟩ <;> intros <;> simp_all [unifyInner, unifyFields, unifyFieldsLoop, unifyZip]
  | succ f ih =>
    obtain ⟨ihU, ihF, ihL, ihZ⟩ := ih
    refine ⟨?_, ?_, ?_, ?_⟩
    · intro σ a0 b0 r σ' hσ h
      unfold unifyInner at h
      split at h
      · rename_i a b ha hb
        split at h
        · simp at h; rw [← h.2]; exact hσ
        · split at h
          · simp at h
          · simp at h
          · -- the never arm of `unify_inner`, if any: nothing is bound
            split at h
            · simp at h; rw [← h.2]; exact hσ
            · split at h
              · -- IntVar / IntVar
                split at h
                · exact bind_acyclic hσ (fun _ => resolved_isRoot hb rfl)
                    (fun _ => plain_root_target (resolved_root ha rfl) rfl rfl) h
                · exact bind_acyclic hσ (fun _ => resolved_isRoot ha rfl)
                    (fun _ => plain_root_target (resolved_root hb rfl) rfl rfl) h
              · -- IntVar / Name
                split at h
                · simp at h; rw [← h.2]; exact hσ
                · split at h
                  · simp at h; rw [← h.2]; exact hσ
                  · rename_i hargs _
                    exact bind_acyclic hσ (fun _ => resolved_isRoot ha rfl) (fun _ => name_empty_target hargs) h
              · split at h
                · simp at h; rw [← h.2]; exact hσ
                · split at h
                  · simp at h; rw [← h.2]; exact hσ
                  · rename_i hargs _
                    exact bind_acyclic hσ (fun _ => resolved_isRoot hb rfl) (fun _ => name_empty_target hargs) h
              · -- FloatVar / FloatVar
                exact bind_acyclic hσ (fun _ => resolved_isRoot ha rfl)
                  (fun _ => plain_root_target (resolved_root hb rfl) rfl rfl) h
              · split at h
                · simp at h; rw [← h.2]; exact hσ
                · split at h
                  · simp at h; rw [← h.2]; exact hσ
                  · rename_i hargs _
                    exact bind_acyclic hσ (fun _ => resolved_isRoot ha rfl) (fun _ => name_empty_target hargs) h
              · split at h
                · simp at h; rw [← h.2]; exact hσ
                · split at h
                  · simp at h; rw [← h.2]; exact hσ
                  · rename_i hargs _
                    exact bind_acyclic hσ (fun _ => resolved_isRoot hb rfl) (fun _ => name_empty_target hargs) h
              · -- Var / anything
                exact bind_acyclic hσ (fun _ => resolved_isRoot ha rfl) (fun hne => absurd g.1 hne) h
              · exact bind_acyclic hσ (fun _ => resolved_isRoot hb rfl) (fun hne => absurd g.2.1 hne) h
              · -- RecordVar arms
                exact rec_arm g.2.2.1 (fun b σ1 hr => ihF _ _ _ _ _ _ _ hσ hr) h
              · exact rec_arm g.2.2.2.1 (fun b σ1 hr => ihF _ _ _ _ _ _ _ hσ hr) h
              · exact rec_arm g.2.2.2.2.1 (fun b σ1 hr => ihF _ _ _ _ _ _ _ hσ hr) h
              · split at h
                · simp at h; rw [← h.2]; exact hσ
                · exact rec_arm g.2.2.2.2.2 (fun b σ1 hr => ihF _ _ _ _ _ _ _ hσ hr) h
              · split at h
                · simp at h; rw [← h.2]; exact hσ
                · exact rec_arm g.2.2.2.2.2 (fun b σ1 hr => ihF _ _ _ _ _ _ _ hσ hr) h
              · -- Name / Name
                split at h
                · simp at h; rw [← h.2]; exact hσ
                · rcases afterFields_cases h with hz | ⟨σ1, hz, h2⟩
                  · exact ihZ _ _ _ _ _ hσ hz
                  · simp at h2; rw [← h2.2]; exact ihZ _ _ _ _ _ hσ hz
              · -- Function / Function
                rcases afterFields_cases h with hz | ⟨σ1, hz, h2⟩
                · exact ihZ _ _ _ _ _ hσ hz
                · have h1 := ihZ _ _ _ _ _ hσ hz
                  split at h2
                  · simp at h2
                  · rename_i hu; simp at h2; rw [← h2.2]; exact ihU _ _ _ _ _ h1 hu
                  · rename_i hu; simp at h2; rw [← h2.2]; exact ihU _ _ _ _ _ h1 hu
              · simp at h; rw [← h.2]; exact hσ
      · simp at h
    · intro σ an aty bn bt r σ' hσ h
      unfold unifyFields at h
      split at h
      · simp at h; rw [← h.2]; exact hσ
      · exact ihL _ _ _ _ _ _ _ hσ h
    · intro σ an aty bn bt r σ' hσ h
      cases an with
      | nil => simp [unifyFieldsLoop] at h; rw [← h.2]; exact hσ
      | cons n an =>
        cases aty with
        | nil => simp [unifyFieldsLoop] at h
        | cons t aty =>
          simp only [unifyFieldsLoop] at h
          split at h
          · simp at h; rw [← h.2]; exact hσ
          · split at h
            · simp at h
            · split at h
              · simp at h
              · rename_i hu; simp at h; rw [← h.2]; exact ihU _ _ _ _ _ hσ hu
              · rename_i hu; exact ihL _ _ _ _ _ _ _ (ihU _ _ _ _ _ hσ hu) h
    · intro σ as bs r σ' hσ h
      cases as with
      | nil => simp [unifyZip] at h; rw [← h.2]; exact hσ
      | cons a as =>
        cases bs with
        | nil => simp [unifyZip] at h; rw [← h.2]; exact hσ
        | cons b bs =>
          simp only [unifyZip] at h
          split at h
          · simp at h
          · rename_i hu; simp at h; rw [← h.2]; exact ihU _ _ _ _ _ hσ hu
          · rename_i hu; exact ihZ _ _ _ _ _ (ihU _ _ _ _ _ hσ hu) h

/-- the entry point `unify(expected, found)`: with or without the early return
for a found `!` (which binds nothing), any answer leaves an acyclic store
acyclic -/
theorem unify_acyclic (G : SetArm → Guard) (g : GuardsOk G) (N T : Bool) (D : Defs) (f : Nat)
    (σ : Store) (a b : Ty) (r : Option Ty) (σ' : Store) (hσ : Acyclic σ)
    (h : unify G N T D f σ a b = some (r, σ')) : Acyclic σ' := by
  unfold unify at h
  split at h
  · simp at h
  · split at h
    · split at h
      · simp at h
      · simp at h; rw [← h.2]; exact hσ
    · exact (unify_acyclic_aux G g N D f).1 σ a b r σ' hσ h

/-! ## lookups terminate -/

theorem findRef_succ (f : Nat) (σ : Store) (i : Nat) :
    findRef (f + 1) σ i =
      match σ[i]? with
      | none => none
      | some e =>
        match findRefHead e with
        | some j => if j = i then some e else findRef f σ j
        | none => some e := by
  simp only [findRef]; rfl

/-- more fuel does not change an answer -/
theorem findRef_mono : ∀ (f : Nat) (σ : Store) (i : Nat) (t : Ty), findRef f σ i = some t →
    findRef (f + 1) σ i = some t := by
  intro f
  induction f with
  | zero => intro σ i t h; simp [findRef] at h
  | succ f ih =>
    intro σ i t h
    rw [findRef_succ] at h ⊢
    cases he : σ[i]? with
    | none => simp [he] at h
    | some e =>
      simp only [he] at h ⊢
      cases hj : findRefHead e with
      | none => simp only [hj] at h ⊢; exact h
      | some j =>
        simp only [hj] at h ⊢
        by_cases hji : j = i
        · simp only [hji, if_true] at h ⊢; exact h
        · simp only [hji, if_false] at h ⊢; exact ih σ j t h

theorem findRef_mono' {f g : Nat} {σ : Store} {i : Nat} {t : Ty} (h : findRef f σ i = some t) (hfg : f ≤ g) :
    findRef g σ i = some t := by
  induction hfg with
  | refl => exact h
  | step _ ih => exact findRef_mono _ _ _ _ ih

/-- in an acyclic store in which every variable exists, `find` / `find_ref`
return -/
theorem findRef_terminates {σ : Store} (hσ : Acyclic σ) (hc : Closed σ) :
    ∀ i, i < σ.length → ∃ f t, findRef f σ i = some t := by
  intro i
  induction hσ.apply i with
  | intro i _ ih =>
    intro hi
    have he : σ[i]? = some σ[i] := List.getElem?_eq_getElem hi
    cases hh : head σ[i] with
    | none =>
      refine ⟨1, σ[i], ?_⟩
      simp [findRef, he, findRefHead_eq, hh]
    | some j =>
      by_cases hji : j = i
      · refine ⟨1, σ[i], ?_⟩
        simp [findRef, he, findRefHead_eq, hh, hji]
      · have hedge : Edge σ i j := ⟨_, he, by rw [out_of_head_ne hh hji]; simp⟩
        obtain ⟨f, t, hf⟩ := ih j hedge (hc _ _ hedge)
        refine ⟨f + 1, t, ?_⟩
        simp [findRef, he, findRefHead_eq, hh, hji, hf]

/-! ## path compression -/

section Compression
open Relation

/-- a path of at least one step, as `TransGen` of the child relation -/
theorem reach_tg {σ : Store} {i j k : Nat} (he : Edge σ i j) (hr : Reach σ j k) :
    TransGen (fun b a => Edge σ a b) k i := by
  induction hr generalizing i with
  | refl _ => exact TransGen.single he
  | step e _ ih => exact TransGen.tail (ih e) he

theorem acc_irrefl {α : Sort _} {r : α → α → Prop} {a : α} (h : Acc r a) : ¬ r a a := by
  induction h with
  | intro x _ ih => intro hx; exact ih x hx hx

/-- no cycles in an acyclic store -/
theorem no_cycle {σ : Store} (hσ : Acyclic σ) {i j : Nat} (he : Edge σ i j) (hr : Reach σ j i) : False :=
  acc_irrefl ((WellFounded.transGen hσ).apply i) (reach_tg he hr)

/-- `UnionFind::find` WITH path compression: it returns what `find_ref`
returns, and every edge of the compressed store is a path of the old one —
so the compressed store is acyclic as well. -/
theorem findCompress_spec : ∀ (f : Nat) (σ : Store) (i : Nat) (t : Ty) (σ' : Store), Acyclic σ →
    findCompress f σ i = some (t, σ') →
    findRef f σ i = some t ∧
    ∀ k v, Edge σ' k v → TransGen (fun b a => Edge σ a b) v k := by
  intro f
  induction f with
  | zero => intro σ i t σ' _ h; simp [findCompress] at h
  | succ f ih =>
    intro σ i t σ' hσ h
    rw [findRef_succ]
    unfold findCompress at h
    cases he : σ[i]? with
    | none => simp [he] at h
    | some e =>
      simp only [he] at h ⊢
      rw [findHead_eq] at h
      rw [findRefHead_eq]
      cases hj : head e with
      | none =>
        simp only [hj] at h ⊢
        simp at h
        obtain ⟨rfl, rfl⟩ := h
        exact ⟨rfl, fun k v hkv => TransGen.single hkv⟩
      | some j =>
        simp only [hj] at h ⊢
        by_cases hji : j = i
        · simp only [hji, if_true] at h ⊢
          simp at h
          obtain ⟨rfl, rfl⟩ := h
          exact ⟨rfl, fun k v hkv => TransGen.single hkv⟩
        · simp only [hji, if_false] at h ⊢
          cases hc : findCompress f σ j with
          | none => simp [hc] at h
          | some p =>
            obtain ⟨t1, σ1⟩ := p
            simp [hc] at h
            obtain ⟨rfl, rfl⟩ := h
            obtain ⟨hfr, hedges⟩ := ih σ j t1 σ1 hσ hc
            refine ⟨hfr, ?_⟩
            intro k v hkv
            by_cases hki : k = i
            · subst hki
              have hv := edge_set_self hkv
              have hij : Edge σ k j := ⟨e, he, by rw [out_of_head_ne hj hji]; simp⟩
              obtain ⟨r, hr, hs, hh⟩ := findRef_spec _ _ _ _ hfr
              rcases hh with hh | hh
              · by_cases hrk : r = k
                · subst hrk; exact absurd hr (fun hr => no_cycle hσ hij hr)
                · rw [out_of_head_ne hh hrk] at hv; simp at hv; subst hv
                  exact reach_tg hij hr
              · rw [out_of_head_none hh, ← out_of_head_none (i := r) hh] at hv
                exact reach_tg hij (hr.trans (Reach.single ⟨t1, hs, hv⟩))
            · exact hedges k v ((edge_set_ne hki).1 hkv)

theorem findCompress_acyclic {f : Nat} {σ σ' : Store} {i : Nat} {t : Ty} (hσ : Acyclic σ)
    (h : findCompress f σ i = some (t, σ')) : Acyclic σ' ∧ findRef f σ i = some t := by
  obtain ⟨h1, h2⟩ := findCompress_spec f σ i t σ' hσ h
  exact ⟨Subrelation.wf (fun {a b} hab => h2 b a hab) (WellFounded.transGen hσ), h1⟩

end Compression

/-! ## deep traversals terminate -/

/-- the children a deep traversal walks into -/
def kids : Ty → List Ty
  | .recordVar _ _ ts => ts
  | .record _ ts => ts
  | .func ps r => ps ++ [r]
  | .name _ as => as
  | _ => []

theorem subVarsL_kids_of_root {t : Ty} : subVarsL (kids t) = below t := by
  cases t <;> simp [kids, below, subVars, subVarsL, subVarsL_append]

theorem resolveType_mono {f : Nat} {σ : Store} {t t' : Ty} (h : resolveType f σ t = some t') :
    resolveType (f + 1) σ t = some t' := by
  unfold resolveType at h ⊢
  split
  · rename_i x hx; simp only [hx] at h; exact findRef_mono _ _ _ _ h
  · rename_i hx; simp only [hx] at h; exact h

theorem walk_of_kids {f : Nat} {σ : Store} {t t' : Ty} (hr : resolveType f σ t = some t')
    (hk : walkL f σ (kids t') = some ()) : walk (f + 1) σ t = some () := by
  unfold walk
  simp only [hr]
  cases t' <;> simp_all [kids]

theorem walk_kids {f : Nat} {σ : Store} {t : Ty} (h : walk (f + 1) σ t = some ()) :
    ∃ t', resolveType f σ t = some t' ∧ (kids t' = [] ∨ walkL f σ (kids t') = some ()) := by
  unfold walk at h
  split at h
  · simp at h
  · rename_i t' hr
    refine ⟨t', hr, ?_⟩
    cases t' <;> simp_all [kids]

theorem walk_mono : ∀ (f : Nat),
    (∀ (σ : Store) (t : Ty), walk f σ t = some () → walk (f + 1) σ t = some ()) ∧
    (∀ (σ : Store) (ts : List Ty), walkL f σ ts = some () → walkL (f + 1) σ ts = some ()) := by
  intro f
  induction f with
  | zero => constructor <;> intro σ t h <;> simp [walk, walkL] at h
  | succ f ih =>
    obtain ⟨ih1, ih2⟩ := ih
    constructor
    · intro σ t h
      obtain ⟨t', hr, hk⟩ := walk_kids h
      rcases hk with hk | hk
      · refine walk_of_kids (resolveType_mono hr) ?_
        rw [hk]; simp [walkL]
      · exact walk_of_kids (resolveType_mono hr) (ih2 _ _ hk)
    · intro σ ts h
      cases ts with
      | nil => simp [walkL]
      | cons t ts =>
        simp only [walkL] at h ⊢
        split at h
        · simp at h
        · rename_i hw
          rw [ih1 _ _ hw]
          exact ih2 _ _ h

theorem walk_mono' {f g : Nat} {σ : Store} {t : Ty} (h : walk f σ t = some ()) (hfg : f ≤ g) :
    walk g σ t = some () := by
  induction hfg with
  | refl => exact h
  | step _ ih => exact (walk_mono _).1 _ _ ih

theorem walkL_mono' {f g : Nat} {σ : Store} {ts : List Ty} (h : walkL f σ ts = some ()) (hfg : f ≤ g) :
    walkL g σ ts = some () := by
  induction hfg with
  | refl => exact h
  | step _ ih => exact (walk_mono _).2 _ _ ih

theorem walkL_append {σ : Store} : ∀ (as bs : List Ty) (f g : Nat), walkL f σ as = some () →
    walkL g σ bs = some () → walkL (f + g) σ (as ++ bs) = some ()
  | [], bs, f, g, _, h2 => by simpa using walkL_mono' h2 (Nat.le_add_left g f)
  | a :: as, bs, 0, g, h1, _ => by simp [walkL] at h1
  | a :: as, bs, f + 1, g, h1, h2 => by
    simp only [walkL] at h1
    split at h1
    · simp at h1
    · rename_i hw
      have : f + 1 + g = (f + g) + 1 := by omega
      rw [this]
      simp only [List.cons_append, walkL]
      rw [walk_mono' hw (Nat.le_add_right f g)]
      exact walkL_append as bs f g h1 h2

theorem walk_congr_head {f : Nat} {σ : Store} {t : Ty} {x : Nat} (h : head t = some x) :
    walk f σ t = walk f σ (.var x) := by
  cases f with
  | zero => simp [walk]
  | succ f =>
    unfold walk
    have : resolveType f σ t = resolveType f σ (.var x) := by
      unfold resolveType
      rw [resolveHead_eq, resolveHead_eq, h]; rfl
    rw [this]

/-- a variable from which every deep traversal returns -/
def Walks (σ : Store) (v : Nat) : Prop := ∃ f, walk f σ (.var v) = some ()

mutual
theorem walk_of_vars (σ : Store) : ∀ (t : Ty), (∀ v ∈ subVars t, Walks σ v) → ∃ f, walk f σ t = some ()
  | .var x, h => h x (by simp [subVars])
  | .intVar x s, h => by
    obtain ⟨f, hf⟩ := h x (by simp [subVars])
    exact ⟨f, by rw [walk_congr_head (x := x) rfl]; exact hf⟩
  | .floatVar x, h => by
    obtain ⟨f, hf⟩ := h x (by simp [subVars])
    exact ⟨f, by rw [walk_congr_head (x := x) rfl]; exact hf⟩
  | .recordVar x ns ts, h => by
    obtain ⟨f, hf⟩ := h x (by simp [subVars])
    exact ⟨f, by rw [walk_congr_head (x := x) rfl]; exact hf⟩
  | .record ns ts, h => by
    obtain ⟨f, hf⟩ := walkL_of_vars σ ts (by simpa [subVars] using h)
    exact ⟨f + 1, walk_of_kids (t' := .record ns ts) (by simp [resolveType, resolveHead_eq, head]) hf⟩
  | .func ps r, h => by
    obtain ⟨f1, hf1⟩ := walkL_of_vars σ ps (fun v hv => h v (by simp [subVars, hv]))
    obtain ⟨f2, hf2⟩ := walk_of_vars σ r (fun v hv => h v (by simp [subVars, hv]))
    refine ⟨f1 + (f2 + 2) + 1, walk_of_kids (t' := .func ps r) (by simp [resolveType, resolveHead_eq, head]) ?_⟩
    simp only [kids]
    refine walkL_append ps [r] f1 (f2 + 2) hf1 ?_
    simp only [walkL]
    rw [walk_mono' hf2 (Nat.le_succ f2)]
  | .name n as, h => by
    obtain ⟨f, hf⟩ := walkL_of_vars σ as (by simpa [subVars] using h)
    exact ⟨f + 1, walk_of_kids (t' := .name n as) (by simp [resolveType, resolveHead_eq, head]) hf⟩
  | .explicitVar n, _ => ⟨1, by simp [walk, resolveType, resolveHead_eq, head]⟩
  | .unit, _ => ⟨1, by simp [walk, resolveType, resolveHead_eq, head]⟩
  | .never, _ => ⟨1, by simp [walk, resolveType, resolveHead_eq, head]⟩
theorem walkL_of_vars (σ : Store) : ∀ (ts : List Ty), (∀ v ∈ subVarsL ts, Walks σ v) → ∃ f, walkL f σ ts = some ()
  | [], _ => ⟨1, by simp [walkL]⟩
  | t :: ts, h => by
    obtain ⟨f1, hf1⟩ := walk_of_vars σ t (fun v hv => h v (by simp [subVarsL, hv]))
    obtain ⟨f2, hf2⟩ := walkL_of_vars σ ts (fun v hv => h v (by simp [subVarsL, hv]))
    refine ⟨max f1 f2 + 1, ?_⟩
    simp only [walkL]
    rw [walk_mono' hf1 (Nat.le_max_left f1 f2)]
    exact walkL_mono' hf2 (Nat.le_max_right f1 f2)
end

theorem reach_lt {σ : Store} (hc : Closed σ) {i k : Nat} (hr : Reach σ i k) (hi : i < σ.length) :
    k < σ.length := by
  induction hr with
  | refl _ => exact hi
  | step e _ ih => exact ih (hc _ _ e)

/-- in an acyclic store in which every variable exists, a deep traversal
returns from every variable -/
theorem all_walk {σ : Store} (hσ : Acyclic σ) (hc : Closed σ) :
    ∀ i, i < σ.length → ∀ k, Reach σ i k → Walks σ k := by
  intro i
  induction hσ.apply i with
  | intro i _ ih =>
    intro hi k hk
    rcases hk.head with rfl | ⟨j, hij, hjk⟩
    · -- the variable itself: look it up, then walk into what was found
      obtain ⟨f0, t', hf0⟩ := findRef_terminates hσ hc i hi
      obtain ⟨r, hr, hs, hh⟩ := findRef_spec _ _ _ _ hf0
      have hkids : ∀ v ∈ subVarsL (kids t'), Walks σ v := by
        intro v hv
        rw [subVarsL_kids_of_root] at hv
        have hrv : Edge σ r v := ⟨t', hs, by
          rcases hh with hh | hh
          · rw [out_of_head_self hh]; exact hv
          · rw [out_of_head_none hh]; exact hv⟩
        rcases hr.head with rfl | ⟨j, hij, hjr⟩
        · exact ih v hrv (hc _ _ hrv) v (Reach.refl _)
        · exact ih j hij (hc _ _ hij) v (hjr.trans (Reach.single hrv))
      obtain ⟨f1, hf1⟩ := walkL_of_vars σ (kids t') hkids
      refine ⟨max f0 f1 + 1, walk_of_kids (t' := t') ?_ (walkL_mono' hf1 (Nat.le_max_right f0 f1))⟩
      simp only [resolveType, resolveHead_eq, head]
      exact findRef_mono' hf0 (Nat.le_max_left f0 f1)
    · exact ih j hij (hc _ _ hij) k hjk

/-- deep traversals (`Type::display`, `TypeInfo::convert`, … — resolve, then
walk into every child) return from every type over an acyclic store -/
theorem walk_terminates {σ : Store} (hσ : Acyclic σ) (hc : Closed σ) (t : Ty)
    (ht : ∀ v ∈ subVars t, v < σ.length) : ∃ f, walk f σ t = some () :=
  walk_of_vars σ t (fun v hv => all_walk hσ hc v (ht v hv) v (Reach.refl _))

/-! ## the unchanged tree: a record variable bound without occurs check -/

/-- the unchanged tree: the four arms of `unify_inner` that bind a RECORD
variable had no occurs check in front of their `set` -/
def oldGuard : SetArm → Guard
  | .recRec => .unguarded
  | .recRecord => .unguarded
  | .recordRec => .unguarded
  | .recName => .unguarded
  | a => setGuard a

/-- no user types needed: `List` is type name 1 -/
def noDefs : Defs := ⟨fun _ => false, fun _ => false, fun _ => false, fun _ _ => none⟩

/-- `a = { f: l }` with `l: List[!]` -/
def witnessA : Ty := .recordVar 0 [0] [.name 1 [.never]]
/-- `b = { f: [[a]] }` -/
def witnessB : Ty := .recordVar 1 [0] [.name 1 [.name 1 [witnessA]]]
/-- the store of `fn main(l: List[!]) { let a = { f: l }; let b = { f: [[a]] }; a == b; }`
when `a == b` is checked -/
def witnessStore : Store := [witnessA, witnessB]

theorem no_two_cycle {σ : Store} {i j : Nat} (h1 : Edge σ i j) (h2 : Edge σ j i) : ¬ Acyclic σ := by
  intro hσ
  have : ∀ x, Acc (fun j i => Edge σ i j) x → (x = i ∨ x = j) → False := by
    intro x hx
    induction hx with
    | intro x _ ih =>
      rintro (rfl | rfl)
      · exact ih _ h1 (Or.inr rfl)
      · exact ih _ h2 (Or.inl rfl)
  exact this i (hσ.apply i) (Or.inl rfl)

theorem witness_acyclic : Acyclic witnessStore := by
  have e0 : ∀ y, ¬ Edge witnessStore 0 y := by
    rintro y ⟨e, he, hy⟩
    simp [witnessStore] at he; subst he
    simp [witnessA, out, subVarsL, subVars] at hy
  have e1 : ∀ y, Edge witnessStore 1 y → y = 0 := by
    rintro y ⟨e, he, hy⟩
    simp [witnessStore] at he; subst he
    simpa [witnessB, witnessA, out, subVarsL, subVars] using hy
  have eo : ∀ i y, ¬ Edge witnessStore (i + 2) y := by
    rintro i y ⟨e, he, _⟩
    simp [witnessStore] at he
  have a0 : Acc (fun j i => Edge witnessStore i j) 0 := ⟨_, fun y hy => absurd hy (e0 y)⟩
  constructor
  intro x
  match x with
  | 0 => exact a0
  | 1 => exact ⟨_, fun y hy => (e1 y hy) ▸ a0⟩
  | n + 2 => exact ⟨_, fun y hy => absurd hy (eo n y)⟩

/-- the FIRST pre-fix tree, frozen: `unify_inner` with its never arm
(`N = true`), `unify` without the early return (`T = false`), no occurs check in
front of the `set` of a record variable (`oldGuard`) -/
theorem old_run : unify oldGuard true false noDefs 6 witnessStore witnessA witnessB = some (some witnessB, [witnessB, witnessB]) := by
  rfl

/-- the guards of the current source: the same call answers `None` and leaves
the store alone — whether or not `!` still unifies inside `unify_inner`
(`N = true`: the occurs check fires; `N = false`: `List[!]` and `List[List[a]]`
do not unify in the first place) -/
theorem new_run (N T : Bool) : unify setGuard N T noDefs 12 witnessStore witnessA witnessB = some (none, witnessStore) := by
  cases N <;> cases T <;> rfl

/-- with the arms of the current source (`N = false`: `!` does not unify inside
`unify_inner` any more) the same call does not get past `unify_fields` even
WITHOUT the occurs check in the record arms: `List[!]` and `List[List[a]]` do
not unify. (The occurs checks of those arms stay obligations — `GuardsOk` —
because the acyclicity proof goes through them; `recName` needs it for a type
definition with an unused parameter, see `phantom_run`.) -/
theorem old_guard_new_arms (T : Bool) :
    unify oldGuard false T noDefs 12 witnessStore witnessA witnessB = some (none, witnessStore) := by
  cases T <;> rfl

/-- a record type `7` with one field `f: ()` whatever its argument is -/
def phantomDefs : Defs := ⟨fun _ => false, fun _ => false, fun _ => false,
  fun n _ => if n = 7 then some ([0], [.unit]) else none⟩

/-- model level (no such type can be declared in a script today): with the
arms of the current source and a type definition that ignores its argument,
`a = { f: () }` against `T7[a]` binds `a := T7[a]` unless the occurs check in
front of that `set` is there -/
theorem phantom_run :
    unify oldGuard false true phantomDefs 6 [.recordVar 0 [0] [.unit]] (.var 0) (.name 7 [.var 0]) =
      some (some (.name 7 [.var 0]), [.name 7 [.var 0]]) ∧
    unify setGuard false true phantomDefs 6 [.recordVar 0 [0] [.unit]] (.var 0) (.name 7 [.var 0]) =
      some (none, [.recordVar 0 [0] [.unit]]) := ⟨rfl, rfl⟩

end RotoV.Unify
