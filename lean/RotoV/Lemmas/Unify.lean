/-
  Lemmas for C07 about `Model/Unify.lean` (the union-find store invariant of
  `unify_inner`).
-/
import RotoV.Model.Unify

namespace RotoV.Unify

end RotoV.Unify
