/-
  Lemmas for C07 about `Model/Unify.lean`: a slot-local invariant of the
  union-find store that `unify_inner` preserves.

  Ghost state: `K j` = the kind slot `j` was created with (`fresh_var`,
  `fresh_int`, `fresh_float`, `fresh_record`), `D j` = "the integer-literal
  variable `j` must be signed" (set by `Negate`, inherited through merges).
  The invariant says what each kind of slot may hold; it mentions only the slot
  itself, so it survives every `set`.
-/
import RotoV.Model.UnifyTc

namespace RotoV.Unify
open RotoV.Gen

/-- the kind a slot was created with; a record variable remembers the names of
    the fields it was created with -/
inductive Kind | tv | iv | fv | rv (names : List Nat)
  deriving DecidableEq, Repr, Inhabited

def Kind.isRv : Kind → Bool | .rv _ => true | _ => false

/-- the field names of a record, in order -/
def fnames (fs : List (Nat × MTy)) : List Nat := fs.map (·.1)

/-! well-formed types: every variable-like occurrence has the index of a slot
    of that kind (callers create `IntVar(j, _)` only with `fresh_int`, …) -/
mutual
def tyOk (K : Nat → Kind) : MTy → Bool
  | .var j => K j == .tv
  | .intVar j _ => K j == .iv
  | .floatVar j => K j == .fv
  | .recordVar j fs => (K j).isRv && fieldsOk K fs
  | .record fs => fieldsOk K fs
  | .func ps r => listOk K ps && tyOk K r
  | .name _ args => listOk K args
  | .explicitVar _ | .unit | .never => true
def listOk (K : Nat → Kind) : List MTy → Bool
  | [] => true
  | t :: ts => tyOk K t && listOk K ts
def fieldsOk (K : Nat → Kind) : List (Nat × MTy) → Bool
  | [] => true
  | (_, t) :: fs => tyOk K t && fieldsOk K fs
end

/-- what slot `i` may hold -/
def SlotOk (d : Defs) (K : Nat → Kind) (D : Nat → Bool) (i : Nat) (t : MTy) : Prop :=
  tyOk K t = true ∧
  match K i with
  | .tv => True
  | .iv =>
    (∃ j sg, t = .intVar j sg ∧
      (if j = i then D i = sg else (D i = true → D j = true))) ∨
    (∃ n, t = .name n [] ∧ d.isInt n = true ∧ (D i = true → d.isSignedInt n = true))
  | .fv => (∃ j, t = .floatVar j) ∨ (∃ n, t = .name n [] ∧ d.isFloat n = true)
  | .rv N =>
    (∃ j fs, t = .recordVar j fs ∧
      (if j = i then (fnames fs).Perm N else ∃ N', K j = .rv N' ∧ N'.Perm N)) ∨
    (∃ fs, t = .record fs ∧ (fnames fs).Perm N) ∨
    (∃ n args nfs, t = .name n args ∧ d.recordFields n = some nfs ∧ (fnames nfs).Perm N)

structure Inv (d : Defs) (K : Nat → Kind) (D : Nat → Bool) (s : Store) : Prop where
  slot : ∀ i t, s[i]? = some t → SlotOk d K D i t
  /-- nothing is demanded of slots that do not exist yet -/
  fresh : ∀ j, s.length ≤ j → D j = false

theorem Inv.set {d K D s} (h : Inv d K D s) (v : Nat) (t : MTy) (ht : v < s.length → SlotOk d K D v t) :
    Inv d K D (setSlot s v t) := by
  constructor
  · intro i u hi
    unfold setSlot at hi
    by_cases hiv : v = i
    · subst hiv
      by_cases hlt : v < s.length
      · rw [List.getElem?_set_self hlt] at hi
        injection hi with hi; subst hi; exact ht hlt
      · rw [List.getElem?_eq_none (by simpa using Nat.le_of_not_lt hlt)] at hi
        cases hi
    · rw [List.getElem?_set_ne hiv] at hi
      exact h.slot i u hi
  · intro j hj
    unfold setSlot at hj
    rw [List.length_set] at hj
    exact h.fresh j hj

/-! `find` returns the content of a root slot -/
theorem find_spec {d K D s} (h : Inv d K D s) : ∀ fuel i t, find s fuel i = some t →
    tyOk K t = true ∧ (∀ r, t.varIndex = some r → s[r]? = some t ∧ SlotOk d K D r t) := by
  intro fuel
  induction fuel with
  | zero => intro i t hf; simp [find] at hf
  | succ fuel ih =>
    intro i t hf
    simp only [find] at hf
    cases hs : s[i]? with
    | none => simp [hs] at hf
    | some u =>
      simp only [hs] at hf
      cases hv : u.varIndex with
      | none =>
        simp only [hv] at hf
        injection hf with hf; subst hf
        refine ⟨(h.slot i u hs).1, ?_⟩
        intro r hr; rw [hv] at hr; cases hr
      | some j =>
        simp only [hv] at hf
        by_cases hji : j = i
        · subst hji
          simp only [bne_self_eq_false, Bool.false_eq_true, ↓reduceIte] at hf
          injection hf with hf; subst hf
          refine ⟨(h.slot j u hs).1, ?_⟩
          intro r hr
          rw [hv] at hr; injection hr with hr; subst hr
          exact ⟨hs, h.slot j u hs⟩
        · have : (j != i) = true := by simpa using hji
          simp only [this, ↓reduceIte] at hf
          exact ih j t hf

theorem resolve_spec {d K D s} (h : Inv d K D s) (a a' : MTy) (ha : tyOk K a = true)
    (hr : resolve s a = some a') :
    tyOk K a' = true ∧ (∀ r, a'.varIndex = some r → s[r]? = some a' ∧ SlotOk d K D r a') := by
  unfold resolve at hr
  cases hv : a.varIndex with
  | none =>
    simp only [hv] at hr
    injection hr with hr; subst hr
    exact ⟨ha, fun r hr' => by rw [hv] at hr'; cases hr'⟩
  | some i =>
    simp only [hv] at hr
    exact find_spec h _ i a' hr

theorem takeField_ok {K : Nat → Kind} {n : Nat} :
    ∀ {fs : List (Nat × MTy)} {t : MTy} {rest : List (Nat × MTy)},
      fieldsOk K fs = true → takeField n fs = some (t, rest) → tyOk K t = true ∧ fieldsOk K rest = true := by
  intro fs
  induction fs with
  | nil => intro t rest _ h; simp [takeField] at h
  | cons f fs ih =>
    intro t rest hok h
    obtain ⟨m, u⟩ := f
    simp only [fieldsOk, Bool.and_eq_true] at hok
    simp only [takeField] at h
    by_cases hm : (m == n) = true
    · simp only [hm, ↓reduceIte, Option.some.injEq, Prod.mk.injEq] at h
      obtain ⟨h1, h2⟩ := h
      subst h1; subst h2
      exact hok
    · simp only [hm, Bool.false_eq_true, ↓reduceIte] at h
      cases ht : takeField n fs with
      | none => simp [ht] at h
      | some p =>
        obtain ⟨u', rest'⟩ := p
        simp only [ht, Option.some.injEq, Prod.mk.injEq] at h
        obtain ⟨h1, h2⟩ := h
        subst h1; subst h2
        have := ih hok.2 ht
        simp only [fieldsOk, Bool.and_eq_true]
        exact ⟨this.1, hok.1, this.2⟩

theorem isSignedInt_isInt (d : Defs) (n : Nat) (h : d.isSignedInt n = true) : d.isInt n = true := by
  unfold Defs.isSignedInt at h
  unfold Defs.isInt
  cases hd : d n <;> simp_all

/-- what the plan asks for is admissible: bindings respect the slot invariant,
    recursive work is on well-formed types -/
def PlanOk (d : Defs) (K : Nat → Kind) (D : Nat → Bool) : Plan → Prop
  | .same _ => True
  | .bind v t => SlotOk d K D v t
  | .fail | .ice | .stuck => True
  | .fieldsThenBind afs bfs v t =>
    fieldsOk K afs = true ∧ fieldsOk K bfs = true ∧ ((fnames afs).Perm (fnames bfs) → SlotOk d K D v t)
  | .zip xs ys _ => listOk K xs = true ∧ listOk K ys = true
  | .zipThen xs ys x y _ => listOk K xs = true ∧ listOk K ys = true ∧ tyOk K x = true ∧ tyOk K y = true

/-- the defining records of `d` are closed (mention no variables) -/
def DefsOk (d : Defs) (K : Nat → Kind) : Prop :=
  ∀ n fs, d.recordFields n = some fs → fieldsOk K fs = true

/-- facts about the source the proof relies on (regenerated on every run) -/
theorem facts_unify :
    C07Facts.intVarYesPred = .isSignedInt ∧ C07Facts.intVarNoPred = .isInt ∧
    C07Facts.intVarRejectsArgs = true ∧ C07Facts.floatVarPred = .isFloat ∧
    C07Facts.floatVarRejectsArgs = true ∧ C07Facts.intVarsYesPriority = true := by decide

/-- `unify_inner` has no arm that lets `!` unify with an arbitrary type (the
    repaired checker accepts a FOUND `!` for any expected type in `unify`, and
    nothing else) -/
theorem fact_no_never_arm : C07Facts.unifyInnerNeverArm = false := by decide


theorem slot_tv {d : Defs} {K : Nat → Kind} {D : Nat → Bool} {v : Nat} {t : MTy}
    (hk : K v = .tv) (ht : tyOk K t = true) : SlotOk d K D v t := by
  refine ⟨ht, ?_⟩
  rw [hk]; trivial

/-- a root integer variable carries exactly its demand as its flag -/
theorem root_flag {d : Defs} {K : Nat → Kind} {D : Nat → Bool} {r : Nat} {sg : Bool}
    (h : SlotOk d K D r (.intVar r sg)) (hk : K r = .iv) : D r = sg := by
  have h2 := h.2
  rw [hk] at h2
  rcases h2 with ⟨j, sg', he, hj⟩ | ⟨n, he, _⟩
  · injection he with h1 h2'
    subst h1; subst h2'
    simpa using hj
  · cases he

theorem slot_iv_var {d : Defs} {K : Nat → Kind} {D : Nat → Bool} {i j : Nat} {sg : Bool}
    (hki : K i = .iv) (hkj : K j = .iv)
    (h : if j = i then D i = sg else (D i = true → D j = true)) : SlotOk d K D i (.intVar j sg) := by
  refine ⟨by simp [tyOk, hkj], ?_⟩
  rw [hki]
  exact Or.inl ⟨j, sg, rfl, h⟩

theorem kind_of_tyOk_var {K : Nat → Kind} {v : Nat} (h : tyOk K (.var v) = true) : K v = .tv := by
  simpa [tyOk] using h
theorem kind_of_tyOk_int {K : Nat → Kind} {v : Nat} {sg : Bool} (h : tyOk K (.intVar v sg) = true) : K v = .iv := by
  simpa [tyOk] using h
theorem kind_of_tyOk_float {K : Nat → Kind} {v : Nat} (h : tyOk K (.floatVar v) = true) : K v = .fv := by
  simpa [tyOk] using h
theorem kind_of_tyOk_rec {K : Nat → Kind} {v : Nat} {fs} (h : tyOk K (.recordVar v fs) = true) :
    (∃ N, K v = .rv N) ∧ fieldsOk K fs = true := by
  simp only [tyOk, Bool.and_eq_true] at h
  refine ⟨?_, h.2⟩
  cases hk : K v <;> simp_all [Kind.isRv]

/-- `IntVar × Name` -/
theorem plan_int_name {d : Defs} {K : Nat → Kind} {D : Nat → Bool} {s : Store}
    {v : Nat} {sg : Bool} {n : Nat} {args : List MTy}
    (hv : tyOk K (.intVar v sg) = true) (hn : tyOk K (.name n args) = true)
    (hroot : s[v]? = some (.intVar v sg) ∧ SlotOk d K D v (.intVar v sg)) :
    PlanOk d K D
      (if (C07Facts.intVarRejectsArgs && !args.isEmpty) = true then Plan.fail
       else if (!(d.eval (if sg = true then C07Facts.intVarYesPred else C07Facts.intVarNoPred) n)) = true then Plan.fail
       else Plan.bind v (.name n args)) := by
  obtain ⟨hy, hno, hra, _, _, _⟩ := facts_unify
  have hk := kind_of_tyOk_int hv
  have hD := root_flag hroot.2 hk
  by_cases h1 : (C07Facts.intVarRejectsArgs && !args.isEmpty) = true
  · rw [if_pos h1]; trivial
  · rw [if_neg h1]
    simp only [hra, Bool.true_and, Bool.not_eq_true', List.isEmpty_eq_false_iff, ne_eq, Decidable.not_not] at h1
    subst h1
    cases sg with
    | true =>
      simp only [↓reduceIte, hy]
      by_cases h2 : (!d.eval C07Facts.Pred.isSignedInt n) = true
      · rw [if_pos h2]; trivial
      · rw [if_neg h2]
        simp only [Bool.not_eq_true', Bool.not_eq_false, Defs.eval] at h2
        show SlotOk d K D v (.name n [])
        refine ⟨hn, ?_⟩
        rw [hk]
        exact Or.inr ⟨n, rfl, isSignedInt_isInt d n h2, fun _ => h2⟩
    | false =>
      simp only [Bool.false_eq_true, ↓reduceIte, hno]
      by_cases h2 : (!d.eval C07Facts.Pred.isInt n) = true
      · rw [if_pos h2]; trivial
      · rw [if_neg h2]
        simp only [Bool.not_eq_true', Bool.not_eq_false, Defs.eval] at h2
        show SlotOk d K D v (.name n [])
        refine ⟨hn, ?_⟩
        rw [hk]
        exact Or.inr ⟨n, rfl, h2, fun hd => by rw [hD] at hd; cases hd⟩

/-- `FloatVar × Name` -/
theorem plan_float_name {d : Defs} {K : Nat → Kind} {D : Nat → Bool}
    {v : Nat} {n : Nat} {args : List MTy}
    (hv : tyOk K (.floatVar v) = true) (hn : tyOk K (.name n args) = true) :
    PlanOk d K D
      (if (C07Facts.floatVarRejectsArgs && !args.isEmpty) = true then Plan.fail
       else if (!d.eval C07Facts.floatVarPred n) = true then Plan.fail
       else Plan.bind v (.name n args)) := by
  obtain ⟨_, _, _, hf, hfa, _⟩ := facts_unify
  have hk := kind_of_tyOk_float hv
  by_cases h1 : (C07Facts.floatVarRejectsArgs && !args.isEmpty) = true
  · rw [if_pos h1]; trivial
  · rw [if_neg h1]
    simp only [hfa, Bool.true_and, Bool.not_eq_true', List.isEmpty_eq_false_iff, ne_eq, Decidable.not_not] at h1
    subst h1
    rw [hf]
    by_cases h2 : (!d.eval C07Facts.Pred.isFloat n) = true
    · rw [if_pos h2]; trivial
    · rw [if_neg h2]
      simp only [Bool.not_eq_true', Bool.not_eq_false, Defs.eval] at h2
      show SlotOk d K D v (.name n [])
      refine ⟨hn, ?_⟩
      rw [hk]
      exact Or.inr ⟨n, rfl, h2⟩

theorem plan_var {d : Defs} {K : Nat → Kind} {D : Nat → Bool} {s : Store} {occ v : Nat} {t : MTy}
    (hk : K v = .tv) (ht : tyOk K t = true) :
    PlanOk d K D (match occurs s v occ t with
      | none => Plan.stuck
      | some true => Plan.fail
      | some false => Plan.bind v t) := by
  split
  · trivial
  · trivial
  · exact slot_tv hk ht

theorem slot_rv {d : Defs} {K : Nat → Kind} {D : Nat → Bool} {v : Nat} {t : MTy} {N : List Nat}
    (hk : K v = .rv N) (ht : tyOk K t = true)
    (h : (∃ j fs, t = .recordVar j fs ∧
        (if j = v then (fnames fs).Perm N else ∃ N', K j = .rv N' ∧ N'.Perm N)) ∨
      (∃ fs, t = .record fs ∧ (fnames fs).Perm N) ∨
      (∃ n args nfs, t = .name n args ∧ d.recordFields n = some nfs ∧ (fnames nfs).Perm N)) :
    SlotOk d K D v t := by
  refine ⟨ht, ?_⟩
  rw [hk]; exact h

/-- the fields a root record variable holds are (a permutation of) the ones it was created with -/
theorem root_fields {d : Defs} {K : Nat → Kind} {D : Nat → Bool} {r : Nat} {fs : List (Nat × MTy)}
    {N : List Nat} (h : SlotOk d K D r (.recordVar r fs)) (hk : K r = .rv N) : (fnames fs).Perm N := by
  have h2 := h.2
  rw [hk] at h2
  rcases h2 with ⟨j, fs', he, hj⟩ | ⟨fs', he, _⟩ | ⟨n, args, nfs, he, _⟩
  · injection he with h1 h2'
    subst h1; subst h2'
    simpa using hj
  · cases he
  · cases he

/-- every arm of `match (a, b)` asks only for admissible work -/
theorem plan_ok {d : Defs} {K : Nat → Kind} {D : Nat → Bool} {s : Store}
    (hd : DefsOk d K) (a b : MTy) (occ : Nat)
    (ha : tyOk K a = true) (hb : tyOk K b = true)
    (hra : ∀ r, a.varIndex = some r → s[r]? = some a ∧ SlotOk d K D r a)
    (hrb : ∀ r, b.varIndex = some r → s[r]? = some b ∧ SlotOk d K D r b) :
    PlanOk d K D (plan d s occ a b) := by
  have hnever := fact_no_never_arm
  unfold plan
  split
  · trivial
  · cases a with
    | var v =>
      have hk := kind_of_tyOk_var ha
      cases b <;> simp only [planArms, planArmsWith, hnever, Bool.false_eq_true, ↓reduceIte, planCore] <;> first | trivial | exact plan_var hk hb
    | explicitVar e => cases b <;> simp only [planArms, planArmsWith, hnever, Bool.false_eq_true, ↓reduceIte, planCore] <;> trivial
    | never =>
      cases b with
      | var w => simp only [planArms, planArmsWith, hnever, Bool.false_eq_true, ↓reduceIte, planCore]; exact plan_var (kind_of_tyOk_var hb) ha
      | _ => simp only [planArms, planArmsWith, hnever, Bool.false_eq_true, ↓reduceIte, planCore]; trivial
    | unit =>
      cases b with
      | var w => simp only [planArms, planArmsWith, hnever, Bool.false_eq_true, ↓reduceIte, planCore]; exact plan_var (kind_of_tyOk_var hb) ha
      | _ => simp only [planArms, planArmsWith, hnever, Bool.false_eq_true, ↓reduceIte, planCore]; trivial
    | intVar v sg =>
      cases b with
      | var w => simp only [planArms, planArmsWith, hnever, Bool.false_eq_true, ↓reduceIte, planCore]; exact plan_var (kind_of_tyOk_var hb) ha
      | intVar w sg' =>
        simp only [planArms, planArmsWith, hnever, Bool.false_eq_true, ↓reduceIte, planCore]
        have hkv := kind_of_tyOk_int ha
        have hkw := kind_of_tyOk_int hb
        have hDv := root_flag (hra v rfl).2 hkv
        have hDw := root_flag (hrb w rfl).2 hkw
        have hp : C07Facts.intVarsYesPriority = true := facts_unify.2.2.2.2.2
        simp only [hp, Bool.not_true, Bool.false_eq_true, ↓reduceIte]
        by_cases hc : (sg && !sg') = true
        · rw [if_pos hc]
          simp only [Bool.and_eq_true, Bool.not_eq_true'] at hc
          obtain ⟨h1, h2⟩ := hc
          subst h1; subst h2
          -- b ↦ IntVar(a, Yes): b is an undemanded root
          refine slot_iv_var hkw hkv ?_
          by_cases hvw : v = w
          · subst hvw; rw [hDv] at hDw; cases hDw
          · rw [if_neg hvw]; intro hdw; rw [hDw] at hdw; cases hdw
        · rw [if_neg hc]
          refine slot_iv_var hkv hkw ?_
          by_cases hwv : w = v
          · subst hwv; rw [if_pos rfl]; exact hDw
          · rw [if_neg hwv]
            intro hdv
            rw [hDv] at hdv; subst hdv
            rw [hDw]
            cases sg' with
            | true => rfl
            | false => simp at hc
      | name n args => simp only [planArms, planArmsWith, hnever, Bool.false_eq_true, ↓reduceIte, planCore]; exact plan_int_name ha hb (hra v rfl)
      | _ => simp only [planArms, planArmsWith, hnever, Bool.false_eq_true, ↓reduceIte, planCore]; trivial
    | floatVar v =>
      cases b with
      | var w => simp only [planArms, planArmsWith, hnever, Bool.false_eq_true, ↓reduceIte, planCore]; exact plan_var (kind_of_tyOk_var hb) ha
      | floatVar w =>
        simp only [planArms, planArmsWith, hnever, Bool.false_eq_true, ↓reduceIte, planCore]
        refine ⟨hb, ?_⟩
        rw [kind_of_tyOk_float ha]
        exact Or.inl ⟨w, rfl⟩
      | name n args => simp only [planArms, planArmsWith, hnever, Bool.false_eq_true, ↓reduceIte, planCore]; exact plan_float_name ha hb
      | _ => simp only [planArms, planArmsWith, hnever, Bool.false_eq_true, ↓reduceIte, planCore]; trivial
    | recordVar v fs =>
      obtain ⟨⟨N, hk⟩, hfs⟩ := kind_of_tyOk_rec ha
      have hNa := root_fields (hra v rfl).2 hk
      cases b with
      | var w => simp only [planArms, planArmsWith, hnever, Bool.false_eq_true, ↓reduceIte, planCore]; exact plan_var (kind_of_tyOk_var hb) ha
      | recordVar w gs =>
        simp only [planArms, planArmsWith, hnever, Bool.false_eq_true, ↓reduceIte, planCore]
        obtain ⟨⟨M, hkw⟩, hgs⟩ := kind_of_tyOk_rec hb
        have hMb := root_fields (hrb w rfl).2 hkw
        refine ⟨hfs, hgs, fun hp => slot_rv hk hb (Or.inl ⟨w, gs, rfl, ?_⟩)⟩
        by_cases hwv : w = v
        · subst hwv; rw [if_pos rfl]; exact hp.symm.trans hNa
        · rw [if_neg hwv]; exact ⟨M, hkw, hMb.symm.trans (hp.symm.trans hNa)⟩
      | record gs =>
        simp only [planArms, planArmsWith, hnever, Bool.false_eq_true, ↓reduceIte, planCore]
        exact ⟨hfs, by simpa [tyOk] using hb, fun hp => slot_rv hk hb (Or.inr (Or.inl ⟨gs, rfl, hp.symm.trans hNa⟩))⟩
      | name n args =>
        simp only [planArms, planArmsWith, hnever, Bool.false_eq_true, ↓reduceIte, planCore]
        cases hr : d.recordFields n with
        | none => trivial
        | some nfs =>
          exact ⟨hfs, hd n nfs hr, fun hp => slot_rv hk hb (Or.inr (Or.inr ⟨n, args, nfs, rfl, hr, hp.symm.trans hNa⟩))⟩
      | _ => simp only [planArms, planArmsWith, hnever, Bool.false_eq_true, ↓reduceIte, planCore]; trivial
    | record fs =>
      cases b with
      | var w => simp only [planArms, planArmsWith, hnever, Bool.false_eq_true, ↓reduceIte, planCore]; exact plan_var (kind_of_tyOk_var hb) ha
      | recordVar w gs =>
        simp only [planArms, planArmsWith, hnever, Bool.false_eq_true, ↓reduceIte, planCore]
        obtain ⟨⟨M, hk⟩, hgs⟩ := kind_of_tyOk_rec hb
        have hMb := root_fields (hrb w rfl).2 hk
        exact ⟨by simpa [tyOk] using ha, hgs, fun hp => slot_rv hk ha (Or.inr (Or.inl ⟨fs, rfl, hp.trans hMb⟩))⟩
      | _ => simp only [planArms, planArmsWith, hnever, Bool.false_eq_true, ↓reduceIte, planCore]; trivial
    | func ps r =>
      cases b with
      | var w => simp only [planArms, planArmsWith, hnever, Bool.false_eq_true, ↓reduceIte, planCore]; exact plan_var (kind_of_tyOk_var hb) ha
      | func qs q =>
        simp only [planArms, planArmsWith, hnever, Bool.false_eq_true, ↓reduceIte, planCore]
        simp only [tyOk, Bool.and_eq_true] at ha hb
        exact ⟨ha.1, hb.1, ha.2, hb.2⟩
      | _ => simp only [planArms, planArmsWith, hnever, Bool.false_eq_true, ↓reduceIte, planCore]; trivial
    | name n args =>
      cases b with
      | var w => simp only [planArms, planArmsWith, hnever, Bool.false_eq_true, ↓reduceIte, planCore]; exact plan_var (kind_of_tyOk_var hb) ha
      | intVar w sg => simp only [planArms, planArmsWith, hnever, Bool.false_eq_true, ↓reduceIte, planCore]; exact plan_int_name hb ha (hrb w rfl)
      | floatVar w => simp only [planArms, planArmsWith, hnever, Bool.false_eq_true, ↓reduceIte, planCore]; exact plan_float_name hb ha
      | recordVar w gs =>
        simp only [planArms, planArmsWith, hnever, Bool.false_eq_true, ↓reduceIte, planCore]
        obtain ⟨⟨M, hk⟩, hgs⟩ := kind_of_tyOk_rec hb
        have hMb := root_fields (hrb w rfl).2 hk
        cases hr : d.recordFields n with
        | none => trivial
        | some nfs =>
          exact ⟨hgs, hd n nfs hr, fun hp => slot_rv hk ha (Or.inr (Or.inr ⟨n, args, nfs, rfl, hr, hp.symm.trans hMb⟩))⟩
      | name m args' =>
        simp only [planArms, planArmsWith, hnever, Bool.false_eq_true, ↓reduceIte, planCore]
        split
        · trivial
        · simp only [tyOk] at ha hb
          exact ⟨ha, hb⟩
      | _ => simp only [planArms, planArmsWith, hnever, Bool.false_eq_true, ↓reduceIte, planCore]; trivial

theorem takeField_perm {n : Nat} : ∀ {fs : List (Nat × MTy)} {t : MTy} {rest : List (Nat × MTy)},
    takeField n fs = some (t, rest) → (fnames fs).Perm (n :: fnames rest) := by
  intro fs
  induction fs with
  | nil => intro t rest h; simp [takeField] at h
  | cons f fs ih =>
    intro t rest h
    obtain ⟨m, u⟩ := f
    simp only [takeField] at h
    by_cases hm : (m == n) = true
    · simp only [hm, ↓reduceIte, Option.some.injEq, Prod.mk.injEq] at h
      obtain ⟨_, h2⟩ := h
      subst h2
      have : m = n := by simpa using hm
      subst this
      exact List.Perm.refl _
    · simp only [hm, Bool.false_eq_true, ↓reduceIte] at h
      cases ht : takeField n fs with
      | none => simp [ht] at h
      | some p =>
        obtain ⟨u', rest'⟩ := p
        simp only [ht, Option.some.injEq, Prod.mk.injEq] at h
        obtain ⟨_, h2⟩ := h
        subst h2
        have := ih ht
        simp only [fnames, List.map_cons] at this ⊢
        exact (List.Perm.cons m this).trans (List.Perm.swap n m _)

/-- a successful `unify_fields` loop has found every name of `a` in `b` -/
theorem unifyFieldsRest_perm (d : Defs) : ∀ (fuel : Nat) (s : Store) (afs bfs : List (Nat × MTy)) (u : Unit)
    (s' : Store), unifyFieldsRest d fuel s afs bfs = .ok u s' →
    ∃ rest : List Nat, (fnames bfs).Perm (fnames afs ++ rest) := by
  intro fuel
  induction fuel with
  | zero => intro s afs bfs u s' h; simp [unifyFieldsRest] at h
  | succ fuel ih =>
    intro s afs bfs u s' h
    cases afs with
    | nil => exact ⟨fnames bfs, by simp [fnames]⟩
    | cons f arest =>
      obtain ⟨n, at_⟩ := f
      simp only [unifyFieldsRest] at h
      cases ht : takeField n bfs with
      | none => simp [ht] at h
      | some p =>
        obtain ⟨bt, brest⟩ := p
        simp only [ht] at h
        cases hu : unify d fuel s at_ bt with
        | ok t1 s1 =>
          simp only [hu] at h
          obtain ⟨rest, hr⟩ := ih s1 arest brest u s' h
          refine ⟨rest, ?_⟩
          have h1 := takeField_perm ht
          simp only [fnames, List.map_cons, List.cons_append] at h1 hr ⊢
          exact h1.trans (List.Perm.cons n hr)
        | fail s1 => simp [hu] at h
        | ice => simp [hu] at h
        | stuck => simp [hu] at h

theorem unifyFields_perm (d : Defs) (fuel : Nat) (s : Store) (afs bfs : List (Nat × MTy)) (u : Unit)
    (s' : Store) (h : unifyFields d fuel s afs bfs = .ok u s') : (fnames afs).Perm (fnames bfs) := by
  cases fuel with
  | zero => simp [unifyFields] at h
  | succ fuel =>
    simp only [unifyFields] at h
    by_cases hl : (afs.length != bfs.length) = true
    · simp [hl] at h
    · simp only [hl, Bool.false_eq_true, ↓reduceIte] at h
      obtain ⟨rest, hr⟩ := unifyFieldsRest_perm d fuel s afs bfs u s' h
      have hlen := hr.length_eq
      simp only [fnames, List.length_map, List.length_append] at hlen
      have hll : afs.length = bfs.length := by simpa using hl
      have : rest = [] := List.eq_nil_of_length_eq_zero (by omega)
      subst this
      simpa using hr.symm

/-- the store a unification leaves behind (success or mismatch) satisfies the invariant -/
def ResInv {α : Type} (d : Defs) (K : Nat → Kind) (D : Nat → Bool) : Res α → Prop
  | .ok _ s => Inv d K D s
  | .fail s => Inv d K D s
  | .ice => True
  | .stuck => True

theorem unify_preserves (d : Defs) (K : Nat → Kind) (D : Nat → Bool) (hd : DefsOk d K) : ∀ fuel,
    (∀ s a b, Inv d K D s → tyOk K a = true → tyOk K b = true → ResInv d K D (unify d fuel s a b)) ∧
    (∀ s xs ys, Inv d K D s → listOk K xs = true → listOk K ys = true →
      ResInv d K D (unifyZip d fuel s xs ys)) ∧
    (∀ s afs bfs, Inv d K D s → fieldsOk K afs = true → fieldsOk K bfs = true →
      ResInv d K D (unifyFields d fuel s afs bfs)) ∧
    (∀ s afs bfs, Inv d K D s → fieldsOk K afs = true → fieldsOk K bfs = true →
      ResInv d K D (unifyFieldsRest d fuel s afs bfs)) := by
  intro fuel
  induction fuel with
  | zero =>
    refine ⟨?_, ?_, ?_, ?_⟩ <;> intros <;> simp [unify, unifyZip, unifyFields, unifyFieldsRest, ResInv]
  | succ fuel ih =>
    obtain ⟨ihU, ihZ, ihF, ihR⟩ := ih
    refine ⟨?_, ?_, ?_, ?_⟩
    · intro s a b hI ha hb
      simp only [unify]
      cases hra : resolve s a with
      | none => simp [ResInv]
      | some a' =>
        cases hrb : resolve s b with
        | none => simp [ResInv]
        | some b' =>
          simp only
          obtain ⟨ha', hroota⟩ := resolve_spec hI a a' ha hra
          obtain ⟨hb', hrootb⟩ := resolve_spec hI b b' hb hrb
          have hp := plan_ok (D := D) (s := s) hd a' b' (fuel + 1) ha' hb' hroota hrootb
          cases hpl : plan d s (fuel + 1) a' b' with
          | same t => exact hI
          | bind v t =>
            rw [hpl] at hp
            exact hI.set v t (fun _ => hp)
          | fail => exact hI
          | ice => trivial
          | stuck => trivial
          | fieldsThenBind afs bfs v t =>
            rw [hpl] at hp
            obtain ⟨h1, h2, h3⟩ := hp
            have := ihF s afs bfs hI h1 h2
            simp only
            cases hf : unifyFields d fuel s afs bfs with
            | ok u s' =>
              have hperm := unifyFields_perm d fuel s afs bfs u s' hf
              rw [hf] at this; exact Inv.set this v t (fun _ => h3 hperm)
            | fail s' => rw [hf] at this; exact this
            | ice => trivial
            | stuck => trivial
          | zip xs ys t =>
            rw [hpl] at hp
            have := ihZ s xs ys hI hp.1 hp.2
            simp only
            cases hz : unifyZip d fuel s xs ys with
            | ok u s' => rw [hz] at this; exact this
            | fail s' => rw [hz] at this; exact this
            | ice => trivial
            | stuck => trivial
          | zipThen xs ys x y t =>
            rw [hpl] at hp
            obtain ⟨h1, h2, h3, h4⟩ := hp
            have := ihZ s xs ys hI h1 h2
            simp only
            cases hz : unifyZip d fuel s xs ys with
            | ok u s' =>
              rw [hz] at this
              have h5 := ihU s' x y this h3 h4
              simp only
              cases hu : unify d fuel s' x y with
              | ok u' s'' => rw [hu] at h5; exact h5
              | fail s'' => rw [hu] at h5; exact h5
              | ice => trivial
              | stuck => trivial
            | fail s' => rw [hz] at this; exact this
            | ice => trivial
            | stuck => trivial
    · intro s xs ys hI hxs hys
      cases xs with
      | nil => simp only [unifyZip]; exact hI
      | cons x xs =>
        cases ys with
        | nil => simp only [unifyZip]; exact hI
        | cons y ys =>
          simp only [unifyZip]
          simp only [listOk, Bool.and_eq_true] at hxs hys
          have := ihU s x y hI hxs.1 hys.1
          cases hu : unify d fuel s x y with
          | ok u s' => rw [hu] at this; exact ihZ s' xs ys this hxs.2 hys.2
          | fail s' => rw [hu] at this; exact this
          | ice => trivial
          | stuck => trivial
    · intro s afs bfs hI ha hb
      simp only [unifyFields]
      split
      · exact hI
      · exact ihR s afs bfs hI ha hb
    · intro s afs bfs hI ha hb
      cases afs with
      | nil => simp only [unifyFieldsRest]; exact hI
      | cons f arest =>
        obtain ⟨n, at_⟩ := f
        simp only [unifyFieldsRest]
        simp only [fieldsOk, Bool.and_eq_true] at ha
        cases ht : takeField n bfs with
        | none => exact hI
        | some p =>
          obtain ⟨bt, brest⟩ := p
          obtain ⟨hbt, hbrest⟩ := takeField_ok hb ht
          simp only
          have := ihU s at_ bt hI ha.1 hbt
          cases hu : unify d fuel s at_ bt with
          | ok u s' => rw [hu] at this; exact ihR s' arest brest this ha.2 hbrest
          | fail s' => rw [hu] at this; exact this
          | ice => trivial
          | stuck => trivial

/-! ### what a slot resolves to -/

/-- what `find` may return for a slot of each kind -/
def Resolved (d : Defs) (K : Nat → Kind) (D : Nat → Bool) (i : Nat) (t : MTy) : Prop :=
  match K i with
  | .tv => True
  | .iv =>
    (∃ j sg, t = .intVar j sg ∧ (D i = true → sg = true)) ∨
    (∃ n, t = .name n [] ∧ d.isInt n = true ∧ (D i = true → d.isSignedInt n = true))
  | .fv => (∃ j, t = .floatVar j) ∨ (∃ n, t = .name n [] ∧ d.isFloat n = true)
  | .rv N =>
    (∃ j fs, t = .recordVar j fs ∧ (fnames fs).Perm N) ∨ (∃ fs, t = .record fs ∧ (fnames fs).Perm N) ∨
    (∃ n args nfs, t = .name n args ∧ d.recordFields n = some nfs ∧ (fnames nfs).Perm N)

theorem find_resolved {d K D s} (h : Inv d K D s) : ∀ fuel i t, find s fuel i = some t →
    Resolved d K D i t := by
  intro fuel
  induction fuel with
  | zero => intro i t hf; simp [find] at hf
  | succ fuel ih =>
    intro i t hf
    simp only [find] at hf
    cases hs : s[i]? with
    | none => simp [hs] at hf
    | some u =>
      simp only [hs] at hf
      have hslot := h.slot i u hs
      cases hv : u.varIndex with
      | none =>
        simp only [hv] at hf
        injection hf with hf; subst hf
        unfold Resolved
        have h2 := hslot.2
        cases hk : K i with
        | tv => trivial
        | iv =>
          rw [hk] at h2
          rcases h2 with ⟨j, sg, he, _⟩ | h2
          · subst he; simp [MTy.varIndex] at hv
          · exact Or.inr h2
        | fv => rw [hk] at h2; exact h2
        | rv N =>
          rw [hk] at h2
          rcases h2 with ⟨j, fs, he, _⟩ | h2
          · subst he; simp [MTy.varIndex] at hv
          · exact Or.inr h2
      | some j =>
        simp only [hv] at hf
        by_cases hji : j = i
        · subst hji
          simp only [bne_self_eq_false, Bool.false_eq_true, ↓reduceIte] at hf
          injection hf with hf; subst hf
          unfold Resolved
          have h2 := hslot.2
          cases hk : K j with
          | tv => trivial
          | iv =>
            rw [hk] at h2
            rcases h2 with ⟨j', sg, he, hj⟩ | h2
            · subst he
              simp only [MTy.varIndex, Option.some.injEq] at hv
              subst hv
              simp only [↓reduceIte] at hj
              exact Or.inl ⟨j', sg, rfl, fun hd => by rw [hj] at hd; exact hd⟩
            · exact Or.inr h2
          | fv => rw [hk] at h2; exact h2
          | rv N =>
            rw [hk] at h2
            rcases h2 with ⟨j', fs, he, hj⟩ | h2
            · subst he
              simp only [MTy.varIndex, Option.some.injEq] at hv
              subst hv
              simp only [↓reduceIte] at hj
              exact Or.inl ⟨j', fs, rfl, hj⟩
            · exact Or.inr h2
        · have hne : (j != i) = true := by simpa using hji
          simp only [hne, ↓reduceIte] at hf
          -- a pointer: the kind and the demand are inherited by the target
          have hrec := ih j t hf
          have h2 := hslot.2
          unfold Resolved at hrec ⊢
          cases hk : K i with
          | tv => trivial
          | iv =>
            rw [hk] at h2
            rcases h2 with ⟨j', sg, he, hj⟩ | ⟨n, he, _⟩
            · subst he
              simp only [MTy.varIndex, Option.some.injEq] at hv
              subst hv
              have hkj : K j' = .iv := by simpa [tyOk] using hslot.1
              rw [hkj] at hrec
              rw [if_neg hji] at hj
              rcases hrec with ⟨j2, sg2, he2, hs2⟩ | ⟨n, he2, hi2, hs2⟩
              · exact Or.inl ⟨j2, sg2, he2, fun hd => hs2 (hj hd)⟩
              · exact Or.inr ⟨n, he2, hi2, fun hd => hs2 (hj hd)⟩
            · subst he; simp [MTy.varIndex] at hv
          | fv =>
            rw [hk] at h2
            rcases h2 with ⟨j', he⟩ | ⟨n, he, _⟩
            · subst he
              simp only [MTy.varIndex, Option.some.injEq] at hv
              subst hv
              have hkj : K j' = .fv := by simpa [tyOk] using hslot.1
              rw [hkj] at hrec
              exact hrec
            · subst he; simp [MTy.varIndex] at hv
          | rv N =>
            rw [hk] at h2
            rcases h2 with ⟨j', fs, he, hj⟩ | ⟨fs, he, _⟩ | ⟨n, args, nfs, he, _⟩
            · subst he
              simp only [MTy.varIndex, Option.some.injEq] at hv
              subst hv
              rw [if_neg hji] at hj
              obtain ⟨N', hkj, hperm⟩ := hj
              rw [hkj] at hrec
              rcases hrec with ⟨j2, fs2, he2, hp2⟩ | ⟨fs2, he2, hp2⟩ | ⟨n2, args2, nfs2, he2, hr2, hp2⟩
              · exact Or.inl ⟨j2, fs2, he2, hp2.trans hperm⟩
              · exact Or.inr (Or.inl ⟨fs2, he2, hp2.trans hperm⟩)
              · exact Or.inr (Or.inr ⟨n2, args2, nfs2, he2, hr2, hp2.trans hperm⟩)
            · subst he; simp [MTy.varIndex] at hv
            · subst he; simp [MTy.varIndex] at hv

/-! ### histories: everything the type checker does to the store -/

/-- one step of the checker on the union-find store -/
inductive Op
  /-- `fresh_var` / `fresh_int` / `fresh_float` / `fresh_record(fields)` -/
  | fresh (k : Kind) (fields : List (Nat × MTy))
  /-- `unify(a, b)` -/
  | unify (a b : MTy)
  /-- `Negate` on an operand of type `t` -/
  | mark (t : MTy)

def Op.kinds : List Op → List Kind
  | [] => []
  | .fresh k _ :: rest => k :: Op.kinds rest
  | _ :: rest => Op.kinds rest

/-- the kind slot `j` is (going to be) created with -/
def kindOf (ops : List Op) (j : Nat) : Kind := (Op.kinds ops)[j]?.getD .tv

def Op.ok (K : Nat → Kind) : Op → Bool
  | .fresh k fs =>
    fieldsOk K fs && (match k with
      | .rv N => decide (N = fnames fs)   -- a record variable is created with the names of its fields
      | _ => true)
  | .unify a b => tyOk K a && tyOk K b
  | .mark t => tyOk K t

structure St where
  s : Store
  /-- which integer-literal variables have been negated (must be signed) -/
  D : Nat → Bool

def freshTy (k : Kind) (n : Nat) (fs : List (Nat × MTy)) : MTy :=
  match k with
  | .tv => .var n
  | .iv => .intVar n false
  | .fv => .floatVar n
  | .rv _ => .recordVar n fs

def step (d : Defs) (fuel : Nat) (st : St) : Op → St
  | .fresh k fs => { st with s := st.s ++ [freshTy k st.s.length fs] }
  | .unify a b =>
    match unify d fuel st.s a b with
    | .ok _ s => { st with s := s }
    | .fail s => { st with s := s }
    | _ => st
  | .mark t =>
    match resolve st.s t with
    | some (.intVar i false) =>
      { s := setSlot st.s i (.intVar i true), D := fun j => if j = i then true else st.D j }
    | _ => st

def run (d : Defs) (fuel : Nat) (ops : List Op) : St :=
  ops.foldl (step d fuel) ⟨[], fun _ => false⟩

theorem kinds_append (xs ys : List Op) : Op.kinds (xs ++ ys) = Op.kinds xs ++ Op.kinds ys := by
  induction xs with
  | nil => rfl
  | cons x xs ih => cases x <;> simp [Op.kinds, ih]

theorem SlotOk.mono {d : Defs} {K : Nat → Kind} {D : Nat → Bool} {i k : Nat} {t : MTy}
    (h : SlotOk d K D k t) (hki : k ≠ i) (hDi : D i = false ∨ True) :
    SlotOk d K (fun j => if j = i then true else D j) k t := by
  refine ⟨h.1, ?_⟩
  have h2 := h.2
  cases hk : K k with
  | tv => trivial
  | fv => rw [hk] at h2; exact h2
  | rv N => rw [hk] at h2; exact h2
  | iv =>
    rw [hk] at h2
    simp only [if_neg hki]
    rcases h2 with ⟨j, sg, he, hj⟩ | ⟨n, he, hi, hs⟩
    · refine Or.inl ⟨j, sg, he, ?_⟩
      by_cases hjk : j = k
      · rw [if_pos hjk] at hj ⊢; exact hj
      · rw [if_neg hjk] at hj ⊢
        intro hd
        by_cases hji : j = i
        · simp [hji]
        · simp only [if_neg hji]; exact hj hd
    · exact Or.inr ⟨n, he, hi, hs⟩

theorem step_preserves (d : Defs) (fuel : Nat) (K : Nat → Kind) (hd : DefsOk d K)
    (st : St) (op : Op) (hI : Inv d K st.D st.s) (hop : op.ok K = true)
    (hk : ∀ k fs, op = .fresh k fs → K st.s.length = k) :
    Inv d K (step d fuel st op).D (step d fuel st op).s := by
  cases op with
  | fresh k fs =>
    simp only [step]
    have hkk := hk k fs rfl
    constructor
    · intro i t hi
      by_cases hlt : i < st.s.length
      · rw [List.getElem?_append_left hlt] at hi
        exact hI.slot i t hi
      · by_cases heq : i = st.s.length
        · subst heq
          rw [List.getElem?_append_right (Nat.le_refl _)] at hi
          simp only [Nat.sub_self, List.getElem?_cons_zero, Option.some.injEq] at hi
          subst hi
          have hDf := hI.fresh st.s.length (Nat.le_refl _)
          simp only [Op.ok, Bool.and_eq_true] at hop
          cases k with
          | tv => exact ⟨by simp [freshTy, tyOk, hkk], by rw [hkk]; trivial⟩
          | iv =>
            refine ⟨by simp [freshTy, tyOk, hkk], ?_⟩
            rw [hkk]
            exact Or.inl ⟨st.s.length, false, rfl, by simp [hDf]⟩
          | fv =>
            refine ⟨by simp [freshTy, tyOk, hkk], ?_⟩
            rw [hkk]
            exact Or.inl ⟨st.s.length, rfl⟩
          | rv N =>
            have hN : N = fnames fs := by simpa using hop.2
            refine ⟨by simp [freshTy, tyOk, hkk, hop.1, Kind.isRv], ?_⟩
            rw [hkk]
            exact Or.inl ⟨st.s.length, fs, rfl, by simp [hN]⟩
        · have : st.s.length + 1 ≤ i := by omega
          rw [List.getElem?_eq_none (by simp; omega)] at hi
          cases hi
    · intro j hj
      simp only [List.length_append, List.length_cons, List.length_nil] at hj
      exact hI.fresh j (by omega)
  | unify a b =>
    simp only [step]
    simp only [Op.ok, Bool.and_eq_true] at hop
    have := (unify_preserves d K st.D hd fuel).1 st.s a b hI hop.1 hop.2
    cases hu : unify d fuel st.s a b with
    | ok u s' => rw [hu] at this; exact this
    | fail s' => rw [hu] at this; exact this
    | ice => exact hI
    | stuck => exact hI
  | mark t =>
    simp only [step]
    simp only [Op.ok] at hop
    cases hr : resolve st.s t with
    | none => exact hI
    | some t' =>
      obtain ⟨ht', hroot⟩ := resolve_spec hI t t' hop hr
      cases t' with
      | intVar i sg =>
        cases sg with
        | true => exact hI
        | false =>
          simp only
          obtain ⟨hsi, hslot⟩ := hroot i rfl
          have hki := kind_of_tyOk_int ht'
          have hlt : i < st.s.length := by
            by_cases h : i < st.s.length
            · exact h
            · rw [List.getElem?_eq_none (by omega)] at hsi; cases hsi
          constructor
          · intro k u hk'
            unfold setSlot at hk'
            by_cases hik : i = k
            · subst hik
              rw [List.getElem?_set_self hlt] at hk'
              injection hk' with hk'; subst hk'
              refine ⟨by simp [tyOk, hki], ?_⟩
              rw [hki]
              exact Or.inl ⟨i, true, rfl, by simp⟩
            · rw [List.getElem?_set_ne hik] at hk'
              exact (hI.slot k u hk').mono (fun h => hik h.symm) (Or.inr trivial)
          · intro j hj
            unfold setSlot at hj
            rw [List.length_set] at hj
            have : j ≠ i := by omega
            simp only [if_neg this]
            exact hI.fresh j hj
      | _ => exact hI

/-- unification never changes the number of slots -/
def ResLen {α : Type} (n : Nat) : Res α → Prop
  | .ok _ s => s.length = n
  | .fail s => s.length = n
  | .ice => True
  | .stuck => True

theorem unify_length (d : Defs) : ∀ fuel,
    (∀ s a b, ResLen s.length (unify d fuel s a b)) ∧
    (∀ s xs ys, ResLen s.length (unifyZip d fuel s xs ys)) ∧
    (∀ s afs bfs, ResLen s.length (unifyFields d fuel s afs bfs)) ∧
    (∀ s afs bfs, ResLen s.length (unifyFieldsRest d fuel s afs bfs)) := by
  intro fuel
  induction fuel with
  | zero =>
    refine ⟨?_, ?_, ?_, ?_⟩ <;> intros <;> simp [unify, unifyZip, unifyFields, unifyFieldsRest, ResLen]
  | succ fuel ih =>
    obtain ⟨ihU, ihZ, ihF, ihR⟩ := ih
    refine ⟨?_, ?_, ?_, ?_⟩
    · intro s a b
      simp only [unify]
      cases resolve s a with
      | none => simp [ResLen]
      | some a' =>
        cases resolve s b with
        | none => simp [ResLen]
        | some b' =>
          simp only
          cases plan d s (fuel + 1) a' b' with
          | same t => simp [ResLen]
          | bind v t => simp [ResLen, setSlot]
          | fail => simp [ResLen]
          | ice => trivial
          | stuck => trivial
          | fieldsThenBind afs bfs v t =>
            have := ihF s afs bfs
            simp only
            cases hf : unifyFields d fuel s afs bfs with
            | ok u s' => rw [hf] at this; simpa [ResLen, setSlot] using this
            | fail s' => rw [hf] at this; exact this
            | ice => trivial
            | stuck => trivial
          | zip xs ys t =>
            have := ihZ s xs ys
            simp only
            cases hz : unifyZip d fuel s xs ys with
            | ok u s' => rw [hz] at this; exact this
            | fail s' => rw [hz] at this; exact this
            | ice => trivial
            | stuck => trivial
          | zipThen xs ys x y t =>
            have := ihZ s xs ys
            simp only
            cases hz : unifyZip d fuel s xs ys with
            | ok u s' =>
              rw [hz] at this
              have h5 := ihU s' x y
              simp only
              cases hu : unify d fuel s' x y with
              | ok u' s'' => rw [hu] at h5; simp only [ResLen] at this h5 ⊢; omega
              | fail s'' => rw [hu] at h5; simp only [ResLen] at this h5 ⊢; omega
              | ice => trivial
              | stuck => trivial
            | fail s' => rw [hz] at this; exact this
            | ice => trivial
            | stuck => trivial
    · intro s xs ys
      cases xs with
      | nil => simp [unifyZip, ResLen]
      | cons x xs =>
        cases ys with
        | nil => simp [unifyZip, ResLen]
        | cons y ys =>
          simp only [unifyZip]
          have := ihU s x y
          cases hu : unify d fuel s x y with
          | ok u s' =>
            rw [hu] at this
            have h2 := ihZ s' xs ys
            simp only [ResLen] at this
            rw [this] at h2; exact h2
          | fail s' => rw [hu] at this; exact this
          | ice => trivial
          | stuck => trivial
    · intro s afs bfs
      simp only [unifyFields]
      split
      · simp [ResLen]
      · exact ihR s afs bfs
    · intro s afs bfs
      cases afs with
      | nil => simp [unifyFieldsRest, ResLen]
      | cons f arest =>
        obtain ⟨n, at_⟩ := f
        simp only [unifyFieldsRest]
        cases takeField n bfs with
        | none => simp [ResLen]
        | some p =>
          obtain ⟨bt, brest⟩ := p
          simp only
          have := ihU s at_ bt
          cases hu : unify d fuel s at_ bt with
          | ok u s' =>
            rw [hu] at this
            have h2 := ihR s' arest brest
            simp only [ResLen] at this
            rw [this] at h2; exact h2
          | fail s' => rw [hu] at this; exact this
          | ice => trivial
          | stuck => trivial

theorem step_length (d : Defs) (fuel : Nat) (st : St) (op : Op) :
    (step d fuel st op).s.length = st.s.length + (Op.kinds [op]).length := by
  cases op with
  | fresh k fs => simp [step, Op.kinds]
  | unify a b =>
    simp only [step, Op.kinds, List.length_nil, Nat.add_zero]
    have := (unify_length d fuel).1 st.s a b
    cases hu : unify d fuel st.s a b with
    | ok u s' => rw [hu] at this; exact this
    | fail s' => rw [hu] at this; exact this
    | ice => rfl
    | stuck => rfl
  | mark t =>
    simp only [step, Op.kinds, List.length_nil, Nat.add_zero]
    cases resolve st.s t with
    | none => rfl
    | some t' =>
      cases t' with
      | intVar i sg => cases sg <;> simp [setSlot]
      | _ => rfl

/-- the invariant holds after every history of well-formed steps -/
theorem run_inv (d : Defs) (fuel : Nat) (ops : List Op) (hd : DefsOk d (kindOf ops))
    (hwf : ∀ op ∈ ops, op.ok (kindOf ops) = true) :
    Inv d (kindOf ops) (run d fuel ops).D (run d fuel ops).s := by
  -- generalise over the prefix already processed
  have key : ∀ (post pre : List Op) (st : St), ops = pre ++ post →
      Inv d (kindOf ops) st.D st.s → st.s.length = (Op.kinds pre).length →
      Inv d (kindOf ops) (post.foldl (step d fuel) st).D (post.foldl (step d fuel) st).s := by
    intro post
    induction post with
    | nil => intro pre st _ hI _; exact hI
    | cons op post ih =>
      intro pre st hsplit hI hlen
      simp only [List.foldl_cons]
      have hmem : op ∈ ops := by rw [hsplit]; simp
      have hI' := step_preserves d fuel (kindOf ops) hd st op hI (hwf op hmem) (by
        intro k fs he
        subst he
        unfold kindOf
        rw [hsplit, kinds_append, hlen]
        simp [Op.kinds])
      refine ih (pre ++ [op]) _ (by simp [hsplit]) hI' ?_
      rw [step_length, kinds_append, List.length_append, hlen]
  have := key ops [] ⟨[], fun _ => false⟩ rfl ⟨by intro i t hi; simp at hi, by intro j _; rfl⟩ rfl
  exact this

theorem step_D_mono (d : Defs) (fuel : Nat) (st : St) (op : Op) (j : Nat) (h : st.D j = true) :
    (step d fuel st op).D j = true := by
  cases op with
  | fresh k fs => exact h
  | unify a b =>
    simp only [step]
    cases unify d fuel st.s a b <;> exact h
  | mark t =>
    simp only [step]
    cases resolve st.s t with
    | none => exact h
    | some t' =>
      cases t' with
      | intVar i sg =>
        cases sg with
        | true => exact h
        | false => simp only; split <;> simp [h]
      | _ => exact h

theorem foldl_D_mono (d : Defs) (fuel : Nat) (ops : List Op) (st : St) (j : Nat) (h : st.D j = true) :
    (ops.foldl (step d fuel) st).D j = true := by
  induction ops generalizing st with
  | nil => exact h
  | cons op rest ih => exact ih _ (step_D_mono d fuel st op j h)

/-- a `Negate` on an integer-literal variable is remembered for the rest of the history -/
theorem mark_persists (d : Defs) (fuel : Nat) (pre post : List Op) (t : MTy) (i : Nat)
    (h : resolve (run d fuel pre).s t = some (.intVar i false)) :
    (run d fuel (pre ++ .mark t :: post)).D i = true := by
  unfold run at h ⊢
  rw [List.foldl_append, List.foldl_cons]
  apply foldl_D_mono
  simp only [step, h]
  simp

end RotoV.Unify
