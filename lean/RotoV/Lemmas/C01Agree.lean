/-
  C01Agree: on the common fragment (`Model/C01Resolve`) C01's reference
  interpreter `Spec` and the order specification `TraceSpec` define the same
  value.  `agree_all`: whenever `Spec` evaluates a piece of a resolved program
  to a value (or leaves the function with one), `TraceSpec` does the same on the
  translated piece for every sufficiently large fuel — by induction on Spec's
  fuel, for all programs, environments and arguments.

  Core Lean only.
-/
import RotoV.Model.C01Resolve
import RotoV.Lemmas.TraceSpec

namespace RotoV.C01Agree
open RotoV RotoV.C01Resolve

/-! ### results -/

theorem sbind_ok {α β} {r : Spec.R α} {f : α → Spec.R β} {b : β} :
    (r >>= f) = .ok b ↔ ∃ a, r = .ok a ∧ f a = .ok b := by
  cases r <;> simp [bind, Spec.R.bind]

theorem sbind_ret {α β} {r : Spec.R α} {f : α → Spec.R β} {v : Spec.Val} :
    (r >>= f) = .ret v ↔ r = .ret v ∨ ∃ a, r = .ok a ∧ f a = .ret v := by
  cases r <;> simp [bind, Spec.R.bind]

theorem spure_ok {α} {a b : α} : (pure a : Spec.R α) = .ok b ↔ a = b := by
  simp [pure]

theorem spure_ret {α} {a : α} {v : Spec.Val} : (pure a : Spec.R α) = .ret v ↔ False := by
  simp [pure]

/-- the outcome of a sequenced `TraceSpec` evaluation -/
theorem tbind_out {α β} (r : TraceSpec.R α) (f : α → TraceSpec.R β) :
    (r >>= f).out = match r.out with
      | .ok a => (f a).out
      | .ret v => .ret v
      | .fuel => .fuel
      | .stuck w => .stuck w := by
  rw [TraceSpec.bind_eq]
  unfold TraceSpec.R.bind
  cases r.out <;> rfl

theorem tpure_out {α} (a : α) : (pure a : TraceSpec.R α).out = .ok a := rfl

/-- for every sufficiently large fuel the outcome is `o` -/
def Ev {α} (f : Nat → TraceSpec.R α) (o : TraceSpec.Out α) : Prop := ∃ M, ∀ m, M ≤ m → (f m).out = o

/-! ### variables -/

theorem resolveVar_lt : ∀ (ρ : List String) (x : String) (i : Nat), resolveVar ρ x = some i → i < ρ.length
  | [], _, _, h => by simp [resolveVar] at h
  | y :: ρ, x, i, h => by
    simp only [resolveVar] at h
    split at h
    · cases h; simp
    · have := resolveVar_lt ρ x i h; simp; omega

/-- Related environments: the same variables, innermost first; the variable at depth `d`
    from the bottom has number `d`; related values. -/
inductive Rel : Spec.Env → TraceSpec.Env → Prop
  | nil : Rel [] []
  | cons {x v v' eS eT} : encVal v = some v' → Rel eS eT → Rel ((x, v) :: eS) ((eS.length, v') :: eT)

theorem Rel.keys_lt : ∀ {eS eT}, Rel eS eT → ∀ p ∈ eT, p.1 < eS.length
  | _, _, .nil, p, hp => by simp at hp
  | _, _, .cons _ h, p, hp => by
    simp only [List.mem_cons] at hp
    rcases hp with rfl | hp
    · simp
    · have := h.keys_lt p hp; simp; omega

theorem lookup_none_of_keys : ∀ (eT : TraceSpec.Env) (i : Nat), (∀ p ∈ eT, p.1 ≠ i) → TraceSpec.lookup eT i = none
  | [], _, _ => rfl
  | (k, v) :: eT, i, h => by
    have hk : i ≠ k := fun hh => h (k, v) (by simp) hh.symm
    simp only [TraceSpec.lookup, hk, if_false]
    exact lookup_none_of_keys eT i (fun p hp => h p (by simp [hp]))

/-- a level that is not yet used is not visible -/
theorem Rel.lookup_ge {eS eT} (h : Rel eS eT) {i : Nat} (hi : eS.length ≤ i) : TraceSpec.lookup eT i = none :=
  lookup_none_of_keys eT i (fun p hp hh => by have := h.keys_lt p hp; omega)

theorem Rel.lookup : ∀ {eS eT}, Rel eS eT → ∀ {x i v}, resolveVar (eS.map Prod.fst) x = some i →
    Spec.lookup eS x = some v → ∃ v', encVal v = some v' ∧ TraceSpec.lookup eT i = some v'
  | _, _, .nil, x, i, v, hr, _ => by simp [resolveVar] at hr
  | _, _, .cons (x := y) (v := w) (v' := w') (eS := eS) (eT := eT) hw h, x, i, v, hr, hl => by
    simp only [List.map_cons, resolveVar] at hr
    simp only [Spec.lookup] at hl
    by_cases hxy : x = y
    · simp only [hxy, if_true, List.length_map] at hr hl
      cases hr; cases hl
      exact ⟨w', hw, by simp [TraceSpec.lookup]⟩
    · simp only [hxy, if_false] at hr hl
      obtain ⟨v', hv, hlk⟩ := h.lookup hr hl
      have hlt := resolveVar_lt _ _ _ hr
      simp only [List.length_map] at hlt
      refine ⟨v', hv, ?_⟩
      have : i ≠ eS.length := by omega
      simp [TraceSpec.lookup, this, hlk]

/-- a visible variable is bound in the `Spec` environment -/
theorem resolveVar_lookup : ∀ (eS : Spec.Env) (x : String) (i : Nat), resolveVar (eS.map Prod.fst) x = some i →
    ∃ v, Spec.lookup eS x = some v
  | [], _, _, h => by simp [resolveVar] at h
  | (y, w) :: eS, x, i, h => by
    simp only [List.map_cons, resolveVar] at h
    by_cases hxy : x = y
    · exact ⟨w, by simp [Spec.lookup, hxy]⟩
    · simp only [hxy, if_false] at h
      obtain ⟨v, hv⟩ := resolveVar_lookup eS x i h
      exact ⟨v, by simp [Spec.lookup, hxy, hv]⟩

theorem Rel.update : ∀ {eS eT}, Rel eS eT → ∀ {x i v v' eS'}, resolveVar (eS.map Prod.fst) x = some i →
    Spec.update eS x v = some eS' → encVal v = some v' →
    ∃ eT', TraceSpec.update eT i v' = some eT' ∧ Rel eS' eT' ∧ eS'.map Prod.fst = eS.map Prod.fst
  | _, _, .nil, x, i, v, v', eS', hr, _, _ => by simp [resolveVar] at hr
  | _, _, .cons (x := y) (v := w) (v' := w') (eS := eS) (eT := eT) hw h, x, i, v, v', eS', hr, hu, hv => by
    simp only [List.map_cons, resolveVar] at hr
    simp only [Spec.update] at hu
    by_cases hxy : x = y
    · simp only [hxy, if_true, List.length_map] at hr hu
      cases hr; cases hu
      exact ⟨(eS.length, v') :: eT, by simp [TraceSpec.update], .cons hv h, rfl⟩
    · simp only [hxy, if_false, Option.map_eq_some_iff] at hr hu
      obtain ⟨eS1, hu1, rfl⟩ := hu
      obtain ⟨eT1, hu2, hrel, hmap⟩ := h.update hr hu1 hv
      have hlt := resolveVar_lt _ _ _ hr
      simp only [List.length_map] at hlt
      have hne : i ≠ eS.length := by omega
      have hlen : eS1.length = eS.length := by
        have := congrArg List.length hmap; simpa using this
      refine ⟨(eS.length, w') :: eT1, by simp [TraceSpec.update, hne, hu2], ?_, by simp [hmap]⟩
      rw [← hlen]; exact .cons hw hrel

/-! ### leaving a scope -/

theorem filterMap_congr' {α β} {f g : α → Option β} : ∀ (l : List α), (∀ x ∈ l, f x = g x) →
    l.filterMap f = l.filterMap g
  | [], _ => rfl
  | x :: l, h => by
    simp only [List.filterMap_cons, h x (by simp)]
    rw [filterMap_congr' l (fun y hy => h y (by simp [hy]))]

theorem lookup_append_skip : ∀ (a b : TraceSpec.Env) (k : Nat), (∀ p ∈ a, p.1 ≠ k) →
    TraceSpec.lookup (a ++ b) k = TraceSpec.lookup b k
  | [], _, _, _ => rfl
  | (j, v) :: a, b, k, h => by
    have hk : k ≠ j := fun hh => h (j, v) (by simp) hh.symm
    simp only [List.cons_append, TraceSpec.lookup, hk, if_false]
    exact lookup_append_skip a b k (fun p hp => h p (by simp [hp]))

/-- the inner environment splits into the bindings made inside and the outer part -/
theorem Rel.split : ∀ (new : Spec.Env) {eS2 : Spec.Env} {eT1 : TraceSpec.Env}, Rel (new ++ eS2) eT1 →
    ∃ newT eT2, eT1 = newT ++ eT2 ∧ Rel eS2 eT2 ∧ ∀ p ∈ newT, eS2.length ≤ p.1
  | [], _, eT1, h => ⟨[], eT1, rfl, h, by simp⟩
  | (x, v) :: new, eS2, _, h => by
    cases h with
    | cons hv h' =>
      obtain ⟨newT, eT2, rfl, hrel, hk⟩ := Rel.split new h'
      refine ⟨_ :: newT, eT2, rfl, hrel, ?_⟩
      intro p hp
      simp only [List.mem_cons] at hp
      rcases hp with rfl | hp
      · simp
      · exact hk p hp

theorem leave_same : ∀ {a b : Spec.Env} {eT eT2 : TraceSpec.Env}, Rel a eT → Rel b eT2 → a.length = b.length →
    TraceSpec.leave eT eT2 = eT2
  | _, _, _, _, .nil, .nil, _ => rfl
  | _, _, _, _, .nil, .cons _ _, h => by simp at h
  | _, _, _, _, .cons _ _, .nil, h => by simp at h
  | _, _, _, _, .cons (eS := a) (eT := eT) (v' := v1) _ ha, .cons (eS := b) (eT := eT2) (v' := w1) _ hb, h => by
    simp only [List.length_cons, Nat.add_right_cancel_iff] at h
    have ih := leave_same ha hb h
    unfold TraceSpec.leave at ih ⊢
    simp only [List.filterMap_cons, TraceSpec.lookup, h, if_true, Option.map_some]
    congr 1
    refine Eq.trans (filterMap_congr' _ ?_) ih
    intro p hp
    have := ha.keys_lt p hp
    have hne : p.1 ≠ b.length := by omega
    simp [hne]

/-- `Spec` drops the bindings made inside a block, `TraceSpec` keeps the outer variables with
    their current values: the same environment. -/
theorem Rel.leave {eS eS1 : Spec.Env} {eT eT1 : TraceSpec.Env} {pre : List String}
    (h : Rel eS eT) (h1 : Rel eS1 eT1) (hm : eS1.map Prod.fst = pre ++ eS.map Prod.fst) :
    Rel (eS1.drop (eS1.length - eS.length)) (TraceSpec.leave eT eT1)
      ∧ (eS1.drop (eS1.length - eS.length)).map Prod.fst = eS.map Prod.fst := by
  obtain ⟨new, eS2, rfl, hnew, h2⟩ := List.map_eq_append_iff.mp hm
  have hlen : eS2.length = eS.length := by simpa using congrArg List.length h2
  have hdrop : (new ++ eS2).drop ((new ++ eS2).length - eS.length) = eS2 := by
    rw [List.length_append, ← hlen, Nat.add_sub_cancel]
    exact List.drop_left
  rw [hdrop]
  obtain ⟨newT, eT2, rfl, hrel, hk⟩ := Rel.split new h1
  refine ⟨?_, h2⟩
  have : TraceSpec.leave eT (newT ++ eT2) = TraceSpec.leave eT eT2 := by
    unfold TraceSpec.leave
    apply filterMap_congr'
    intro p hp
    have hlt := h.keys_lt p hp
    rw [lookup_append_skip newT eT2 p.1 (fun q hq hh => by have := hk q hq; omega)]
  rw [this, leave_same h hrel hlen.symm]
  exact hrel

/-! ### functions and parameters -/

theorem fnIndex_find : ∀ (fns : List Spec.FnDef) (f : String) (i : Nat), fnIndex (fns.map (·.name)) f = some i →
    ∃ fd, Spec.findFn fns f = some fd ∧ fns[i]? = some fd
  | [], _, _, h => by simp [fnIndex] at h
  | fd :: fns, f, i, h => by
    simp only [List.map_cons, fnIndex] at h
    by_cases hn : fd.name = f
    · simp only [hn, if_true] at h; cases h
      exact ⟨fd, by simp [Spec.findFn, hn], rfl⟩
    · simp only [hn, if_false, Option.map_eq_some_iff] at h
      obtain ⟨j, hj, rfl⟩ := h
      obtain ⟨fd', h1, h2⟩ := fnIndex_find fns f j hj
      refine ⟨fd', ?_, by simpa using h2⟩
      simp only [Spec.findFn] at h1 ⊢
      simp [hn, h1]

theorem trFns_get (fs : List String) : ∀ (fns : List Spec.FnDef) (fnsT : List TraceSpec.FnDef) (i : Nat) (fd : Spec.FnDef),
    trFns fs fns = some fnsT → fns[i]? = some fd → ∃ fd', trFn fs fd = some fd' ∧ fnsT[i]? = some fd'
  | [], _, _, _, _, h => by simp at h
  | g :: fns, fnsT, i, fd, ht, hi => by
    simp only [trFns] at ht
    split at ht
    · rename_i g' rest' hg hrest
      cases ht
      cases i with
      | zero => simp at hi; subst hi; exact ⟨g', hg, rfl⟩
      | succ i =>
        simp at hi
        obtain ⟨fd', h1, h2⟩ := trFns_get fs fns rest' i fd hrest hi
        exact ⟨fd', h1, by simpa using h2⟩
    · cases ht

theorem trFns_length (fs : List String) : ∀ (fns : List Spec.FnDef) (fnsT : List TraceSpec.FnDef),
    trFns fs fns = some fnsT → fnsT.length = fns.length
  | [], _, h => by simp [trFns] at h; subst h; rfl
  | g :: fns, fnsT, ht => by
    simp only [trFns] at ht
    split at ht
    · rename_i g' rest' hg hrest
      cases ht
      simp [trFns_length fs fns rest' hrest]
    · cases ht

theorem bindParams_rel : ∀ (ps : List (String × Spec.Ty)) (vs : List Spec.Val) (vs' : List TraceSpec.Val)
    (acc cenv : Spec.Env) (accT : TraceSpec.Env),
    Spec.bindParams ps vs acc = .ok cenv → encArgs vs = some vs' → Rel acc accT →
    ∃ cenvT, TraceSpec.bindParams (List.range' acc.length ps.length) vs' accT = some cenvT ∧ Rel cenv cenvT
      ∧ cenv.map Prod.fst = (ps.map Prod.fst).reverse ++ acc.map Prod.fst
  | [], [], vs', acc, cenv, accT, h, he, hr => by
    simp only [Spec.bindParams] at h; cases h
    simp only [encArgs] at he; cases he
    exact ⟨accT, by simp [TraceSpec.bindParams], hr, by simp⟩
  | [], _ :: _, _, _, _, _, h, _, _ => by simp [Spec.bindParams] at h
  | _ :: _, [], _, _, _, _, h, _, _ => by simp [Spec.bindParams] at h
  | (x, t) :: ps, v :: vs, vs', acc, cenv, accT, h, he, hr => by
    simp only [Spec.bindParams] at h
    split at h
    · simp only [encArgs] at he
      split at he
      · rename_i v' vs1 hv hvs
        cases he
        obtain ⟨cenvT, h1, h2, h3⟩ := bindParams_rel ps vs vs1 ((x, v) :: acc) cenv ((acc.length, v') :: accT) h hvs (.cons hv hr)
        refine ⟨cenvT, ?_, h2, ?_⟩
        · simp only [List.length_cons, List.range'_succ, TraceSpec.bindParams]
          simpa using h1
        · simp [h3]
      · cases he
    · cases h

/-! ### simulation of results -/

/-- `Spec`'s result `rS` is reproduced by `TraceSpec`'s `fT` for every sufficiently large fuel:
    a value related by `R`, or an in-flight `return` of the same value. (Nothing is claimed when
    `Spec` traps, runs out of fuel or is stuck.) -/
def Sim {α β} (R : α → β → Prop) (rS : Spec.R α) (fT : Nat → TraceSpec.R β) : Prop :=
  (∀ a, rS = .ok a → ∃ b, R a b ∧ Ev fT (.ok b))
  ∧ (∀ v, rS = .ret v → ∃ v', encVal v = some v' ∧ Ev fT (.ret v'))

theorem Sim.bind {α β γ δ} {R : α → β → Prop} {R' : γ → δ → Prop} {rS : Spec.R α} {fT : Nat → TraceSpec.R β}
    {gS : α → Spec.R γ} {gT : Nat → β → TraceSpec.R δ}
    (h : Sim R rS fT) (hg : ∀ a b, R a b → Sim R' (gS a) (fun m => gT m b)) :
    Sim R' (rS >>= gS) (fun m => fT m >>= gT m) := by
  constructor
  · intro c hc
    obtain ⟨a, ha, hga⟩ := sbind_ok.mp hc
    obtain ⟨b, hab, M1, h1⟩ := h.1 a ha
    obtain ⟨d, hcd, M2, h2⟩ := (hg a b hab).1 c hga
    refine ⟨d, hcd, max M1 M2, fun m hm => ?_⟩
    rw [tbind_out, h1 m (by omega)]
    exact h2 m (by omega)
  · intro v hv
    rcases sbind_ret.mp hv with hr | ⟨a, ha, hga⟩
    · obtain ⟨v', hv', M1, h1⟩ := h.2 v hr
      exact ⟨v', hv', M1, fun m hm => by rw [tbind_out, h1 m hm]⟩
    · obtain ⟨b, hab, M1, h1⟩ := h.1 a ha
      obtain ⟨v', hv', M2, h2⟩ := (hg a b hab).2 v hga
      refine ⟨v', hv', max M1 M2, fun m hm => ?_⟩
      rw [tbind_out, h1 m (by omega)]
      exact h2 m (by omega)

theorem Sim.pure {α β} {R : α → β → Prop} {a : α} {b : β} (h : R a b) :
    Sim R (Pure.pure a) (fun _ => Pure.pure b) :=
  ⟨fun a' ha => by cases spure_ok.mp ha; exact ⟨b, h, 0, fun _ _ => rfl⟩, fun v hv => (spure_ret.mp hv).elim⟩

theorem Sim.ok {α β} {R : α → β → Prop} {a : α} {b : β} (h : R a b) :
    Sim R (.ok a) (fun _ => TraceSpec.R.ok b) :=
  ⟨fun a' ha => by cases ha; exact ⟨b, h, 0, fun _ _ => rfl⟩, fun v hv => by cases hv⟩

theorem Sim.ret {α β} {R : α → β → Prop} {v : Spec.Val} {v' : TraceSpec.Val} (h : encVal v = some v') :
    Sim R (.ret v : Spec.R α) (fun _ => (TraceSpec.R.early v' : TraceSpec.R β)) :=
  ⟨fun a' ha => (by cases ha), fun w hw => by cases hw; exact ⟨v', h, 0, fun _ _ => rfl⟩⟩

theorem Sim.stuck {α β} {R : α → β → Prop} (w : String) (f : Nat → TraceSpec.R β) : Sim R (.stuck w : Spec.R α) f :=
  ⟨fun _ h => (by cases h), fun _ h => (by cases h)⟩
theorem Sim.trap {α β} {R : α → β → Prop} (f : Nat → TraceSpec.R β) : Sim R (.trap : Spec.R α) f :=
  ⟨fun _ h => (by cases h), fun _ h => (by cases h)⟩
theorem Sim.fuel {α β} {R : α → β → Prop} (f : Nat → TraceSpec.R β) : Sim R (.fuel : Spec.R α) f :=
  ⟨fun _ h => (by cases h), fun _ h => (by cases h)⟩

theorem Ev.succ {α} {f g : Nat → TraceSpec.R α} {o : TraceSpec.Out α} (h : ∀ m, g (m + 1) = f m) (hf : Ev f o) : Ev g o := by
  obtain ⟨M, hM⟩ := hf
  refine ⟨M + 1, fun m hm => ?_⟩
  obtain ⟨k, rfl⟩ : ∃ k, m = k + 1 := ⟨m - 1, by omega⟩
  rw [h k]; exact hM k (by omega)

/-- `TraceSpec` spends one unit of fuel to unfold -/
theorem Sim.succ {α β} {R : α → β → Prop} {rS : Spec.R α} {f g : Nat → TraceSpec.R β} (h : ∀ m, g (m + 1) = f m)
    (hf : Sim R rS f) : Sim R rS g :=
  ⟨fun a ha => by obtain ⟨b, hb, he⟩ := hf.1 a ha; exact ⟨b, hb, he.succ h⟩,
   fun v hv => by obtain ⟨v', hv', he⟩ := hf.2 v hv; exact ⟨v', hv', he.succ h⟩⟩

theorem Sim.mono {α β} {R R' : α → β → Prop} {rS : Spec.R α} {f : Nat → TraceSpec.R β} (hf : Sim R rS f)
    (h : ∀ a b, R a b → R' a b) : Sim R' rS f :=
  ⟨fun a ha => by obtain ⟨b, hb, he⟩ := hf.1 a ha; exact ⟨b, h a b hb, he⟩, hf.2⟩

end RotoV.C01Agree
