/-
  C01Agree: on the common fragment (`Model/C01Resolve`) C01's reference
  interpreter `Spec` and the order specification `TraceSpec` define the same
  value.  `agree_all`: whenever `Spec` evaluates a piece of a resolved program
  to a value (or leaves the function with one), `TraceSpec` does the same on the
  translated piece for every sufficiently large fuel — by induction on Spec's
  fuel, for all programs, environments and arguments.

  Core Lean only.
-/
import RotoV.Model.C01Resolve
import RotoV.Lemmas.TraceSpec

namespace RotoV.C01Agree
open RotoV RotoV.C01Resolve

/-! ### results -/

theorem sbind_ok {α β} {r : Spec.R α} {f : α → Spec.R β} {b : β} :
    (r >>= f) = .ok b ↔ ∃ a, r = .ok a ∧ f a = .ok b := by
  cases r <;> simp [bind, Spec.R.bind]

theorem sbind_ret {α β} {r : Spec.R α} {f : α → Spec.R β} {v : Spec.Val} :
    (r >>= f) = .ret v ↔ r = .ret v ∨ ∃ a, r = .ok a ∧ f a = .ret v := by
  cases r <;> simp [bind, Spec.R.bind]

theorem spure_ok {α} {a b : α} : (pure a : Spec.R α) = .ok b ↔ a = b := by
  simp [pure]

theorem spure_ret {α} {a : α} {v : Spec.Val} : (pure a : Spec.R α) = .ret v ↔ False := by
  simp [pure]

/-- the outcome of a sequenced `TraceSpec` evaluation -/
theorem tbind_out {α β} (r : TraceSpec.R α) (f : α → TraceSpec.R β) :
    (r >>= f).out = match r.out with
      | .ok a => (f a).out
      | .ret v => .ret v
      | .fuel => .fuel
      | .stuck w => .stuck w := by
  rw [TraceSpec.bind_eq]
  unfold TraceSpec.R.bind
  cases r.out <;> rfl

theorem tpure_out {α} (a : α) : (pure a : TraceSpec.R α).out = .ok a := rfl

/-- for every sufficiently large fuel the outcome is `o` -/
def Ev {α} (f : Nat → TraceSpec.R α) (o : TraceSpec.Out α) : Prop := ∃ M, ∀ m, M ≤ m → (f m).out = o

/-! ### variables -/

theorem resolveVar_lt : ∀ (ρ : List String) (x : String) (i : Nat), resolveVar ρ x = some i → i < ρ.length
  | [], _, _, h => by simp [resolveVar] at h
  | y :: ρ, x, i, h => by
    simp only [resolveVar] at h
    split at h
    · cases h; simp
    · have := resolveVar_lt ρ x i h; simp; omega

/-- Related environments: the same variables, innermost first; the variable at depth `d`
    from the bottom has number `d`; related values. -/
inductive Rel : Spec.Env → TraceSpec.Env → Prop
  | nil : Rel [] []
  | cons {x v v' eS eT} : encVal v = some v' → Rel eS eT → Rel ((x, v) :: eS) ((eS.length, v') :: eT)

theorem Rel.keys_lt : ∀ {eS eT}, Rel eS eT → ∀ p ∈ eT, p.1 < eS.length
  | _, _, .nil, p, hp => by simp at hp
  | _, _, .cons _ h, p, hp => by
    simp only [List.mem_cons] at hp
    rcases hp with rfl | hp
    · simp
    · have := h.keys_lt p hp; simp; omega

theorem lookup_none_of_keys : ∀ (eT : TraceSpec.Env) (i : Nat), (∀ p ∈ eT, p.1 ≠ i) → TraceSpec.lookup eT i = none
  | [], _, _ => rfl
  | (k, v) :: eT, i, h => by
    have hk : i ≠ k := fun hh => h (k, v) (by simp) hh.symm
    simp only [TraceSpec.lookup, hk, if_false]
    exact lookup_none_of_keys eT i (fun p hp => h p (by simp [hp]))

/-- a level that is not yet used is not visible -/
theorem Rel.lookup_ge {eS eT} (h : Rel eS eT) {i : Nat} (hi : eS.length ≤ i) : TraceSpec.lookup eT i = none :=
  lookup_none_of_keys eT i (fun p hp hh => by have := h.keys_lt p hp; omega)

theorem Rel.lookup : ∀ {eS eT}, Rel eS eT → ∀ {x i v}, resolveVar (eS.map Prod.fst) x = some i →
    Spec.lookup eS x = some v → ∃ v', encVal v = some v' ∧ TraceSpec.lookup eT i = some v'
  | _, _, .nil, x, i, v, hr, _ => by simp [resolveVar] at hr
  | _, _, .cons (x := y) (v := w) (v' := w') (eS := eS) (eT := eT) hw h, x, i, v, hr, hl => by
    simp only [List.map_cons, resolveVar] at hr
    simp only [Spec.lookup] at hl
    by_cases hxy : x = y
    · simp only [hxy, if_true, List.length_map] at hr hl
      cases hr; cases hl
      exact ⟨w', hw, by simp [TraceSpec.lookup]⟩
    · simp only [hxy, if_false] at hr hl
      obtain ⟨v', hv, hlk⟩ := h.lookup hr hl
      have hlt := resolveVar_lt _ _ _ hr
      simp only [List.length_map] at hlt
      refine ⟨v', hv, ?_⟩
      have : i ≠ eS.length := by omega
      simp [TraceSpec.lookup, this, hlk]

/-- a visible variable is bound in the `Spec` environment -/
theorem resolveVar_lookup : ∀ (eS : Spec.Env) (x : String) (i : Nat), resolveVar (eS.map Prod.fst) x = some i →
    ∃ v, Spec.lookup eS x = some v
  | [], _, _, h => by simp [resolveVar] at h
  | (y, w) :: eS, x, i, h => by
    simp only [List.map_cons, resolveVar] at h
    by_cases hxy : x = y
    · exact ⟨w, by simp [Spec.lookup, hxy]⟩
    · simp only [hxy, if_false] at h
      obtain ⟨v, hv⟩ := resolveVar_lookup eS x i h
      exact ⟨v, by simp [Spec.lookup, hxy, hv]⟩

theorem Rel.update : ∀ {eS eT}, Rel eS eT → ∀ {x i v v' eS'}, resolveVar (eS.map Prod.fst) x = some i →
    Spec.update eS x v = some eS' → encVal v = some v' →
    ∃ eT', TraceSpec.update eT i v' = some eT' ∧ Rel eS' eT' ∧ eS'.map Prod.fst = eS.map Prod.fst
  | _, _, .nil, x, i, v, v', eS', hr, _, _ => by simp [resolveVar] at hr
  | _, _, .cons (x := y) (v := w) (v' := w') (eS := eS) (eT := eT) hw h, x, i, v, v', eS', hr, hu, hv => by
    simp only [List.map_cons, resolveVar] at hr
    simp only [Spec.update] at hu
    by_cases hxy : x = y
    · simp only [hxy, if_true, List.length_map] at hr hu
      cases hr; cases hu
      exact ⟨(eS.length, v') :: eT, by simp [TraceSpec.update], .cons hv h, rfl⟩
    · simp only [hxy, if_false, Option.map_eq_some_iff] at hr hu
      obtain ⟨eS1, hu1, rfl⟩ := hu
      obtain ⟨eT1, hu2, hrel, hmap⟩ := h.update hr hu1 hv
      have hlt := resolveVar_lt _ _ _ hr
      simp only [List.length_map] at hlt
      have hne : i ≠ eS.length := by omega
      have hlen : eS1.length = eS.length := by
        have := congrArg List.length hmap; simpa using this
      refine ⟨(eS.length, w') :: eT1, by simp [TraceSpec.update, hne, hu2], ?_, by simp [hmap]⟩
      rw [← hlen]; exact .cons hw hrel

/-! ### leaving a scope -/

theorem filterMap_congr' {α β} {f g : α → Option β} : ∀ (l : List α), (∀ x ∈ l, f x = g x) →
    l.filterMap f = l.filterMap g
  | [], _ => rfl
  | x :: l, h => by
    simp only [List.filterMap_cons, h x (by simp)]
    rw [filterMap_congr' l (fun y hy => h y (by simp [hy]))]

theorem lookup_append_skip : ∀ (a b : TraceSpec.Env) (k : Nat), (∀ p ∈ a, p.1 ≠ k) →
    TraceSpec.lookup (a ++ b) k = TraceSpec.lookup b k
  | [], _, _, _ => rfl
  | (j, v) :: a, b, k, h => by
    have hk : k ≠ j := fun hh => h (j, v) (by simp) hh.symm
    simp only [List.cons_append, TraceSpec.lookup, hk, if_false]
    exact lookup_append_skip a b k (fun p hp => h p (by simp [hp]))

/-- the inner environment splits into the bindings made inside and the outer part -/
theorem Rel.split : ∀ (new : Spec.Env) {eS2 : Spec.Env} {eT1 : TraceSpec.Env}, Rel (new ++ eS2) eT1 →
    ∃ newT eT2, eT1 = newT ++ eT2 ∧ Rel eS2 eT2 ∧ ∀ p ∈ newT, eS2.length ≤ p.1
  | [], _, eT1, h => ⟨[], eT1, rfl, h, by simp⟩
  | (x, v) :: new, eS2, _, h => by
    cases h with
    | cons hv h' =>
      obtain ⟨newT, eT2, rfl, hrel, hk⟩ := Rel.split new h'
      refine ⟨_ :: newT, eT2, rfl, hrel, ?_⟩
      intro p hp
      simp only [List.mem_cons] at hp
      rcases hp with rfl | hp
      · simp
      · exact hk p hp

theorem leave_same : ∀ {a b : Spec.Env} {eT eT2 : TraceSpec.Env}, Rel a eT → Rel b eT2 → a.length = b.length →
    TraceSpec.leave eT eT2 = eT2
  | _, _, _, _, .nil, .nil, _ => rfl
  | _, _, _, _, .nil, .cons _ _, h => by simp at h
  | _, _, _, _, .cons _ _, .nil, h => by simp at h
  | _, _, _, _, .cons (eS := a) (eT := eT) (v' := v1) _ ha, .cons (eS := b) (eT := eT2) (v' := w1) _ hb, h => by
    simp only [List.length_cons, Nat.add_right_cancel_iff] at h
    have ih := leave_same ha hb h
    unfold TraceSpec.leave at ih ⊢
    simp only [List.filterMap_cons, TraceSpec.lookup, h, if_true, Option.map_some]
    congr 1
    refine Eq.trans (filterMap_congr' _ ?_) ih
    intro p hp
    have := ha.keys_lt p hp
    have hne : p.1 ≠ b.length := by omega
    simp [hne]

/-- `Spec` drops the bindings made inside a block, `TraceSpec` keeps the outer variables with
    their current values: the same environment. -/
theorem Rel.leave {eS eS1 : Spec.Env} {eT eT1 : TraceSpec.Env} {pre : List String}
    (h : Rel eS eT) (h1 : Rel eS1 eT1) (hm : eS1.map Prod.fst = pre ++ eS.map Prod.fst) :
    Rel (eS1.drop (eS1.length - eS.length)) (TraceSpec.leave eT eT1)
      ∧ (eS1.drop (eS1.length - eS.length)).map Prod.fst = eS.map Prod.fst := by
  obtain ⟨new, eS2, rfl, hnew, h2⟩ := List.map_eq_append_iff.mp hm
  have hlen : eS2.length = eS.length := by simpa using congrArg List.length h2
  have hdrop : (new ++ eS2).drop ((new ++ eS2).length - eS.length) = eS2 := by
    rw [List.length_append, ← hlen, Nat.add_sub_cancel]
    exact List.drop_left
  rw [hdrop]
  obtain ⟨newT, eT2, rfl, hrel, hk⟩ := Rel.split new h1
  refine ⟨?_, h2⟩
  have : TraceSpec.leave eT (newT ++ eT2) = TraceSpec.leave eT eT2 := by
    unfold TraceSpec.leave
    apply filterMap_congr'
    intro p hp
    have hlt := h.keys_lt p hp
    rw [lookup_append_skip newT eT2 p.1 (fun q hq hh => by have := hk q hq; omega)]
  rw [this, leave_same h hrel hlen.symm]
  exact hrel

/-! ### functions and parameters -/

theorem fnIndex_find : ∀ (fns : List Spec.FnDef) (f : String) (i : Nat), fnIndex (fns.map (·.name)) f = some i →
    ∃ fd, Spec.findFn fns f = some fd ∧ fns[i]? = some fd
  | [], _, _, h => by simp [fnIndex] at h
  | fd :: fns, f, i, h => by
    simp only [List.map_cons, fnIndex] at h
    by_cases hn : fd.name = f
    · simp only [hn, if_true] at h; cases h
      exact ⟨fd, by simp [Spec.findFn, hn], rfl⟩
    · simp only [hn, if_false, Option.map_eq_some_iff] at h
      obtain ⟨j, hj, rfl⟩ := h
      obtain ⟨fd', h1, h2⟩ := fnIndex_find fns f j hj
      refine ⟨fd', ?_, by simpa using h2⟩
      simp only [Spec.findFn] at h1 ⊢
      simp [hn, h1]

theorem trFns_get (fs : List String) : ∀ (fns : List Spec.FnDef) (fnsT : List TraceSpec.FnDef) (i : Nat) (fd : Spec.FnDef),
    trFns fs fns = some fnsT → fns[i]? = some fd → ∃ fd', trFn fs fd = some fd' ∧ fnsT[i]? = some fd'
  | [], _, _, _, _, h => by simp at h
  | g :: fns, fnsT, i, fd, ht, hi => by
    simp only [trFns] at ht
    split at ht
    · rename_i g' rest' hg hrest
      cases ht
      cases i with
      | zero => simp at hi; subst hi; exact ⟨g', hg, rfl⟩
      | succ i =>
        simp at hi
        obtain ⟨fd', h1, h2⟩ := trFns_get fs fns rest' i fd hrest hi
        exact ⟨fd', h1, by simpa using h2⟩
    · cases ht

theorem trFns_length (fs : List String) : ∀ (fns : List Spec.FnDef) (fnsT : List TraceSpec.FnDef),
    trFns fs fns = some fnsT → fnsT.length = fns.length
  | [], _, h => by simp [trFns] at h; subst h; rfl
  | g :: fns, fnsT, ht => by
    simp only [trFns] at ht
    split at ht
    · rename_i g' rest' hg hrest
      cases ht
      simp [trFns_length fs fns rest' hrest]
    · cases ht

theorem bindParams_rel : ∀ (ps : List (String × Spec.Ty)) (vs : List Spec.Val) (vs' : List TraceSpec.Val)
    (acc cenv : Spec.Env) (accT : TraceSpec.Env),
    Spec.bindParams ps vs acc = .ok cenv → encArgs vs = some vs' → Rel acc accT →
    ∃ cenvT, TraceSpec.bindParams (List.range' acc.length ps.length) vs' accT = some cenvT ∧ Rel cenv cenvT
      ∧ cenv.map Prod.fst = (ps.map Prod.fst).reverse ++ acc.map Prod.fst
  | [], [], vs', acc, cenv, accT, h, he, hr => by
    simp only [Spec.bindParams] at h; cases h
    simp only [encArgs] at he; cases he
    exact ⟨accT, by simp [TraceSpec.bindParams], hr, by simp⟩
  | [], _ :: _, _, _, _, _, h, _, _ => by simp [Spec.bindParams] at h
  | _ :: _, [], _, _, _, _, h, _, _ => by simp [Spec.bindParams] at h
  | (x, t) :: ps, v :: vs, vs', acc, cenv, accT, h, he, hr => by
    simp only [Spec.bindParams] at h
    split at h
    · simp only [encArgs] at he
      split at he
      · rename_i v' vs1 hv hvs
        cases he
        obtain ⟨cenvT, h1, h2, h3⟩ := bindParams_rel ps vs vs1 ((x, v) :: acc) cenv ((acc.length, v') :: accT) h hvs (.cons hv hr)
        refine ⟨cenvT, ?_, h2, ?_⟩
        · simp only [List.length_cons, List.range'_succ, TraceSpec.bindParams]
          simpa using h1
        · simp [h3]
      · cases he
    · cases h

theorem bindParams_not_ret : ∀ (ps : List (String × Spec.Ty)) (vs : List Spec.Val) (acc : Spec.Env) (w : Spec.Val),
    Spec.bindParams ps vs acc ≠ .ret w
  | [], [], _, _ => by simp [Spec.bindParams]
  | [], _ :: _, _, _ => by simp [Spec.bindParams]
  | _ :: _, [], _, _ => by simp [Spec.bindParams]
  | (x, t) :: ps, v :: vs, acc, w => by
    simp only [Spec.bindParams]
    split
    · exact bindParams_not_ret ps vs _ w
    · simp

/-! ### simulation of results -/

/-- `Spec`'s result `rS` is reproduced by `TraceSpec`'s `fT` for every sufficiently large fuel:
    a value related by `R`, or an in-flight `return` of the same value. (Nothing is claimed when
    `Spec` traps, runs out of fuel or is stuck.) -/
def Sim {α β} (R : α → β → Prop) (rS : Spec.R α) (fT : Nat → TraceSpec.R β) : Prop :=
  (∀ a, rS = .ok a → ∃ b, R a b ∧ Ev fT (.ok b))
  ∧ (∀ v, rS = .ret v → ∃ v', encVal v = some v' ∧ Ev fT (.ret v'))

theorem Sim.bind {α β γ δ} {R : α → β → Prop} {R' : γ → δ → Prop} {rS : Spec.R α} {fT : Nat → TraceSpec.R β}
    {gS : α → Spec.R γ} {gT : Nat → β → TraceSpec.R δ}
    (h : Sim R rS fT) (hg : ∀ a b, R a b → Sim R' (gS a) (fun m => gT m b)) :
    Sim R' (rS >>= gS) (fun m => fT m >>= gT m) := by
  constructor
  · intro c hc
    obtain ⟨a, ha, hga⟩ := sbind_ok.mp hc
    obtain ⟨b, hab, M1, h1⟩ := h.1 a ha
    obtain ⟨d, hcd, M2, h2⟩ := (hg a b hab).1 c hga
    refine ⟨d, hcd, max M1 M2, fun m hm => ?_⟩
    rw [tbind_out, h1 m (by omega)]
    exact h2 m (by omega)
  · intro v hv
    rcases sbind_ret.mp hv with hr | ⟨a, ha, hga⟩
    · obtain ⟨v', hv', M1, h1⟩ := h.2 v hr
      exact ⟨v', hv', M1, fun m hm => by rw [tbind_out, h1 m hm]⟩
    · obtain ⟨b, hab, M1, h1⟩ := h.1 a ha
      obtain ⟨v', hv', M2, h2⟩ := (hg a b hab).2 v hga
      refine ⟨v', hv', max M1 M2, fun m hm => ?_⟩
      rw [tbind_out, h1 m (by omega)]
      exact h2 m (by omega)

theorem Sim.pure {α β} {R : α → β → Prop} {a : α} {b : β} (h : R a b) :
    Sim R (Pure.pure a) (fun _ => Pure.pure b) :=
  ⟨fun a' ha => by cases spure_ok.mp ha; exact ⟨b, h, 0, fun _ _ => rfl⟩, fun v hv => (spure_ret.mp hv).elim⟩

theorem Sim.ok {α β} {R : α → β → Prop} {a : α} {b : β} (h : R a b) :
    Sim R (.ok a) (fun _ => TraceSpec.R.ok b) :=
  ⟨fun a' ha => by cases ha; exact ⟨b, h, 0, fun _ _ => rfl⟩, fun v hv => by cases hv⟩

theorem Sim.ret {α β} {R : α → β → Prop} {v : Spec.Val} {v' : TraceSpec.Val} (h : encVal v = some v') :
    Sim R (.ret v : Spec.R α) (fun _ => (TraceSpec.R.early v' : TraceSpec.R β)) :=
  ⟨fun a' ha => (by cases ha), fun w hw => by cases hw; exact ⟨v', h, 0, fun _ _ => rfl⟩⟩

theorem Sim.stuck {α β} {R : α → β → Prop} (w : String) (f : Nat → TraceSpec.R β) : Sim R (.stuck w : Spec.R α) f :=
  ⟨fun _ h => (by cases h), fun _ h => (by cases h)⟩
theorem Sim.trap {α β} {R : α → β → Prop} (f : Nat → TraceSpec.R β) : Sim R (.trap : Spec.R α) f :=
  ⟨fun _ h => (by cases h), fun _ h => (by cases h)⟩
theorem Sim.fuel {α β} {R : α → β → Prop} (f : Nat → TraceSpec.R β) : Sim R (.fuel : Spec.R α) f :=
  ⟨fun _ h => (by cases h), fun _ h => (by cases h)⟩

theorem Ev.succ {α} {f g : Nat → TraceSpec.R α} {o : TraceSpec.Out α} (h : ∀ m, g (m + 1) = f m) (hf : Ev f o) : Ev g o := by
  obtain ⟨M, hM⟩ := hf
  refine ⟨M + 1, fun m hm => ?_⟩
  obtain ⟨k, rfl⟩ : ∃ k, m = k + 1 := ⟨m - 1, by omega⟩
  rw [h k]; exact hM k (by omega)

/-- `TraceSpec` spends one unit of fuel to unfold -/
theorem Sim.succ {α β} {R : α → β → Prop} {rS : Spec.R α} {f g : Nat → TraceSpec.R β} (h : ∀ m, g (m + 1) = f m)
    (hf : Sim R rS f) : Sim R rS g :=
  ⟨fun a ha => by obtain ⟨b, hb, he⟩ := hf.1 a ha; exact ⟨b, hb, he.succ h⟩,
   fun v hv => by obtain ⟨v', hv', he⟩ := hf.2 v hv; exact ⟨v', hv', he.succ h⟩⟩

theorem Sim.mono {α β} {R R' : α → β → Prop} {rS : Spec.R α} {f : Nat → TraceSpec.R β} (hf : Sim R rS f)
    (h : ∀ a b, R a b → R' a b) : Sim R' rS f :=
  ⟨fun a ha => by obtain ⟨b, hb, he⟩ := hf.1 a ha; exact ⟨b, h a b hb, he⟩, hf.2⟩

/-! ### values and operators -/

theorem encVal_inv {v : Spec.Val} {v' : TraceSpec.Val} (h : encVal v = some v') :
    (∃ x, v = .int .i32 x ∧ v' = .int x) ∨ (∃ b, v = .bool b ∧ v' = .bool b) ∨ (v = .unit ∧ v' = .unit) := by
  cases v with
  | int t x => cases t <;> simp [encVal] at h; exact .inl ⟨x, rfl, h.symm⟩
  | f32 b => simp [encVal] at h
  | f64 b => simp [encVal] at h
  | bool b => simp [encVal] at h; exact .inr (.inl ⟨b, rfl, h.symm⟩)
  | unit => simp [encVal] at h; exact .inr (.inr ⟨rfl, h.symm⟩)
  | enum t k fs => simp [encVal] at h

theorem wrap_i32 (x : Int) : Spec.wrap .i32 x = TraceSpec.wrap32 x := by
  have h1 : ((2 : Int) ^ Spec.ITy.i32.bits) = 4294967296 := by decide
  have h2 : (4294967296 : Int) / 2 = 2147483648 := by decide
  simp only [Spec.wrap, TraceSpec.wrap32, h1, h2, Spec.ITy.signed, Bool.true_and, decide_eq_true_eq]

section ops
variable [FloatOps]

/-- the strict binary operators of the fragment compute the same value in both languages -/
theorem binop_agree {op : Spec.BinOp} {op' : TraceSpec.BinOp} {a b : Spec.Val} {a' b' : TraceSpec.Val}
    (hop : encOp op = some op') (ha : encVal a = some a') (hb : encVal b = some b') :
    (∀ v, Spec.binop op a b = .ok v → ∃ v', encVal v = some v' ∧ TraceSpec.binop op' a' b' = some v')
    ∧ (∀ v, Spec.binop op a b ≠ .ret v) := by
  rcases encVal_inv ha with ⟨x, rfl, rfl⟩ | ⟨x, rfl, rfl⟩ | ⟨rfl, rfl⟩ <;>
  rcases encVal_inv hb with ⟨y, rfl, rfl⟩ | ⟨y, rfl, rfl⟩ | ⟨rfl, rfl⟩ <;>
  cases op <;> simp only [encOp, Option.some.injEq, reduceCtorEq] at hop <;> subst hop <;>
  simp [Spec.binop, Spec.intArith, TraceSpec.binop, encVal, wrap_i32]

theorem negate_agree {a : Spec.Val} {a' : TraceSpec.Val} (ha : encVal a = some a') :
    (∀ v, Spec.negate a = .ok v → ∃ x, a' = .int x ∧ encVal v = some (.int (TraceSpec.wrap32 (-x))))
    ∧ (∀ v, Spec.negate a ≠ .ret v) := by
  rcases encVal_inv ha with ⟨x, rfl, rfl⟩ | ⟨x, rfl, rfl⟩ | ⟨rfl, rfl⟩ <;>
    simp [Spec.negate, Spec.ITy.signed, encVal, wrap_i32]

omit [FloatOps] in
theorem lnot_agree {a : Spec.Val} {a' : TraceSpec.Val} (ha : encVal a = some a') :
    (∀ v, Spec.lnot a = .ok v → ∃ b, a' = .bool b ∧ encVal v = some (.bool (!b)))
    ∧ (∀ v, Spec.lnot a ≠ .ret v) := by
  rcases encVal_inv ha with ⟨x, rfl, rfl⟩ | ⟨x, rfl, rfl⟩ | ⟨rfl, rfl⟩ <;>
    simp [Spec.lnot, encVal]

end ops

/-! ### the simulation -/

/-- results of an expression: the environment keeps its variables, related values and environments -/
def RE (eS : Spec.Env) (p : Spec.Env × Spec.Val) (q : TraceSpec.Env × TraceSpec.Val) : Prop :=
  p.1.map Prod.fst = eS.map Prod.fst ∧ encVal p.2 = some q.2 ∧ Rel p.1 q.1

/-- … of an argument list -/
def RA (eS : Spec.Env) (p : Spec.Env × List Spec.Val) (q : TraceSpec.Env × List TraceSpec.Val) : Prop :=
  p.1.map Prod.fst = eS.map Prod.fst ∧ encArgs p.2 = some q.2 ∧ Rel p.1 q.1

theorem RE.trans {eS eS1 : Spec.Env} {p q} (h : eS1.map Prod.fst = eS.map Prod.fst) (hp : RE eS1 p q) : RE eS p q :=
  ⟨hp.1.trans h, hp.2⟩

theorem Sim.of_ok {α β} {R : α → β → Prop} {rS : Spec.R α} {rT : TraceSpec.R β}
    (h : ∀ a, rS = .ok a → ∃ b, R a b ∧ rT.out = .ok b) (h2 : ∀ v, rS ≠ .ret v) : Sim R rS (fun _ => rT) :=
  ⟨fun a ha => by obtain ⟨b, hb, ho⟩ := h a ha; exact ⟨b, hb, 0, fun _ _ => ho⟩, fun v hv => absurd hv (h2 v)⟩

theorem Sim.strengthen {α β} {R : α → β → Prop} {P : α → Prop} {rS : Spec.R α} {f : Nat → TraceSpec.R β}
    (hf : Sim R rS f) (hP : ∀ a, rS = .ok a → P a) : Sim (fun a b => R a b ∧ P a) rS f :=
  ⟨fun a ha => by obtain ⟨b, hb, he⟩ := hf.1 a ha; exact ⟨b, ⟨hb, hP a ha⟩, he⟩, hf.2⟩

/-- a block without a final expression has the value `()` -/
theorem evalBlock_none_unit [FloatOps] (fns : List Spec.FnDef) (k : Nat) (eS : Spec.Env) (stmts : List Spec.Stmt)
    (p : Spec.Env × Spec.Val) (h : Spec.evalBlock fns k eS (.mk stmts none) = .ok p) : p.2 = .unit := by
  cases k with
  | zero => simp [Spec.evalBlock] at h
  | succ k =>
    simp only [Spec.evalBlock] at h
    obtain ⟨env, _, h⟩ := sbind_ok.mp h
    obtain ⟨q, hq, h⟩ := sbind_ok.mp h
    cases hq
    cases spure_ok.mp h
    rfl

section sim
variable [FloatOps] (fnsS : List Spec.FnDef) (fnsT : List TraceSpec.FnDef)

def SimE (k : Nat) : Prop := ∀ (e : Spec.Expr) (e' : TraceSpec.Expr) (eS : Spec.Env) (eT : TraceSpec.Env),
  trE (fnsS.map (·.name)) (eS.map Prod.fst) e = some e' → Rel eS eT →
  Sim (RE eS) (Spec.evalExpr fnsS k eS e) (fun m => TraceSpec.evalExpr fnsT m eT e')

def SimA (k : Nat) : Prop := ∀ (es : List Spec.Expr) (es' : TraceSpec.Exprs) (eS : Spec.Env) (eT : TraceSpec.Env),
  trArgs (fnsS.map (·.name)) (eS.map Prod.fst) es = some es' → Rel eS eT →
  Sim (RA eS) (Spec.evalArgs fnsS k eS es) (fun m => TraceSpec.evalArgs fnsT m eT es')

def SimB (k : Nat) : Prop := ∀ (b : Spec.Block) (b' : TraceSpec.Block) (eS : Spec.Env) (eT : TraceSpec.Env),
  trB (fnsS.map (·.name)) (eS.map Prod.fst) b = some b' → Rel eS eT →
  Sim (RE eS) (Spec.evalBlock fnsS k eS b) (fun m => TraceSpec.evalBlock fnsT m eT b')

def SimW (k : Nat) : Prop := ∀ (c : Spec.Expr) (b : Spec.Block) (c' : TraceSpec.Expr) (b' : TraceSpec.Block)
  (eS : Spec.Env) (eT : TraceSpec.Env),
  trE (fnsS.map (·.name)) (eS.map Prod.fst) c = some c' → trB (fnsS.map (·.name)) (eS.map Prod.fst) b = some b' → Rel eS eT →
  Sim (RE eS) (Spec.evalWhile fnsS k eS c b) (fun m => TraceSpec.evalWhile fnsT m eT c' b')

def SimAll (k : Nat) : Prop := SimE fnsS fnsT k ∧ SimA fnsS fnsT k ∧ SimB fnsS fnsT k ∧ SimW fnsS fnsT k

theorem simE_step (n : Nat) (ih : SimAll fnsS fnsT n)
    (hfns : trFns (fnsS.map (·.name)) fnsS = some fnsT) : SimE fnsS fnsT (n + 1) := by
  intro e e' eS eT htr hrel
  obtain ⟨ihE, ihA, ihB, ihW⟩ := ih
  cases e with
  | lit v =>
    simp only [trE] at htr
    split at htr
    · obtain ⟨v', hv, rfl⟩ := Option.map_eq_some_iff.mp htr
      simp only [Spec.evalExpr]
      exact Sim.succ (f := fun _ => .ok (eT, v')) (fun m => by simp only [TraceSpec.evalExpr]) (Sim.ok ⟨rfl, hv, hrel⟩)
    · cases htr
  | var x =>
    simp only [trE] at htr
    obtain ⟨i, hi, rfl⟩ := Option.map_eq_some_iff.mp htr
    obtain ⟨v, hl⟩ := resolveVar_lookup eS x i hi
    obtain ⟨v', hv, hlk⟩ := hrel.lookup hi hl
    simp only [Spec.evalExpr, hl]
    exact Sim.succ (f := fun _ => .ok (eT, v')) (fun m => by simp only [TraceSpec.evalExpr, hlk]) (Sim.ok ⟨rfl, hv, hrel⟩)
  | neg e =>
    simp only [trE] at htr
    obtain ⟨e1, he1, rfl⟩ := Option.map_eq_some_iff.mp htr
    simp only [Spec.evalExpr]
    refine Sim.succ (fun m => by simp only [TraceSpec.evalExpr]; rfl) ?_
    refine Sim.bind (ihE e e1 eS eT he1 hrel) ?_
    rintro ⟨eS1, v⟩ ⟨eT1, v'⟩ ⟨hm, hv, hr⟩
    dsimp only at hm hv hr ⊢
    refine Sim.of_ok (fun p hp => ?_) (fun w hw => ?_)
    · obtain ⟨r, hr1, hp⟩ := sbind_ok.mp hp
      cases spure_ok.mp hp
      obtain ⟨x, rfl, hx⟩ := (negate_agree hv).1 r hr1
      exact ⟨(eT1, .int (TraceSpec.wrap32 (-x))), ⟨hm, hx, hr⟩, rfl⟩
    · rcases sbind_ret.mp hw with h | ⟨r, _, h⟩
      · exact absurd h ((negate_agree hv).2 w)
      · exact (spure_ret.mp h).elim
  | not e =>
    simp only [trE] at htr
    obtain ⟨e1, he1, rfl⟩ := Option.map_eq_some_iff.mp htr
    simp only [Spec.evalExpr]
    refine Sim.succ (fun m => by simp only [TraceSpec.evalExpr]; rfl) ?_
    refine Sim.bind (ihE e e1 eS eT he1 hrel) ?_
    rintro ⟨eS1, v⟩ ⟨eT1, v'⟩ ⟨hm, hv, hr⟩
    dsimp only at hm hv hr ⊢
    refine Sim.of_ok (fun p hp => ?_) (fun w hw => ?_)
    · obtain ⟨r, hr1, hp⟩ := sbind_ok.mp hp
      cases spure_ok.mp hp
      obtain ⟨x, rfl, hx⟩ := (lnot_agree hv).1 r hr1
      exact ⟨(eT1, .bool (!x)), ⟨hm, hx, hr⟩, rfl⟩
    · rcases sbind_ret.mp hw with h | ⟨r, _, h⟩
      · exact absurd h ((lnot_agree hv).2 w)
      · exact (spure_ret.mp h).elim
  | bin op l r =>
    simp only [trE] at htr
    split at htr
    case h_2 => cases htr
    rename_i l' r' hl hr'
    cases op
    case and =>
      simp only [Option.some.injEq] at htr; subst htr
      simp only [Spec.evalExpr]
      refine Sim.succ (fun m => by simp only [TraceSpec.evalExpr]; rfl) ?_
      refine Sim.bind (ihE l l' eS eT hl hrel) ?_
      rintro ⟨eS1, a⟩ ⟨eT1, a'⟩ ⟨hm1, ha, hr1⟩
      dsimp only at hm1 ha hr1 ⊢
      rcases encVal_inv ha with ⟨x, rfl, rfl⟩ | ⟨x, rfl, rfl⟩ | ⟨rfl, rfl⟩
      · exact Sim.stuck _ _
      · cases x
        · exact Sim.pure ⟨hm1, rfl, hr1⟩
        · refine Sim.bind (Sim.mono (ihE r r' eS1 eT1 (hm1 ▸ hr') hr1) (fun _ _ h => RE.trans hm1 h)) ?_
          rintro ⟨eS2, b⟩ ⟨eT2, b'⟩ ⟨hm2, hb, hr2⟩
          dsimp only at hm2 hb hr2 ⊢
          rcases encVal_inv hb with ⟨y, rfl, rfl⟩ | ⟨y, rfl, rfl⟩ | ⟨rfl, rfl⟩
          · exact Sim.stuck _ _
          · exact Sim.pure ⟨hm2, rfl, hr2⟩
          · exact Sim.stuck _ _
      · exact Sim.stuck _ _
    case or =>
      simp only [Option.some.injEq] at htr; subst htr
      simp only [Spec.evalExpr]
      refine Sim.succ (fun m => by simp only [TraceSpec.evalExpr]; rfl) ?_
      refine Sim.bind (ihE l l' eS eT hl hrel) ?_
      rintro ⟨eS1, a⟩ ⟨eT1, a'⟩ ⟨hm1, ha, hr1⟩
      dsimp only at hm1 ha hr1 ⊢
      rcases encVal_inv ha with ⟨x, rfl, rfl⟩ | ⟨x, rfl, rfl⟩ | ⟨rfl, rfl⟩
      · exact Sim.stuck _ _
      · cases x
        · refine Sim.bind (Sim.mono (ihE r r' eS1 eT1 (hm1 ▸ hr') hr1) (fun _ _ h => RE.trans hm1 h)) ?_
          rintro ⟨eS2, b⟩ ⟨eT2, b'⟩ ⟨hm2, hb, hr2⟩
          dsimp only at hm2 hb hr2 ⊢
          rcases encVal_inv hb with ⟨y, rfl, rfl⟩ | ⟨y, rfl, rfl⟩ | ⟨rfl, rfl⟩
          · exact Sim.stuck _ _
          · exact Sim.pure ⟨hm2, rfl, hr2⟩
          · exact Sim.stuck _ _
        · exact Sim.pure ⟨hm1, rfl, hr1⟩
      · exact Sim.stuck _ _
    case div => simp [encOp] at htr
    case mod => simp [encOp] at htr
    all_goals
      simp only [encOp, Option.map_some, Option.some.injEq] at htr
      subst htr
      simp only [Spec.evalExpr]
      refine Sim.succ (fun m => by simp only [TraceSpec.evalExpr]; rfl) ?_
      refine Sim.bind (ihE l l' eS eT hl hrel) ?_
      rintro ⟨eS1, a⟩ ⟨eT1, a'⟩ ⟨hm1, ha, hr1⟩
      dsimp only at hm1 ha hr1 ⊢
      refine Sim.bind (Sim.mono (ihE r r' eS1 eT1 (hm1 ▸ hr') hr1) (fun _ _ h => RE.trans hm1 h)) ?_
      rintro ⟨eS2, b⟩ ⟨eT2, b'⟩ ⟨hm2, hb, hr2⟩
      dsimp only at hm2 hb hr2 ⊢
      refine Sim.of_ok (fun p hp => ?_) (fun w hw => ?_)
      · obtain ⟨v, hv1, hp⟩ := sbind_ok.mp hp
        cases spure_ok.mp hp
        obtain ⟨v', hv', hb'⟩ := (binop_agree rfl ha hb).1 v hv1
        exact ⟨(eT2, v'), ⟨hm2, hv', hr2⟩, by simp only [hb']; rfl⟩
      · rcases sbind_ret.mp hw with h | ⟨v, _, h⟩
        · exact absurd h ((binop_agree rfl ha hb).2 w)
        · exact (spure_ret.mp h).elim
  | ite c t e =>
    cases e with
    | none =>
      simp only [trE] at htr
      split at htr
      case h_2 => cases htr
      rename_i c' t' hc ht
      simp only [Option.some.injEq] at htr; subst htr
      simp only [Spec.evalExpr]
      refine Sim.succ (fun m => by simp only [TraceSpec.evalExpr]; rfl) ?_
      refine Sim.bind (ihE c c' eS eT hc hrel) ?_
      rintro ⟨eS1, a⟩ ⟨eT1, a'⟩ ⟨hm1, ha, hr1⟩
      dsimp only at hm1 ha hr1 ⊢
      rcases encVal_inv ha with ⟨x, rfl, rfl⟩ | ⟨x, rfl, rfl⟩ | ⟨rfl, rfl⟩
      · exact Sim.stuck _ _
      · cases x
        · exact Sim.pure ⟨hm1, rfl, hr1⟩
        · have ht' : trB (fnsS.map (·.name)) (eS1.map Prod.fst) t = some t' := by
            rw [hm1]; cases t with | mk stmts last => cases last <;> simp_all [trBU, trB]
          have hnone : ∃ stmts, t = .mk stmts none := by
            cases t with | mk stmts last => cases last <;> simp_all [trBU]
          obtain ⟨stmts, rfl⟩ := hnone
          refine Sim.bind (Sim.strengthen (Sim.mono (ihB _ t' eS1 eT1 ht' hr1) (fun _ _ h => RE.trans hm1 h))
            (evalBlock_none_unit fnsS n eS1 stmts)) ?_
          rintro ⟨eS2, b⟩ ⟨eT2, b'⟩ ⟨⟨hm2, hb, hr2⟩, hu⟩
          dsimp only at hm2 hb hr2 hu ⊢
          subst hu
          simp only [encVal, Option.some.injEq] at hb
          subst hb
          exact Sim.pure ⟨hm2, rfl, hr2⟩
      · exact Sim.stuck _ _
    | some e =>
      simp only [trE] at htr
      split at htr
      case h_2 => cases htr
      rename_i c' t' e1 hc ht he
      simp only [Option.some.injEq] at htr; subst htr
      simp only [Spec.evalExpr]
      refine Sim.succ (fun m => by simp only [TraceSpec.evalExpr]; rfl) ?_
      refine Sim.bind (ihE c c' eS eT hc hrel) ?_
      rintro ⟨eS1, a⟩ ⟨eT1, a'⟩ ⟨hm1, ha, hr1⟩
      dsimp only at hm1 ha hr1 ⊢
      rcases encVal_inv ha with ⟨x, rfl, rfl⟩ | ⟨x, rfl, rfl⟩ | ⟨rfl, rfl⟩
      · exact Sim.stuck _ _
      · cases x
        · exact Sim.mono (ihB e e1 eS1 eT1 (hm1 ▸ he) hr1) (fun _ _ h => RE.trans hm1 h)
        · exact Sim.mono (ihB t t' eS1 eT1 (hm1 ▸ ht) hr1) (fun _ _ h => RE.trans hm1 h)
      · exact Sim.stuck _ _
  | «while» c b =>
    simp only [trE] at htr
    split at htr
    case h_2 => cases htr
    rename_i c' b' hc hb
    simp only [Option.some.injEq] at htr; subst htr
    simp only [Spec.evalExpr]
    exact Sim.succ (fun m => by simp only [TraceSpec.evalExpr]) (ihW c b c' b' eS eT hc hb hrel)
  | block b =>
    simp only [trE] at htr
    obtain ⟨b', hb, rfl⟩ := Option.map_eq_some_iff.mp htr
    simp only [Spec.evalExpr]
    exact Sim.succ (fun m => by simp only [TraceSpec.evalExpr]) (ihB b b' eS eT hb hrel)
  | ctor t k args => simp only [trE] at htr; cases htr
  | match_ s arms => simp only [trE] at htr; cases htr
  | ret e =>
    cases e with
    | none =>
      simp only [trE, Option.some.injEq] at htr; subst htr
      simp only [Spec.evalExpr]
      refine ⟨fun _ h => (by cases h), fun v hv => ?_⟩
      cases hv
      refine ⟨.unit, rfl, 2, fun m hm => ?_⟩
      obtain ⟨k, rfl⟩ : ∃ k, m = k + 2 := ⟨m - 2, by omega⟩
      simp only [TraceSpec.evalExpr]
      rfl
    | some e =>
      simp only [trE] at htr
      obtain ⟨e1, he1, rfl⟩ := Option.map_eq_some_iff.mp htr
      simp only [Spec.evalExpr]
      refine Sim.succ (fun m => by simp only [TraceSpec.evalExpr]; rfl) ?_
      refine Sim.bind (ihE e e1 eS eT he1 hrel) ?_
      rintro ⟨eS1, v⟩ ⟨eT1, v'⟩ ⟨hm, hv, hr⟩
      dsimp only at hm hv hr ⊢
      exact Sim.ret hv
  | assign x e =>
    simp only [trE] at htr
    split at htr
    case h_2 => cases htr
    rename_i i e1 hi he1
    simp only [Option.some.injEq] at htr; subst htr
    simp only [Spec.evalExpr]
    refine Sim.succ (fun m => by simp only [TraceSpec.evalExpr]; rfl) ?_
    refine Sim.bind (ihE e e1 eS eT he1 hrel) ?_
    rintro ⟨eS1, v⟩ ⟨eT1, v'⟩ ⟨hm, hv, hr⟩
    dsimp only at hm hv hr ⊢
    have hi1 : resolveVar (eS1.map Prod.fst) x = some i := by rw [hm]; exact hi
    refine Sim.of_ok (fun p hp => ?_) (fun w hw => ?_)
    · split at hp
      · cases hp
      · split at hp
        · cases hp
        · split at hp
          · rename_i eS2 hu
            cases spure_ok.mp hp
            obtain ⟨eT2, hu2, hr2, hm2⟩ := hr.update hi1 hu hv
            exact ⟨(eT2, .unit), ⟨hm2.trans hm, rfl, hr2⟩, by simp only [hu2]; rfl⟩
          · cases hp
    · split at hw
      · cases hw
      · split at hw
        · cases hw
        · split at hw
          · exact (spure_ret.mp hw).elim
          · cases hw
  | cassign op x e =>
    simp only [trE] at htr
    split at htr
    case h_2 => cases htr
    rename_i op' i e1 hop hi he1
    split at htr
    case isFalse => cases htr
    rename_i harith
    simp only [Option.some.injEq] at htr; subst htr
    obtain ⟨a, hl⟩ := resolveVar_lookup eS x i hi
    obtain ⟨a', ha, hlk⟩ := hrel.lookup hi hl
    simp only [Spec.evalExpr, hl]
    split
    · exact Sim.stuck _ _
    refine Sim.succ (fun m => by
      simp only [TraceSpec.evalExpr, hlk, harith, Bool.not_true, Bool.false_eq_true, if_false]; rfl) ?_
    refine Sim.bind (ihE e e1 eS eT he1 hrel) ?_
    rintro ⟨eS1, b⟩ ⟨eT1, b'⟩ ⟨hm, hb, hr⟩
    dsimp only at hm hb hr ⊢
    have hi1 : resolveVar (eS1.map Prod.fst) x = some i := by rw [hm]; exact hi
    refine Sim.of_ok (fun p hp => ?_) (fun w hw => ?_)
    · obtain ⟨v, hv1, hp⟩ := sbind_ok.mp hp
      obtain ⟨v', hv', hb'⟩ := (binop_agree hop ha hb).1 v hv1
      split at hp
      · rename_i eS2 hu
        cases spure_ok.mp hp
        obtain ⟨eT2, hu2, hr2, hm2⟩ := hr.update hi1 hu hv'
        exact ⟨(eT2, .unit), ⟨hm2.trans hm, rfl, hr2⟩, by simp only [hb', hu2]; rfl⟩
      · cases hp
    · rcases sbind_ret.mp hw with h | ⟨v, _, h⟩
      · exact absurd h ((binop_agree hop ha hb).2 w)
      · split at h
        · exact (spure_ret.mp h).elim
        · cases h
  | call f args =>
    simp only [trE] at htr
    split at htr
    case h_2 => cases htr
    rename_i i args' hi ha
    simp only [Option.some.injEq] at htr; subst htr
    obtain ⟨fd, hfind, hget⟩ := fnIndex_find fnsS f i hi
    obtain ⟨fd', htrfn, hget'⟩ := trFns_get _ fnsS fnsT i fd hfns hget
    simp only [Spec.evalExpr, hfind]
    refine Sim.succ (fun m => by simp only [TraceSpec.evalExpr, hget']; rfl) ?_
    refine Sim.bind (ihA args args' eS eT ha hrel) ?_
    rintro ⟨eS1, vs⟩ ⟨eT1, vs'⟩ ⟨hm, hvs, hr⟩
    dsimp only at hm hvs hr ⊢
    simp only [trFn] at htrfn
    split at htrfn
    case isFalse => cases htrfn
    obtain ⟨b', hb', rfl⟩ := Option.map_eq_some_iff.mp htrfn
    constructor
    · intro p hp
      obtain ⟨cenv, hbp, hp⟩ := sbind_ok.mp hp
      obtain ⟨cenvT, hbT, hrc, hmc⟩ := bindParams_rel fd.params vs vs' [] cenv [] hbp hvs .nil
      simp only [List.length_nil, ← List.range_eq_range', List.map_nil, List.append_nil] at hbT hmc
      have hb'' : trB (fnsS.map (·.name)) (cenv.map Prod.fst) fd.body = some b' := by rw [hmc]; exact hb'
      have hB := ihB fd.body b' cenv cenvT hb'' hrc
      cases hev : Spec.evalBlock fnsS n cenv fd.body with
      | ok q =>
        obtain ⟨ce, v⟩ := q
        rw [hev] at hp; dsimp only at hp
        split at hp
        · cases hp
          obtain ⟨⟨ceT, v'⟩, ⟨_, hv', _⟩, M, hM⟩ := hB.1 _ hev
          exact ⟨(eT1, v'), ⟨hm, hv', hr⟩, M, fun m hm' => by simp only [hbT, hM m hm']⟩
        · cases hp
      | ret v =>
        rw [hev] at hp; dsimp only at hp
        split at hp
        · cases hp
          obtain ⟨v', hv', M, hM⟩ := hB.2 _ hev
          exact ⟨(eT1, v'), ⟨hm, hv', hr⟩, M, fun m hm' => by simp only [hbT, hM m hm']⟩
        · cases hp
      | trap => rw [hev] at hp; cases hp
      | fuel => rw [hev] at hp; cases hp
      | stuck w => rw [hev] at hp; cases hp
    · intro w hw
      rcases sbind_ret.mp hw with h | ⟨cenv, _, h⟩
      · exact absurd h (bindParams_not_ret _ _ _ _)
      · split at h <;> first | cases h | (split at h <;> cases h)

theorem simA_step (n : Nat) (ih : SimAll fnsS fnsT n) : SimA fnsS fnsT (n + 1) := by
  intro es es' eS eT htr hrel
  obtain ⟨ihE, ihA, -, -⟩ := ih
  cases es with
  | nil =>
    simp only [trArgs, Option.some.injEq] at htr; subst htr
    simp only [Spec.evalArgs]
    exact Sim.succ (f := fun _ => .ok (eT, [])) (fun m => by simp only [TraceSpec.evalArgs]) (Sim.ok ⟨rfl, rfl, hrel⟩)
  | cons e es =>
    simp only [trArgs] at htr
    split at htr
    case h_2 => cases htr
    rename_i e1 es1 he hes
    simp only [Option.some.injEq] at htr; subst htr
    simp only [Spec.evalArgs]
    refine Sim.succ (fun m => by simp only [TraceSpec.evalArgs]; rfl) ?_
    refine Sim.bind (ihE e e1 eS eT he hrel) ?_
    rintro ⟨eS1, v⟩ ⟨eT1, v'⟩ ⟨hm1, hv, hr1⟩
    dsimp only at hm1 hv hr1 ⊢
    refine Sim.bind (ihA es es1 eS1 eT1 (hm1 ▸ hes) hr1) ?_
    rintro ⟨eS2, vs⟩ ⟨eT2, vs'⟩ ⟨hm2, hvs, hr2⟩
    dsimp only at hm2 hvs hr2 ⊢
    exact Sim.pure ⟨hm2.trans hm1, by simp only [encArgs, hv, hvs], hr2⟩

theorem simW_step (n : Nat) (ih : SimAll fnsS fnsT n) : SimW fnsS fnsT (n + 1) := by
  intro c b c' b' eS eT hc hb hrel
  obtain ⟨ihE, -, ihB, ihW⟩ := ih
  simp only [Spec.evalWhile]
  refine Sim.succ (fun m => by simp only [TraceSpec.evalWhile]; rfl) ?_
  refine Sim.bind (ihE c c' eS eT hc hrel) ?_
  rintro ⟨eS1, a⟩ ⟨eT1, a'⟩ ⟨hm1, ha, hr1⟩
  dsimp only at hm1 ha hr1 ⊢
  rcases encVal_inv ha with ⟨x, rfl, rfl⟩ | ⟨x, rfl, rfl⟩ | ⟨rfl, rfl⟩
  · exact Sim.stuck _ _
  · cases x
    · exact Sim.pure ⟨hm1, rfl, hr1⟩
    · refine Sim.bind (ihB b b' eS1 eT1 (hm1 ▸ hb) hr1) ?_
      rintro ⟨eS2, w⟩ ⟨eT2, w'⟩ ⟨hm2, hw, hr2⟩
      dsimp only at hm2 hw hr2 ⊢
      have h12 : eS2.map Prod.fst = eS.map Prod.fst := hm2.trans hm1
      exact Sim.mono (ihW c b c' b' eS2 eT2 (h12 ▸ hc) (h12 ▸ hb) hr2) (fun _ _ h => RE.trans h12 h)
  · exact Sim.stuck _ _

omit [FloatOps] in
theorem scopeAfter_suffix : ∀ (stmts : List Spec.Stmt) (ρ : List String), ∃ pre, scopeAfter ρ stmts = pre ++ ρ
  | [], ρ => ⟨[], rfl⟩
  | .let_ x _ :: rest, ρ => by
    obtain ⟨pre, h⟩ := scopeAfter_suffix rest (x :: ρ)
    exact ⟨pre ++ [x], by simp [scopeAfter, h]⟩
  | .expr _ :: rest, ρ => by simpa [scopeAfter] using scopeAfter_suffix rest ρ

omit [FloatOps] in
theorem sbind_assoc {α β γ} (r : Spec.R α) (f : α → Spec.R β) (g : β → Spec.R γ) :
    (r >>= f) >>= g = r >>= fun a => f a >>= g := by
  cases r <;> rfl

/-- the statements of a block, in continuation-passing style: `TraceSpec` runs the translated
    statements and arrives at the rest `tl` with a related environment -/
theorem simStmts (n : Nat) (ihE : ∀ j, j ≤ n → SimE fnsS fnsT j) {γ : Type} (R' : γ → TraceSpec.Env × TraceSpec.Val → Prop)
    (tl : TraceSpec.Block) :
    ∀ (stmts : List Spec.Stmt) (j : Nat), j ≤ n → ∀ (eS : Spec.Env) (eT : TraceSpec.Env) (b' : TraceSpec.Block)
      (kS : Spec.Env → Spec.R γ),
      trStmts (fnsS.map (·.name)) (eS.map Prod.fst) stmts tl = some b' → Rel eS eT →
      (∀ eS1 eT1, eS1.map Prod.fst = scopeAfter (eS.map Prod.fst) stmts → Rel eS1 eT1 →
        Sim R' (kS eS1) (fun m => TraceSpec.evalSeq fnsT m eT1 tl)) →
      Sim R' (Spec.evalStmts fnsS j eS stmts >>= kS) (fun m => TraceSpec.evalSeq fnsT m eT b')
  | stmts, 0, _, eS, eT, b', kS, _, _, _ => by
    cases stmts <;> simp only [Spec.evalStmts] <;> exact Sim.fuel _
  | [], j + 1, _, eS, eT, b', kS, htr, hrel, hk => by
    simp only [trStmts, Option.some.injEq] at htr; subst htr
    simp only [Spec.evalStmts]
    exact hk eS eT rfl hrel
  | .let_ x e :: rest, j + 1, hj, eS, eT, b', kS, htr, hrel, hk => by
    simp only [trStmts] at htr
    split at htr
    case h_2 => cases htr
    rename_i e1 rest1 he hrest
    simp only [Option.some.injEq] at htr; subst htr
    simp only [Spec.evalStmts, sbind_assoc]
    refine Sim.succ (fun m => by simp only [TraceSpec.evalSeq]; rfl) ?_
    refine Sim.bind (ihE j (by omega) e e1 eS eT he hrel) ?_
    rintro ⟨eS1, v⟩ ⟨eT1, v'⟩ ⟨hm1, hv, hr1⟩
    dsimp only at hm1 hv hr1 ⊢
    have hlen : (eS.map Prod.fst).length = eS1.length := by
      have := congrArg List.length hm1; simpa using this.symm
    have hnone : TraceSpec.lookup eT1 (eS.map Prod.fst).length = none := hr1.lookup_ge (by omega)
    simp only [hnone]
    rw [hlen]
    refine simStmts n ihE R' tl rest j (by omega) ((x, v) :: eS1) ((eS1.length, v') :: eT1) rest1 kS ?_ (.cons hv hr1) ?_
    · simpa [hm1] using hrest
    · intro eS2 eT2 hm2 hr2
      exact hk eS2 eT2 (by simpa [scopeAfter, hm1] using hm2) hr2
  | .expr e :: rest, j + 1, hj, eS, eT, b', kS, htr, hrel, hk => by
    simp only [trStmts] at htr
    split at htr
    case h_2 => cases htr
    rename_i e1 rest1 he hrest
    simp only [Option.some.injEq] at htr; subst htr
    simp only [Spec.evalStmts, sbind_assoc]
    refine Sim.succ (fun m => by simp only [TraceSpec.evalSeq]; rfl) ?_
    refine Sim.bind (ihE j (by omega) e e1 eS eT he hrel) ?_
    rintro ⟨eS1, v⟩ ⟨eT1, v'⟩ ⟨hm1, hv, hr1⟩
    dsimp only at hm1 hv hr1 ⊢
    refine simStmts n ihE R' tl rest j (by omega) eS1 eT1 rest1 kS (hm1 ▸ hrest) hr1 ?_
    intro eS2 eT2 hm2 hr2
    exact hk eS2 eT2 (by simpa [scopeAfter, hm1] using hm2) hr2

theorem simB_step (n : Nat) (ih : ∀ j, j ≤ n → SimAll fnsS fnsT j) : SimB fnsS fnsT (n + 1) := by
  intro b b' eS eT htr hrel
  cases b with | mk stmts last =>
  obtain ⟨pre, hpre⟩ := scopeAfter_suffix stmts (eS.map Prod.fst)
  have hS : Spec.evalBlock fnsS (n + 1) eS (.mk stmts last) =
      (Spec.evalStmts fnsS n eS stmts >>= fun env =>
        (match last with
          | some e => Spec.evalExpr fnsS n env e
          | none => .ok (env, .unit))) >>= fun p => pure (p.1.drop (p.1.length - eS.length), p.2) := by
    simp only [Spec.evalBlock, sbind_assoc]
    cases last <;> rfl
  rw [hS]
  refine Sim.succ (fun m => by simp only [TraceSpec.evalBlock]; rfl) ?_
  refine Sim.bind (R := fun p q => p.1.map Prod.fst = scopeAfter (eS.map Prod.fst) stmts ∧ encVal p.2 = some q.2 ∧ Rel p.1 q.1) ?_ ?_
  · cases last with
    | none =>
      simp only [trB] at htr
      refine simStmts fnsS fnsT n (fun j hj => (ih j hj).1) _ .nil stmts n (Nat.le_refl n) eS eT b' _ htr hrel ?_
      intro eS1 eT1 hm1 hr1
      exact Sim.succ (f := fun _ => .ok (eT1, .unit)) (fun m => by simp only [TraceSpec.evalSeq]) (Sim.ok ⟨hm1, rfl, hr1⟩)
    | some e =>
      simp only [trB] at htr
      split at htr
      case h_2 => cases htr
      rename_i e1 he
      refine simStmts fnsS fnsT n (fun j hj => (ih j hj).1) _ (.last e1) stmts n (Nat.le_refl n) eS eT b' _ htr hrel ?_
      intro eS1 eT1 hm1 hr1
      refine Sim.succ (fun m => by simp only [TraceSpec.evalSeq]; rfl) ?_
      exact Sim.mono ((ih n (Nat.le_refl n)).1 e e1 eS1 eT1 (hm1 ▸ he) hr1) (fun _ _ h => ⟨h.1.trans hm1, h.2⟩)
  · rintro ⟨eS1, v⟩ ⟨eT1, v'⟩ ⟨hm1, hv, hr1⟩
    dsimp only at hm1 hv hr1 ⊢
    have hl := Rel.leave hrel hr1 (hm1.trans hpre)
    exact Sim.pure ⟨hl.2, hv, hl.1⟩

theorem sim_zero : SimAll fnsS fnsT 0 := by
  refine ⟨?_, ?_, ?_, ?_⟩
  · intro e e' eS eT _ _; simp only [Spec.evalExpr]; exact Sim.fuel _
  · intro es es' eS eT _ _; simp only [Spec.evalArgs]; exact Sim.fuel _
  · intro b b' eS eT _ _; simp only [Spec.evalBlock]; exact Sim.fuel _
  · intro c b c' b' eS eT _ _ _; simp only [Spec.evalWhile]; exact Sim.fuel _

/-- **Agreement of the two reference semantics on the common fragment**, for every fuel of
    `Spec`: expressions, argument lists, blocks and loops. -/
theorem agree_all (hfns : trFns (fnsS.map (·.name)) fnsS = some fnsT) : ∀ n, ∀ j, j ≤ n → SimAll fnsS fnsT j
  | 0, j, hj => by
    obtain rfl : j = 0 := by omega
    exact sim_zero fnsS fnsT
  | n + 1, j, hj => by
    by_cases h : j ≤ n
    · exact agree_all hfns n j h
    · obtain rfl : j = n + 1 := by omega
      have ih := agree_all hfns n
      exact ⟨simE_step fnsS fnsT n (ih n (Nat.le_refl n)) hfns, simA_step fnsS fnsT n (ih n (Nat.le_refl n)),
        simB_step fnsS fnsT n ih, simW_step fnsS fnsT n (ih n (Nat.le_refl n))⟩

end sim

/-- **One call of `main`**: if `Spec.run` yields the value `v`, then for every sufficiently large
    fuel `TraceSpec.run` on the resolved program and the same arguments yields the same value. -/
theorem run_agree [FloatOps] (fnsS : List Spec.FnDef) (fnsT : List TraceSpec.FnDef) (hres : resolve fnsS = some fnsT)
    (fuel : Nat) (args : List Spec.Val) (args' : List TraceSpec.Val) (henc : encArgs args = some args')
    (v : Spec.Val) (h : Spec.run fnsS fuel args = .ok v) :
    ∃ v', encVal v = some v' ∧ ∃ M, ∀ m, M ≤ m → (TraceSpec.run fnsT m args').result = .ok v' := by
  simp only [resolve] at hres
  split at hres
  case isFalse => cases hres
  rename_i hmain
  simp only [mainLast, Bool.and_eq_true, decide_eq_true_eq, beq_iff_eq, List.length_map, ne_eq] at hmain
  obtain ⟨hne, hidx⟩ := hmain
  obtain ⟨fd, hfind, hget⟩ := fnIndex_find fnsS "main" _ hidx
  obtain ⟨fd', htrfn, hget'⟩ := trFns_get _ fnsS fnsT _ fd hres hget
  have hlen := trFns_length _ fnsS fnsT hres
  have hlast : fnsT.getLast? = some fd' := by
    rw [List.getLast?_eq_getElem?, hlen]; exact hget'
  simp only [trFn] at htrfn
  split at htrfn
  case isFalse => cases htrfn
  obtain ⟨b', hb', rfl⟩ := Option.map_eq_some_iff.mp htrfn
  simp only [Spec.run, hfind] at h
  split at h
  case h_2 => cases h
  case h_3 => cases h
  rename_i cenv hbp
  obtain ⟨cenvT, hbT, hrc, hmc⟩ := bindParams_rel fd.params args args' [] cenv [] hbp henc .nil
  simp only [List.length_nil, ← List.range_eq_range', List.map_nil, List.append_nil] at hbT hmc
  have hb'' : trB (fnsS.map (·.name)) (cenv.map Prod.fst) fd.body = some b' := by rw [hmc]; exact hb'
  have hB := (agree_all fnsS fnsT hres fuel fuel (Nat.le_refl fuel)).2.2.1 fd.body b' cenv cenvT hb'' hrc
  split at h
  · rename_i ce w hev
    split at h
    · cases h
      obtain ⟨⟨ceT, v'⟩, ⟨_, hv', _⟩, M, hM⟩ := hB.1 _ hev
      exact ⟨v', hv', M, fun m hm => by simp only [TraceSpec.run, hlast, hbT, hM m hm]⟩
    · cases h
  · rename_i w hev
    split at h
    · cases h
      obtain ⟨v', hv', M, hM⟩ := hB.2 _ hev
      exact ⟨v', hv', M, fun m hm => by simp only [TraceSpec.run, hlast, hbT, hM m hm]⟩
    · cases h
  · cases h
  · cases h
  · cases h

end RotoV.C01Agree
