/-
  Exported names (C13): the name under which a script function is stored in the
  compiled module — `TypeInfo::full_name` = `print_scope(module scope) . ident`
  — is the module path from the root module followed by the function's name, and
  this map is injective.
-/
import RotoV.Model.Scope
import RotoV.Lemmas.Scope
import RotoV.Lemmas.ScopePath
import RotoV.Lemmas.ScopeFrame
import RotoV.Lemmas.ScopeBuild

namespace RotoV.Scope

/-- the identifiers from a root module down to module `i` of the list, read off
    the module list alone (`Module.parent` links) -/
inductive PathTo (ms : List Module) : Nat → List Name → Prop
  | root {i m} : ms[i]? = some m → m.parent = none → PathTo ms i [m.ident]
  | child {i m p l} : ms[i]? = some m → m.parent = some p → PathTo ms p l →
      PathTo ms i (l ++ [m.ident])

theorem pathTo_ne_nil {ms : List Module} {i : Nat} {l : List Name} (h : PathTo ms i l) : l ≠ [] := by
  cases h <;> simp

theorem pathTo_unique {ms : List Module} {i : Nat} {l₁ l₂ : List Name}
    (h₁ : PathTo ms i l₁) (h₂ : PathTo ms i l₂) : l₁ = l₂ := by
  induction h₁ generalizing l₂ with
  | root hm hp =>
    cases h₂ with
    | root hm' _ => rw [hm] at hm'; cases hm'; rfl
    | child hm' hp' _ => rw [hm] at hm'; cases hm'; rw [hp] at hp'; cases hp'
  | child hm hp _ ih =>
    cases h₂ with
    | root hm' hp' => rw [hm] at hm'; cases hm'; rw [hp] at hp'; cases hp'
    | child hm' hp' h' =>
      rw [hm] at hm'; cases hm'; rw [hp] at hp'; cases hp'
      rw [ih h']

/-- what `declare_modules` has recorded about the modules declared so far -/
structure MInfo (g : Graph) (ms : List Module) (mods : List Nat) : Prop where
  len : mods.length = ms.length
  recd : ∀ (i : Nat) (m : Module) (s : Nat), ms[i]? = some m → mods[i]? = some s →
    ∃ sc : Scope, g.scopes[s]? = some sc ∧ sc.parent = some 0 ∧
      ((m.parent = none ∧ sc.kind = .module ⟨0, m.ident⟩ none) ∨
       (∃ p ps, m.parent = some p ∧ p < i ∧ mods[p]? = some ps ∧ ps < s ∧
          sc.kind = .module ⟨ps, m.ident⟩ (some ps)))
  bound : ∀ s ∈ mods, s < g.scopes.length
  incr : mods.Pairwise (· < ·)

theorem minfo_ext {g g' : Graph} {ms : List Module} {mods : List Nat} (h : MInfo g ms mods)
    (e : Ext g g') (hl : g.scopes.length ≤ g'.scopes.length) : MInfo g' ms mods where
  len := h.len
  recd := by
    intro i m s hm hs
    obtain ⟨sc, h1, h2, h3⟩ := h.recd i m s hm hs
    obtain ⟨sc', e1, e2, e3⟩ := e.scopes s sc h1
    exact ⟨sc', e1, by rw [e3, h2], by rw [e2]; exact h3⟩
  bound := fun s hs => Nat.lt_of_lt_of_le (h.bound s hs) hl
  incr := h.incr

theorem minfo_modScopes {g : Graph} {ms : List Module} {mods : List Nat} (h : MInfo g ms mods) :
    ModScopes g mods := by
  intro x hx
  obtain ⟨i, hi⟩ := List.getElem?_of_mem hx
  have hlt : i < ms.length := by
    have := getElem?_lt hi
    rw [h.len] at this; exact this
  obtain ⟨sc, h1, _, h3⟩ := h.recd i ms[i] x (List.getElem?_eq_getElem hlt) hi
  rcases h3 with ⟨_, hk⟩ | ⟨p, ps, _, _, _, _, hk⟩
  · exact ⟨sc, _, _, h1, hk⟩
  · exact ⟨sc, _, _, h1, hk⟩

theorem minfo_declareModules :
    ∀ (rest done : List Module) (mods : List Nat) (g g' : Graph) (mods' : List Nat),
      Inv g → MInfo g done mods → declareModules rest mods g = .ok (g', mods') →
      MInfo g' (done ++ rest) mods' := by
  intro rest
  induction rest with
  | nil =>
    intro done mods g g' mods' _ hi h
    simp only [declareModules, Res.ok.injEq, Prod.mk.injEq] at h
    obtain ⟨rfl, rfl⟩ := h
    simpa using hi
  | cons m rest ih =>
    intro done mods g g' mods' inv hi h
    have hm := minfo_modScopes hi
    unfold declareModules at h
    simp only at h
    -- the parent module's scope
    have hpm : ∀ pmv : Option Nat, parentScopeOf mods m.parent = .ok pmv →
        (m.parent = none ∧ pmv = none) ∨
        (∃ p ps, m.parent = some p ∧ mods[p]? = some ps ∧ pmv = some ps) := by
      intro pmv hpm
      unfold parentScopeOf at hpm
      cases hpar : m.parent with
      | none => rw [hpar] at hpm; cases hpm; exact Or.inl ⟨rfl, rfl⟩
      | some q =>
        rw [hpar] at hpm
        simp only at hpm
        cases hq : mods[q]? with
        | none => rw [hq] at hpm; cases hpm
        | some ps =>
          rw [hq] at hpm
          cases hpm
          exact Or.inr ⟨q, ps, rfl, hq, rfl⟩
    generalize hpmeq : parentScopeOf mods m.parent = pmr at h
    cases pmr with
    | panic x => cases h
    | err e => cases h
    | ok pmv =>
      simp only at h
      have hpmv := hpm pmv hpmeq
      have hpm' : ∀ p, pmv = some p → ∃ psc pn ppm, g.scopes[p]? = some psc ∧ psc.kind = .module pn ppm := by
        intro p hp
        rcases hpmv with ⟨_, hn⟩ | ⟨q, ps, _, hq, hs⟩
        · rw [hn] at hp; cases hp
        · simp only [hs, Option.some.injEq] at hp
          subst hp
          exact hm _ (List.mem_of_getElem? hq)
      cases hd : (g.wrap 0 (.module ⟨pmv.getD 0, m.ident⟩ pmv)).1.insertDecl ⟨pmv.getD 0, m.ident⟩ .module
          (some (g.wrap 0 (.module ⟨pmv.getD 0, m.ident⟩ pmv)).2) with
      | panic x => rw [hd] at h; cases h
      | err e => rw [hd] at h; cases h
      | ok g2 =>
        rw [hd] at h
        simp only at h
        have i2 : Inv g2 := inv_declare_module inv _ pmv hpm' hd
        have hl2 : g2.scopes.length = g.scopes.length + 1 := by
          rw [(insertDecl_ok hd).2.1, wrap_length]
        have e2 : Ext g g2 := ext_trans (ext_wrap g 0 _) (ext_insertDecl hd)
        cases hit : declareItems (g.wrap 0 (.module ⟨pmv.getD 0, m.ident⟩ pmv)).2 m.items g2 with
        | panic x => rw [hit] at h; cases h
        | err e => rw [hit] at h; cases h
        | ok g3 =>
          rw [hit] at h
          simp only at h
          have s3 := step_declareItems _ m.items g2 g3 i2 (by rw [wrap_snd]; omega) hit
          have e3 : Ext g g3 := ext_trans e2 s3.2.2
          have hl3 : g.scopes.length + 1 ≤ g3.scopes.length := by have := s3.2.1; omega
          have h2new : g2.scopes[g.scopes.length]? =
              some ⟨.module ⟨pmv.getD 0, m.ident⟩ pmv, some 0, []⟩ := by
            rw [(insertDecl_ok hd).2.1]; exact wrap_scopes_new 0 _
          obtain ⟨scn, hn1, hnk, hnp⟩ := s3.2.2.scopes _ _ h2new
          have hi_old := minfo_ext hi e3 (by omega)
          have hi3 : MInfo g3 (done ++ [m]) (mods ++ [g.scopes.length]) := {
            len := by simp [hi.len]
            recd := by
              intro i mi s hmi hs
              by_cases hlt : i < done.length
              · rw [List.getElem?_append_left hlt] at hmi
                rw [List.getElem?_append_left (by rw [hi.len]; exact hlt)] at hs
                obtain ⟨sc, h1, h2, h3⟩ := hi_old.recd i mi s hmi hs
                refine ⟨sc, h1, h2, ?_⟩
                rcases h3 with h3 | ⟨p, ps, hp1, hp2, hp3, hp4, hp5⟩
                · exact Or.inl h3
                · refine Or.inr ⟨p, ps, hp1, hp2, ?_, hp4, hp5⟩
                  rw [List.getElem?_append_left (getElem?_lt hp3)]; exact hp3
              · have hil : i < (done ++ [m]).length := getElem?_lt hmi
                simp only [List.length_append, List.length_cons, List.length_nil] at hil
                have hieq : i = done.length := by omega
                subst hieq
                simp only [List.getElem?_append_right (Nat.le_refl _), Nat.sub_self,
                  List.getElem?_cons_zero, Option.some.injEq] at hmi
                subst hmi
                rw [← hi.len] at hs
                simp only [List.getElem?_append_right (Nat.le_refl _), Nat.sub_self,
                  List.getElem?_cons_zero, Option.some.injEq] at hs
                subst hs
                refine ⟨scn, hn1, by rw [hnp], ?_⟩
                rw [hnk]
                rcases hpmv with ⟨hpn, hn⟩ | ⟨q, ps, hq1, hq2, hq3⟩
                · subst hn; exact Or.inl ⟨hpn, rfl⟩
                · subst hq3
                  refine Or.inr ⟨q, ps, hq1, ?_, ?_, hi.bound ps (List.mem_of_getElem? hq2), rfl⟩
                  · have := getElem?_lt hq2; rw [hi.len] at this; exact this
                  · rw [List.getElem?_append_left (getElem?_lt hq2)]; exact hq2
            bound := by
              intro s hs
              simp only [List.mem_append, List.mem_singleton] at hs
              rcases hs with hs | hs
              · exact hi_old.bound s hs
              · subst hs; omega
            incr := by
              rw [List.pairwise_append]
              refine ⟨hi.incr, by simp, ?_⟩
              intro a ha b hb
              simp only [List.mem_singleton] at hb
              subst hb
              exact hi.bound a ha }
          have := ih (done ++ [m]) _ g3 g' mods' s3.1 hi3 h
          simpa using this

theorem minfo_nil (g : Graph) : MInfo g [] [] where
  len := rfl
  recd := by intro i m s hm; simp at hm
  bound := by intro s hs; cases hs
  incr := List.Pairwise.nil

/-! ## `module_name`, `print_scope`, `full_name` -/

/-- the root scope is the root and has no parent -/
def RootOk (g : Graph) : Prop :=
  ∃ sc : Scope, g.scopes[0]? = some sc ∧ sc.kind = .root ∧ sc.parent = none

theorem rootOk_new : RootOk Graph.new := ⟨_, rfl, rfl, rfl⟩

theorem rootOk_ext {g g' : Graph} (h : RootOk g) (e : Ext g g') : RootOk g' := by
  obtain ⟨sc, h1, h2, h3⟩ := h
  obtain ⟨sc', e1, e2, e3⟩ := e.scopes 0 sc h1
  exact ⟨sc', e1, by rw [e2, h2], by rw [e3, h3]⟩

/-- `module_name` of the scope of module `i` is the module path -/
theorem moduleName_spec {g : Graph} {ms : List Module} {mods : List Nat} (hi : MInfo g ms mods) :
    ∀ {i : Nat} {path : List Name}, PathTo ms i path →
      ∀ (s : Nat) (sc : Scope) (name : RName) (pm : Option Nat) (fuel : Nat),
        mods[i]? = some s → g.scopes[s]? = some sc → sc.kind = .module name pm → s < fuel →
        moduleNameF g fuel name pm = .ok path := by
  intro i path hp
  induction hp with
  | root hm hpar =>
    intro s sc name pm fuel hs hsc hk hf
    obtain ⟨sc', h1, _, h3⟩ := hi.recd _ _ s hm hs
    rw [hsc] at h1; cases h1
    rcases h3 with ⟨_, hk'⟩ | ⟨p, ps, hp1, _⟩
    · rw [hk] at hk'
      simp only [SKind.module.injEq] at hk'
      obtain ⟨rfl, rfl⟩ := hk'
      cases fuel with
      | zero => omega
      | succ f => simp [moduleNameF]
    · rw [hpar] at hp1; cases hp1
  | child hm hpar hrest ih =>
    rename_i i m p l
    intro s sc name pm fuel hs hsc hk hf
    obtain ⟨sc', h1, _, h3⟩ := hi.recd _ _ s hm hs
    rw [hsc] at h1; cases h1
    rcases h3 with ⟨hn, _⟩ | ⟨p', ps, hp1, hp2, hp3, hp4, hk'⟩
    · rw [hpar] at hn; cases hn
    · rw [hpar] at hp1; cases hp1
      rw [hk] at hk'
      simp only [SKind.module.injEq] at hk'
      obtain ⟨rfl, rfl⟩ := hk'
      -- the parent's record
      have hmp : ∃ mp, ms[p]? = some mp := by
        cases hrest with
        | root h _ => exact ⟨_, h⟩
        | child h _ _ => exact ⟨_, h⟩
      obtain ⟨mp, hmp⟩ := hmp
      obtain ⟨psc, hp1', _, hp3'⟩ := hi.recd p mp ps hmp hp3
      have hpk : ∃ pn ppm, psc.kind = .module pn ppm := by
        rcases hp3' with ⟨_, hk⟩ | ⟨_, _, _, _, _, _, hk⟩ <;> exact ⟨_, _, hk⟩
      obtain ⟨pn, ppm, hpk⟩ := hpk
      cases fuel with
      | zero => omega
      | succ f =>
        have := ih ps psc pn ppm f hp3 hp1' hpk (by omega)
        obtain ⟨pkind, ppar, pimp⟩ := psc
        simp only at hpk
        subst hpk
        simp [moduleNameF, hp1', this]

/-- **`full_name`** of an item `f` declared in the scope of module `i` -/
theorem fullName_spec {g : Graph} {ms : List Module} {mods : List Nat} (hi : MInfo g ms mods)
    (hr : RootOk g) {i : Nat} {path : List Name} (hp : PathTo ms i path) {s : Nat}
    (hs : mods[i]? = some s) (f : Name) :
    fullName g ⟨s, f⟩ = .ok ((path ++ [f]).map Seg.id) := by
  have hm : ∃ m, ms[i]? = some m := by
    cases hp with
    | root h _ => exact ⟨_, h⟩
    | child h _ _ => exact ⟨_, h⟩
  obtain ⟨m, hm⟩ := hm
  obtain ⟨sc, h1, h2, h3⟩ := hi.recd i m s hm hs
  have hk : ∃ name pm, sc.kind = .module name pm := by
    rcases h3 with ⟨_, hk⟩ | ⟨_, _, _, _, _, _, hk⟩ <;> exact ⟨_, _, hk⟩
  obtain ⟨name, pm, hk⟩ := hk
  have hmn := moduleName_spec hi hp s sc name pm (s + 1) hs h1 hk (Nat.lt_succ_self s)
  obtain ⟨rsc, hr1, hr2, _⟩ := hr
  have hs0 : s ≠ 0 := by
    intro h0
    subst h0
    rw [hr1] at h1; cases h1
    rw [hr2] at hk; cases hk
  obtain ⟨k, parent, imps⟩ := sc
  simp only at hk h2
  subst hk h2
  obtain ⟨rk, rp, ri⟩ := rsc
  simp only at hr2
  subst hr2
  cases s with
  | zero => exact absurd rfl hs0
  | succ s' =>
    simp [fullName, printScope, printScopeF, h1, hmn, hr1]

/-- the lookup path of a module scope: the module, then the root — never the
    parent module -/
theorem module_chain {g : Graph} {ms : List Module} {mods : List Nat} (hi : MInfo g ms mods)
    (hr : RootOk g) {i : Nat} {m : Module} {s : Nat} (hm : ms[i]? = some m) (hs : mods[i]? = some s) :
    Ancestors g s [s, 0] := by
  obtain ⟨sc, h1, h2, _⟩ := hi.recd i m s hm hs
  obtain ⟨rsc, hr1, _, hr3⟩ := hr
  exact .step h1 h2 (.root hr1 hr3)

theorem ancestors_wrap_old {g : Graph} (parent : Nat) (kind : SKind) {a : Nat} {l : List Nat}
    (h : Ancestors g a l) : Ancestors (g.wrap parent kind).1 a l := by
  induction h with
  | root hs hp => exact .root (by rw [wrap_scopes_old parent kind (getElem?_lt hs)]; exact hs) hp
  | step hs hp _ ih =>
    exact .step (by rw [wrap_scopes_old parent kind (getElem?_lt hs)]; exact hs) hp ih

/-- wrapping a scope under `s` puts it in front of `s`'s lookup path -/
theorem ancestors_wrap {g : Graph} {s : Nat} {l : List Nat} (h : Ancestors g s l) (kind : SKind) :
    Ancestors (g.wrap s kind).1 (g.wrap s kind).2 ((g.wrap s kind).2 :: l) :=
  .step (wrap_scopes_new s kind) rfl (ancestors_wrap_old s kind h)

/-! ## injectivity -/

/-- distinct modules have distinct (parent, identifier) pairs -/
def UniqMods (ms : List Module) : Prop :=
  ∀ (i j : Nat) (mi mj : Module), ms[i]? = some mi → ms[j]? = some mj →
    mi.parent = mj.parent → mi.ident = mj.ident → i = j

theorem pathTo_injective {ms : List Module} (u : UniqMods ms) :
    ∀ {i : Nat} {l : List Name}, PathTo ms i l → ∀ {j : Nat}, PathTo ms j l → i = j := by
  intro i l h
  induction h with
  | root hm hp =>
    intro j hj
    rename_i i m
    generalize hl : [m.ident] = l' at hj
    cases hj with
    | root hm' hp' =>
      simp only [List.cons.injEq, and_true] at hl
      exact u _ _ _ _ hm hm' (by rw [hp, hp']) hl
    | child hm' hp' hrest =>
      rename_i mj pj lj
      have : lj = [] := by
        have hlen := congrArg List.length hl
        simp only [List.length_append, List.length_cons, List.length_nil] at hlen
        exact List.eq_nil_of_length_eq_zero (by omega)
      exact absurd this (pathTo_ne_nil hrest)
  | child hm hp hrest ih =>
    intro j hj
    rename_i i m p l0
    generalize hl : l0 ++ [m.ident] = l' at hj
    cases hj with
    | root hm' hp' =>
      have : l0 = [] := by
        have hlen := congrArg List.length hl
        simp only [List.length_append, List.length_cons, List.length_nil] at hlen
        exact List.eq_nil_of_length_eq_zero (by omega)
      exact absurd this (pathTo_ne_nil hrest)
    | child hm' hp' hrest' =>
      rename_i mj pj lj
      have hinj := List.append_inj' hl (by simp)
      obtain ⟨h1, h2⟩ := hinj
      simp only [List.cons.injEq, and_true] at h2
      subst h1
      have hpp := ih hrest'
      exact u _ _ _ _ hm hm' (by rw [hp, hp', hpp]) h2

/-- a successful `declare_modules` has checked that (parent, identifier) pairs are distinct -/
theorem uniq_of_minfo {g : Graph} {ms : List Module} {mods : List Nat} (hi : MInfo g ms mods)
    (mok : ModulesOk g) : UniqMods ms := by
  intro i j mi mj hmi hmj hpar hid
  have hil : i < mods.length := by rw [hi.len]; exact getElem?_lt hmi
  have hjl : j < mods.length := by rw [hi.len]; exact getElem?_lt hmj
  have hsi : mods[i]? = some mods[i] := List.getElem?_eq_getElem hil
  have hsj : mods[j]? = some mods[j] := List.getElem?_eq_getElem hjl
  obtain ⟨sci, a1, _, a3⟩ := hi.recd i mi _ hmi hsi
  obtain ⟨scj, b1, _, b3⟩ := hi.recd j mj _ hmj hsj
  -- both scopes are owned by the declaration of the same name
  have hname : ∃ name pmi pmj, sci.kind = .module name pmi ∧ scj.kind = .module name pmj := by
    rcases a3 with ⟨ha, hka⟩ | ⟨p, ps, ha1, _, ha3, _, hka⟩
    · rcases b3 with ⟨hb, hkb⟩ | ⟨q, qs, hb1, _, _, _, hkb⟩
      · exact ⟨_, _, _, hka, by rw [hkb, hid]⟩
      · rw [ha, hb1] at hpar; cases hpar
    · rcases b3 with ⟨hb, hkb⟩ | ⟨q, qs, hb1, _, hb3, _, hkb⟩
      · rw [ha1, hb] at hpar; cases hpar
      · rw [ha1, hb1] at hpar
        cases hpar
        rw [ha3] at hb3
        cases hb3
        exact ⟨_, _, _, hka, by rw [hkb, hid]⟩
  obtain ⟨name, pmi, pmj, hki, hkj⟩ := hname
  obtain ⟨⟨di, hdi, hsi'⟩, _⟩ := mok _ sci name pmi a1 hki
  obtain ⟨⟨dj, hdj, hsj'⟩, _⟩ := mok _ scj name pmj b1 hkj
  rw [hdi] at hdj
  cases hdj
  rw [hsi'] at hsj'
  simp only [Option.some.injEq] at hsj'
  -- strictly increasing ⇒ injective
  rcases Nat.lt_trichotomy i j with hlt | heq | hgt
  · have := List.pairwise_iff_getElem.mp hi.incr i j hil hjl hlt
    omega
  · exact heq
  · have := List.pairwise_iff_getElem.mp hi.incr j i hjl hil hgt
    omega

/-- every module of a successfully declared list has a path -/
theorem pathTo_exists {g : Graph} {ms : List Module} {mods : List Nat} (hi : MInfo g ms mods) :
    ∀ i, i < ms.length → ∃ path, PathTo ms i path := by
  intro i
  induction i using Nat.strongRecOn with
  | _ i ih =>
    intro hlt
    have hm : ms[i]? = some ms[i] := List.getElem?_eq_getElem hlt
    have hil : i < mods.length := by rw [hi.len]; exact hlt
    obtain ⟨sc, _, _, h3⟩ := hi.recd i ms[i] mods[i] hm (List.getElem?_eq_getElem hil)
    rcases h3 with ⟨hn, _⟩ | ⟨p, ps, hp1, hp2, hp3, _, _⟩
    · exact ⟨_, .root hm hn⟩
    · have hpl : p < ms.length := by
        have := getElem?_lt hp3; rw [hi.len] at this; exact this
      obtain ⟨l, hl⟩ := ih p hp2 hpl
      exact ⟨_, .child hm hp1 hl⟩

/-- `check_module_tree` = `declare_modules`, then passes that only extend the graph -/
theorem checkModuleTree_split {g0 : Graph} (inv : Inv g0) {ms : List Module} {out : Outcome}
    (h : checkModuleTree g0 ms = .ok out) :
    ∃ g1, declareModules ms [] g0 = .ok (g1, out.mods) ∧ Step g0 g1 ∧ Step g1 out.g := by
  unfold checkModuleTree at h
  cases hd : declareModules ms [] g0 with
  | panic x => rw [hd] at h; cases h
  | err e => rw [hd] at h; cases h
  | ok pr =>
    rw [hd] at h
    obtain ⟨g1, mods⟩ := pr
    simp only at h
    obtain ⟨s1, hm1, _⟩ := step_declareModules ms [] g0 g1 mods inv (by intro x hx; cases hx) hd
    cases hi : declareImports (mods.zip ms) g1 with
    | panic x => rw [hi] at h; cases h
    | err e => rw [hi] at h; cases h
    | ok g2 =>
      rw [hi] at h
      simp only at h
      have s2 := step_declareImports _ g1 g2 s1.1 hi
      cases ht : checkTree (mods.zip ms) ⟨g2, 0, sigProbes g2 (mods.zip ms)⟩ with
      | panic x => rw [ht] at h; cases h
      | err e => rw [ht] at h; cases h
      | ok st =>
        rw [ht] at h
        simp only [Res.ok.injEq] at h
        subst h
        have hv : ∀ x ∈ mods.zip ms, x.1 < g2.scopes.length := by
          intro x hx
          have hx1 : x.1 ∈ mods := (List.of_mem_zip hx).1
          obtain ⟨sc, _, _, hs, _⟩ := hm1 x.1 hx1
          exact Nat.lt_of_lt_of_le (getElem?_lt hs) s2.2.1
        have s3 := step_checkTree _ ⟨g2, 0, sigProbes g2 (mods.zip ms)⟩ st s2.1 hv ht
        exact ⟨g1, rfl, s1, step_trans s2 s3⟩

/-- the facts T5 rests on, for the final graph of a successful `check_module_tree` -/
theorem minfo_checkModuleTree {rt ms : List Module} {g0 : Graph} {m0 : List Nat} {out : Outcome}
    (h0 : declareModules rt [] Graph.new = .ok (g0, m0))
    (h : checkModuleTree g0 ms = .ok out) :
    MInfo out.g ms out.mods ∧ RootOk out.g ∧ Inv out.g := by
  obtain ⟨s0, _, _⟩ := step_declareModules rt [] Graph.new g0 m0 inv_new (by intro x hx; cases hx) h0
  obtain ⟨g1, hd, s1, s2⟩ := checkModuleTree_split s0.1 h
  have hi := minfo_declareModules ms [] [] g0 g1 out.mods s0.1 (minfo_nil g0) hd
  simp only [List.nil_append] at hi
  exact ⟨minfo_ext hi s2.2.2 s2.2.1,
    rootOk_ext (rootOk_ext (rootOk_ext rootOk_new s0.2.2) s1.2.2) s2.2.2, s2.1⟩

end RotoV.Scope
