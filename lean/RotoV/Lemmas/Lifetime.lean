import RotoV.Model.Lifetime
namespace RotoV.Lifetime
end RotoV.Lifetime
