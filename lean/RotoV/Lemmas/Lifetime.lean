/-
  Lemmas for C11: the lifetime invariant of `RotoV.Lifetime` and its
  preservation by every operation, for every `Facts` that is `Good`
  (a decidable condition the *generated* facts are tested against in
  Props/C11.lean).  Core Lean only.
-/
import RotoV.Model.Lifetime

namespace RotoV.Lifetime

/-! ### list facts -/

theorem countP_eraseIdx_add {α : Type} (p : α → Bool) :
    ∀ (l : List α) (i : Nat) (h : i < l.length),
      (l.eraseIdx i).countP p + (if p l[i] then 1 else 0) = l.countP p
  | [], i, h => by simp at h
  | a :: l, 0, _ => by simp [List.countP_cons]
  | a :: l, i + 1, h => by
    have ih := countP_eraseIdx_add p l i (by simpa using h)
    simp only [List.eraseIdx_cons_succ, List.countP_cons, List.getElem_cons_succ]
    omega

theorem countP_erase_add (p : Nat → Bool) :
    ∀ (l : List Nat) (k : Nat), k ∈ l →
      (l.erase k).countP p + (if p k then 1 else 0) = l.countP p
  | [], k, h => by simp at h
  | a :: l, k, h => by
    by_cases hak : a = k
    · subst hak; simp [List.countP_cons]
    · have hk : k ∈ l := by
        rcases List.mem_cons.1 h with h | h
        · exact absurd h.symm hak
        · exact h
      have ih := countP_erase_add p l k hk
      have : (a == k) = false := by simpa using hak
      simp only [List.erase_cons, this, List.countP_cons]
      simp only [Bool.false_eq_true, if_false, List.countP_cons]
      omega

theorem countP_set_of_eq {α : Type} (p : α → Bool) :
    ∀ (l : List α) (i : Nat) (a : α) (h : i < l.length), p a = p l[i] → (l.set i a).countP p = l.countP p
  | [], i, _, h, _ => by simp at h
  | b :: l, 0, a, _, hp => by
    simp only [List.getElem_cons_zero] at hp
    simp [List.countP_cons, hp]
  | b :: l, i + 1, a, h, hp => by
    simp only [List.getElem_cons_succ] at hp
    have ih := countP_set_of_eq p l i a (by simpa using h) hp
    simp [List.countP_cons, ih]

theorem filter_set_of_not {α : Type} (p : α → Bool) :
    ∀ (l : List α) (i : Nat) (a : α) (h : i < l.length), p a = false → p l[i] = false →
      (l.set i a).filter p = l.filter p
  | [], i, _, h, _, _ => by simp at h
  | b :: l, 0, a, _, ha, hp => by
    simp only [List.getElem_cons_zero] at hp
    simp [ha, hp]
  | b :: l, i + 1, a, h, ha, hp => by
    simp only [List.getElem_cons_succ] at hp
    have ih := filter_set_of_not p l i a (by simpa using h) ha hp
    simp [List.filter_cons, ih]

theorem upd_same {α : Type} (f : Nat → α) (k : Nat) (v : α) : upd f k v k = v := by simp [upd]
theorem upd_other {α : Type} (f : Nat → α) (k j : Nat) (v : α) (h : j ≠ k) : upd f k v j = f j := by
  simp [upd, h]

/-! ### the admissible facts -/

/-- field orders in which the script constants AND the keep-alive collection of registered functions are
    dropped before the JIT module: a script constant's drop function is code of the module, and so is the drop
    glue of script-built values (lists) that the state of a registered closure may have kept — when the module
    holds the last `Arc` of such a closure, its state is released by the drop of `_registered_fns` -/
def goodOrders : List (List Field) :=
  [ [.constants, .rotoConstants, .registeredFns, .jit],
    [.constants, .registeredFns, .rotoConstants, .jit], [.rotoConstants, .constants, .registeredFns, .jit],
    [.rotoConstants, .registeredFns, .constants, .jit],
    [.rotoConstants, .registeredFns, .jit, .constants], [.registeredFns, .constants, .rotoConstants, .jit],
    [.registeredFns, .rotoConstants, .constants, .jit], [.registeredFns, .rotoConstants, .jit, .constants] ]

/-- the fields whose drop does something the model tracks -/
def coreFields (fs : List Field) : List Field := fs.filter (fun f => f != Field.plain)

/-- `Drop for RotoConstant` calls the constant's drop function exactly once, whatever the size of the
    constant's type, and not after it gave the slot back -/
def constDropGoodB (body : List (SizeGuard × DropAct)) : Bool :=
  dropFnCalls body true == 1 && dropFnCalls body false == 1
    && !dropFnAfterDealloc body true && !dropFnAfterDealloc body false

/-- what the theorems need from the implementation's declarations -/
def goodB (F : Facts) : Bool :=
  F.handleHoldsArc && F.constsCloned && F.fnsCloned
    && decide (F.freeSites = [FreeSite.wrapperDrop]) && goodOrders.contains (coreFields F.moduleFields)
    && F.closureKeepsArc && F.dataHolders.all Holder.heldByHandles && F.testHoldsHandle
    && constDropGoodB F.constDrop && decide (F.fnsKeep = KeepKey.perArc)

structure Good (F : Facts) : Prop where
  holds : F.handleHoldsArc = true
  consts : F.constsCloned = true
  fns : F.fnsCloned = true
  sites : F.freeSites = [FreeSite.wrapperDrop]
  order : coreFields F.moduleFields ∈ goodOrders
  closure : F.closureKeepsArc = true
  data : F.dataHolders.all Holder.heldByHandles = true
  test : F.testHoldsHandle = true
  constDrop : ∀ zst, dropFnCalls F.constDrop zst = 1
  keep : F.fnsKeep = KeepKey.perArc

theorem good_of_goodB {F : Facts} (h : goodB F = true) : Good F := by
  simp only [goodB, constDropGoodB, Bool.and_eq_true, decide_eq_true_eq, List.contains_iff_mem, beq_iff_eq] at h
  obtain ⟨⟨⟨⟨⟨⟨⟨⟨⟨h1, h2⟩, h3⟩, h4⟩, h5⟩, h6⟩, h7⟩, h8⟩, ⟨⟨⟨c1, c2⟩, _⟩, _⟩⟩, h9⟩ := h
  exact ⟨h1, h2, h3, h4, h5, h6, h7, h8, fun zst => by cases zst <;> assumption, h9⟩

/-! ### primitive effects, projection by projection -/

/-- how often `dropScriptConsts k n` releases `x` -/
def scHit (k n : Nat) : Res → Nat
  | .scriptConst k' c => if k' = k ∧ c < n then 1 else 0
  | _ => 0

section prim
variable (s : St) (k r n : Nat)

@[simp] theorem release_relCount (x y : Res) :
    (release x s).relCount y = s.relCount y + (if x = y then 1 else 0) := by
  simp [release, St.relCount, List.count_cons]

-- decConst
@[simp] theorem decConst_constRc : (decConst r s).constRc = upd s.constRc r (s.constRc r - 1) := by
  unfold decConst; split <;> rfl
@[simp] theorem decConst_relCount (x : Res) : (decConst r s).relCount x
    = s.relCount x + (if s.constRc r - 1 = 0 ∧ x = .regConst r then 1 else 0) := by
  unfold decConst
  by_cases h : s.constRc r - 1 = 0
  · simp only [h, if_true, release_relCount, true_and]
    by_cases hx : x = .regConst r
    · subst hx; simp [St.relCount]
    · have : ¬ (Res.regConst r = x) := fun e => hx e.symm
      simp [St.relCount, hx, this]
  · simp [h, St.relCount]
@[simp] theorem decConst_closRc : (decConst r s).closRc = s.closRc := by unfold decConst; split <;> rfl
@[simp] theorem decConst_mapped : (decConst r s).mapped = s.mapped := by unfold decConst; split <;> rfl
@[simp] theorem decConst_info : (decConst r s).info = s.info := by unfold decConst; split <;> rfl
@[simp] theorem decConst_faults : (decConst r s).faults = s.faults := by unfold decConst; split <;> rfl
@[simp] theorem decConst_alive : (decConst r s).alive = s.alive := by unfold decConst; split <;> rfl
@[simp] theorem decConst_strong : (decConst r s).strong = s.strong := by unfold decConst; split <;> rfl
@[simp] theorem decConst_pkgs : (decConst r s).pkgs = s.pkgs := by unfold decConst; split <;> rfl
@[simp] theorem decConst_hs : (decConst r s).hs = s.hs := by unfold decConst; split <;> rfl
@[simp] theorem decConst_rts : (decConst r s).rts = s.rts := by unfold decConst; split <;> rfl
@[simp] theorem decConst_built : (decConst r s).built = s.built := by unfold decConst; split <;> rfl
@[simp] theorem decConst_rtConst : (decConst r s).rtConst = s.rtConst := by unfold decConst; split <;> rfl
@[simp] theorem decConst_rtClos : (decConst r s).rtClos = s.rtClos := by unfold decConst; split <;> rfl
@[simp] theorem decConst_constEver : (decConst r s).constEver = s.constEver := by unfold decConst; split <;> rfl
@[simp] theorem decConst_closEver : (decConst r s).closEver = s.closEver := by unfold decConst; split <;> rfl
@[simp] theorem decConst_compiled : (decConst r s).compiled = s.compiled := by unfold decConst; split <;> rfl

-- decClos
@[simp] theorem decClos_closRc : (decClos r s).closRc = upd s.closRc r (s.closRc r - 1) := by
  unfold decClos; split <;> rfl
@[simp] theorem decClos_relCount (x : Res) : (decClos r s).relCount x
    = s.relCount x + (if s.closRc r - 1 = 0 ∧ x = .closure r then 1 else 0) := by
  unfold decClos
  by_cases h : s.closRc r - 1 = 0
  · simp only [h, if_true, release_relCount, true_and]
    by_cases hx : x = .closure r
    · subst hx; simp [St.relCount]
    · have : ¬ (Res.closure r = x) := fun e => hx e.symm
      simp [St.relCount, hx, this]
  · simp [h, St.relCount]
@[simp] theorem decClos_constRc : (decClos r s).constRc = s.constRc := by unfold decClos; split <;> rfl
@[simp] theorem decClos_mapped : (decClos r s).mapped = s.mapped := by unfold decClos; split <;> rfl
@[simp] theorem decClos_info : (decClos r s).info = s.info := by unfold decClos; split <;> rfl
@[simp] theorem decClos_faults : (decClos r s).faults = s.faults := by unfold decClos; split <;> rfl
@[simp] theorem decClos_alive : (decClos r s).alive = s.alive := by unfold decClos; split <;> rfl
@[simp] theorem decClos_strong : (decClos r s).strong = s.strong := by unfold decClos; split <;> rfl
@[simp] theorem decClos_pkgs : (decClos r s).pkgs = s.pkgs := by unfold decClos; split <;> rfl
@[simp] theorem decClos_hs : (decClos r s).hs = s.hs := by unfold decClos; split <;> rfl
@[simp] theorem decClos_rts : (decClos r s).rts = s.rts := by unfold decClos; split <;> rfl
@[simp] theorem decClos_built : (decClos r s).built = s.built := by unfold decClos; split <;> rfl
@[simp] theorem decClos_rtConst : (decClos r s).rtConst = s.rtConst := by unfold decClos; split <;> rfl
@[simp] theorem decClos_rtClos : (decClos r s).rtClos = s.rtClos := by unfold decClos; split <;> rfl
@[simp] theorem decClos_constEver : (decClos r s).constEver = s.constEver := by unfold decClos; split <;> rfl
@[simp] theorem decClos_closEver : (decClos r s).closEver = s.closEver := by unfold decClos; split <;> rfl
@[simp] theorem decClos_compiled : (decClos r s).compiled = s.compiled := by unfold decClos; split <;> rfl

-- freeCode on mapped code
theorem freeCode_of_mapped (h : s.mapped k = true) :
    freeCode k s = release (.code k) { s with mapped := upd s.mapped k false } := by
  simp [freeCode, h]

end prim

/-- everything `dropScriptConsts` leaves alone, and what it does while Code k is mapped -/
theorem dropScriptConsts_spec (k : Nat) : ∀ (n : Nat) (s : St),
    let s' := dropScriptConsts k n s
    s'.mapped = s.mapped ∧ s'.info = s.info ∧ s'.constRc = s.constRc ∧ s'.closRc = s.closRc
      ∧ s'.alive = s.alive ∧ s'.strong = s.strong ∧ s'.pkgs = s.pkgs ∧ s'.hs = s.hs ∧ s'.rts = s.rts
      ∧ s'.built = s.built ∧ s'.rtConst = s.rtConst ∧ s'.rtClos = s.rtClos ∧ s'.constEver = s.constEver
      ∧ s'.closEver = s.closEver ∧ s'.compiled = s.compiled
      ∧ (∀ x, s'.relCount x = s.relCount x + scHit k n x)
      ∧ (s.mapped k = true → s'.faults = s.faults)
  | 0, s => by
    simp only [dropScriptConsts, true_and, implies_true, and_true]
    intro x; cases x <;> simp [scHit]
  | n + 1, s => by
    have ih := dropScriptConsts_spec k n s
    simp only at ih
    obtain ⟨h1, h2, h3, h4, h5, h6, h7, h8, h9, h10, h11, h12, h13, h14, h15, h16, h17⟩ := ih
    simp only [dropScriptConsts]
    by_cases hm : (dropScriptConsts k n s).mapped k = true
    · simp only [hm, if_true, release]
      refine ⟨h1, h2, h3, h4, h5, h6, h7, h8, h9, h10, h11, h12, h13, h14, h15, ?_, ?_⟩
      · intro x
        have := h16 x
        simp only [St.relCount] at this ⊢
        rw [List.count_cons, this]
        cases x <;> simp [scHit]
        rename_i k' c
        by_cases e1 : k = k' <;> by_cases e2 : n = c
        · subst e1 e2; simp
        · subst e1; simp [e2]; have : ¬ (c = n) := fun e => e2 e.symm
          by_cases hc : c < n
          · have : c < n + 1 := by omega
            simp [hc, this]
          · have : ¬ c < n + 1 := by omega
            simp [hc, this]
        · have : ¬ (k' = k) := fun e => e1 e.symm
          simp [e1, this]
        · have : ¬ (k' = k) := fun e => e1 e.symm
          simp [e1, this]
      · intro hmk; exact h17 hmk
    · have hmf : (dropScriptConsts k n s).mapped k = false := by simpa using hm
      refine ⟨?_, ?_, ?_, ?_, ?_, ?_, ?_, ?_, ?_, ?_, ?_, ?_, ?_, ?_, ?_, ?_, ?_⟩ <;>
        simp only [hmf, Bool.false_eq_true, if_false, release, fault]
      all_goals first
        | assumption
        | skip
      · intro x
        have := h16 x
        simp only [St.relCount] at this ⊢
        rw [List.count_cons, this]
        cases x <;> simp [scHit]
        rename_i k' c
        by_cases e1 : k = k' <;> by_cases e2 : n = c
        · subst e1 e2; simp
        · subst e1; simp [e2]
          by_cases hc : c < n
          · have : c < n + 1 := by omega
            simp [hc, this]
          · have : ¬ c < n + 1 := by omega
            simp [hc, this]
        · have : ¬ (k' = k) := fun e => e1 e.symm
          simp [e1, this]
        · have : ¬ (k' = k) := fun e => e1 e.symm
          simp [e1, this]
      · intro hmk; rw [h1] at hmf; rw [hmk] at hmf; cases hmf

section dsc
variable (s : St) (k n : Nat)
@[simp] theorem dropScriptConsts_mapped : (dropScriptConsts k n s).mapped = s.mapped := (dropScriptConsts_spec k n s).1
@[simp] theorem dropScriptConsts_info : (dropScriptConsts k n s).info = s.info := (dropScriptConsts_spec k n s).2.1
@[simp] theorem dropScriptConsts_constRc : (dropScriptConsts k n s).constRc = s.constRc := (dropScriptConsts_spec k n s).2.2.1
@[simp] theorem dropScriptConsts_closRc : (dropScriptConsts k n s).closRc = s.closRc := (dropScriptConsts_spec k n s).2.2.2.1
@[simp] theorem dropScriptConsts_alive : (dropScriptConsts k n s).alive = s.alive := (dropScriptConsts_spec k n s).2.2.2.2.1
@[simp] theorem dropScriptConsts_strong : (dropScriptConsts k n s).strong = s.strong := (dropScriptConsts_spec k n s).2.2.2.2.2.1
@[simp] theorem dropScriptConsts_pkgs : (dropScriptConsts k n s).pkgs = s.pkgs := (dropScriptConsts_spec k n s).2.2.2.2.2.2.1
@[simp] theorem dropScriptConsts_hs : (dropScriptConsts k n s).hs = s.hs := (dropScriptConsts_spec k n s).2.2.2.2.2.2.2.1
@[simp] theorem dropScriptConsts_rts : (dropScriptConsts k n s).rts = s.rts := (dropScriptConsts_spec k n s).2.2.2.2.2.2.2.2.1
@[simp] theorem dropScriptConsts_built : (dropScriptConsts k n s).built = s.built := (dropScriptConsts_spec k n s).2.2.2.2.2.2.2.2.2.1
@[simp] theorem dropScriptConsts_rtConst : (dropScriptConsts k n s).rtConst = s.rtConst := (dropScriptConsts_spec k n s).2.2.2.2.2.2.2.2.2.2.1
@[simp] theorem dropScriptConsts_rtClos : (dropScriptConsts k n s).rtClos = s.rtClos := (dropScriptConsts_spec k n s).2.2.2.2.2.2.2.2.2.2.2.1
@[simp] theorem dropScriptConsts_constEver : (dropScriptConsts k n s).constEver = s.constEver := (dropScriptConsts_spec k n s).2.2.2.2.2.2.2.2.2.2.2.2.1
@[simp] theorem dropScriptConsts_closEver : (dropScriptConsts k n s).closEver = s.closEver := (dropScriptConsts_spec k n s).2.2.2.2.2.2.2.2.2.2.2.2.2.1
@[simp] theorem dropScriptConsts_compiled : (dropScriptConsts k n s).compiled = s.compiled := (dropScriptConsts_spec k n s).2.2.2.2.2.2.2.2.2.2.2.2.2.2.1
@[simp] theorem dropScriptConsts_relCount (x : Res) : (dropScriptConsts k n s).relCount x = s.relCount x + scHit k n x :=
  (dropScriptConsts_spec k n s).2.2.2.2.2.2.2.2.2.2.2.2.2.2.2.1 x
theorem dropScriptConsts_faults (h : s.mapped k = true) : (dropScriptConsts k n s).faults = s.faults :=
  (dropScriptConsts_spec k n s).2.2.2.2.2.2.2.2.2.2.2.2.2.2.2.2 h
end dsc

section fc
variable (s : St) (k : Nat)
@[simp] theorem freeCode_info : (freeCode k s).info = s.info := by unfold freeCode; split <;> rfl
@[simp] theorem freeCode_constRc : (freeCode k s).constRc = s.constRc := by unfold freeCode; split <;> rfl
@[simp] theorem freeCode_closRc : (freeCode k s).closRc = s.closRc := by unfold freeCode; split <;> rfl
@[simp] theorem freeCode_alive : (freeCode k s).alive = s.alive := by unfold freeCode; split <;> rfl
@[simp] theorem freeCode_strong : (freeCode k s).strong = s.strong := by unfold freeCode; split <;> rfl
@[simp] theorem freeCode_pkgs : (freeCode k s).pkgs = s.pkgs := by unfold freeCode; split <;> rfl
@[simp] theorem freeCode_hs : (freeCode k s).hs = s.hs := by unfold freeCode; split <;> rfl
@[simp] theorem freeCode_rts : (freeCode k s).rts = s.rts := by unfold freeCode; split <;> rfl
@[simp] theorem freeCode_built : (freeCode k s).built = s.built := by unfold freeCode; split <;> rfl
@[simp] theorem freeCode_rtConst : (freeCode k s).rtConst = s.rtConst := by unfold freeCode; split <;> rfl
@[simp] theorem freeCode_rtClos : (freeCode k s).rtClos = s.rtClos := by unfold freeCode; split <;> rfl
@[simp] theorem freeCode_constEver : (freeCode k s).constEver = s.constEver := by unfold freeCode; split <;> rfl
@[simp] theorem freeCode_closEver : (freeCode k s).closEver = s.closEver := by unfold freeCode; split <;> rfl
@[simp] theorem freeCode_compiled : (freeCode k s).compiled = s.compiled := by unfold freeCode; split <;> rfl
theorem freeCode_mapped (h : s.mapped k = true) : (freeCode k s).mapped = upd s.mapped k false := by
  simp [freeCode, h, release]
theorem freeCode_faults (h : s.mapped k = true) : (freeCode k s).faults = s.faults := by
  simp [freeCode, h, release]
theorem freeCode_relCount (h : s.mapped k = true) (x : Res) :
    (freeCode k s).relCount x = s.relCount x + (if x = .code k then 1 else 0) := by
  simp only [freeCode, h, if_true, release_relCount]
  by_cases hx : x = .code k
  · subst hx; simp [St.relCount]
  · have : ¬ (Res.code k = x) := fun e => hx e.symm
    simp [St.relCount, hx, this]
end fc

/-! the same release counts, phrased on the log itself (these fire after `St.relCount` is unfolded) -/
@[simp] theorem decConst_count (s : St) (r : Nat) (x : Res) : List.count x (decConst r s).released
    = List.count x s.released + (if s.constRc r - 1 = 0 ∧ x = .regConst r then 1 else 0) := by
  simpa [St.relCount] using decConst_relCount s r x
@[simp] theorem decClos_count (s : St) (r : Nat) (x : Res) : List.count x (decClos r s).released
    = List.count x s.released + (if s.closRc r - 1 = 0 ∧ x = .closure r then 1 else 0) := by
  simpa [St.relCount] using decClos_relCount s r x
@[simp] theorem dropScriptConsts_count (s : St) (k n : Nat) (x : Res) :
    List.count x (dropScriptConsts k n s).released = List.count x s.released + scHit k n x := by
  simpa [St.relCount] using dropScriptConsts_relCount s k n x
theorem freeCode_count (s : St) (k : Nat) (h : s.mapped k = true) (x : Res) :
    List.count x (freeCode k s).released = List.count x s.released + (if x = .code k then 1 else 0) := by
  simpa [St.relCount] using freeCode_relCount s k h x

/-- under admissible facts `Drop for RotoConstant` calls every constant's drop function exactly once:
    the facts-driven drop is the plain one -/
theorem dropRotoConstants_eq {F : Facts} (hG : Good F) (k : Nat) : ∀ (n : Nat) (s : St),
    dropRotoConstants F k n s = dropScriptConsts k n s
  | 0, _ => rfl
  | n + 1, s => by
    simp only [dropRotoConstants, dropScriptConsts, dropRotoConstants_eq hG k n s, hG.constDrop, releaseN]
    simp

/-! ### the drop of a module, summarised -/

/-- what `dropModule` does to a state in which Code k is mapped, whatever the
    (admissible) field order -/
structure DropSpec (k : Nat) (s s' : St) : Prop where
  rts : s'.rts = s.rts
  built : s'.built = s.built
  rtConst : s'.rtConst = s.rtConst
  rtClos : s'.rtClos = s.rtClos
  constEver : s'.constEver = s.constEver
  closEver : s'.closEver = s.closEver
  compiled : s'.compiled = s.compiled
  info : s'.info = s.info
  strong : s'.strong = s.strong
  pkgs : s'.pkgs = s.pkgs
  hs : s'.hs = s.hs
  constRc : s'.constRc = if (s.info k).keepConst then
      upd s.constRc (s.info k).rt (s.constRc (s.info k).rt - 1) else s.constRc
  closRc : s'.closRc = if (s.info k).keepClos then
      upd s.closRc (s.info k).rt (s.closRc (s.info k).rt - 1) else s.closRc
  mapped : s'.mapped = upd s.mapped k false
  alive : s'.alive = s.alive.erase k
  faults : s'.faults = s.faults
  rel : ∀ x, s'.relCount x = s.relCount x + (if x = .code k then 1 else 0) + scHit k (s.info k).nconst x
      + (if (s.info k).keepConst = true ∧ s.constRc (s.info k).rt - 1 = 0 ∧ x = .regConst (s.info k).rt then 1 else 0)
      + (if (s.info k).keepClos = true ∧ s.closRc (s.info k).rt - 1 = 0 ∧ x = .closure (s.info k).rt then 1 else 0)

/-- fields of plain data drop without any effect on the modelled state -/
theorem dropFields_core (F : Facts) (k : Nat) : ∀ (fs : List Field) (s : St),
    dropFields F k fs s = dropFields F k (coreFields fs) s
  | [], _ => rfl
  | f :: fs, s => by
    cases f <;> simp [coreFields, dropFields, dropField] <;>
      exact dropFields_core F k fs _

theorem dropModule_spec {F : Facts} (hG : Good F) (k : Nat) (s : St) (hm : s.mapped k = true) :
    DropSpec k s (dropModule F k s) := by
  have hsites := hG.sites
  have hord := hG.order
  have hnm : FreeSite.moduleDataDrop ∉ F.freeSites := by rw [hsites]; decide
  have hw : FreeSite.wrapperDrop ∈ F.freeSites := by rw [hsites]; decide
  unfold dropModule
  simp only [hnm, if_false]
  rw [dropFields_core]
  simp only [goodOrders, List.mem_cons, List.not_mem_nil, or_false] at hord
  cases hkc : (s.info k).keepConst <;> cases hkf : (s.info k).keepClos <;>
  rcases hord with h | h | h | h | h | h | h | h <;> rw [h] <;>
  constructor <;>
  simp [St.relCount, dropFields, dropField, dropRotoConstants_eq hG, hw, hkc, hkf, hm, freeCode_mapped, freeCode_faults, freeCode_count,
    dropScriptConsts_faults, Nat.add_comm, Nat.add_left_comm, Nat.add_assoc]

/-! ### the invariant -/

/-- number of owners of Module k: live packages and live handles -/
def owners (s : St) (k : Nat) : Nat := s.pkgs.count k + s.hs.countP (fun h => h.k == k)

def constPred (info : Nat → ModInfo) (r : Nat) : Nat → Bool := fun k => (info k).keepConst && (info k).rt == r
def closPred (info : Nat → ModInfo) (r : Nat) : Nat → Bool := fun k => (info k).keepClos && (info k).rt == r

/-- everything except "strong count = number of owners" (stated on the explicit counts only) -/
structure InvCore (s : St) : Prop where
  holds : ∀ h ∈ s.hs, h.holds = true
  alive_cnt : ∀ k, s.alive.count k = if 0 < s.strong k then 1 else 0
  constRc_eq : ∀ r, s.constRc r = s.rtConst.count r + s.alive.countP (constPred s.info r)
  closRc_eq : ∀ r, s.closRc r = s.rtClos.count r + s.alive.countP (closPred s.info r)
  const_rel : ∀ r, s.relCount (.regConst r) = if r ∈ s.constEver ∧ s.constRc r = 0 then 1 else 0
  const_ever : ∀ r, r ∉ s.constEver → s.constRc r = 0
  clos_rel : ∀ r, s.relCount (.closure r) = if r ∈ s.closEver ∧ s.closRc r = 0 then 1 else 0
  clos_ever : ∀ r, r ∉ s.closEver → s.closRc r = 0
  code_rel : ∀ k, s.relCount (.code k) = if k ∈ s.compiled ∧ s.strong k = 0 then 1 else 0
  mapped_eq : ∀ k, s.mapped k = decide (0 < s.strong k)
  compiled_strong : ∀ k, k ∉ s.compiled → s.strong k = 0
  sc_rel : ∀ k c, s.relCount (.scriptConst k c)
      = if k ∈ s.compiled ∧ s.strong k = 0 ∧ c < (s.info k).nconst then 1 else 0
  no_fault : s.faults = []
  expect_ok : ∀ h ∈ s.hs, h.expect = .ok (s.info h.k).value
  uses : ∀ k, ((s.info k).useConst = true → (s.info k).keepConst = true)
      ∧ ((s.info k).useClos = true → (s.info k).keepClos = true)
      ∧ (s.info k).dataHolders.all Holder.heldByHandles = true

structure Inv (s : St) : Prop extends InvCore s where
  strong_eq : ∀ k, s.strong k = owners s k

theorem inv_init : Inv {} := by
  constructor
  · constructor <;> simp [St.relCount]
  · intro k; simp [owners]

/-- an alive module with a positive count -/
theorem InvCore.mem_alive {s : St} (h : InvCore s) {k : Nat} (hk : 0 < s.strong k) : k ∈ s.alive := by
  have := h.alive_cnt k
  simp only [hk, if_true] at this
  exact List.count_pos_iff.1 (by omega)

theorem InvCore.mem_compiled {s : St} (h : InvCore s) {k : Nat} (hk : 0 < s.strong k) : k ∈ s.compiled := by
  apply Classical.byContradiction
  intro hn
  have := h.compiled_strong k hn
  omega

/-- dropping one `Arc` of a module that has at least one -/
theorem decModule_inv {F : Facts} (hG : Good F) (s : St) (k : Nat) (hc : InvCore s) (hk : 0 < s.strong k) :
    InvCore (decModule F k s) ∧ (decModule F k s).strong = upd s.strong k (s.strong k - 1)
      ∧ (decModule F k s).pkgs = s.pkgs ∧ (decModule F k s).hs = s.hs
      ∧ (decModule F k s).info = s.info ∧ (decModule F k s).compiled = s.compiled := by
  unfold decModule
  by_cases h1 : s.strong k - 1 = 0
  · -- the last owner: the module is dropped
    simp only [h1, if_true]
    have hs1 : s.strong k = 1 := by omega
    have hm : ({ s with strong := upd s.strong k 0 } : St).mapped k = true := by
      show s.mapped k = true
      rw [hc.mapped_eq k]; simpa using hk
    have D := dropModule_spec hG k { s with strong := upd s.strong k 0 } hm
    generalize dropModule F k { s with strong := upd s.strong k 0 } = s' at D ⊢
    obtain ⟨d_rts, d_built, d_rtConst, d_rtClos, d_constEver, d_closEver, d_compiled, d_info, d_strong, d_pkgs,
      d_hs, d_constRc, d_closRc, d_mapped, d_alive, d_faults, d_rel⟩ := D
    simp only [St.relCount] at d_rel
    dsimp only at d_rts d_built d_rtConst d_rtClos d_constEver d_closEver d_compiled d_info d_strong d_pkgs d_hs d_constRc d_closRc d_mapped d_alive d_faults d_rel
    have hcp : ∀ r, constPred s'.info r = constPred s.info r := by
      intro r; rw [d_info]
    have hfp : ∀ r, closPred s'.info r = closPred s.info r := by
      intro r; rw [d_info]
    have hal : k ∈ s.alive := hc.mem_alive hk
    have hcomp : k ∈ s.compiled := hc.mem_compiled hk
    refine ⟨?_, d_strong, d_pkgs, d_hs, d_info, d_compiled⟩
    constructor
    · intro h hh; rw [d_hs] at hh; exact hc.holds h hh
    · intro j
      rw [d_alive, d_strong]
      by_cases hj : j = k
      · subst hj
        have := hc.alive_cnt j
        simp only [hk, if_true] at this
        simp [upd_same, List.count_erase_self, this]
      · rw [upd_other _ _ _ _ hj, List.count_erase_of_ne hj]; exact hc.alive_cnt j
    · intro r
      rw [d_constRc, d_rtConst, d_alive, hcp]
      have e := countP_erase_add (constPred s.info r) s.alive k hal
      have c := hc.constRc_eq r
      by_cases hkc : (s.info k).keepConst = true
      · by_cases hr : r = (s.info k).rt
        · subst hr
          have hp : constPred s.info (s.info k).rt k = true := by simp [constPred, hkc]
          simp only [hp, if_true] at e
          simp only [hkc, if_true, upd_same]
          omega
        · have hp : constPred s.info r k = false := by
            simp only [constPred, hkc, Bool.true_and, beq_eq_false_iff_ne]; exact fun e => hr e.symm
          simp only [hp, Bool.false_eq_true, if_false] at e
          simp only [hkc, if_true, upd_other _ _ _ _ hr]
          omega
      · have hkc' : (s.info k).keepConst = false := by simpa using hkc
        have hp : constPred s.info r k = false := by simp [constPred, hkc']
        simp only [hp, Bool.false_eq_true, if_false] at e
        simp only [hkc', Bool.false_eq_true, if_false]
        omega
    · intro r
      rw [d_closRc, d_rtClos, d_alive, hfp]
      have e := countP_erase_add (closPred s.info r) s.alive k hal
      have c := hc.closRc_eq r
      by_cases hkc : (s.info k).keepClos = true
      · by_cases hr : r = (s.info k).rt
        · subst hr
          have hp : closPred s.info (s.info k).rt k = true := by simp [closPred, hkc]
          simp only [hp, if_true] at e
          simp only [hkc, if_true, upd_same]
          omega
        · have hp : closPred s.info r k = false := by
            simp only [closPred, hkc, Bool.true_and, beq_eq_false_iff_ne]; exact fun e => hr e.symm
          simp only [hp, Bool.false_eq_true, if_false] at e
          simp only [hkc, if_true, upd_other _ _ _ _ hr]
          omega
      · have hkc' : (s.info k).keepClos = false := by simpa using hkc
        have hp : closPred s.info r k = false := by simp [closPred, hkc']
        simp only [hp, Bool.false_eq_true, if_false] at e
        simp only [hkc', Bool.false_eq_true, if_false]
        omega
    · -- const_rel
      intro r
      simp only [St.relCount]
      rw [d_rel, d_constRc, d_constEver]
      have c := hc.const_rel r
      simp only [St.relCount] at c
      have ce := hc.const_ever r
      have e := countP_erase_add (constPred s.info (s.info k).rt) s.alive k hal
      have cq := hc.constRc_eq (s.info k).rt
      simp only [scHit, reduceCtorEq, if_false, and_false, Nat.add_zero]
      by_cases hkc : (s.info k).keepConst = true
      · have hp : constPred s.info (s.info k).rt k = true := by simp [constPred, hkc]
        simp only [hp, if_true] at e
        by_cases hr : r = (s.info k).rt
        · subst hr
          have hpos : 0 < s.constRc (s.info k).rt := by omega
          have hev : (s.info k).rt ∈ s.constEver := by
            apply Classical.byContradiction; intro hn; have := ce hn; omega
          have hne : ¬ s.constRc (s.info k).rt = 0 := by omega
          simp only [hev, hne, and_false, if_false] at c
          simp only [hkc, if_true, upd_same, true_and, and_true, c, Nat.zero_add, hev]
        · have hne : ¬ (Res.regConst r = Res.regConst (s.info k).rt) := by simpa using hr
          simp only [hkc, if_true, upd_other _ _ _ _ hr, hne, and_false, if_false, Nat.add_zero]
          exact c
      · have hkc' : (s.info k).keepConst = false := by simpa using hkc
        simp only [hkc', Bool.false_eq_true, if_false, false_and, Nat.add_zero]
        exact c
    · intro r hr
      rw [d_constEver] at hr
      rw [d_constRc]
      have := hc.const_ever r hr
      split
      · by_cases e : r = (s.info k).rt
        · subst e; rw [upd_same]; omega
        · rw [upd_other _ _ _ _ e]; exact this
      · exact this
    · -- clos_rel
      intro r
      simp only [St.relCount]
      rw [d_rel, d_closRc, d_closEver]
      have c := hc.clos_rel r
      simp only [St.relCount] at c
      have ce := hc.clos_ever r
      have e := countP_erase_add (closPred s.info (s.info k).rt) s.alive k hal
      have cq := hc.closRc_eq (s.info k).rt
      simp only [scHit, reduceCtorEq, if_false, and_false, Nat.add_zero]
      by_cases hkc : (s.info k).keepClos = true
      · have hp : closPred s.info (s.info k).rt k = true := by simp [closPred, hkc]
        simp only [hp, if_true] at e
        by_cases hr : r = (s.info k).rt
        · subst hr
          have hpos : 0 < s.closRc (s.info k).rt := by omega
          have hev : (s.info k).rt ∈ s.closEver := by
            apply Classical.byContradiction; intro hn; have := ce hn; omega
          have hne : ¬ s.closRc (s.info k).rt = 0 := by omega
          simp only [hev, hne, and_false, if_false] at c
          simp only [hkc, if_true, upd_same, true_and, and_true, c, Nat.zero_add, hev]
        · have hne : ¬ (Res.closure r = Res.closure (s.info k).rt) := by simpa using hr
          simp only [hkc, if_true, upd_other _ _ _ _ hr, hne, and_false, if_false, Nat.add_zero]
          exact c
      · have hkc' : (s.info k).keepClos = false := by simpa using hkc
        simp only [hkc', Bool.false_eq_true, if_false, false_and, Nat.add_zero]
        exact c
    · intro r hr
      rw [d_closEver] at hr
      rw [d_closRc]
      have := hc.clos_ever r hr
      split
      · by_cases e : r = (s.info k).rt
        · subst e; rw [upd_same]; omega
        · rw [upd_other _ _ _ _ e]; exact this
      · exact this
    · -- code_rel
      intro j
      simp only [St.relCount]
      rw [d_rel, d_compiled, d_strong]
      have c := hc.code_rel j
      simp only [St.relCount] at c
      simp only [scHit, reduceCtorEq, and_false, if_false, Nat.add_zero]
      by_cases hj : j = k
      · subst hj
        have hne : ¬ s.strong j = 0 := by omega
        simp only [hne, and_false, if_false] at c
        simp [upd_same, hcomp, c]
      · have : ¬ (Res.code j = Res.code k) := by simpa using hj
        simp only [this, if_false, Nat.add_zero, upd_other _ _ _ _ hj]
        exact c
    · intro j
      rw [d_mapped, d_strong]
      by_cases hj : j = k
      · subst hj; simp [upd_same]
      · rw [upd_other _ _ _ _ hj, upd_other _ _ _ _ hj]; exact hc.mapped_eq j
    · intro j hj
      rw [d_compiled] at hj
      rw [d_strong]
      by_cases e : j = k
      · subst e; rw [upd_same]
      · rw [upd_other _ _ _ _ e]; exact hc.compiled_strong j hj
    · -- sc_rel
      intro j c
      simp only [St.relCount]
      rw [d_rel, d_compiled, d_strong, d_info]
      have cc := hc.sc_rel j c
      simp only [St.relCount] at cc
      simp only [reduceCtorEq, and_false, if_false, Nat.add_zero]
      by_cases hj : j = k
      · subst hj
        have hne : ¬ s.strong j = 0 := by omega
        simp only [hne, false_and, and_false, if_false] at cc
        simp [upd_same, hcomp, cc, scHit]
      · simp only [scHit, hj, false_and, if_false, Nat.add_zero, upd_other _ _ _ _ hj]
        exact cc
    · rw [d_faults]; exact hc.no_fault
    · intro h hh; rw [d_hs] at hh; rw [d_info]; exact hc.expect_ok h hh
    · intro j; rw [d_info]; exact hc.uses j
  · -- other owners remain
    simp only [h1, if_false]
    have hpos : 0 < s.strong k - 1 := by omega
    refine ⟨?_, by trivial, by trivial, by trivial, by trivial, by trivial⟩
    constructor
    · exact hc.holds
    · intro j
      show s.alive.count j = if 0 < upd s.strong k (s.strong k - 1) j then 1 else 0
      by_cases hj : j = k
      · subst hj; rw [upd_same]; have := hc.alive_cnt j; simp only [hk, if_true] at this; simp [hpos, this]
      · rw [upd_other _ _ _ _ hj]; exact hc.alive_cnt j
    · exact hc.constRc_eq
    · exact hc.closRc_eq
    · exact hc.const_rel
    · exact hc.const_ever
    · exact hc.clos_rel
    · exact hc.clos_ever
    · intro j
      show s.relCount (.code j) = if j ∈ s.compiled ∧ upd s.strong k (s.strong k - 1) j = 0 then 1 else 0
      by_cases hj : j = k
      · subst hj; rw [upd_same, hc.code_rel j]
        have a : ¬ s.strong j = 0 := by omega
        have b : ¬ s.strong j - 1 = 0 := by omega
        simp [a, b]
      · rw [upd_other _ _ _ _ hj]; exact hc.code_rel j
    · intro j
      show s.mapped j = decide (0 < upd s.strong k (s.strong k - 1) j)
      by_cases hj : j = k
      · subst hj; rw [upd_same, hc.mapped_eq j]; simp [hk, hpos]
      · rw [upd_other _ _ _ _ hj]; exact hc.mapped_eq j
    · intro j hj
      show upd s.strong k (s.strong k - 1) j = 0
      by_cases e : j = k
      · subst e; have := hc.compiled_strong j hj; omega
      · rw [upd_other _ _ _ _ e]; exact hc.compiled_strong j hj
    · intro j c
      show s.relCount (.scriptConst j c)
        = if j ∈ s.compiled ∧ upd s.strong k (s.strong k - 1) j = 0 ∧ c < (s.info j).nconst then 1 else 0
      by_cases hj : j = k
      · subst hj; rw [upd_same, hc.sc_rel j c]
        have a : ¬ s.strong j = 0 := by omega
        have b : ¬ s.strong j - 1 = 0 := by omega
        simp [a, b]
      · rw [upd_other _ _ _ _ hj]; exact hc.sc_rel j c
    · exact hc.no_fault
    · exact hc.expect_ok
    · exact hc.uses

/-! ### a module with a positive count is callable -/

theorem unreleased_of_relCount_zero {s : St} {x : Res} (h : s.relCount x = 0) : unreleased s x = true := by
  simp only [unreleased, Bool.not_eq_true', List.contains_eq_mem, decide_eq_false_iff_not]
  exact List.count_eq_zero.1 h

theorem InvCore.const_alive {s : St} (hc : InvCore s) {k : Nat} (hk : 0 < s.strong k)
    (hkc : (s.info k).keepConst = true) : s.relCount (.regConst (s.info k).rt) = 0 := by
  have hal := hc.mem_alive hk
  have hp : constPred s.info (s.info k).rt k = true := by simp [constPred, hkc]
  have : 0 < s.alive.countP (constPred s.info (s.info k).rt) := List.countP_pos_iff.2 ⟨k, hal, hp⟩
  have c := hc.constRc_eq (s.info k).rt
  have hne : ¬ s.constRc (s.info k).rt = 0 := by omega
  rw [hc.const_rel]; simp [hne]

theorem InvCore.clos_alive {s : St} (hc : InvCore s) {k : Nat} (hk : 0 < s.strong k)
    (hkc : (s.info k).keepClos = true) : s.relCount (.closure (s.info k).rt) = 0 := by
  have hal := hc.mem_alive hk
  have hp : closPred s.info (s.info k).rt k = true := by simp [closPred, hkc]
  have : 0 < s.alive.countP (closPred s.info (s.info k).rt) := List.countP_pos_iff.2 ⟨k, hal, hp⟩
  have c := hc.closRc_eq (s.info k).rt
  have hne : ¬ s.closRc (s.info k).rt = 0 := by omega
  rw [hc.clos_rel]; simp [hne]

theorem InvCore.sc_alive {s : St} (hc : InvCore s) {k : Nat} (hk : 0 < s.strong k) (c : Nat) :
    s.relCount (.scriptConst k c) = 0 := by
  have hne : ¬ s.strong k = 0 := by omega
  rw [hc.sc_rel]; simp [hne]

/-- the out-of-line data of a module somebody still owns is there: every holder is
    the JIT module or `ModuleData` -/
theorem dataAlive_of_mapped {s : St} (hc : InvCore s) {k : Nat} (hk : 0 < s.strong k) :
    dataAlive s k = true := by
  have hm : s.mapped k = true := by rw [hc.mapped_eq]; simpa using hk
  have hal : s.alive.contains k = true := by simpa using hc.mem_alive hk
  have hd := (hc.uses k).2.2
  rw [List.all_eq_true] at hd
  unfold dataAlive
  rw [List.all_eq_true]
  intro h hh
  have := hd h hh
  cases h <;> simp_all [holderAlive, Holder.heldByHandles]

theorem callRes_ok {s : St} (hc : InvCore s) {k : Nat} (hk : 0 < s.strong k) :
    callRes s k = .ok (s.info k).value := by
  have hm : s.mapped k = true := by rw [hc.mapped_eq]; simpa using hk
  have hsc : (List.range (s.info k).nconst).all (fun c => unreleased s (.scriptConst k c)) = true := by
    rw [List.all_eq_true]; intro c _; exact unreleased_of_relCount_zero (hc.sc_alive hk c)
  have huc : (!(s.info k).useConst || unreleased s (.regConst (s.info k).rt)) = true := by
    cases h : (s.info k).useConst
    · rfl
    · simp only [Bool.not_true, Bool.false_or]
      exact unreleased_of_relCount_zero (hc.const_alive hk ((hc.uses k).1 h))
  have huf : (!(s.info k).useClos || unreleased s (.closure (s.info k).rt)) = true := by
    cases h : (s.info k).useClos
    · rfl
    · simp only [Bool.not_true, Bool.false_or]
      exact unreleased_of_relCount_zero (hc.clos_alive hk ((hc.uses k).2.1 h))
  have hud : (!(s.info k).useData || dataAlive s k) = true := by
    rw [dataAlive_of_mapped hc hk]; simp
  simp only [callRes, hm, hsc, huc, huf, hud, Bool.and_self, if_true]

theorem Inv.strong_pos_of_handle {s : St} (hI : Inv s) {h : Handle} (hh : h ∈ s.hs) : 0 < s.strong h.k := by
  rw [hI.strong_eq]
  have : 0 < s.hs.countP (fun x => x.k == h.k) := List.countP_pos_iff.2 ⟨h, hh, by simp⟩
  simp only [owners]; omega

theorem Inv.strong_pos_of_pkg {s : St} (hI : Inv s) {k : Nat} (hk : k ∈ s.pkgs) : 0 < s.strong k := by
  rw [hI.strong_eq]
  have : 0 < s.pkgs.count k := List.count_pos_iff.2 hk
  simp only [owners]; omega

/-! ### every operation preserves the invariant -/

/-- a new handle (from a package, or cloned) on a module that is alive -/
theorem addHandle_inv {s : St} (hI : Inv s) (h : Handle) (hk : 0 < s.strong h.k) (hh : h.holds = true)
    (he : h.expect = .ok (s.info h.k).value) :
    Inv { s with hs := s.hs ++ [h], strong := upd s.strong h.k (s.strong h.k + 1) } := by
  have hc := hI.toInvCore
  constructor
  · constructor
    · intro x hx
      rcases List.mem_append.1 hx with hx | hx
      · exact hc.holds x hx
      · simp only [List.mem_singleton] at hx; subst hx; exact hh
    · intro j
      show s.alive.count j = if 0 < upd s.strong h.k (s.strong h.k + 1) j then 1 else 0
      by_cases hj : j = h.k
      · subst hj; rw [upd_same]; have := hc.alive_cnt h.k; simp only [hk, if_true] at this; simp [this]
      · rw [upd_other _ _ _ _ hj]; exact hc.alive_cnt j
    · exact hc.constRc_eq
    · exact hc.closRc_eq
    · exact hc.const_rel
    · exact hc.const_ever
    · exact hc.clos_rel
    · exact hc.clos_ever
    · intro j
      show s.relCount (.code j) = if j ∈ s.compiled ∧ upd s.strong h.k (s.strong h.k + 1) j = 0 then 1 else 0
      by_cases hj : j = h.k
      · subst hj; rw [upd_same, hc.code_rel]
        have a : ¬ s.strong h.k = 0 := by omega
        simp [a]
      · rw [upd_other _ _ _ _ hj]; exact hc.code_rel j
    · intro j
      show s.mapped j = decide (0 < upd s.strong h.k (s.strong h.k + 1) j)
      by_cases hj : j = h.k
      · subst hj; rw [upd_same, hc.mapped_eq]; simp [hk]
      · rw [upd_other _ _ _ _ hj]; exact hc.mapped_eq j
    · intro j hj
      show upd s.strong h.k (s.strong h.k + 1) j = 0
      by_cases e : j = h.k
      · subst e; have := hc.compiled_strong h.k hj; omega
      · rw [upd_other _ _ _ _ e]; exact hc.compiled_strong j hj
    · intro j c
      show s.relCount (.scriptConst j c)
        = if j ∈ s.compiled ∧ upd s.strong h.k (s.strong h.k + 1) j = 0 ∧ c < (s.info j).nconst then 1 else 0
      by_cases hj : j = h.k
      · subst hj; rw [upd_same, hc.sc_rel]
        have a : ¬ s.strong h.k = 0 := by omega
        simp [a]
      · rw [upd_other _ _ _ _ hj]; exact hc.sc_rel j c
    · exact hc.no_fault
    · intro x hx
      rcases List.mem_append.1 hx with hx | hx
      · exact hc.expect_ok x hx
      · simp only [List.mem_singleton] at hx; subst hx; exact he
    · exact hc.uses
  · intro j
    show upd s.strong h.k (s.strong h.k + 1) j = s.pkgs.count j + (s.hs ++ [h]).countP (fun x => x.k == j)
    have := hI.strong_eq j
    simp only [owners] at this
    rw [List.countP_append]
    by_cases hj : j = h.k
    · subst hj; rw [upd_same]; simp; omega
    · rw [upd_other _ _ _ _ hj]
      have : (h.k == j) = false := by simpa using fun e => hj e.symm
      simp [this]; omega

/-- `into_func` with a closure that owns the whole handle: the handle becomes a
    closure object, nothing else changes -/
theorem intoFunc_inv {s : St} (hI : Inv s) (i : Nat) (h : Handle) (hi : s.hs[i]? = some h) :
    Inv { s with hs := s.hs.set i { h with isFn := true } } := by
  have hc := hI.toInvCore
  obtain ⟨hlt, hget⟩ := List.getElem?_eq_some_iff.1 hi
  have hmem : h ∈ s.hs := List.mem_of_getElem? hi
  have hsub : ∀ x ∈ s.hs.set i { h with isFn := true }, x ∈ s.hs ∨ x = { h with isFn := true } :=
    fun x hx => List.mem_or_eq_of_mem_set hx
  refine ⟨⟨?_, hc.alive_cnt, hc.constRc_eq, hc.closRc_eq, hc.const_rel, hc.const_ever, hc.clos_rel, hc.clos_ever,
    hc.code_rel, hc.mapped_eq, hc.compiled_strong, hc.sc_rel, hc.no_fault, ?_, hc.uses⟩, ?_⟩
  · intro x hx
    rcases hsub x hx with hx | hx
    · exact hc.holds x hx
    · subst hx; exact hc.holds h hmem
  · intro x hx
    rcases hsub x hx with hx | hx
    · exact hc.expect_ok x hx
    · subst hx; exact hc.expect_ok h hmem
  · intro j
    show s.strong j = s.pkgs.count j + (s.hs.set i { h with isFn := true }).countP (fun x => x.k == j)
    rw [countP_set_of_eq (fun x : Handle => x.k == j) s.hs i _ hlt (by rw [hget])]
    exact hI.strong_eq j

/-- the runtime lets go of its registered constant -/
theorem dropRtConst_inv {s : St} (hc : InvCore s) {r : Nat} (hr : r ∈ s.rtConst) :
    InvCore (decConst r { s with rtConst := s.rtConst.erase r }) := by
  have hcnt : 0 < s.rtConst.count r := List.count_pos_iff.2 hr
  have cq := hc.constRc_eq r
  have hpos : 0 < s.constRc r := by omega
  have hev : r ∈ s.constEver := by
    apply Classical.byContradiction; intro hn; have := hc.const_ever r hn; omega
  constructor
  · simpa using hc.holds
  · simpa using hc.alive_cnt
  · intro r'
    simp only [decConst_constRc, decConst_rtConst, decConst_alive, decConst_info]
    show upd s.constRc r (s.constRc r - 1) r' = (s.rtConst.erase r).count r' + s.alive.countP (constPred s.info r')
    by_cases e : r' = r
    · subst e; rw [upd_same, List.count_erase_self]; omega
    · rw [upd_other _ _ _ _ e, List.count_erase_of_ne e]; exact hc.constRc_eq r'
  · simpa using hc.closRc_eq
  · intro r'
    simp only [decConst_relCount, decConst_constRc, decConst_constEver]
    simp only [St.relCount]
    have c := hc.const_rel r'
    simp only [St.relCount] at c
    show s.released.count (.regConst r') + (if s.constRc r - 1 = 0 ∧ Res.regConst r' = .regConst r then 1 else 0)
      = if r' ∈ s.constEver ∧ upd s.constRc r (s.constRc r - 1) r' = 0 then 1 else 0
    by_cases e : r' = r
    · subst e
      have hne : ¬ s.constRc r' = 0 := by omega
      simp only [hne, and_false, if_false] at c
      simp [upd_same, c, hev]
    · have : ¬ (Res.regConst r' = Res.regConst r) := by simpa using e
      simp only [this, and_false, if_false, Nat.add_zero, upd_other _ _ _ _ e]; exact c
  · intro r' h'
    simp only [decConst_constRc]
    have := hc.const_ever r' (by simpa using h')
    by_cases e : r' = r
    · subst e; rw [upd_same]; omega
    · rw [upd_other _ _ _ _ e]; exact this
  · intro r'
    have c := hc.clos_rel r'
    simpa [St.relCount] using c
  · simpa using hc.clos_ever
  · intro k; have c := hc.code_rel k; simpa [St.relCount] using c
  · simpa using hc.mapped_eq
  · simpa using hc.compiled_strong
  · intro k c; have cc := hc.sc_rel k c; simpa [St.relCount] using cc
  · simpa using hc.no_fault
  · simpa using hc.expect_ok
  · simpa using hc.uses

theorem dropRtClos_inv {s : St} (hc : InvCore s) {r : Nat} (hr : r ∈ s.rtClos) :
    InvCore (decClos r { s with rtClos := s.rtClos.erase r }) := by
  have hcnt : 0 < s.rtClos.count r := List.count_pos_iff.2 hr
  have cq := hc.closRc_eq r
  have hpos : 0 < s.closRc r := by omega
  have hev : r ∈ s.closEver := by
    apply Classical.byContradiction; intro hn; have := hc.clos_ever r hn; omega
  constructor
  · simpa using hc.holds
  · simpa using hc.alive_cnt
  · simpa using hc.constRc_eq
  · intro r'
    simp only [decClos_closRc, decClos_rtClos, decClos_alive, decClos_info]
    show upd s.closRc r (s.closRc r - 1) r' = (s.rtClos.erase r).count r' + s.alive.countP (closPred s.info r')
    by_cases e : r' = r
    · subst e; rw [upd_same, List.count_erase_self]; omega
    · rw [upd_other _ _ _ _ e, List.count_erase_of_ne e]; exact hc.closRc_eq r'
  · intro r'
    have c := hc.const_rel r'
    simpa [St.relCount] using c
  · simpa using hc.const_ever
  · intro r'
    simp only [decClos_relCount, decClos_closRc, decClos_closEver]
    simp only [St.relCount]
    have c := hc.clos_rel r'
    simp only [St.relCount] at c
    show s.released.count (.closure r') + (if s.closRc r - 1 = 0 ∧ Res.closure r' = .closure r then 1 else 0)
      = if r' ∈ s.closEver ∧ upd s.closRc r (s.closRc r - 1) r' = 0 then 1 else 0
    by_cases e : r' = r
    · subst e
      have hne : ¬ s.closRc r' = 0 := by omega
      simp only [hne, and_false, if_false] at c
      simp [upd_same, c, hev]
    · have : ¬ (Res.closure r' = Res.closure r) := by simpa using e
      simp only [this, and_false, if_false, Nat.add_zero, upd_other _ _ _ _ e]; exact c
  · intro r' h'
    simp only [decClos_closRc]
    have := hc.clos_ever r' (by simpa using h')
    by_cases e : r' = r
    · subst e; rw [upd_same]; omega
    · rw [upd_other _ _ _ _ e]; exact this
  · intro k; have c := hc.code_rel k; simpa [St.relCount] using c
  · simpa using hc.mapped_eq
  · simpa using hc.compiled_strong
  · intro k c; have cc := hc.sc_rel k c; simpa [St.relCount] using cc
  · simpa using hc.no_fault
  · simpa using hc.expect_ok
  · simpa using hc.uses

/-- components the invariant does not mention may change freely -/
theorem InvCore.of_rts {s : St} (hc : InvCore s) (a b : List Nat) : InvCore { s with rts := a, built := b } :=
  ⟨hc.holds, hc.alive_cnt, hc.constRc_eq, hc.closRc_eq, hc.const_rel, hc.const_ever, hc.clos_rel, hc.clos_ever,
    hc.code_rel, hc.mapped_eq, hc.compiled_strong, hc.sc_rel, hc.no_fault, hc.expect_ok, hc.uses⟩

theorem registerConst_inv {s : St} (hI : Inv s) {r : Nat} (hr : r ∉ s.constEver) :
    Inv { s with rtConst := r :: s.rtConst, constEver := r :: s.constEver, constRc := upd s.constRc r 1 } := by
  have hc := hI.toInvCore
  have h0 := hc.const_ever r hr
  have cq := hc.constRc_eq r
  refine ⟨⟨hc.holds, hc.alive_cnt, ?_, hc.closRc_eq, ?_, ?_, hc.clos_rel, hc.clos_ever,
    hc.code_rel, hc.mapped_eq, hc.compiled_strong, hc.sc_rel, hc.no_fault, hc.expect_ok, hc.uses⟩, hI.strong_eq⟩
  · intro r'
    show upd s.constRc r 1 r' = (r :: s.rtConst).count r' + s.alive.countP (constPred s.info r')
    by_cases e : r' = r
    · subst e; rw [upd_same]; simp; omega
    · rw [upd_other _ _ _ _ e]
      have : (r == r') = false := by simpa using fun x => e x.symm
      simp [List.count_cons, this]; exact hc.constRc_eq r'
  · intro r'
    show s.relCount (.regConst r') = if r' ∈ r :: s.constEver ∧ upd s.constRc r 1 r' = 0 then 1 else 0
    by_cases e : r' = r
    · subst e; rw [upd_same, hc.const_rel]; simp [hr]
    · rw [upd_other _ _ _ _ e, hc.const_rel]; simp [e]
  · intro r' h'
    show upd s.constRc r 1 r' = 0
    have : r' ≠ r ∧ r' ∉ s.constEver := by simpa using h'
    rw [upd_other _ _ _ _ this.1]; exact hc.const_ever r' this.2

theorem registerClos_inv {s : St} (hI : Inv s) {r : Nat} (hr : r ∉ s.closEver) :
    Inv { s with rtClos := r :: s.rtClos, closEver := r :: s.closEver, closRc := upd s.closRc r 1 } := by
  have hc := hI.toInvCore
  have h0 := hc.clos_ever r hr
  have cq := hc.closRc_eq r
  refine ⟨⟨hc.holds, hc.alive_cnt, hc.constRc_eq, ?_, hc.const_rel, hc.const_ever, ?_, ?_,
    hc.code_rel, hc.mapped_eq, hc.compiled_strong, hc.sc_rel, hc.no_fault, hc.expect_ok, hc.uses⟩, hI.strong_eq⟩
  · intro r'
    show upd s.closRc r 1 r' = (r :: s.rtClos).count r' + s.alive.countP (closPred s.info r')
    by_cases e : r' = r
    · subst e; rw [upd_same]; simp; omega
    · rw [upd_other _ _ _ _ e]
      have : (r == r') = false := by simpa using fun x => e x.symm
      simp [List.count_cons, this]; exact hc.closRc_eq r'
  · intro r'
    show s.relCount (.closure r') = if r' ∈ r :: s.closEver ∧ upd s.closRc r 1 r' = 0 then 1 else 0
    by_cases e : r' = r
    · subst e; rw [upd_same, hc.clos_rel]; simp [hr]
    · rw [upd_other _ _ _ _ e, hc.clos_rel]; simp [e]
  · intro r' h'
    show upd s.closRc r 1 r' = 0
    have : r' ≠ r ∧ r' ∉ s.closEver := by simpa using h'
    rw [upd_other _ _ _ _ this.1]; exact hc.clos_ever r' this.2

end RotoV.Lifetime
