/-
  Lemmas for C11: the lifetime invariant of `RotoV.Lifetime` and its
  preservation by every operation, for every `Facts` that is `Good`
  (a decidable condition the *generated* facts are tested against in
  Props/C11.lean).  Core Lean only.
-/
import RotoV.Model.Lifetime

namespace RotoV.Lifetime

/-! ### list facts -/

theorem countP_eraseIdx_add {α : Type} (p : α → Bool) :
    ∀ (l : List α) (i : Nat) (h : i < l.length),
      (l.eraseIdx i).countP p + (if p l[i] then 1 else 0) = l.countP p
  | [], i, h => by simp at h
  | a :: l, 0, _ => by simp [List.countP_cons]
  | a :: l, i + 1, h => by
    have ih := countP_eraseIdx_add p l i (by simpa using h)
    simp only [List.eraseIdx_cons_succ, List.countP_cons, List.getElem_cons_succ]
    omega

theorem countP_erase_add (p : Nat → Bool) :
    ∀ (l : List Nat) (k : Nat), k ∈ l →
      (l.erase k).countP p + (if p k then 1 else 0) = l.countP p
  | [], k, h => by simp at h
  | a :: l, k, h => by
    by_cases hak : a = k
    · subst hak; simp [List.countP_cons]
    · have hk : k ∈ l := by
        rcases List.mem_cons.1 h with h | h
        · exact absurd h.symm hak
        · exact h
      have ih := countP_erase_add p l k hk
      have : (a == k) = false := by simpa using hak
      simp only [List.erase_cons, this, List.countP_cons]
      simp only [Bool.false_eq_true, if_false, List.countP_cons]
      omega

theorem upd_same {α : Type} (f : Nat → α) (k : Nat) (v : α) : upd f k v k = v := by simp [upd]
theorem upd_other {α : Type} (f : Nat → α) (k j : Nat) (v : α) (h : j ≠ k) : upd f k v j = f j := by
  simp [upd, h]

/-! ### the admissible facts -/

/-- field orders in which the script constants are dropped before the JIT module -/
def goodOrders : List (List Field) :=
  [ [.constants, .rotoConstants, .registeredFns, .jit], [.constants, .rotoConstants, .jit, .registeredFns],
    [.constants, .registeredFns, .rotoConstants, .jit], [.rotoConstants, .constants, .registeredFns, .jit],
    [.rotoConstants, .constants, .jit, .registeredFns], [.rotoConstants, .registeredFns, .constants, .jit],
    [.rotoConstants, .registeredFns, .jit, .constants], [.rotoConstants, .jit, .constants, .registeredFns],
    [.rotoConstants, .jit, .registeredFns, .constants], [.registeredFns, .constants, .rotoConstants, .jit],
    [.registeredFns, .rotoConstants, .constants, .jit], [.registeredFns, .rotoConstants, .jit, .constants] ]

/-- what the theorems need from the implementation's declarations -/
def goodB (F : Facts) : Bool :=
  F.handleHoldsArc && F.constsCloned && F.fnsCloned
    && decide (F.freeSites = [FreeSite.wrapperDrop]) && goodOrders.contains F.moduleFields

structure Good (F : Facts) : Prop where
  holds : F.handleHoldsArc = true
  consts : F.constsCloned = true
  fns : F.fnsCloned = true
  sites : F.freeSites = [FreeSite.wrapperDrop]
  order : F.moduleFields ∈ goodOrders

theorem good_of_goodB {F : Facts} (h : goodB F = true) : Good F := by
  simp only [goodB, Bool.and_eq_true, decide_eq_true_eq, List.contains_iff_mem] at h
  exact ⟨h.1.1.1.1, h.1.1.1.2, h.1.1.2, h.1.2, h.2⟩

/-! ### primitive effects, projection by projection -/

/-- how often `dropScriptConsts k n` releases `x` -/
def scHit (k n : Nat) : Res → Nat
  | .scriptConst k' c => if k' = k ∧ c < n then 1 else 0
  | _ => 0

section prim
variable (s : St) (k r n : Nat)

@[simp] theorem release_relCount (x y : Res) :
    (release x s).relCount y = s.relCount y + (if x = y then 1 else 0) := by
  simp [release, St.relCount, List.count_cons]

-- decConst
@[simp] theorem decConst_constRc : (decConst r s).constRc = upd s.constRc r (s.constRc r - 1) := by
  unfold decConst; split <;> rfl
@[simp] theorem decConst_relCount (x : Res) : (decConst r s).relCount x
    = s.relCount x + (if s.constRc r - 1 = 0 ∧ x = .regConst r then 1 else 0) := by
  unfold decConst
  by_cases h : s.constRc r - 1 = 0
  · simp only [h, if_true, release_relCount, true_and]
    by_cases hx : x = .regConst r
    · subst hx; simp [St.relCount]
    · have : ¬ (Res.regConst r = x) := fun e => hx e.symm
      simp [St.relCount, hx, this]
  · simp [h, St.relCount]
@[simp] theorem decConst_closRc : (decConst r s).closRc = s.closRc := by unfold decConst; split <;> rfl
@[simp] theorem decConst_mapped : (decConst r s).mapped = s.mapped := by unfold decConst; split <;> rfl
@[simp] theorem decConst_info : (decConst r s).info = s.info := by unfold decConst; split <;> rfl
@[simp] theorem decConst_faults : (decConst r s).faults = s.faults := by unfold decConst; split <;> rfl
@[simp] theorem decConst_alive : (decConst r s).alive = s.alive := by unfold decConst; split <;> rfl
@[simp] theorem decConst_strong : (decConst r s).strong = s.strong := by unfold decConst; split <;> rfl
@[simp] theorem decConst_pkgs : (decConst r s).pkgs = s.pkgs := by unfold decConst; split <;> rfl
@[simp] theorem decConst_hs : (decConst r s).hs = s.hs := by unfold decConst; split <;> rfl
@[simp] theorem decConst_rts : (decConst r s).rts = s.rts := by unfold decConst; split <;> rfl
@[simp] theorem decConst_built : (decConst r s).built = s.built := by unfold decConst; split <;> rfl
@[simp] theorem decConst_rtConst : (decConst r s).rtConst = s.rtConst := by unfold decConst; split <;> rfl
@[simp] theorem decConst_rtClos : (decConst r s).rtClos = s.rtClos := by unfold decConst; split <;> rfl
@[simp] theorem decConst_constEver : (decConst r s).constEver = s.constEver := by unfold decConst; split <;> rfl
@[simp] theorem decConst_closEver : (decConst r s).closEver = s.closEver := by unfold decConst; split <;> rfl
@[simp] theorem decConst_compiled : (decConst r s).compiled = s.compiled := by unfold decConst; split <;> rfl

-- decClos
@[simp] theorem decClos_closRc : (decClos r s).closRc = upd s.closRc r (s.closRc r - 1) := by
  unfold decClos; split <;> rfl
@[simp] theorem decClos_relCount (x : Res) : (decClos r s).relCount x
    = s.relCount x + (if s.closRc r - 1 = 0 ∧ x = .closure r then 1 else 0) := by
  unfold decClos
  by_cases h : s.closRc r - 1 = 0
  · simp only [h, if_true, release_relCount, true_and]
    by_cases hx : x = .closure r
    · subst hx; simp [St.relCount]
    · have : ¬ (Res.closure r = x) := fun e => hx e.symm
      simp [St.relCount, hx, this]
  · simp [h, St.relCount]
@[simp] theorem decClos_constRc : (decClos r s).constRc = s.constRc := by unfold decClos; split <;> rfl
@[simp] theorem decClos_mapped : (decClos r s).mapped = s.mapped := by unfold decClos; split <;> rfl
@[simp] theorem decClos_info : (decClos r s).info = s.info := by unfold decClos; split <;> rfl
@[simp] theorem decClos_faults : (decClos r s).faults = s.faults := by unfold decClos; split <;> rfl
@[simp] theorem decClos_alive : (decClos r s).alive = s.alive := by unfold decClos; split <;> rfl
@[simp] theorem decClos_strong : (decClos r s).strong = s.strong := by unfold decClos; split <;> rfl
@[simp] theorem decClos_pkgs : (decClos r s).pkgs = s.pkgs := by unfold decClos; split <;> rfl
@[simp] theorem decClos_hs : (decClos r s).hs = s.hs := by unfold decClos; split <;> rfl
@[simp] theorem decClos_rts : (decClos r s).rts = s.rts := by unfold decClos; split <;> rfl
@[simp] theorem decClos_built : (decClos r s).built = s.built := by unfold decClos; split <;> rfl
@[simp] theorem decClos_rtConst : (decClos r s).rtConst = s.rtConst := by unfold decClos; split <;> rfl
@[simp] theorem decClos_rtClos : (decClos r s).rtClos = s.rtClos := by unfold decClos; split <;> rfl
@[simp] theorem decClos_constEver : (decClos r s).constEver = s.constEver := by unfold decClos; split <;> rfl
@[simp] theorem decClos_closEver : (decClos r s).closEver = s.closEver := by unfold decClos; split <;> rfl
@[simp] theorem decClos_compiled : (decClos r s).compiled = s.compiled := by unfold decClos; split <;> rfl

-- freeCode on mapped code
theorem freeCode_of_mapped (h : s.mapped k = true) :
    freeCode k s = release (.code k) { s with mapped := upd s.mapped k false } := by
  simp [freeCode, h]

end prim

/-- everything `dropScriptConsts` leaves alone, and what it does while Code k is mapped -/
theorem dropScriptConsts_spec (k : Nat) : ∀ (n : Nat) (s : St),
    let s' := dropScriptConsts k n s
    s'.mapped = s.mapped ∧ s'.info = s.info ∧ s'.constRc = s.constRc ∧ s'.closRc = s.closRc
      ∧ s'.alive = s.alive ∧ s'.strong = s.strong ∧ s'.pkgs = s.pkgs ∧ s'.hs = s.hs ∧ s'.rts = s.rts
      ∧ s'.built = s.built ∧ s'.rtConst = s.rtConst ∧ s'.rtClos = s.rtClos ∧ s'.constEver = s.constEver
      ∧ s'.closEver = s.closEver ∧ s'.compiled = s.compiled
      ∧ (∀ x, s'.relCount x = s.relCount x + scHit k n x)
      ∧ (s.mapped k = true → s'.faults = s.faults)
  | 0, s => by
    simp only [dropScriptConsts, true_and, implies_true, and_true]
    intro x; cases x <;> simp [scHit]
  | n + 1, s => by
    have ih := dropScriptConsts_spec k n s
    simp only at ih
    obtain ⟨h1, h2, h3, h4, h5, h6, h7, h8, h9, h10, h11, h12, h13, h14, h15, h16, h17⟩ := ih
    simp only [dropScriptConsts]
    by_cases hm : (dropScriptConsts k n s).mapped k = true
    · simp only [hm, if_true, release]
      refine ⟨h1, h2, h3, h4, h5, h6, h7, h8, h9, h10, h11, h12, h13, h14, h15, ?_, ?_⟩
      · intro x
        have := h16 x
        simp only [St.relCount] at this ⊢
        rw [List.count_cons, this]
        cases x <;> simp [scHit]
        rename_i k' c
        by_cases e1 : k = k' <;> by_cases e2 : n = c
        · subst e1 e2; simp
        · subst e1; simp [e2]; have : ¬ (c = n) := fun e => e2 e.symm
          by_cases hc : c < n
          · have : c < n + 1 := by omega
            simp [hc, this]
          · have : ¬ c < n + 1 := by omega
            simp [hc, this]
        · have : ¬ (k' = k) := fun e => e1 e.symm
          simp [e1, this]
        · have : ¬ (k' = k) := fun e => e1 e.symm
          simp [e1, this]
      · intro hmk; exact h17 hmk
    · have hmf : (dropScriptConsts k n s).mapped k = false := by simpa using hm
      refine ⟨?_, ?_, ?_, ?_, ?_, ?_, ?_, ?_, ?_, ?_, ?_, ?_, ?_, ?_, ?_, ?_, ?_⟩ <;>
        simp only [hmf, Bool.false_eq_true, if_false, release, fault]
      all_goals first
        | assumption
        | skip
      · intro x
        have := h16 x
        simp only [St.relCount] at this ⊢
        rw [List.count_cons, this]
        cases x <;> simp [scHit]
        rename_i k' c
        by_cases e1 : k = k' <;> by_cases e2 : n = c
        · subst e1 e2; simp
        · subst e1; simp [e2]
          by_cases hc : c < n
          · have : c < n + 1 := by omega
            simp [hc, this]
          · have : ¬ c < n + 1 := by omega
            simp [hc, this]
        · have : ¬ (k' = k) := fun e => e1 e.symm
          simp [e1, this]
        · have : ¬ (k' = k) := fun e => e1 e.symm
          simp [e1, this]
      · intro hmk; rw [h1] at hmf; rw [hmk] at hmf; cases hmf

section dsc
variable (s : St) (k n : Nat)
@[simp] theorem dropScriptConsts_mapped : (dropScriptConsts k n s).mapped = s.mapped := (dropScriptConsts_spec k n s).1
@[simp] theorem dropScriptConsts_info : (dropScriptConsts k n s).info = s.info := (dropScriptConsts_spec k n s).2.1
@[simp] theorem dropScriptConsts_constRc : (dropScriptConsts k n s).constRc = s.constRc := (dropScriptConsts_spec k n s).2.2.1
@[simp] theorem dropScriptConsts_closRc : (dropScriptConsts k n s).closRc = s.closRc := (dropScriptConsts_spec k n s).2.2.2.1
@[simp] theorem dropScriptConsts_alive : (dropScriptConsts k n s).alive = s.alive := (dropScriptConsts_spec k n s).2.2.2.2.1
@[simp] theorem dropScriptConsts_strong : (dropScriptConsts k n s).strong = s.strong := (dropScriptConsts_spec k n s).2.2.2.2.2.1
@[simp] theorem dropScriptConsts_pkgs : (dropScriptConsts k n s).pkgs = s.pkgs := (dropScriptConsts_spec k n s).2.2.2.2.2.2.1
@[simp] theorem dropScriptConsts_hs : (dropScriptConsts k n s).hs = s.hs := (dropScriptConsts_spec k n s).2.2.2.2.2.2.2.1
@[simp] theorem dropScriptConsts_rts : (dropScriptConsts k n s).rts = s.rts := (dropScriptConsts_spec k n s).2.2.2.2.2.2.2.2.1
@[simp] theorem dropScriptConsts_built : (dropScriptConsts k n s).built = s.built := (dropScriptConsts_spec k n s).2.2.2.2.2.2.2.2.2.1
@[simp] theorem dropScriptConsts_rtConst : (dropScriptConsts k n s).rtConst = s.rtConst := (dropScriptConsts_spec k n s).2.2.2.2.2.2.2.2.2.2.1
@[simp] theorem dropScriptConsts_rtClos : (dropScriptConsts k n s).rtClos = s.rtClos := (dropScriptConsts_spec k n s).2.2.2.2.2.2.2.2.2.2.2.1
@[simp] theorem dropScriptConsts_constEver : (dropScriptConsts k n s).constEver = s.constEver := (dropScriptConsts_spec k n s).2.2.2.2.2.2.2.2.2.2.2.2.1
@[simp] theorem dropScriptConsts_closEver : (dropScriptConsts k n s).closEver = s.closEver := (dropScriptConsts_spec k n s).2.2.2.2.2.2.2.2.2.2.2.2.2.1
@[simp] theorem dropScriptConsts_compiled : (dropScriptConsts k n s).compiled = s.compiled := (dropScriptConsts_spec k n s).2.2.2.2.2.2.2.2.2.2.2.2.2.2.1
@[simp] theorem dropScriptConsts_relCount (x : Res) : (dropScriptConsts k n s).relCount x = s.relCount x + scHit k n x :=
  (dropScriptConsts_spec k n s).2.2.2.2.2.2.2.2.2.2.2.2.2.2.2.1 x
theorem dropScriptConsts_faults (h : s.mapped k = true) : (dropScriptConsts k n s).faults = s.faults :=
  (dropScriptConsts_spec k n s).2.2.2.2.2.2.2.2.2.2.2.2.2.2.2.2 h
end dsc

section fc
variable (s : St) (k : Nat)
@[simp] theorem freeCode_info : (freeCode k s).info = s.info := by unfold freeCode; split <;> rfl
@[simp] theorem freeCode_constRc : (freeCode k s).constRc = s.constRc := by unfold freeCode; split <;> rfl
@[simp] theorem freeCode_closRc : (freeCode k s).closRc = s.closRc := by unfold freeCode; split <;> rfl
@[simp] theorem freeCode_alive : (freeCode k s).alive = s.alive := by unfold freeCode; split <;> rfl
@[simp] theorem freeCode_strong : (freeCode k s).strong = s.strong := by unfold freeCode; split <;> rfl
@[simp] theorem freeCode_pkgs : (freeCode k s).pkgs = s.pkgs := by unfold freeCode; split <;> rfl
@[simp] theorem freeCode_hs : (freeCode k s).hs = s.hs := by unfold freeCode; split <;> rfl
@[simp] theorem freeCode_rts : (freeCode k s).rts = s.rts := by unfold freeCode; split <;> rfl
@[simp] theorem freeCode_built : (freeCode k s).built = s.built := by unfold freeCode; split <;> rfl
@[simp] theorem freeCode_rtConst : (freeCode k s).rtConst = s.rtConst := by unfold freeCode; split <;> rfl
@[simp] theorem freeCode_rtClos : (freeCode k s).rtClos = s.rtClos := by unfold freeCode; split <;> rfl
@[simp] theorem freeCode_constEver : (freeCode k s).constEver = s.constEver := by unfold freeCode; split <;> rfl
@[simp] theorem freeCode_closEver : (freeCode k s).closEver = s.closEver := by unfold freeCode; split <;> rfl
@[simp] theorem freeCode_compiled : (freeCode k s).compiled = s.compiled := by unfold freeCode; split <;> rfl
theorem freeCode_mapped (h : s.mapped k = true) : (freeCode k s).mapped = upd s.mapped k false := by
  simp [freeCode, h, release]
theorem freeCode_faults (h : s.mapped k = true) : (freeCode k s).faults = s.faults := by
  simp [freeCode, h, release]
theorem freeCode_relCount (h : s.mapped k = true) (x : Res) :
    (freeCode k s).relCount x = s.relCount x + (if x = .code k then 1 else 0) := by
  simp only [freeCode, h, if_true, release_relCount]
  by_cases hx : x = .code k
  · subst hx; simp [St.relCount]
  · have : ¬ (Res.code k = x) := fun e => hx e.symm
    simp [St.relCount, hx, this]
end fc

/-! the same release counts, phrased on the log itself (these fire after `St.relCount` is unfolded) -/
@[simp] theorem decConst_count (s : St) (r : Nat) (x : Res) : List.count x (decConst r s).released
    = List.count x s.released + (if s.constRc r - 1 = 0 ∧ x = .regConst r then 1 else 0) := by
  simpa [St.relCount] using decConst_relCount s r x
@[simp] theorem decClos_count (s : St) (r : Nat) (x : Res) : List.count x (decClos r s).released
    = List.count x s.released + (if s.closRc r - 1 = 0 ∧ x = .closure r then 1 else 0) := by
  simpa [St.relCount] using decClos_relCount s r x
@[simp] theorem dropScriptConsts_count (s : St) (k n : Nat) (x : Res) :
    List.count x (dropScriptConsts k n s).released = List.count x s.released + scHit k n x := by
  simpa [St.relCount] using dropScriptConsts_relCount s k n x
theorem freeCode_count (s : St) (k : Nat) (h : s.mapped k = true) (x : Res) :
    List.count x (freeCode k s).released = List.count x s.released + (if x = .code k then 1 else 0) := by
  simpa [St.relCount] using freeCode_relCount s k h x

/-! ### the drop of a module, summarised -/

/-- what `dropModule` does to a state in which Code k is mapped, whatever the
    (admissible) field order -/
structure DropSpec (k : Nat) (s s' : St) : Prop where
  rts : s'.rts = s.rts
  built : s'.built = s.built
  rtConst : s'.rtConst = s.rtConst
  rtClos : s'.rtClos = s.rtClos
  constEver : s'.constEver = s.constEver
  closEver : s'.closEver = s.closEver
  compiled : s'.compiled = s.compiled
  info : s'.info = s.info
  strong : s'.strong = s.strong
  pkgs : s'.pkgs = s.pkgs
  hs : s'.hs = s.hs
  constRc : s'.constRc = if (s.info k).keepConst then
      upd s.constRc (s.info k).rt (s.constRc (s.info k).rt - 1) else s.constRc
  closRc : s'.closRc = if (s.info k).keepClos then
      upd s.closRc (s.info k).rt (s.closRc (s.info k).rt - 1) else s.closRc
  mapped : s'.mapped = upd s.mapped k false
  alive : s'.alive = s.alive.erase k
  faults : s'.faults = s.faults
  rel : ∀ x, s'.relCount x = s.relCount x + (if x = .code k then 1 else 0) + scHit k (s.info k).nconst x
      + (if (s.info k).keepConst = true ∧ s.constRc (s.info k).rt - 1 = 0 ∧ x = .regConst (s.info k).rt then 1 else 0)
      + (if (s.info k).keepClos = true ∧ s.closRc (s.info k).rt - 1 = 0 ∧ x = .closure (s.info k).rt then 1 else 0)

theorem dropModule_spec {F : Facts} (hG : Good F) (k : Nat) (s : St) (hm : s.mapped k = true) :
    DropSpec k s (dropModule F k s) := by
  have hsites := hG.sites
  have hord := hG.order
  have hnm : FreeSite.moduleDataDrop ∉ F.freeSites := by rw [hsites]; decide
  have hw : FreeSite.wrapperDrop ∈ F.freeSites := by rw [hsites]; decide
  unfold dropModule
  simp only [hnm, if_false]
  simp only [goodOrders, List.mem_cons, List.not_mem_nil, or_false] at hord
  cases hkc : (s.info k).keepConst <;> cases hkf : (s.info k).keepClos <;>
  rcases hord with h | h | h | h | h | h | h | h | h | h | h | h <;> rw [h] <;>
  constructor <;>
  simp [St.relCount, dropFields, dropField, hw, hkc, hkf, hm, freeCode_mapped, freeCode_faults, freeCode_count,
    dropScriptConsts_faults, Nat.add_comm, Nat.add_left_comm, Nat.add_assoc]

end RotoV.Lifetime
