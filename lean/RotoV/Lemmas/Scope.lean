/-
  Lemmas about the scope-graph model (C13): well-formedness (the invariant of
  `wrap`), the declarative lookup, fuel sufficiency.
-/
import RotoV.Model.Scope

namespace RotoV.Scope

/-! ## well-formed graphs -/

/-- Parents have smaller indices and exist: what `wrap` guarantees. -/
def WF (g : Graph) : Prop :=
  ∀ (s : Nat) (sc : Scope), g.scopes[s]? = some sc → ∀ p, sc.parent = some p → p < s

/-- The ancestors of a scope, innermost first, ending in a scope without parent. -/
inductive Ancestors (g : Graph) : Nat → List Nat → Prop
  | root {s sc} : g.scopes[s]? = some sc → sc.parent = none → Ancestors g s [s]
  | step {s sc p l} : g.scopes[s]? = some sc → sc.parent = some p → Ancestors g p l →
      Ancestors g s (s :: l)

/-- What scope `a` itself offers for `x`: its own declaration, otherwise the
    target of its own import of that name; `none` = nothing here. -/
def hitAt (g : Graph) (a : Nat) (x : Name) : Option (Res (Option Decl)) :=
  match g.decl ⟨a, x⟩ with
  | some d => some (.ok (some d))
  | none =>
    match g.scopes[a]? with
    | none => some (.panic .scopeIndex)
    | some sc =>
      match sc.imports.lookup x with
      | some t =>
        match g.decl t with
        | some d => some (.ok (some d))
        | none => some (.panic .importTarget)
      | none => none

/-- The declarative lookup: the first scope of the chain that offers something. -/
def firstHit (g : Graph) (x : Name) : List Nat → Res (Option Decl)
  | [] => .ok none
  | a :: l =>
    match hitAt g a x with
    | some r => r
    | none => firstHit g x l

theorem ancestors_unique {g : Graph} {s : Nat} {l₁ l₂ : List Nat}
    (h₁ : Ancestors g s l₁) (h₂ : Ancestors g s l₂) : l₁ = l₂ := by
  induction h₁ generalizing l₂ with
  | root hs hp =>
    cases h₂ with
    | root _ _ => rfl
    | step hs' hp' _ => rw [hs] at hs'; cases hs'; rw [hp] at hp'; cases hp'
  | step hs hp _ ih =>
    cases h₂ with
    | root hs' hp' => rw [hs] at hs'; cases hs'; rw [hp] at hp'; cases hp'
    | step hs' hp' h' =>
      rw [hs] at hs'; cases hs'; rw [hp] at hp'; cases hp'
      rw [ih h']

/-- every scope of a well-formed graph has a (finite) ancestor chain -/
theorem ancestors_exist {g : Graph} (wf : WF g) :
    ∀ s, s < g.scopes.length → ∃ l, Ancestors g s l := by
  intro s
  induction s using Nat.strongRecOn with
  | _ s ih =>
    intro hs
    have hget : g.scopes[s]? = some g.scopes[s] := List.getElem?_eq_getElem hs
    cases hp : (g.scopes[s]).parent with
    | none => exact ⟨[s], .root hget hp⟩
    | some p =>
      have hlt : p < s := wf s _ hget p hp
      obtain ⟨l, hl⟩ := ih p hlt (Nat.lt_trans hlt hs)
      exact ⟨s :: l, .step hget hp hl⟩

/-- `resolve_name` with any sufficient fuel is the declarative lookup. -/
theorem resolveName_eq_firstHit {g : Graph} (wf : WF g) (x : Name) :
    ∀ fuel s l, s < fuel → Ancestors g s l →
      g.resolveName fuel s x true = firstHit g x l := by
  intro fuel
  induction fuel with
  | zero => intro s l h; omega
  | succ n ih =>
    intro s l hfuel hanc
    cases hanc with
    | root hs hp =>
      simp only [Graph.resolveName, firstHit, hitAt]
      cases hd : g.decl ⟨s, x⟩ with
      | some d => rfl
      | none =>
        simp only [hs, Bool.not_true, Bool.false_eq_true, ↓reduceIte]
        cases hi : List.lookup x _ with
        | some t => cases hg : g.decl t <;> simp [hg]
        | none => simp [hp]
    | step hs hp hrest =>
      rename_i sc p l'
      simp only [Graph.resolveName, firstHit, hitAt]
      cases hd : g.decl ⟨s, x⟩ with
      | some d => rfl
      | none =>
        simp only [hs, Bool.not_true, Bool.false_eq_true, ↓reduceIte]
        cases hi : List.lookup x _ with
        | some t => cases hg : g.decl t <;> simp [hg]
        | none =>
          simp only [hp]
          have hlt : p < s := wf s _ hs p hp
          exact ih p l' (by omega) hrest

/-! ## `wrap` keeps graphs well-formed -/

theorem wrap_wf {g : Graph} (wf : WF g) (parent : Nat) (kind : SKind)
    (hp : parent < g.scopes.length) : WF (g.wrap parent kind).1 := by
  intro s sc hs p hpar
  simp only [Graph.wrap] at hs
  by_cases hlt : s < g.scopes.length
  · rw [List.getElem?_append_left hlt] at hs
    exact wf s sc hs p hpar
  · have hge : g.scopes.length ≤ s := Nat.le_of_not_lt hlt
    rw [List.getElem?_append_right hge] at hs
    cases hk : s - g.scopes.length with
    | zero =>
      rw [hk] at hs
      simp only [List.getElem?_cons_zero, Option.some.injEq] at hs
      subst hs
      simp only [Option.some.injEq] at hpar
      omega
    | succ k =>
      rw [hk] at hs
      simp at hs

theorem new_wf : WF Graph.new := by
  intro s sc hs p hp
  simp only [Graph.new] at hs
  cases s with
  | zero => simp at hs; subst hs; simp at hp
  | succ k => simp at hs

/-- decidable form of `WF` -/
def WFb (g : Graph) : Bool :=
  (List.range g.scopes.length).all fun s =>
    match g.scopes[s]? with
    | some sc => match sc.parent with
      | some p => decide (p < s)
      | none => true
    | none => true

theorem WF_of_WFb {g : Graph} (h : WFb g = true) : WF g := by
  intro s sc hs p hp
  have hlt : s < g.scopes.length := by
    rcases Nat.lt_or_ge s g.scopes.length with h' | h'
    · exact h'
    · rw [List.getElem?_eq_none h'] at hs; cases hs
  have := (List.all_eq_true.mp h) s (List.mem_range.mpr hlt)
  simp only [hs, hp, decide_eq_true_eq] at this
  exact this

end RotoV.Scope
