/-
Helper lemmas for `Props/C05Gate`: the generated arms of `check_roto_type` looked up, and what the
gate's answer `true` means, one constructor of the Rust type at a time.
-/
import RotoV.Model.BoundaryGate

namespace RotoV.C05

open RotoV RotoV.Boundary RotoV.Gen.BoundaryTables

/-! the generated arms, looked up -/

theorem arm_option : armFor gateArms .option = some ⟨.option, .global, .option, 1, [(0, 0)]⟩ := by decide
theorem arm_list : armFor gateArms .list = some ⟨.list, .global, .list, 1, [(0, 0)]⟩ := by decide
theorem arm_result : armFor gateArms .result = some ⟨.result, .global, .result, 2, [(0, 0), (1, 1)]⟩ := by decide
theorem arm_verdict : armFor gateArms .verdict = some ⟨.verdict, .global, .verdict, 2, [(0, 0), (1, 1)]⟩ := by decide
theorem leaf_scope : gateLeafScope = .global := by decide
theorem tables_agree :
    rotoOptionVariants = defaultOption ∧ rotoResultVariants = defaultResult ∧ verdictVariants = defaultVerdict := by
  decide

/-- what the gate's answer `true` means, one constructor at a time -/
theorem gate_option_inv {r : RTy} {t : STy} (h : gate gateArms (.option r) t = true) :
    ∃ d a, t = .name1 .global (.generic .option) d a ∧ gate gateArms r a = true := by
  unfold gate at h
  rw [arm_option] at h
  cases t <;> simp [nameTest, STy.scope?, STy.ident?, STy.arity] at h
  case name1 s i d a =>
    obtain ⟨⟨hs, hi⟩, hg⟩ := h
    exact ⟨d, a, by subst hs; subst hi; rfl, hg⟩

theorem gate_list_inv {r : RTy} {t : STy} (h : gate gateArms (.list r) t = true) :
    ∃ d a, t = .name1 .global (.generic .list) d a ∧ gate gateArms r a = true := by
  unfold gate at h
  rw [arm_list] at h
  cases t <;> simp [nameTest, STy.scope?, STy.ident?, STy.arity] at h
  case name1 s i d a =>
    obtain ⟨⟨hs, hi⟩, hg⟩ := h
    exact ⟨d, a, by subst hs; subst hi; rfl, hg⟩

theorem gate_result_inv {r1 r2 : RTy} {t : STy} (h : gate gateArms (.result r1 r2) t = true) :
    ∃ d a b, t = .name2 .global (.generic .result) d a b ∧ gate gateArms r1 a = true ∧ gate gateArms r2 b = true := by
  unfold gate at h
  rw [arm_result] at h
  cases t <;> simp [nameTest, STy.scope?, STy.ident?, STy.arity] at h
  case name2 s i d a b =>
    obtain ⟨⟨hs, hi⟩, hg⟩ := h
    exact ⟨d, a, b, by subst hs; subst hi; rfl, hg⟩

theorem gate_verdict_inv {r1 r2 : RTy} {t : STy} (h : gate gateArms (.verdict r1 r2) t = true) :
    ∃ d a b, t = .name2 .global (.generic .verdict) d a b ∧ gate gateArms r1 a = true ∧ gate gateArms r2 b = true := by
  unfold gate at h
  rw [arm_verdict] at h
  cases t <;> simp [nameTest, STy.scope?, STy.ident?, STy.arity] at h
  case name2 s i d a b =>
    obtain ⟨⟨hs, hi⟩, hg⟩ := h
    exact ⟨d, a, b, by subst hs; subst hi; rfl, hg⟩

theorem gate_prim_inv {p : Primitive} {t : STy} (h : gate gateArms (.prim p) t = true) :
    ∃ d, t = .name0 .global (.prim p) d := by
  unfold gate at h
  rw [leaf_scope] at h
  cases t <;> simp [STy.scope?, STy.ident?, STy.arity] at h
  case name0 s i d =>
    obtain ⟨hs, hi⟩ := h
    exact ⟨d, by subst hs; subst hi; rfl⟩

theorem gate_val_inv {id : Nat} {l : Layout} {t : STy} (hw : t.WF = true)
    (h : gate gateArms (.val id l) t = true) : ∃ s i, t = .name0 s i (.runtime id) := by
  unfold gate at h
  simp only [Bool.and_eq_true] at h
  obtain ⟨_, h⟩ := h
  cases t <;> simp [STy.decl?] at h
  case name0 s i d =>
    cases d <;> simp at h
    subst h; exact ⟨s, i, rfl⟩
  case name1 s i d a =>
    cases d <;> simp at h
    simp [STy.WF, STy.WF.noParams] at hw
  case name2 s i d a b =>
    cases d <;> simp at h
    simp [STy.WF, STy.WF.noParams] at hw
  case nameN s i d k =>
    cases d <;> simp at h
    simp [STy.WF, STy.WF.noParams] at hw

end RotoV.C05
