/-
  `tarjan` as written never hits one of its `unwrap` / index panics
  (`state.vertices[w]`, `get_mut(&v).unwrap()`): every vertex it looks up has
  been inserted before.
-/
import RotoV.Lemmas.TarjanCtx

namespace RotoV.Tarjan

def Has (st : State) (k : Nat) : Prop := (st.vertices.lookup k).isSome = true

def VMono (st st' : State) : Prop := ∀ k, Has st k → Has st' k

theorem amInsert_lookup {β} (k : Nat) (v : β) : ∀ (l : List (Nat × β)) (k' : Nat),
    (amInsert k v l).lookup k' = if k' = k then some v else l.lookup k' := by
  intro l
  induction l with
  | nil =>
    intro k'
    by_cases h : k' = k
    · subst h; simp [amInsert, List.lookup]
    · have : (k' == k) = false := by simpa using h
      simp [amInsert, List.lookup, h, this]
  | cons p l ih =>
    intro k'
    obtain ⟨a, b⟩ := p
    simp only [amInsert]
    by_cases hak : a = k
    · subst hak
      simp only [beq_self_eq_true, ↓reduceIte]
      by_cases h : k' = a
      · subst h; simp [List.lookup]
      · have : (k' == a) = false := by simpa using h
        simp [List.lookup, h, this]
    · have hak' : (a == k) = false := by simpa using hak
      simp only [hak', Bool.false_eq_true, ↓reduceIte]
      by_cases h : k' = a
      · subst h
        have : ¬ k' = k := hak
        simp [List.lookup, this]
      · have h' : (k' == a) = false := by simpa using h
        simp only [List.lookup, h']
        exact ih k'

theorem has_amInsert (st : State) (k : Nat) (v : VertexState) (k' : Nat) (st' : State)
    (hv : st'.vertices = amInsert k v st.vertices) : (Has st k' ∨ k' = k) → Has st' k' := by
  intro h
  unfold Has
  rw [hv, amInsert_lookup]
  by_cases e : k' = k
  · simp [e]
  · simp only [e, ↓reduceIte]
    rcases h with h | h
    · exact h
    · exact absurd h e

theorem vertex_ok (st : State) (w : Nat) (h : Has st w) : ∃ vs, st.vertex w = .ok vs := by
  unfold Has at h
  unfold State.vertex
  cases hl : st.vertices.lookup w with
  | none => rw [hl] at h; cases h
  | some vs => exact ⟨vs, rfl⟩

theorem updateLowlink_ok (st : State) (v new : Nat) (h : Has st v) :
    ∃ st', st.updateLowlink v new = .ok st' ∧ VMono st st' := by
  unfold Has at h
  unfold State.updateLowlink
  cases hl : st.vertices.lookup v with
  | none => rw [hl] at h; cases h
  | some vs =>
    refine ⟨_, rfl, fun k hk => ?_⟩
    exact has_amInsert st v _ k _ rfl (Or.inl hk)

/-- what a call of `strongly_connect` guarantees about the vertex map -/
def ScSpec (sc : State → Nat → M State) : Prop :=
  ∀ st w, sc st w ≠ .error .panic ∧ ∀ st', sc st w = .ok st' → VMono st st' ∧ Has st' w

theorem visitRefs_spec (sc : State → Nat → M State) (hsc : ScSpec sc) (v : Nat) :
    ∀ (ws : List Nat) (st : State), Has st v →
      visitRefs sc v ws st ≠ .error .panic ∧ ∀ st', visitRefs sc v ws st = .ok st' → VMono st st' := by
  intro ws
  induction ws with
  | nil =>
    intro st _
    refine ⟨by simp [visitRefs], fun st' h => ?_⟩
    simp only [visitRefs, Except.ok.injEq] at h
    subst h; exact fun _ hk => hk
  | cons w ws ih =>
    intro st hv
    simp only [visitRefs]
    split
    · -- unvisited: recurse
      obtain ⟨hnp, hok⟩ := hsc st w
      cases h1 : sc st w with
      | error e =>
        cases e with
        | panic => exact absurd h1 hnp
        | outOfFuel => simp [bind, Except.bind]
      | ok st1 =>
        obtain ⟨m1, hw⟩ := hok st1 h1
        obtain ⟨vs, hvs⟩ := vertex_ok st1 w hw
        obtain ⟨st2, h2, m2⟩ := updateLowlink_ok st1 v vs.lowlink (m1 v hv)
        obtain ⟨a, b⟩ := ih st2 (m2 v (m1 v hv))
        simp only [bind, Except.bind, hvs, h2]
        exact ⟨a, fun st' h => fun k hk => b st' h k (m2 k (m1 k hk))⟩
    · next hvis =>
      have hw : Has st w := by
        unfold Has
        cases hh : (st.vertices.lookup w).isSome with
        | true => rfl
        | false => simp [hh] at hvis
      split
      · obtain ⟨vs, hvs⟩ := vertex_ok st w hw
        obtain ⟨st2, h2, m2⟩ := updateLowlink_ok st v vs.index hv
        obtain ⟨a, b⟩ := ih st2 (m2 v hv)
        simp only [bind, Except.bind, hvs, h2]
        exact ⟨a, fun st' h => fun k hk => b st' h k (m2 k hk)⟩
      · exact ih st hv

theorem strongConnect_spec (g : Graph) : ∀ fuel, ScSpec (strongConnect g fuel) := by
  intro fuel
  induction fuel with
  | zero =>
    intro st w
    exact ⟨by simp [strongConnect], fun st' h => by simp [strongConnect] at h⟩
  | succ fuel ih =>
    intro st v
    let st0 : State :=
      { st with nextIndex := st.nextIndex + 1,
                vertices := amInsert v ⟨st.nextIndex, st.nextIndex⟩ st.vertices,
                stack := v :: st.stack }
    have h0v : Has st0 v := has_amInsert st v _ v st0 rfl (Or.inr rfl)
    have m0 : VMono st st0 := fun k hk => has_amInsert st v _ k st0 rfl (Or.inl hk)
    obtain ⟨hnp, hok⟩ := visitRefs_spec (strongConnect g fuel) ih v (g.refs v) st0 h0v
    simp only [strongConnect]
    cases h1 : visitRefs (strongConnect g fuel) v (g.refs v) st0 with
    | error e =>
      cases e with
      | panic => exact absurd h1 hnp
      | outOfFuel =>
        have h1' : visitRefs (strongConnect g fuel) v (g.refs v)
          { stack := v :: st.stack, vertices := amInsert v ⟨st.nextIndex, st.nextIndex⟩ st.vertices,
            nextIndex := st.nextIndex + 1, components := st.components } = .error .outOfFuel := h1
        simp [bind, Except.bind, h1']
    | ok st1 =>
      have h1' : visitRefs (strongConnect g fuel) v (g.refs v)
          { stack := v :: st.stack, vertices := amInsert v ⟨st.nextIndex, st.nextIndex⟩ st.vertices,
            nextIndex := st.nextIndex + 1, components := st.components } = .ok st1 := h1
      have m1 := hok st1 h1
      have hv1 : Has st1 v := m1 v h0v
      obtain ⟨vs, hvs⟩ := vertex_ok st1 v hv1
      simp only [bind, Except.bind, h1', hvs]
      split
      · refine ⟨by simp, fun st' h => ?_⟩
        simp only [Except.ok.injEq] at h
        subst h
        exact ⟨fun k hk => m1 k (m0 k hk), hv1⟩
      · refine ⟨by simp, fun st' h => ?_⟩
        simp only [Except.ok.injEq] at h
        subst h
        exact ⟨fun k hk => m1 k (m0 k hk), hv1⟩

theorem tarjanLoop_no_panic (g : Graph) (fuel : Nat) : ∀ (vs : List Nat) (st : State),
    tarjanLoop g fuel vs st ≠ .error .panic := by
  intro vs
  induction vs with
  | nil => intro st; simp [tarjanLoop]
  | cons v vs ih =>
    intro st
    simp only [tarjanLoop]
    split
    · obtain ⟨hnp, _⟩ := strongConnect_spec g fuel st v
      cases h1 : strongConnect g fuel st v with
      | error e =>
        cases e with
        | panic => exact absurd h1 hnp
        | outOfFuel => simp [bind, Except.bind]
      | ok st1 => simpa [bind, Except.bind] using ih st1
    · exact ih st

theorem tarjan_no_panic' (g : Graph) : tarjan g ≠ .error .panic := by
  unfold tarjan tarjanFuel
  have := tarjanLoop_no_panic g g.nodeCount g.keys State.new
  cases h : tarjanLoop g g.nodeCount g.keys State.new with
  | error e =>
    cases e with
    | panic => exact absurd h this
    | outOfFuel => simp [bind, Except.bind]
  | ok st => simp [bind, Except.bind]

/-! ### fuel = node count suffices: `tarjan` is total -/

/-- names of the graph that have no entry in `state.vertices` yet -/
def unseen (g : Graph) (st : State) : Nat :=
  (g.nodes.eraseDups.filter fun n => !(st.vertices.lookup n).isSome).length

theorem unseen_le (g : Graph) (st : State) : unseen g st ≤ g.nodeCount := List.length_filter_le _ _

theorem unseen_mono (g : Graph) (st st' : State) (m : VMono st st') : unseen g st' ≤ unseen g st := by
  unfold unseen
  apply filter_length_mono
  intro x hx
  cases h : (st.vertices.lookup x).isSome with
  | false => rfl
  | true =>
    have : (st'.vertices.lookup x).isSome = true := m x h
    simp [this] at hx

theorem unseen_lt (g : Graph) (st st' : State) (m : VMono st st') (v : Nat) (hv : v ∈ g.nodes)
    (h0 : ¬ Has st v) (h1 : Has st' v) : unseen g st' < unseen g st := by
  unfold unseen
  apply filter_length_lt _ _ _ v _ _ _ (List.mem_eraseDups.2 hv)
  · intro x hx
    cases h : (st.vertices.lookup x).isSome with
    | false => rfl
    | true =>
      have : (st'.vertices.lookup x).isSome = true := m x h
      simp [this] at hx
  · unfold Has at h1; simp [h1]
  · unfold Has at h0
    cases h : (st.vertices.lookup v).isSome with
    | false => rfl
    | true => exact absurd h h0

def ScTotal (g : Graph) (fuel : Nat) (sc : State → Nat → M State) : Prop :=
  ∀ st w, w ∈ g.nodes → ¬ Has st w → unseen g st ≤ fuel →
    ∃ st', sc st w = .ok st' ∧ VMono st st' ∧ Has st' w

theorem visitRefs_total (g : Graph) (fuel : Nat) (sc : State → Nat → M State)
    (hsc : ScTotal g fuel sc) (v : Nat) : ∀ (ws : List Nat) (st : State),
    (∀ w, w ∈ ws → w ∈ g.nodes) → Has st v → unseen g st ≤ fuel →
    ∃ st', visitRefs sc v ws st = .ok st' ∧ VMono st st' := by
  intro ws
  induction ws with
  | nil => intro st _ _ _; exact ⟨st, rfl, fun _ h => h⟩
  | cons w ws ih =>
    intro st hn hv hf
    have hn' : ∀ x, x ∈ ws → x ∈ g.nodes := fun x hx => hn x (List.mem_cons_of_mem _ hx)
    simp only [visitRefs]
    split
    · next hvis =>
      have hw0 : ¬ Has st w := by
        unfold Has; intro h; simp [h] at hvis
      obtain ⟨st1, h1, m1, hw⟩ := hsc st w (hn w (by simp)) hw0 hf
      obtain ⟨vs, hvs⟩ := vertex_ok st1 w hw
      obtain ⟨st2, h2, m2⟩ := updateLowlink_ok st1 v vs.lowlink (m1 v hv)
      have m12 : VMono st st2 := fun k hk => m2 k (m1 k hk)
      obtain ⟨st3, h3, m3⟩ := ih st2 hn' (m12 v hv) (Nat.le_trans (unseen_mono g _ _ m12) hf)
      exact ⟨st3, by simp only [bind, Except.bind, h1, hvs, h2, h3], fun k hk => m3 k (m12 k hk)⟩
    · next hvis =>
      have hw : Has st w := by
        unfold Has
        cases hh : (st.vertices.lookup w).isSome with
        | true => rfl
        | false => simp [hh] at hvis
      split
      · obtain ⟨vs, hvs⟩ := vertex_ok st w hw
        obtain ⟨st2, h2, m2⟩ := updateLowlink_ok st v vs.index hv
        obtain ⟨st3, h3, m3⟩ := ih st2 hn' (m2 v hv) (Nat.le_trans (unseen_mono g _ _ m2) hf)
        exact ⟨st3, by simp only [bind, Except.bind, hvs, h2, h3], fun k hk => m3 k (m2 k hk)⟩
      · exact ih st hn' hv hf

theorem strongConnect_total (g : Graph) : ∀ fuel, ScTotal g fuel (strongConnect g fuel) := by
  intro fuel
  induction fuel with
  | zero =>
    intro st w hw h0 hf
    -- `w` is unseen, so the count cannot be 0
    exfalso
    have h00 : unseen g st = 0 := Nat.le_zero.1 hf
    unfold unseen at h00
    have := List.filter_eq_nil_iff.1 (List.length_eq_zero_iff.1 h00) w (List.mem_eraseDups.2 hw)
    unfold Has at h0
    cases h : (st.vertices.lookup w).isSome with
    | true => exact h0 h
    | false => simp [h] at this
  | succ fuel ih =>
    intro st v hv h0 hf
    let st0 : State :=
      { st with nextIndex := st.nextIndex + 1,
                vertices := amInsert v ⟨st.nextIndex, st.nextIndex⟩ st.vertices,
                stack := v :: st.stack }
    have h0v : Has st0 v := has_amInsert st v _ v st0 rfl (Or.inr rfl)
    have m0 : VMono st st0 := fun k hk => has_amInsert st v _ k st0 rfl (Or.inl hk)
    have hlt := unseen_lt g st st0 m0 v hv h0 h0v
    obtain ⟨st1, h1, m1⟩ := visitRefs_total g fuel (strongConnect g fuel) ih v (g.refs v) st0
      (fun w hw => refs_mem_nodes hw) h0v (by omega)
    have h1' : visitRefs (strongConnect g fuel) v (g.refs v)
        { stack := v :: st.stack, vertices := amInsert v ⟨st.nextIndex, st.nextIndex⟩ st.vertices,
          nextIndex := st.nextIndex + 1, components := st.components } = .ok st1 := h1
    have hv1 : Has st1 v := m1 v h0v
    obtain ⟨vs, hvs⟩ := vertex_ok st1 v hv1
    simp only [strongConnect, bind, Except.bind, h1', hvs]
    split
    · exact ⟨_, rfl, fun k hk => m1 k (m0 k hk), hv1⟩
    · exact ⟨_, rfl, fun k hk => m1 k (m0 k hk), hv1⟩

theorem tarjanLoop_total (g : Graph) : ∀ (vs : List Nat) (st : State),
    (∀ v, v ∈ vs → v ∈ g.nodes) → ∃ st', tarjanLoop g g.nodeCount vs st = .ok st' := by
  intro vs
  induction vs with
  | nil => intro st _; exact ⟨st, rfl⟩
  | cons v vs ih =>
    intro st hn
    have hn' : ∀ x, x ∈ vs → x ∈ g.nodes := fun x hx => hn x (List.mem_cons_of_mem _ hx)
    simp only [tarjanLoop]
    split
    · next hvis =>
      have h0 : ¬ Has st v := by unfold Has; intro h; simp [h] at hvis
      obtain ⟨st1, h1, _, _⟩ := strongConnect_total g g.nodeCount st v (hn v (by simp)) h0 (unseen_le g st)
      obtain ⟨st2, h2⟩ := ih st1 hn'
      exact ⟨st2, by simp only [bind, Except.bind, h1, h2]⟩
    · exact ih st hn'

/-- `tarjan` always returns: no `unwrap`/index panic, and the node count bounds
the recursion depth. -/
theorem tarjan_total' (g : Graph) : ∃ comps, tarjan g = .ok comps := by
  obtain ⟨st, h⟩ := tarjanLoop_total g g.keys State.new (fun k hk => by simp [Graph.nodes, hk])
  exact ⟨st.components, by simp [tarjan, tarjanFuel, h, bind, Except.bind]⟩

end RotoV.Tarjan
