/-
  Partial correctness of `tarjan` (the executable model of
  `src/typechecker/value_cycle.rs`): whenever it returns, every key of the
  graph is in some emitted component and every edge out of an emitted
  component leads into that component or into an earlier one.
-/
import RotoV.Lemmas.TarjanNoPanic

namespace RotoV.Tarjan

namespace VC

/-- index stored for `k` (0 when `k` has no entry) -/
def idx (st : State) (k : Nat) : Nat :=
  match st.vertices.lookup k with
  | some vs => vs.index
  | none => 0

/-- lowlink stored for `k` (0 when `k` has no entry) -/
def low (st : State) (k : Nat) : Nat :=
  match st.vertices.lookup k with
  | some vs => vs.lowlink
  | none => 0

theorem idx_congr {st st' : State} {k : Nat}
    (h : st'.vertices.lookup k = st.vertices.lookup k) : idx st' k = idx st k := by
  unfold idx; rw [h]

theorem low_congr {st st' : State} {k : Nat}
    (h : st'.vertices.lookup k = st.vertices.lookup k) : low st' k = low st k := by
  unfold low; rw [h]

theorem has_congr {st st' : State} {k : Nat}
    (h : st'.vertices.lookup k = st.vertices.lookup k) : Has st' k ↔ Has st k := by
  unfold Has; rw [h]

theorem has_lookup {st : State} {k : Nat} (h : Has st k) :
    ∃ vs, st.vertices.lookup k = some vs ∧ idx st k = vs.index ∧ low st k = vs.lowlink := by
  unfold Has at h
  cases hl : st.vertices.lookup k with
  | none => rw [hl] at h; cases h
  | some vs => exact ⟨vs, rfl, by unfold idx; rw [hl], by unfold low; rw [hl]⟩

theorem not_has_of_cond {st : State} {w : Nat}
    (h : (!(st.vertices.lookup w).isSome) = true) : ¬ Has st w := by
  unfold Has; intro h'; simp [h'] at h

theorem has_of_not_cond {st : State} {w : Nat}
    (h : ¬ (!(st.vertices.lookup w).isSome) = true) : Has st w := by
  unfold Has
  cases hh : (st.vertices.lookup w).isSome with
  | true => rfl
  | false => simp [hh] at h

/-- `w` is harmless for the component anchored at `v`: already emitted, or on
the stack with an index not below `v`'s lowlink -/
def Good (st : State) (v w : Nat) : Prop :=
  w ∈ st.components.flatten ∨ (w ∈ st.stack ∧ low st v ≤ idx st w)

/-- the invariant at the call boundaries of `strongly_connect` -/
structure Inv (g : Graph) (st : State) : Prop where
  stackHas : ∀ x, x ∈ st.stack → Has st x
  bound : ∀ x, Has st x → idx st x < st.nextIndex
  lowle : ∀ x, x ∈ st.stack → low st x ≤ idx st x
  lowwit : ∀ x, x ∈ st.stack → ∃ y, y ∈ st.stack ∧ idx st y ≤ low st x
  visited : ∀ x, Has st x → x ∈ st.stack ∨ x ∈ st.components.flatten
  closed : ∀ pre c post, st.components = pre ++ c :: post →
    ∀ u, u ∈ c → ∀ w, Edge g u w → w ∈ pre.flatten ∨ w ∈ c

/-- how a state evolves between two call boundaries (no pop below the old stack) -/
structure Step (st st' : State) : Prop where
  stack : ∃ ex, st'.stack = ex ++ st.stack ∧ ∀ x, x ∈ ex → Has st' x ∧ st.nextIndex ≤ idx st' x
  comps : ∃ ex, st'.components = st.components ++ ex
  has : ∀ k, Has st k → Has st' k
  hidx : ∀ k, Has st k → idx st' k = idx st k
  hlow : ∀ k, Has st k → low st' k ≤ low st k
  next : st.nextIndex ≤ st'.nextIndex

theorem Step.refl (st : State) : Step st st :=
  ⟨⟨[], rfl, fun _ h => by cases h⟩, ⟨[], by simp⟩, fun _ h => h, fun _ _ => rfl,
    fun _ _ => Nat.le_refl _, Nat.le_refl _⟩

theorem Step.trans {a b c : State} (h1 : Step a b) (h2 : Step b c) : Step a c := by
  obtain ⟨e1, hs1, hp1⟩ := h1.stack
  obtain ⟨e2, hs2, hp2⟩ := h2.stack
  obtain ⟨c1, hc1⟩ := h1.comps
  obtain ⟨c2, hc2⟩ := h2.comps
  refine ⟨⟨e2 ++ e1, by rw [hs2, hs1, List.append_assoc], ?_⟩,
    ⟨c1 ++ c2, by rw [hc2, hc1, List.append_assoc]⟩, fun k hk => h2.has k (h1.has k hk), ?_, ?_,
    Nat.le_trans h1.next h2.next⟩
  · intro x hx
    rcases List.mem_append.1 hx with hx | hx
    · obtain ⟨p, q⟩ := hp2 x hx
      exact ⟨p, Nat.le_trans h1.next q⟩
    · obtain ⟨p, q⟩ := hp1 x hx
      refine ⟨h2.has x p, ?_⟩
      rw [h2.hidx x p]; exact q
  · intro k hk
    rw [h2.hidx k (h1.has k hk), h1.hidx k hk]
  · intro k hk
    exact Nat.le_trans (h2.hlow k (h1.has k hk)) (h1.hlow k hk)

theorem Step.mem_stack {a b : State} (h : Step a b) {x : Nat} (hx : x ∈ a.stack) : x ∈ b.stack := by
  obtain ⟨e, hs, _⟩ := h.stack
  rw [hs]; exact List.mem_append_right _ hx

theorem Step.mem_comps {a b : State} (h : Step a b) {x : Nat} (hx : x ∈ a.components.flatten) :
    x ∈ b.components.flatten := by
  obtain ⟨e, hc⟩ := h.comps
  rw [hc, List.flatten_append]; exact List.mem_append_left _ hx

theorem Good.step {st st' : State} {v w : Nat} (hg : Good st v w) (hs : Step st st')
    (hv : Has st v) (hst : ∀ x, x ∈ st.stack → Has st x) : Good st' v w := by
  rcases hg with hg | ⟨hw, hl⟩
  · exact Or.inl (hs.mem_comps hg)
  · refine Or.inr ⟨hs.mem_stack hw, ?_⟩
    rw [hs.hidx w (hst w hw)]
    exact Nat.le_trans (hs.hlow v hv) hl

/-! ### `update_lowlink` -/

theorem upd_facts {st : State} {v new : Nat} {st' : State}
    (h : st.updateLowlink v new = .ok st') :
    st'.stack = st.stack ∧ st'.components = st.components ∧ st'.nextIndex = st.nextIndex ∧
    (∀ k, k ≠ v → st'.vertices.lookup k = st.vertices.lookup k) ∧
    (∀ k, Has st' k ↔ Has st k) ∧ (∀ k, idx st' k = idx st k) ∧
    low st' v = min (low st v) new := by
  unfold State.updateLowlink at h
  cases hl : st.vertices.lookup v with
  | none => rw [hl] at h; cases h
  | some vs =>
    rw [hl] at h
    simp only [Except.ok.injEq] at h
    subst h
    refine ⟨rfl, rfl, rfl, ?_, ?_, ?_, ?_⟩
    · intro k hk
      simp only [amInsert_lookup, hk, ↓reduceIte]
    · intro k
      unfold Has
      simp only [amInsert_lookup]
      by_cases e : k = v
      · subst e; simp [hl]
      · simp [e]
    · intro k
      unfold idx
      simp only [amInsert_lookup]
      by_cases e : k = v
      · subst e; simp [hl]
      · simp [e]
    · unfold low
      simp [amInsert_lookup, hl]

theorem upd_step {st : State} {v new : Nat} {st' : State}
    (h : st.updateLowlink v new = .ok st') : Step st st' := by
  obtain ⟨hs, hc, hn, hlk, hh, hi, hl⟩ := upd_facts h
  refine ⟨⟨[], by simp [hs], fun _ hx => by cases hx⟩, ⟨[], by simp [hc]⟩,
    fun k hk => (hh k).2 hk, fun k _ => hi k, ?_, by rw [hn]; exact Nat.le_refl _⟩
  intro k _
  by_cases e : k = v
  · subst e; rw [hl]; exact Nat.min_le_left _ _
  · rw [low_congr (hlk k e)]; exact Nat.le_refl _

theorem upd_inv {g : Graph} {st : State} {v new : Nat} {st' : State} (hi : Inv g st)
    (hw : ∃ y, y ∈ st.stack ∧ idx st y ≤ new)
    (h : st.updateLowlink v new = .ok st') : Inv g st' := by
  obtain ⟨hs, hc, hn, hlk, hh, hix, hl⟩ := upd_facts h
  refine ⟨?_, ?_, ?_, ?_, ?_, ?_⟩
  · intro x hx
    rw [hs] at hx
    exact (hh x).2 (hi.stackHas x hx)
  · intro x hx
    rw [hix, hn]
    exact hi.bound x ((hh x).1 hx)
  · intro x hx
    rw [hs] at hx
    rw [hix]
    by_cases e : x = v
    · subst e; rw [hl]
      exact Nat.le_trans (Nat.min_le_left _ _) (hi.lowle x hx)
    · rw [low_congr (hlk x e)]; exact hi.lowle x hx
  · intro x hx
    rw [hs] at hx
    rw [hs]
    by_cases e : x = v
    · subst e
      rw [hl]
      by_cases c : low st x ≤ new
      · obtain ⟨y, hy, hyl⟩ := hi.lowwit x hx
        exact ⟨y, hy, by rw [hix, Nat.min_eq_left c]; exact hyl⟩
      · obtain ⟨y, hy, hyl⟩ := hw
        exact ⟨y, hy, by rw [hix, Nat.min_eq_right (by omega)]; exact hyl⟩
    · obtain ⟨y, hy, hyl⟩ := hi.lowwit x hx
      exact ⟨y, hy, by rw [hix, low_congr (hlk x e)]; exact hyl⟩
  · intro x hx
    rw [hs, hc]
    exact hi.visited x ((hh x).1 hx)
  · intro pre c post hsplit
    rw [hc] at hsplit
    exact hi.closed pre c post hsplit

/-! ### pushing a fresh vertex -/

/-- the state right after `strongly_connect` has registered `v` -/
def push (st : State) (v : Nat) : State :=
  { st with nextIndex := st.nextIndex + 1,
            vertices := amInsert v ⟨st.nextIndex, st.nextIndex⟩ st.vertices,
            stack := v :: st.stack }

theorem push_lookup_ne (st : State) (v k : Nat) (h : k ≠ v) :
    (push st v).vertices.lookup k = st.vertices.lookup k := by
  simp only [push, amInsert_lookup, h, ↓reduceIte]

theorem push_lookup_self (st : State) (v : Nat) :
    (push st v).vertices.lookup v = some ⟨st.nextIndex, st.nextIndex⟩ := by
  simp only [push, amInsert_lookup, ↓reduceIte]

theorem push_has_self (st : State) (v : Nat) : Has (push st v) v := by
  unfold Has; rw [push_lookup_self]; rfl

theorem push_idx_self (st : State) (v : Nat) : idx (push st v) v = st.nextIndex := by
  unfold idx; rw [push_lookup_self]

theorem push_low_self (st : State) (v : Nat) : low (push st v) v = st.nextIndex := by
  unfold low; rw [push_lookup_self]

theorem push_has (st : State) (v k : Nat) : Has (push st v) k ↔ (k = v ∨ Has st k) := by
  by_cases e : k = v
  · subst e; exact ⟨fun _ => Or.inl rfl, fun _ => push_has_self st k⟩
  · rw [has_congr (push_lookup_ne st v k e)]
    exact ⟨Or.inr, fun h => h.resolve_left e⟩

theorem push_step {st : State} {v : Nat} (hv : ¬ Has st v) : Step st (push st v) := by
  have hne : ∀ k, Has st k → k ≠ v := fun k hk e => hv (e ▸ hk)
  refine ⟨⟨[v], rfl, ?_⟩, ⟨[], by simp [push]⟩, fun k hk => (push_has st v k).2 (Or.inr hk),
    fun k hk => idx_congr (push_lookup_ne st v k (hne k hk)), ?_, Nat.le_succ _⟩
  · intro x hx
    have : x = v := by simpa using hx
    subst this
    exact ⟨push_has_self st x, by rw [push_idx_self]; exact Nat.le_refl _⟩
  · intro k hk
    rw [low_congr (push_lookup_ne st v k (hne k hk))]; exact Nat.le_refl _

theorem push_inv {g : Graph} {st : State} {v : Nat} (hi : Inv g st) (hv : ¬ Has st v) :
    Inv g (push st v) := by
  have hne : ∀ k, Has st k → k ≠ v := fun k hk e => hv (e ▸ hk)
  have hstk : ∀ x, x ∈ (push st v).stack → x = v ∨ x ∈ st.stack := by
    intro x hx
    exact List.mem_cons.1 hx
  refine ⟨?_, ?_, ?_, ?_, ?_, ?_⟩
  · intro x hx
    rcases hstk x hx with e | hx
    · subst e; exact push_has_self st x
    · exact (push_has st v x).2 (Or.inr (hi.stackHas x hx))
  · intro x hx
    show idx (push st v) x < st.nextIndex + 1
    rcases (push_has st v x).1 hx with e | hx
    · subst e; rw [push_idx_self]; exact Nat.lt_succ_self _
    · rw [idx_congr (push_lookup_ne st v x (hne x hx))]
      exact Nat.lt_succ_of_lt (hi.bound x hx)
  · intro x hx
    rcases hstk x hx with e | hx
    · subst e; rw [push_idx_self, push_low_self]; exact Nat.le_refl _
    · have hx' := hi.stackHas x hx
      rw [idx_congr (push_lookup_ne st v x (hne x hx')), low_congr (push_lookup_ne st v x (hne x hx'))]
      exact hi.lowle x hx
  · intro x hx
    rcases hstk x hx with e | hx
    · subst e
      exact ⟨x, List.mem_cons_self, by rw [push_idx_self, push_low_self]; exact Nat.le_refl _⟩
    · have hx' := hi.stackHas x hx
      obtain ⟨y, hy, hyl⟩ := hi.lowwit x hx
      have hy' := hi.stackHas y hy
      refine ⟨y, List.mem_cons_of_mem _ hy, ?_⟩
      rw [idx_congr (push_lookup_ne st v y (hne y hy')), low_congr (push_lookup_ne st v x (hne x hx'))]
      exact hyl
  · intro x hx
    rcases (push_has st v x).1 hx with e | hx
    · subst e; exact Or.inl List.mem_cons_self
    · rcases hi.visited x hx with h | h
      · exact Or.inl (List.mem_cons_of_mem _ h)
      · exact Or.inr h
  · exact hi.closed

/-! ### popping a component -/

theorem popUntil_spec (v : Nat) : ∀ (ex acc base : List Nat), v ∉ ex →
    (popUntil v (ex ++ v :: base) acc).2 = base ∧
    ∀ x, x ∈ (popUntil v (ex ++ v :: base) acc).1 ↔ (x ∈ ex ∨ x = v ∨ x ∈ acc) := by
  intro ex
  induction ex with
  | nil =>
    intro acc base _
    simp only [List.nil_append, popUntil, beq_self_eq_true, ↓reduceIte, List.mem_reverse,
      List.mem_cons, List.not_mem_nil, false_or, true_and]
    exact fun x => trivial
  | cons a ex ih =>
    intro acc base hv
    have hav : ¬ a = v := fun e => hv (e ▸ List.mem_cons_self)
    have hv' : v ∉ ex := fun h => hv (List.mem_cons_of_mem _ h)
    have hav' : (a == v) = false := by simpa using hav
    obtain ⟨h1, h2⟩ := ih (a :: acc) base hv'
    simp only [List.cons_append, popUntil, hav', Bool.false_eq_true, ↓reduceIte]
    refine ⟨h1, fun x => ?_⟩
    rw [h2 x]
    simp only [List.mem_cons]
    constructor
    · rintro (h | h | h | h)
      · exact Or.inl (Or.inr h)
      · exact Or.inr (Or.inl h)
      · exact Or.inl (Or.inl h)
      · exact Or.inr (Or.inr h)
    · rintro ((h | h) | h | h)
      · exact Or.inr (Or.inr (Or.inl h))
      · exact Or.inl h
      · exact Or.inr (Or.inl h)
      · exact Or.inr (Or.inr (Or.inr h))

/-- the state after the `while let Some(w) = stack.pop()` loop -/
def popSt (st : State) (v : Nat) : State :=
  { st with stack := (popUntil v st.stack []).2,
            components := st.components ++ [(popUntil v st.stack []).1] }

theorem split_snoc {α} {pre post l : List α} {c d : α} (h : pre ++ c :: post = l ++ [d]) :
    (post = [] ∧ pre = l ∧ c = d) ∨ ∃ post', post = post' ++ [d] ∧ l = pre ++ c :: post' := by
  rcases List.eq_nil_or_concat post with e | ⟨L, b, e⟩
  · subst e
    have := List.append_inj' (s₁ := pre) (t₁ := [c]) (s₂ := l) (t₂ := [d]) h rfl
    exact Or.inl ⟨rfl, this.1, by simpa using this.2⟩
  · rw [List.concat_eq_append] at e
    subst e
    have h' : (pre ++ c :: L) ++ [b] = l ++ [d] := by simpa using h
    have := List.append_inj' h' rfl
    have hb : b = d := by simpa using this.2
    subst hb
    exact Or.inr ⟨L, rfl, this.1.symm⟩

/-! ### the successor loop -/

/-- every edge out of an element pushed above `v` is harmless for `v` -/
def SegP (g : Graph) (st : State) (v : Nat) : Prop :=
  ∀ x, x ∈ st.stack → idx st v < idx st x → ∀ z, Edge g x z → Good st v z

/-- what a call of `strongly_connect` on an unvisited vertex guarantees -/
def ScOk (g : Graph) (sc : State → Nat → M State) : Prop :=
  ∀ st w st', Inv g st → ¬ Has st w → sc st w = .ok st' →
    Inv g st' ∧ Step st st' ∧ Has st' w ∧ idx st' w = st.nextIndex ∧
    ((st'.stack = st.stack ∧ low st' w = idx st' w) ∨
     (∃ seg, st'.stack = seg ++ w :: st.stack ∧ low st' w < idx st' w ∧
        ∀ x, (x ∈ seg ∨ x = w) → ∀ z, Edge g x z → Good st' w z))

/-- `Good` survives `update_lowlink v _` (the anchor's lowlink only decreases) -/
theorem good_upd {st st' : State} {v new a z : Nat} (h : st.updateLowlink v new = .ok st')
    (hg : Good st a z) (hle : low st' v ≤ low st a) : Good st' v z := by
  obtain ⟨hs, hc, _, _, _, hix, _⟩ := upd_facts h
  rcases hg with hg | ⟨hz, hl⟩
  · exact Or.inl (by rw [hc]; exact hg)
  · exact Or.inr ⟨by rw [hs]; exact hz, by rw [hix]; exact Nat.le_trans hle hl⟩

theorem vertex_of_lookup {st : State} {w : Nat} {vs : VertexState}
    (h : st.vertices.lookup w = some vs) : st.vertex w = .ok vs := by
  unfold State.vertex; rw [h]

theorem visitRefs_ok (g : Graph) (sc : State → Nat → M State) (hsc : ScOk g sc) (v : Nat) :
    ∀ (ws : List Nat) (st st' : State), Inv g st → v ∈ st.stack → SegP g st v →
      visitRefs sc v ws st = .ok st' →
      Inv g st' ∧ Step st st' ∧ SegP g st' v ∧ ∀ w, w ∈ ws → Good st' v w := by
  intro ws
  induction ws with
  | nil =>
    intro st st' hi hv hseg h
    simp only [visitRefs, Except.ok.injEq] at h
    subst h
    exact ⟨hi, Step.refl _, hseg, fun _ hw => by cases hw⟩
  | cons w ws ih =>
    intro st st' hi hv hseg h
    have hvH : Has st v := hi.stackHas v hv
    simp only [visitRefs] at h
    split at h
    · -- unvisited: recursive call
      next hvis =>
      have hw0 : ¬ Has st w := not_has_of_cond hvis
      cases h1 : sc st w with
      | error e => simp [h1, bind, Except.bind] at h
      | ok st1 =>
        obtain ⟨hi1, hs1, hw1, hidx1, halt⟩ := hsc st w st1 hi hw0 h1
        obtain ⟨vs, hvs, _, hvl⟩ := has_lookup hw1
        have hv1 : v ∈ st1.stack := hs1.mem_stack hv
        cases h2 : st1.updateLowlink v vs.lowlink with
        | error e => simp [h1, vertex_of_lookup hvs, h2, bind, Except.bind] at h
        | ok st2 =>
          simp only [h1, vertex_of_lookup hvs, h2, bind, Except.bind] at h
          have hf2 := upd_facts h2
          obtain ⟨hstk2, hc2, _, _, hh2, hix2, hl2⟩ := hf2
          have hs2 : Step st1 st2 := upd_step h2
          have hidxv : idx st1 v = idx st v := hs1.hidx v hvH
          have hidxv_lt : idx st v < st.nextIndex := hi.bound v hvH
          -- the witness for the new lowlink of `v`
          have hwit : ∃ y, y ∈ st1.stack ∧ idx st1 y ≤ vs.lowlink := by
            rcases halt with ⟨_, hle⟩ | ⟨seg, hseg1, _, _⟩
            · refine ⟨v, hv1, ?_⟩
              rw [← hvl, hle, hidx1, hidxv]; exact Nat.le_of_lt hidxv_lt
            · have hwst : w ∈ st1.stack := by rw [hseg1]; simp
              obtain ⟨y, hy, hyl⟩ := hi1.lowwit w hwst
              exact ⟨y, hy, by rw [← hvl]; exact hyl⟩
          have hi2 : Inv g st2 := upd_inv hi1 hwit h2
          have hv2 : v ∈ st2.stack := hs2.mem_stack hv1
          have hlow2v : low st2 v ≤ low st1 v := by rw [hl2]; exact Nat.min_le_left _ _
          have hlow2w : low st2 v ≤ low st1 w := by rw [hl2, hvl]; exact Nat.min_le_right _ _
          -- elements of the old stack keep their property
          have hold : ∀ x, x ∈ st.stack → idx st1 v < idx st1 x → ∀ z, Edge g x z → Good st2 v z := by
            intro x hx hlt z hz
            rw [hidxv, hs1.hidx x (hi.stackHas x hx)] at hlt
            have g0 : Good st v z := hseg x hx hlt z hz
            have g1 : Good st1 v z := g0.step hs1 hvH hi.stackHas
            exact good_upd h2 g1 hlow2v
          have hseg2 : SegP g st2 v := by
            intro x hx hlt z hz
            rw [hstk2] at hx
            rw [hix2, hix2] at hlt
            rcases halt with ⟨hstk1, _⟩ | ⟨seg, hseg1, _, hP⟩
            · rw [hstk1] at hx
              exact hold x hx hlt z hz
            · rw [hseg1] at hx
              rcases List.mem_append.1 hx with hx | hx
              · exact good_upd h2 (hP x (Or.inl hx) z hz) hlow2w
              · rcases List.mem_cons.1 hx with hx | hx
                · exact good_upd h2 (hP x (Or.inr hx) z hz) hlow2w
                · exact hold x hx hlt z hz
          have hgw2 : Good st2 v w := by
            rcases halt with ⟨hstk1, _⟩ | ⟨seg, hseg1, _, _⟩
            · rcases hi1.visited w hw1 with hin | hin
              · rw [hstk1] at hin
                exact absurd (hi.stackHas w hin) hw0
              · exact Or.inl (by rw [hc2]; exact hin)
            · have hwst : w ∈ st1.stack := by rw [hseg1]; simp
              refine Or.inr ⟨by rw [hstk2]; exact hwst, ?_⟩
              rw [hix2]
              exact Nat.le_trans hlow2w (hi1.lowle w hwst)
          obtain ⟨hi', hs', hseg', hws'⟩ := ih st2 st' hi2 hv2 hseg2 h
          refine ⟨hi', (hs1.trans hs2).trans hs', hseg', ?_⟩
          intro w' hw'
          rcases List.mem_cons.1 hw' with e | hw'
          · subst e
            exact hgw2.step hs' (hi2.stackHas v hv2) hi2.stackHas
          · exact hws' w' hw'
    · next hvis =>
      have hwH : Has st w := has_of_not_cond hvis
      split at h
      · -- visited and on the stack
        next hon =>
        have hwst : w ∈ st.stack := List.contains_iff_mem.1 hon
        obtain ⟨vs, hvs, hvi, _⟩ := has_lookup hwH
        cases h2 : st.updateLowlink v vs.index with
        | error e => simp [vertex_of_lookup hvs, h2, bind, Except.bind] at h
        | ok st2 =>
          simp only [vertex_of_lookup hvs, h2, bind, Except.bind] at h
          obtain ⟨hstk2, hc2, _, _, hh2, hix2, hl2⟩ := upd_facts h2
          have hs2 : Step st st2 := upd_step h2
          have hi2 : Inv g st2 := upd_inv hi ⟨w, hwst, by rw [hvi]; exact Nat.le_refl _⟩ h2
          have hv2 : v ∈ st2.stack := hs2.mem_stack hv
          have hlow2v : low st2 v ≤ low st v := by rw [hl2]; exact Nat.min_le_left _ _
          have hseg2 : SegP g st2 v := by
            intro x hx hlt z hz
            rw [hstk2] at hx
            rw [hix2, hix2] at hlt
            exact good_upd h2 (hseg x hx hlt z hz) hlow2v
          have hgw2 : Good st2 v w := by
            refine Or.inr ⟨by rw [hstk2]; exact hwst, ?_⟩
            rw [hix2, hl2, hvi]; exact Nat.min_le_right _ _
          obtain ⟨hi', hs', hseg', hws'⟩ := ih st2 st' hi2 hv2 hseg2 h
          refine ⟨hi', hs2.trans hs', hseg', ?_⟩
          intro w' hw'
          rcases List.mem_cons.1 hw' with e | hw'
          · subst e
            exact hgw2.step hs' (hi2.stackHas v hv2) hi2.stackHas
          · exact hws' w' hw'
      · -- visited and already emitted
        next hoff =>
        have hwst : w ∉ st.stack := fun hin => hoff (List.contains_iff_mem.2 hin)
        have hgw : Good st v w := Or.inl ((hi.visited w hwH).resolve_left hwst)
        obtain ⟨hi', hs', hseg', hws'⟩ := ih st st' hi hv hseg h
        refine ⟨hi', hs', hseg', ?_⟩
        intro w' hw'
        rcases List.mem_cons.1 hw' with e | hw'
        · subst e
          exact hgw.step hs' hvH hi.stackHas
        · exact hws' w' hw'

/-! ### `strongly_connect` -/

theorem sc_ok {g : Graph} {fuel : Nat} {st : State} {v : Nat} {st' : State}
    (h : strongConnect g (fuel + 1) st v = .ok st') :
    ∃ st1 vs, visitRefs (strongConnect g fuel) v (g.refs v) (push st v) = .ok st1 ∧
      st1.vertices.lookup v = some vs ∧
      ((vs.index = vs.lowlink ∧ st' = popSt st1 v) ∨ (vs.index ≠ vs.lowlink ∧ st' = st1)) := by
  simp only [strongConnect] at h
  cases h1 : visitRefs (strongConnect g fuel) v (g.refs v) (push st v) with
  | error e =>
    have h1' : visitRefs (strongConnect g fuel) v (g.refs v)
        { stack := v :: st.stack, vertices := amInsert v ⟨st.nextIndex, st.nextIndex⟩ st.vertices,
          nextIndex := st.nextIndex + 1, components := st.components } = .error e := h1
    simp [bind, Except.bind, h1'] at h
  | ok st1 =>
    have h1' : visitRefs (strongConnect g fuel) v (g.refs v)
        { stack := v :: st.stack, vertices := amInsert v ⟨st.nextIndex, st.nextIndex⟩ st.vertices,
          nextIndex := st.nextIndex + 1, components := st.components } = .ok st1 := h1
    simp only [bind, Except.bind, h1'] at h
    cases hl : st1.vertices.lookup v with
    | none =>
      have : st1.vertex v = .error .panic := by unfold State.vertex; rw [hl]
      simp [this] at h
    | some vs =>
      simp only [vertex_of_lookup hl] at h
      refine ⟨st1, vs, rfl, hl, ?_⟩
      split at h
      · next hc =>
        simp only [Except.ok.injEq] at h
        exact Or.inl ⟨by simpa using hc, h.symm⟩
      · next hc =>
        simp only [Except.ok.injEq] at h
        exact Or.inr ⟨by simpa using hc, h.symm⟩

theorem step_pop {st st1 : State} (v : Nat) (hs : Step st st1)
    (hstk : (popSt st1 v).stack = st.stack) : Step st (popSt st1 v) := by
  obtain ⟨c1, hc1⟩ := hs.comps
  refine ⟨⟨[], by simp [hstk], fun _ hx => by cases hx⟩,
    ⟨c1 ++ [(popUntil v st1.stack []).1], by simp [popSt, hc1]⟩,
    fun k hk => hs.has k hk, fun k hk => hs.hidx k hk, fun k hk => hs.hlow k hk, hs.next⟩

theorem strongConnect_ok (g : Graph) : ∀ fuel, ScOk g (strongConnect g fuel) := by
  intro fuel
  induction fuel with
  | zero =>
    intro st w st' _ _ h
    simp [strongConnect] at h
  | succ fuel ih =>
    intro st v st' hi hv0 h
    obtain ⟨st1, vs, h1, hl, hcase⟩ := sc_ok h
    have hi0 : Inv g (push st v) := push_inv hi hv0
    have hs0 : Step st (push st v) := push_step hv0
    have hv0s : v ∈ (push st v).stack := List.mem_cons_self
    have hseg0 : SegP g (push st v) v := by
      intro x hx hlt
      exfalso
      rw [push_idx_self] at hlt
      rcases List.mem_cons.1 hx with e | hx
      · subst e; rw [push_idx_self] at hlt; exact Nat.lt_irrefl _ hlt
      · have hxH := hi.stackHas x hx
        have hne : x ≠ v := fun e => hv0 (e ▸ hxH)
        rw [idx_congr (push_lookup_ne st v x hne)] at hlt
        exact Nat.lt_irrefl _ (Nat.lt_trans hlt (hi.bound x hxH))
    obtain ⟨hi1, hs01, hseg1, hrefs⟩ :=
      visitRefs_ok g (strongConnect g fuel) ih v (g.refs v) (push st v) st1 hi0 hv0s hseg0 h1
    have hs1 : Step st st1 := hs0.trans hs01
    obtain ⟨ex, hex, hexP⟩ := hs01.stack
    have hex' : st1.stack = ex ++ v :: st.stack := hex
    have hv1s : v ∈ st1.stack := by rw [hex']; simp
    have hv1H : Has st1 v := hi1.stackHas v hv1s
    have hidx1 : idx st1 v = st.nextIndex := by
      rw [hs01.hidx v (push_has_self st v), push_idx_self]
    have hvi : idx st1 v = vs.index := by unfold idx; rw [hl]
    have hvl : low st1 v = vs.lowlink := by unfold low; rw [hl]
    have hexlt : ∀ x, x ∈ ex → st.nextIndex < idx st1 x := by
      intro x hx
      have := (hexP x hx).2
      exact this
    have hbaselt : ∀ x, x ∈ st.stack → idx st1 x < st.nextIndex := by
      intro x hx
      have hxH := hi.stackHas x hx
      rw [hs1.hidx x hxH]; exact hi.bound x hxH
    have hP : ∀ x, (x ∈ ex ∨ x = v) → ∀ z, Edge g x z → Good st1 v z := by
      intro x hx z hz
      rcases hx with hx | hx
      · refine hseg1 x (by rw [hex']; exact List.mem_append_left _ hx) ?_ z hz
        rw [hidx1]; exact hexlt x hx
      · subst hx; exact hrefs z hz
    rcases hcase with ⟨heq, hst'⟩ | ⟨hne, hst'⟩
    · -- root of a component: pop it
      subst hst'
      have hvex : v ∉ ex := by
        intro hin
        have := hexlt v hin
        rw [hidx1] at this
        exact Nat.lt_irrefl _ this
      have hpop := popUntil_spec v ex [] st.stack hvex
      rw [← hex'] at hpop
      obtain ⟨hrest, hmem⟩ := hpop
      have hstk : (popSt st1 v).stack = st.stack := hrest
      have hcompmem : ∀ x, x ∈ (popUntil v st1.stack []).1 ↔ (x ∈ ex ∨ x = v) := by
        intro x; rw [hmem x]; simp
      have hloweq : low st1 v = idx st1 v := by rw [hvi, hvl, heq]
      refine ⟨?_, step_pop v hs1 hstk, hv1H, hidx1, Or.inl ⟨hstk, hloweq⟩⟩
      have hsub : ∀ x, x ∈ st.stack → x ∈ st1.stack := fun x hx => hs1.mem_stack hx
      refine ⟨?_, ?_, ?_, ?_, ?_, ?_⟩
      · intro x hx
        rw [hstk] at hx
        exact hi1.stackHas x (hsub x hx)
      · intro x hx
        exact hi1.bound x hx
      · intro x hx
        rw [hstk] at hx
        exact hi1.lowle x (hsub x hx)
      · intro x hx
        rw [hstk] at hx
        rw [hstk]
        obtain ⟨y, hy, hyl⟩ := hi1.lowwit x (hsub x hx)
        have hylt : idx st1 y < st.nextIndex :=
          Nat.lt_of_le_of_lt (Nat.le_trans hyl (hi1.lowle x (hsub x hx))) (hbaselt x hx)
        rw [hex'] at hy
        rcases List.mem_append.1 hy with hy | hy
        · exact absurd (Nat.lt_trans hylt (hexlt y hy)) (Nat.lt_irrefl _)
        · rcases List.mem_cons.1 hy with e | hy
          · subst e; rw [hidx1] at hylt; exact absurd hylt (Nat.lt_irrefl _)
          · exact ⟨y, hy, hyl⟩
      · intro x hx
        rw [hstk]
        show x ∈ st.stack ∨ x ∈ (st1.components ++ [(popUntil v st1.stack []).1]).flatten
        rw [List.flatten_append]
        rcases hi1.visited x hx with hin | hin
        · rw [hex'] at hin
          rcases List.mem_append.1 hin with hin | hin
          · exact Or.inr (List.mem_append_right _ (by simpa using (hcompmem x).2 (Or.inl hin)))
          · rcases List.mem_cons.1 hin with e | hin
            · exact Or.inr (List.mem_append_right _ (by simpa using (hcompmem x).2 (Or.inr e)))
            · exact Or.inl hin
        · exact Or.inr (List.mem_append_left _ hin)
      · intro pre c post hsplit u hu w hw
        have hsplit' : pre ++ c :: post = st1.components ++ [(popUntil v st1.stack []).1] :=
          hsplit.symm
        rcases split_snoc hsplit' with ⟨_, hpre, hc⟩ | ⟨post', _, hl1⟩
        · subst hc
          have hu' := (hcompmem u).1 hu
          rcases hP u hu' w hw with hg | ⟨hwst, hle⟩
          · exact Or.inl (by rw [hpre]; exact hg)
          · right
            rw [hex'] at hwst
            rcases List.mem_append.1 hwst with hin | hin
            · exact (hcompmem w).2 (Or.inl hin)
            · rcases List.mem_cons.1 hin with e | hin
              · exact (hcompmem w).2 (Or.inr e)
              · exfalso
                have := hbaselt w hin
                rw [hloweq, hidx1] at hle
                exact Nat.lt_irrefl _ (Nat.lt_of_lt_of_le this hle)
        · exact hi1.closed pre c post' hl1 u hu w hw
    · -- not a root: leave everything on the stack
      subst hst'
      have hlt : low st' v < idx st' v := by
        have := hi1.lowle v hv1s
        rw [hvi, hvl] at this ⊢
        exact Nat.lt_of_le_of_ne this (fun e => hne e.symm)
      exact ⟨hi1, hs1, hv1H, hidx1, Or.inr ⟨ex, hex', hlt, hP⟩⟩

/-! ### the top-level loop -/

theorem inv_new (g : Graph) : Inv g State.new := by
  have hno : ∀ x, ¬ Has State.new x := by
    intro x h
    simp [Has, State.new] at h
  refine ⟨?_, ?_, ?_, ?_, ?_, ?_⟩
  · intro x hx; simp [State.new] at hx
  · intro x hx; exact absurd hx (hno x)
  · intro x hx; simp [State.new] at hx
  · intro x hx; simp [State.new] at hx
  · intro x hx; exact absurd hx (hno x)
  · intro pre c post h
    simp [State.new] at h

theorem loop_ok (g : Graph) (fuel : Nat) : ∀ (vs : List Nat) (st st' : State),
    Inv g st → st.stack = [] → tarjanLoop g fuel vs st = .ok st' →
      Inv g st' ∧ st'.stack = [] ∧ (∀ k, Has st k → Has st' k) ∧ ∀ k, k ∈ vs → Has st' k := by
  intro vs
  induction vs with
  | nil =>
    intro st st' hi he h
    simp only [tarjanLoop, Except.ok.injEq] at h
    subst h
    exact ⟨hi, he, fun _ h => h, fun _ hk => by cases hk⟩
  | cons v vs ih =>
    intro st st' hi he h
    simp only [tarjanLoop] at h
    split at h
    · next hvis =>
      have hv0 : ¬ Has st v := not_has_of_cond hvis
      cases h1 : strongConnect g fuel st v with
      | error e => simp [h1, bind, Except.bind] at h
      | ok st1 =>
        simp only [h1, bind, Except.bind] at h
        obtain ⟨hi1, hs1, hv1, hidx1, halt⟩ := strongConnect_ok g fuel st v st1 hi hv0 h1
        have he1 : st1.stack = [] := by
          rcases halt with ⟨hstk, _⟩ | ⟨seg, hseg, hlt, _⟩
          · rw [hstk, he]
          · exfalso
            have hvs : v ∈ st1.stack := by rw [hseg]; simp
            obtain ⟨y, hy, hyl⟩ := hi1.lowwit v hvs
            obtain ⟨ex, hex, hexP⟩ := hs1.stack
            rw [he, List.append_nil] at hex
            rw [hex] at hy
            have := (hexP y hy).2
            rw [hidx1] at hlt
            exact Nat.lt_irrefl _ (Nat.lt_of_le_of_lt (Nat.le_trans this hyl) hlt)
        obtain ⟨hi', he', hm', hvs'⟩ := ih st1 st' hi1 he1 h
        refine ⟨hi', he', fun k hk => hm' k (hs1.has k hk), ?_⟩
        intro k hk
        rcases List.mem_cons.1 hk with e | hk
        · subst e; exact hm' k hv1
        · exact hvs' k hk
    · next hvis =>
      have hvH : Has st v := has_of_not_cond hvis
      obtain ⟨hi', he', hm', hvs'⟩ := ih st st' hi he h
      refine ⟨hi', he', hm', ?_⟩
      intro k hk
      rcases List.mem_cons.1 hk with e | hk
      · subst e; exact hm' k hvH
      · exact hvs' k hk

theorem tarjanFuel_closed (g : Graph) (fuel : Nat) (comps : List (List Nat))
    (h : tarjanFuel g fuel = .ok comps) :
    (∀ k, k ∈ g.keys → k ∈ comps.flatten) ∧
    (∀ pre c post, comps = pre ++ c :: post → ∀ u, u ∈ c → ∀ w, Edge g u w →
      w ∈ pre.flatten ∨ w ∈ c) := by
  unfold tarjanFuel at h
  cases h1 : tarjanLoop g fuel g.keys State.new with
  | error e => simp [h1, bind, Except.bind] at h
  | ok st =>
    simp only [h1, bind, Except.bind, Except.ok.injEq] at h
    subst h
    obtain ⟨hi, he, _, hks⟩ := loop_ok g fuel g.keys State.new st (inv_new g) rfl h1
    refine ⟨?_, hi.closed⟩
    intro k hk
    rcases hi.visited k (hks k hk) with hin | hin
    · rw [he] at hin; cases hin
    · exact hin

end VC

/-- Whenever `tarjan` returns, every key of the graph is in some emitted
component, and every edge out of an emitted component leads into that component
or into one emitted earlier. -/
theorem tarjan_closed (g : Graph) (comps : List (List Nat)) (h : tarjan g = .ok comps) :
    (∀ k, k ∈ g.keys → k ∈ comps.flatten) ∧
    (∀ pre c post, comps = pre ++ c :: post → ∀ u, u ∈ c → ∀ w, Edge g u w →
      w ∈ pre.flatten ∨ w ∈ c) :=
  VC.tarjanFuel_closed g g.nodeCount comps h

end RotoV.Tarjan
