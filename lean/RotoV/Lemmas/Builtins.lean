/-
  Helper lemmas for C10B: UTF-8 byte offsets of a `Str` (list of chars).
  Core Lean only.
-/
import RotoV.Model.Builtins

namespace RotoV.Str

theorem byteLenL_append (l₁ l₂ : List Char) : byteLenL (l₁ ++ l₂) = byteLenL l₁ + byteLenL l₂ := by
  induction l₁ with
  | nil => simp [byteLenL]
  | cons c cs ih => simp [byteLenL, ih, Nat.add_assoc]

theorem dropBytes_cons_add (c : Char) (cs : List Char) (n : Nat) :
    dropBytes (c :: cs) (c.utf8Size + n) = dropBytes cs n := by
  have hp := c.utf8Size_pos
  obtain ⟨m, hm⟩ : ∃ m, c.utf8Size + n = m + 1 := ⟨c.utf8Size + n - 1, by omega⟩
  rw [hm]
  simp only [dropBytes]
  rw [← hm]
  simp

theorem takeBytes_cons_add (c : Char) (cs : List Char) (n : Nat) :
    takeBytes (c :: cs) (c.utf8Size + n) = (takeBytes cs n).map (c :: ·) := by
  have hp := c.utf8Size_pos
  obtain ⟨m, hm⟩ : ∃ m, c.utf8Size + n = m + 1 := ⟨c.utf8Size + n - 1, by omega⟩
  rw [hm]
  simp only [takeBytes]
  rw [← hm]
  simp

/-- the k-th char boundary is the byte length of the first k chars -/
theorem boundariesFrom_getElem? (cs : List Char) (off k x : Nat)
    (h : (boundariesFrom off cs)[k]? = some x) : k ≤ cs.length ∧ x = off + byteLenL (cs.take k) := by
  induction cs generalizing off k with
  | nil =>
    cases k with
    | zero => simp [boundariesFrom] at h; simp [byteLenL, h]
    | succ k => simp [boundariesFrom] at h
  | cons c cs ih =>
    cases k with
    | zero => simp [boundariesFrom] at h; simp [byteLenL, h]
    | succ k =>
      simp [boundariesFrom] at h
      have := ih _ _ h
      simp [byteLenL, this.1, this.2, Nat.add_assoc]

theorem dropBytes_take (cs : List Char) (k : Nat) (h : k ≤ cs.length) :
    dropBytes cs (byteLenL (cs.take k)) = some (cs.drop k) := by
  induction cs generalizing k with
  | nil => simp [byteLenL, dropBytes]
  | cons c cs ih =>
    cases k with
    | zero => simp [byteLenL, dropBytes]
    | succ k =>
      simp only [List.take_succ_cons, byteLenL, List.drop_succ_cons]
      rw [dropBytes_cons_add]
      exact ih k (by simpa using h)

theorem takeBytes_take (cs : List Char) (k : Nat) (h : k ≤ cs.length) :
    takeBytes cs (byteLenL (cs.take k)) = some (cs.take k) := by
  induction cs generalizing k with
  | nil => simp [byteLenL, takeBytes]
  | cons c cs ih =>
    cases k with
    | zero => simp [byteLenL, takeBytes]
    | succ k =>
      simp only [List.take_succ_cons, byteLenL]
      rw [takeBytes_cons_add, ih k (by simpa using h)]
      simp

/-- Two offsets taken in order from the char-boundary iterator always delimit a
    valid `&s[x..y]`. -/
theorem index_range_boundaries (s : Str) (a b x y : Nat)
    (hx : (boundariesFrom 0 s.chars)[a]? = some x)
    (hy : (List.drop (a + 1) (boundariesFrom 0 s.chars))[b]? = some y) :
    ∃ t, Str.index_range s x y = .ok t := by
  have hx' := boundariesFrom_getElem? _ _ _ _ hx
  rw [List.getElem?_drop] at hy
  have hy' := boundariesFrom_getElem? _ _ _ _ hy
  obtain ⟨ha, rfl⟩ := hx'
  obtain ⟨hc, rfl⟩ := hy'
  have hsplit : byteLenL (List.take (a + 1 + b) s.chars)
      = byteLenL (List.take a s.chars) + byteLenL (List.take (1 + b) (List.drop a s.chars)) := by
    rw [Nat.add_assoc, List.take_add, byteLenL_append]
  have hlen : 1 + b ≤ (List.drop a s.chars).length := by simp; omega
  simp only [Str.index_range, Str.get_range, ToOff.toOff, id, Nat.zero_add]
  rw [hsplit]
  simp only [Nat.le_add_right, ↓reduceIte]
  rw [dropBytes_take _ _ ha]
  simp only [Nat.add_sub_cancel_left]
  rw [takeBytes_take _ _ hlen]
  exact ⟨_, rfl⟩

def isB (cs : List Char) (x : Nat) : Prop := ∃ k, k ≤ cs.length ∧ x = byteLenL (cs.take k)

/-- an ascending chain of char boundaries starting at `cur`, bounded by `ub` -/
def Good (cs : List Char) (ub : Nat) : Nat → List Nat → Prop
  | cur, [] => isB cs cur ∧ cur ≤ ub
  | cur, x :: xs => isB cs cur ∧ cur ≤ ub ∧ cur ≤ x ∧ Good cs ub x xs

theorem Good.isB {cs ub cur it} (h : Good cs ub cur it) : isB cs cur := by
  cases it <;> exact h.1

theorem advance_good {cs ub} (it : List Nat) (k cur c' : Nat) (r : List Nat)
    (h : Good cs ub cur it) (ha : advance it k cur = some (c', r)) : cur ≤ c' ∧ Good cs ub c' r := by
  induction it generalizing k cur with
  | nil =>
    cases k with
    | zero => simp [advance] at ha; obtain ⟨rfl, rfl⟩ := ha; exact ⟨Nat.le_refl _, h⟩
    | succ k => simp [advance] at ha
  | cons x xs ih =>
    cases k with
    | zero => simp [advance] at ha; obtain ⟨rfl, rfl⟩ := ha; exact ⟨Nat.le_refl _, h⟩
    | succ k =>
      simp only [advance] at ha
      have := ih k x h.2.2.2 ha
      exact ⟨Nat.le_trans h.2.2.1 this.1, this.2⟩

theorem good_append {cs ub} (it : List Nat) (cur : Nat) (h : Good cs ub cur it) (hub : isB cs ub) :
    Good cs ub cur (it ++ [ub]) := by
  induction it generalizing cur with
  | nil => exact ⟨h.1, h.2, h.2, hub, Nat.le_refl _⟩
  | cons x xs ih => exact ⟨h.1, h.2.1, h.2.2.1, ih x h.2.2.2⟩

theorem byteLenL_pos_of_ne_nil (l : List Char) (h : l ≠ []) : 0 < byteLenL l := by
  cases l with
  | nil => exact absurd rfl h
  | cons c cs => have := c.utf8Size_pos; simp [byteLenL]; omega

theorem byteLenL_take_lt (cs : List Char) (p q : Nat) (hpq : p < q) (hq : q ≤ cs.length) :
    byteLenL (cs.take p) < byteLenL (cs.take q) := by
  obtain ⟨d, rfl⟩ : ∃ d, q = p + (d + 1) := ⟨q - p - 1, by omega⟩
  rw [List.take_add, byteLenL_append]
  have : List.take (d + 1) (List.drop p cs) ≠ [] := by
    intro h
    have hl := congrArg List.length h
    simp at hl
    omega
  have := byteLenL_pos_of_ne_nil _ this
  omega

theorem range_isB (cs : List Char) (x y : Nat) (hx : isB cs x) (hy : isB cs y) (hxy : x ≤ y) :
    ∃ t, Str.index_range ⟨cs⟩ x y = .ok t := by
  obtain ⟨p, hp, rfl⟩ := hx
  obtain ⟨q, hq, rfl⟩ := hy
  have hpq : p ≤ q := by
    by_cases h : p ≤ q
    · exact h
    · have := byteLenL_take_lt cs q p (by omega) hp
      omega
  obtain ⟨d, rfl⟩ : ∃ d, q = p + d := ⟨q - p, by omega⟩
  have hsplit : byteLenL (List.take (p + d) cs) = byteLenL (List.take p cs) + byteLenL (List.take d (List.drop p cs)) := by
    rw [List.take_add, byteLenL_append]
  have hlen : d ≤ (List.drop p cs).length := by simp; omega
  simp only [Str.index_range, Str.get_range, ToOff.toOff, id]
  rw [hsplit]
  simp only [Nat.le_add_right, ↓reduceIte]
  rw [dropBytes_take _ _ hp]
  simp only [Nat.add_sub_cancel_left]
  rw [takeBytes_take _ _ hlen]
  exact ⟨_, rfl⟩

theorem afterNewlines_good (pre cs : List Char) (cur : Nat)
    (hb : isB (pre ++ cs) cur) (hc : cur ≤ byteLenL pre) :
    Good (pre ++ cs) (byteLenL (pre ++ cs)) cur (afterNewlinesFrom (byteLenL pre) cs) := by
  induction cs generalizing pre cur with
  | nil =>
    simp only [afterNewlinesFrom, Good]
    exact ⟨hb, by simpa using hc⟩
  | cons c cs ih =>
    have hassoc : pre ++ c :: cs = (pre ++ [c]) ++ cs := by simp
    have hle : byteLenL pre ≤ byteLenL (pre ++ [c]) := by rw [byteLenL_append]; omega
    simp only [afterNewlinesFrom]
    by_cases hnl : c = '\n'
    · subst hnl
      simp only [↓reduceIte]
      have hoff : byteLenL pre + 1 = byteLenL (pre ++ ['\n']) := by
        rw [byteLenL_append]; simp [byteLenL]; decide
      rw [hoff, hassoc]
      have hbx : isB ((pre ++ ['\n']) ++ cs) (byteLenL (pre ++ ['\n'])) :=
        ⟨(pre ++ ['\n']).length, by simp, by rw [List.take_left' rfl]⟩
      refine ⟨hassoc ▸ hb, ?_, by omega, ih (pre ++ ['\n']) _ hbx (Nat.le_refl _)⟩
      rw [byteLenL_append (pre ++ ['\n'])]; omega
    · simp only [hnl, ↓reduceIte]
      have hoff : byteLenL pre + c.utf8Size = byteLenL (pre ++ [c]) := by
        rw [byteLenL_append]; simp [byteLenL]
      rw [hoff, hassoc]
      exact ih (pre ++ [c]) cur (hassoc ▸ hb) (by omega)

end RotoV.Str

namespace RotoV
theorem lines_slice_model_no_panic [Target] (s : Str) (i j : USz) : StringLines_slice_model s i j ≠ .panic := by
  unfold StringLines_slice_model RQ.bind
  cases RInt.checked_sub j i with
  | none => simp
  | some num =>
    simp only []
    have h0 : Str.Good s.chars (Str.byteLenL s.chars) 0 (Str.afterNewlinesFrom 0 s.chars) := by
      have := Str.afterNewlines_good [] s.chars 0 ⟨0, by simp, by simp [Str.byteLenL]⟩ (by simp [Str.byteLenL])
      simpa [Str.byteLenL] using this
    cases h1 : Str.advance (Str.afterNewlinesFrom 0 s.chars) i.toNat 0 with
    | none => simp
    | some p =>
      obtain ⟨start_idx, iter⟩ := p
      have hg1 := Str.advance_good _ _ _ _ _ h0 h1
      simp only []
      by_cases hn : j.toNat - i.toNat = 0
      · simp [hn]
      · simp only [hn, ↓reduceIte]
        have hub : Str.isB s.chars (Str.byteLenL s.chars) := ⟨s.chars.length, Nat.le_refl _, by simp⟩
        have hg2 : Str.Good s.chars (Str.byteLenL s.chars) start_idx
            (iter ++ (if s.ends_with_nl then [] else [s.byteLen])) := by
          by_cases he : s.ends_with_nl
          · simpa [he] using hg1.2
          · simpa [he, Str.byteLen] using Str.good_append iter start_idx hg1.2 hub
        cases h2 : Str.advance (iter ++ (if s.ends_with_nl then [] else [s.byteLen])) (j.toNat - i.toNat) start_idx with
        | none => simp
        | some q =>
          obtain ⟨end_idx, rest⟩ := q
          have hg3 := Str.advance_good _ _ _ _ _ hg2 h2
          obtain ⟨t, ht⟩ := Str.range_isB s.chars start_idx end_idx hg1.2.isB hg3.2.isB hg3.1
          simp only []
          have : Str.index_range s start_idx end_idx = .ok t := ht
          simp [this]
end RotoV
