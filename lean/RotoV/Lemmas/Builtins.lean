/-
  Helper lemmas for C10B: UTF-8 byte offsets of a `Str` (list of chars).
  Core Lean only.
-/
import RotoV.Model.Builtins

namespace RotoV.Str

theorem byteLenL_append (l₁ l₂ : List Char) : byteLenL (l₁ ++ l₂) = byteLenL l₁ + byteLenL l₂ := by
  induction l₁ with
  | nil => simp [byteLenL]
  | cons c cs ih => simp [byteLenL, ih, Nat.add_assoc]

theorem dropBytes_cons_add (c : Char) (cs : List Char) (n : Nat) :
    dropBytes (c :: cs) (c.utf8Size + n) = dropBytes cs n := by
  have hp := c.utf8Size_pos
  obtain ⟨m, hm⟩ : ∃ m, c.utf8Size + n = m + 1 := ⟨c.utf8Size + n - 1, by omega⟩
  rw [hm]
  simp only [dropBytes]
  rw [← hm]
  simp

theorem takeBytes_cons_add (c : Char) (cs : List Char) (n : Nat) :
    takeBytes (c :: cs) (c.utf8Size + n) = (takeBytes cs n).map (c :: ·) := by
  have hp := c.utf8Size_pos
  obtain ⟨m, hm⟩ : ∃ m, c.utf8Size + n = m + 1 := ⟨c.utf8Size + n - 1, by omega⟩
  rw [hm]
  simp only [takeBytes]
  rw [← hm]
  simp

/-- the k-th char boundary is the byte length of the first k chars -/
theorem boundariesFrom_getElem? (cs : List Char) (off k x : Nat)
    (h : (boundariesFrom off cs)[k]? = some x) : k ≤ cs.length ∧ x = off + byteLenL (cs.take k) := by
  induction cs generalizing off k with
  | nil =>
    cases k with
    | zero => simp [boundariesFrom] at h; simp [byteLenL, h]
    | succ k => simp [boundariesFrom] at h
  | cons c cs ih =>
    cases k with
    | zero => simp [boundariesFrom] at h; simp [byteLenL, h]
    | succ k =>
      simp [boundariesFrom] at h
      have := ih _ _ h
      simp [byteLenL, this.1, this.2, Nat.add_assoc]

theorem dropBytes_take (cs : List Char) (k : Nat) (h : k ≤ cs.length) :
    dropBytes cs (byteLenL (cs.take k)) = some (cs.drop k) := by
  induction cs generalizing k with
  | nil => simp [byteLenL, dropBytes]
  | cons c cs ih =>
    cases k with
    | zero => simp [byteLenL, dropBytes]
    | succ k =>
      simp only [List.take_succ_cons, byteLenL, List.drop_succ_cons]
      rw [dropBytes_cons_add]
      exact ih k (by simpa using h)

theorem takeBytes_take (cs : List Char) (k : Nat) (h : k ≤ cs.length) :
    takeBytes cs (byteLenL (cs.take k)) = some (cs.take k) := by
  induction cs generalizing k with
  | nil => simp [byteLenL, takeBytes]
  | cons c cs ih =>
    cases k with
    | zero => simp [byteLenL, takeBytes]
    | succ k =>
      simp only [List.take_succ_cons, byteLenL]
      rw [takeBytes_cons_add, ih k (by simpa using h)]
      simp

/-- Two offsets taken in order from the char-boundary iterator always delimit a
    valid `&s[x..y]`. -/
theorem index_range_boundaries (s : Str) (a b x y : Nat)
    (hx : (boundariesFrom 0 s.chars)[a]? = some x)
    (hy : (List.drop (a + 1) (boundariesFrom 0 s.chars))[b]? = some y) :
    ∃ t, Str.index_range s x y = .ok t := by
  have hx' := boundariesFrom_getElem? _ _ _ _ hx
  rw [List.getElem?_drop] at hy
  have hy' := boundariesFrom_getElem? _ _ _ _ hy
  obtain ⟨ha, rfl⟩ := hx'
  obtain ⟨hc, rfl⟩ := hy'
  have hsplit : byteLenL (List.take (a + 1 + b) s.chars)
      = byteLenL (List.take a s.chars) + byteLenL (List.take (1 + b) (List.drop a s.chars)) := by
    rw [Nat.add_assoc, List.take_add, byteLenL_append]
  have hlen : 1 + b ≤ (List.drop a s.chars).length := by simp; omega
  simp only [Str.index_range, Str.get_range, ToOff.toOff, id, Nat.zero_add]
  rw [hsplit]
  simp only [Nat.le_add_right, ↓reduceIte]
  rw [dropBytes_take _ _ ha]
  simp only [Nat.add_sub_cancel_left]
  rw [takeBytes_take _ _ hlen]
  exact ⟨_, rfl⟩

end RotoV.Str
