/-
  The fragment of the structured lowering model, syntactically: `lowerE` is
  defined on every expression that avoids two ill-typed shapes (`shapedE`).
-/
import RotoV.Lemmas.LowerS
namespace RotoV.LowerS
open RotoV.TraceSpec

/-- number of expressions of a list -/
def lenEs : Exprs → Nat
  | .nil => 0
  | .cons _ es => lenEs es + 1

theorem lowerCtorArgs_length : ∀ (es : Exprs) (c : Nat) (code : Code) (xs : List Var) (c' : Nat),
    lowerCtorArgs es c = some (code, xs, c') → xs.length = lenEs es
  | .nil, c, code, xs, c', h => by simp [lowerCtorArgs] at h; obtain ⟨_, rfl, _⟩ := h; rfl
  | .cons e es, c, code, xs, c', h => by
    simp [lowerCtorArgs, Option.bind_eq_some_iff] at h
    obtain ⟨ce, ve, c1, h1, cs, xs', c2, h2, _, rfl, rfl⟩ := h
    simp [lenEs, lowerCtorArgs_length es _ cs xs' c2 h2]

mutual
/-- The three ill-typed shapes the lowering model refuses do not occur in the expression:
    a compound assignment with a comparison operator, a `match` whose patterns name a
    variant the examinee's type does not have, a record literal that does not name every
    field of its type exactly once. -/
def shapedE : Expr → Bool
  | .lit _ | .var _ | .none => true
  | .host _ args | .call _ args | .ctor _ args | .list args => shapedEs args
  | .record perm fs => permOk perm (lenEs fs) && shapedEs fs
  | .bin _ l r | .eqH _ l r | .and l r | .or l r | .concat l r => shapedE l && shapedE r
  | .not e | .neg e | .assign _ e | .assignF _ _ e | .ret e | .accept e | .reject e | .try e | .some e | .field e _ => shapedE e
  | .cassign op _ e | .cassignF op _ _ e => op.isArith && shapedE e
  | .ite c t e => shapedE c && shapedB t && shapedB e
  | .if1 c t => shapedE c && shapedB t
  | .while c b => shapedE c && shapedB b
  | .for _ l b => shapedE l && shapedB b
  | .block b => shapedB b
  | .mtch s isOpt arms =>
    shapedE s && !((discsOf arms).any (fun k => decide ((if isOpt then 2 else 3) ≤ k))) && shapedA arms
  | .fstr ps => shapedP ps
def shapedEs : Exprs → Bool
  | .nil => true
  | .cons e es => shapedE e && shapedEs es
def shapedB : Block → Bool
  | .nil => true
  | .last e => shapedE e
  | .let_ _ e rest => shapedE e && shapedB rest
  | .stmt e rest => shapedE e && shapedB rest
def shapedA : Arms → Bool
  | .nil => true
  | .arm _ body rest => shapedB body && shapedA rest
  | .armG _ g body rest => shapedE g && shapedB body && shapedA rest
def shapedP : Parts → Bool
  | .nil => true
  | .str _ rest => shapedP rest
  | .expr e rest => shapedE e && shapedP rest
end

mutual
theorem lowerE_total : ∀ (e : Expr) (c : Nat), shapedE e = true → (lowerE e c).isSome = true
  | .lit _, c, _ => by simp [lowerE]
  | .var _, c, _ => by simp [lowerE]
  | .none, c, _ => by simp [lowerE]
  | .host f args, c, h => by
    obtain ⟨⟨a, b, c1⟩, h1⟩ := Option.isSome_iff_exists.mp (lowerArgs_total args c (by simpa [shapedE] using h))
    simp [lowerE, h1]
  | .call f args, c, h => by
    obtain ⟨⟨a, b, c1⟩, h1⟩ := Option.isSome_iff_exists.mp (lowerArgs_total args c (by simpa [shapedE] using h))
    simp [lowerE, h1]
  | .ctor k args, c, h => by
    obtain ⟨⟨a, b, c1⟩, h1⟩ := Option.isSome_iff_exists.mp (lowerCtorArgs_total args c (by simpa [shapedE] using h))
    simp [lowerE, h1]
  | .record perm fs, c, h => by
    simp only [shapedE, Bool.and_eq_true] at h
    obtain ⟨⟨a, b, c1⟩, h1⟩ := Option.isSome_iff_exists.mp (lowerCtorArgs_total fs c h.2)
    have hl := lowerCtorArgs_length fs c a b c1 h1
    simp [lowerE, h1, hl, h.1]
  | .list es, c, h => by
    obtain ⟨⟨a, c1⟩, h1⟩ := Option.isSome_iff_exists.mp (lowerElems_total es (.t c) (.t (c + 1)) (c + 2) (by simpa [shapedE] using h))
    simp [lowerE, h1]
  | .fstr ps, c, h => by
    obtain ⟨⟨a, c1⟩, h1⟩ := Option.isSome_iff_exists.mp (lowerParts_total ps (.t c) (c + 1) (by simpa [shapedE] using h))
    simp [lowerE, h1]
  | .bin op l r, c, h => by
    simp [shapedE] at h
    obtain ⟨⟨cl, vl, c1⟩, h1⟩ := Option.isSome_iff_exists.mp (lowerE_total l c h.1)
    obtain ⟨⟨cr, vr, c2⟩, h2⟩ := Option.isSome_iff_exists.mp (lowerE_total r (atvNext vl c1) h.2)
    simp [lowerE, h1, h2]
  | .eqH ne l r, c, h => by
    simp [shapedE] at h
    obtain ⟨⟨cl, vl, c1⟩, h1⟩ := Option.isSome_iff_exists.mp (lowerE_total l c h.1)
    obtain ⟨⟨cr, vr, c2⟩, h2⟩ := Option.isSome_iff_exists.mp (lowerE_total r (atvNext vl c1) h.2)
    simp [lowerE, h1, h2]
  | .concat l r, c, h => by
    simp [shapedE] at h
    obtain ⟨⟨cl, vl, c1⟩, h1⟩ := Option.isSome_iff_exists.mp (lowerE_total l c h.1)
    obtain ⟨⟨cr, vr, c2⟩, h2⟩ := Option.isSome_iff_exists.mp (lowerE_total r (atvNext vl c1) h.2)
    simp [lowerE, h1, h2]
  | .and l r, c, h => by
    simp [shapedE] at h
    obtain ⟨⟨cl, vl, c1⟩, h1⟩ := Option.isSome_iff_exists.mp (lowerE_total l (c + 1) h.1)
    obtain ⟨⟨cr, vr, c2⟩, h2⟩ := Option.isSome_iff_exists.mp (lowerE_total r c1 h.2)
    simp [lowerE, h1, h2]
  | .or l r, c, h => by
    simp [shapedE] at h
    obtain ⟨⟨cl, vl, c1⟩, h1⟩ := Option.isSome_iff_exists.mp (lowerE_total l (c + 1) h.1)
    obtain ⟨⟨cr, vr, c2⟩, h2⟩ := Option.isSome_iff_exists.mp (lowerE_total r c1 h.2)
    simp [lowerE, h1, h2]
  | .not e, c, h => by
    obtain ⟨⟨ce, ve, c1⟩, h1⟩ := Option.isSome_iff_exists.mp (lowerE_total e c (by simpa [shapedE] using h))
    simp [lowerE, h1]
  | .neg e, c, h => by
    obtain ⟨⟨ce, ve, c1⟩, h1⟩ := Option.isSome_iff_exists.mp (lowerE_total e c (by simpa [shapedE] using h))
    simp [lowerE, h1]
  | .assign x e, c, h => by
    obtain ⟨⟨ce, ve, c1⟩, h1⟩ := Option.isSome_iff_exists.mp (lowerE_total e c (by simpa [shapedE] using h))
    simp [lowerE, h1]
  | .assignF x i e, c, h => by
    obtain ⟨⟨ce, ve, c1⟩, h1⟩ := Option.isSome_iff_exists.mp (lowerE_total e c (by simpa [shapedE] using h))
    simp [lowerE, h1]
  | .cassignF op x i e, c, h => by
    simp [shapedE] at h
    obtain ⟨⟨ce, ve, c1⟩, h1⟩ := Option.isSome_iff_exists.mp (lowerE_total e (c + 1) h.2)
    simp [lowerE, h.1, h1]
  | .ret e, c, h => by
    obtain ⟨⟨ce, ve, c1⟩, h1⟩ := Option.isSome_iff_exists.mp (lowerE_total e c (by simpa [shapedE] using h))
    simp [lowerE, h1]
  | .accept e, c, h => by
    obtain ⟨⟨ce, ve, c1⟩, h1⟩ := Option.isSome_iff_exists.mp (lowerE_total e c (by simpa [shapedE] using h))
    simp [lowerE, h1]
  | .reject e, c, h => by
    obtain ⟨⟨ce, ve, c1⟩, h1⟩ := Option.isSome_iff_exists.mp (lowerE_total e c (by simpa [shapedE] using h))
    simp [lowerE, h1]
  | .try e, c, h => by
    obtain ⟨⟨ce, ve, c1⟩, h1⟩ := Option.isSome_iff_exists.mp (lowerE_total e c (by simpa [shapedE] using h))
    simp [lowerE, h1]
  | .some e, c, h => by
    obtain ⟨⟨ce, ve, c1⟩, h1⟩ := Option.isSome_iff_exists.mp (lowerE_total e c (by simpa [shapedE] using h))
    simp [lowerE, h1]
  | .field e i, c, h => by
    by_cases hv : ∃ x, e = .var x
    · obtain ⟨x, rfl⟩ := hv; simp [lowerE]
    · obtain ⟨⟨ce, ve, c1⟩, h1⟩ := Option.isSome_iff_exists.mp (lowerE_total e c (by simpa [shapedE] using h))
      rw [lowerE_field_nonvar e i c (fun x hx => hv ⟨x, hx⟩), h1]; simp
  | .cassign op x e, c, h => by
    simp [shapedE] at h
    obtain ⟨⟨ce, ve, c1⟩, h1⟩ := Option.isSome_iff_exists.mp (lowerE_total e (c + 1) h.2)
    simp [lowerE, h.1, h1]
  | .ite cnd t e, c, h => by
    simp [shapedE] at h
    obtain ⟨⟨cc, vc, c1⟩, h1⟩ := Option.isSome_iff_exists.mp (lowerE_total cnd c h.1.1)
    obtain ⟨⟨ct, xt, c2⟩, h2⟩ := Option.isSome_iff_exists.mp (lowerBlock_total t (atvNext vc c1) h.1.2)
    obtain ⟨⟨ce, xe, c3⟩, h3⟩ := Option.isSome_iff_exists.mp (lowerBlock_total e (c2 + 1) h.2)
    simp [lowerE, h1, h2, h3]
  | .if1 cnd t, c, h => by
    simp [shapedE] at h
    obtain ⟨⟨cc, vc, c1⟩, h1⟩ := Option.isSome_iff_exists.mp (lowerE_total cnd c h.1)
    obtain ⟨⟨ct, xt, c2⟩, h2⟩ := Option.isSome_iff_exists.mp (lowerBlock_total t (atvNext vc c1) h.2)
    simp [lowerE, h1, h2]
  | .while cnd b, c, h => by
    simp [shapedE] at h
    obtain ⟨⟨cc, vc, c1⟩, h1⟩ := Option.isSome_iff_exists.mp (lowerE_total cnd (c + 1) h.1)
    obtain ⟨⟨cb, xb, c2⟩, h2⟩ := Option.isSome_iff_exists.mp (lowerBlock_total b c1 h.2)
    simp [lowerE, h1, h2]
  | .for x l b, c, h => by
    simp [shapedE] at h
    obtain ⟨⟨cl, vl, c1⟩, h1⟩ := Option.isSome_iff_exists.mp (lowerE_total l (c + 1) h.1)
    obtain ⟨⟨cb, xb, c2⟩, h2⟩ := Option.isSome_iff_exists.mp (lowerBlock_total b (atvNext vl c1 + 4) h.2)
    simp [lowerE, h1, h2]
  | .block b, c, h => by
    obtain ⟨⟨cb, xb, c1⟩, h1⟩ := Option.isSome_iff_exists.mp (lowerBlock_total b c (by simpa [shapedE] using h))
    simp [lowerE, h1]
  | .mtch s isOpt arms, c, h => by
    simp only [shapedE, Bool.and_eq_true, Bool.not_eq_true'] at h
    obtain ⟨⟨hs, hd⟩, ha⟩ := h
    obtain ⟨⟨ce, ve, c1⟩, h1⟩ := Option.isSome_iff_exists.mp (lowerE_total s c hs)
    obtain ⟨⟨ch0, c0⟩, h2⟩ := Option.isSome_iff_exists.mp (lowerChain_total arms (if (discsOf arms).contains 0 then .variant 0 else .off)
      (atvVar ve c1) (if isOpt then 0 else 10) 0 (atvNext ve c1 + 1) ha)
    obtain ⟨⟨ch1, c1'⟩, h3⟩ := Option.isSome_iff_exists.mp (lowerChain_total arms (if (discsOf arms).contains 1 then .variant 1 else .off)
      (atvVar ve c1) (if isOpt then 0 else 10) 0 c0 ha)
    obtain ⟨⟨ch2, c2⟩, h4⟩ := Option.isSome_iff_exists.mp (lowerChain_total arms (if (discsOf arms).contains 2 then .variant 2 else .off)
      (atvVar ve c1) (if isOpt then 0 else 10) 0 c1' ha)
    obtain ⟨⟨dflt, c3⟩, h5⟩ := Option.isSome_iff_exists.mp (lowerChain_total arms
      (if hasWild arms && !((List.range (if isOpt then 2 else 3)).all (fun k => (discsOf arms).contains k)) then .wildOnly else .off)
      (atvVar ve c1) (if isOpt then 0 else 10) 0 c2 ha)
    obtain ⟨⟨codes, c4⟩, h6⟩ := Option.isSome_iff_exists.mp (lowerArms_total arms (.t c3) (c3 + 1) ha)
    simp only [lowerE, Option.pure_def, Option.bind_eq_bind]
    rw [if_neg (by rw [hd]; simp)]
    simp only [h1, h2, h3, h4, h5, h6, Option.bind_some, Option.isSome_some]
theorem lowerArgs_total : ∀ (es : Exprs) (c : Nat), shapedEs es = true → (lowerArgs es c).isSome = true
  | .nil, c, _ => by simp [lowerArgs]
  | .cons e es, c, h => by
    simp [shapedEs] at h
    obtain ⟨⟨ce, ve, c1⟩, h1⟩ := Option.isSome_iff_exists.mp (lowerE_total e c h.1)
    obtain ⟨⟨cs, ts, c2⟩, h2⟩ := Option.isSome_iff_exists.mp (lowerArgs_total es (c1 + 1) h.2)
    simp [lowerArgs, h1, h2]
theorem lowerCtorArgs_total : ∀ (es : Exprs) (c : Nat), shapedEs es = true → (lowerCtorArgs es c).isSome = true
  | .nil, c, _ => by simp [lowerCtorArgs]
  | .cons e es, c, h => by
    simp [shapedEs] at h
    obtain ⟨⟨ce, ve, c1⟩, h1⟩ := Option.isSome_iff_exists.mp (lowerE_total e c h.1)
    obtain ⟨⟨cs, ts, c2⟩, h2⟩ := Option.isSome_iff_exists.mp (lowerCtorArgs_total es (atvNext ve c1) h.2)
    simp [lowerCtorArgs, h1, h2]
theorem lowerElems_total : ∀ (es : Exprs) (lst u : Var) (c : Nat), shapedEs es = true → (lowerElems es lst u c).isSome = true
  | .nil, lst, u, c, _ => by simp [lowerElems]
  | .cons e es, lst, u, c, h => by
    simp [shapedEs] at h
    obtain ⟨⟨ce, ve, c1⟩, h1⟩ := Option.isSome_iff_exists.mp (lowerE_total e (c + 1) h.1)
    obtain ⟨⟨cs, c2⟩, h2⟩ := Option.isSome_iff_exists.mp (lowerElems_total es lst u (c1 + 1) h.2)
    simp [lowerElems, h1, h2]
theorem lowerParts_total : ∀ (ps : Parts) (acc : Var) (c : Nat), shapedP ps = true → (lowerParts ps acc c).isSome = true
  | .nil, acc, c, _ => by simp [lowerParts]
  | .str s rest, acc, c, h => by
    obtain ⟨⟨cr, c2⟩, h2⟩ := Option.isSome_iff_exists.mp (lowerParts_total rest acc (c + 1) (by simpa [shapedP] using h))
    simp [lowerParts, h2]
  | .expr e rest, acc, c, h => by
    simp [shapedP] at h
    obtain ⟨⟨ce, ve, c1⟩, h1⟩ := Option.isSome_iff_exists.mp (lowerE_total e c h.1)
    obtain ⟨⟨cr, c2⟩, h2⟩ := Option.isSome_iff_exists.mp (lowerParts_total rest acc (c1 + 2) h.2)
    simp [lowerParts, h1, h2]
theorem lowerBlock_total : ∀ (b : Block) (c : Nat), shapedB b = true → (lowerBlock b c).isSome = true
  | .nil, c, _ => by simp [lowerBlock]
  | .last e, c, h => by
    obtain ⟨⟨ce, ve, c1⟩, h1⟩ := Option.isSome_iff_exists.mp (lowerE_total e c (by simpa [shapedB] using h))
    simp [lowerBlock, h1]
  | .let_ x e rest, c, h => by
    simp [shapedB] at h
    obtain ⟨⟨ce, ve, c1⟩, h1⟩ := Option.isSome_iff_exists.mp (lowerE_total e c h.1)
    obtain ⟨⟨cr, xr, c2⟩, h2⟩ := Option.isSome_iff_exists.mp (lowerBlock_total rest c1 h.2)
    simp [lowerBlock, h1, h2]
  | .stmt e rest, c, h => by
    simp [shapedB] at h
    obtain ⟨⟨ce, ve, c1⟩, h1⟩ := Option.isSome_iff_exists.mp (lowerE_total e c h.1)
    obtain ⟨⟨cr, xr, c2⟩, h2⟩ := Option.isSome_iff_exists.mp (lowerBlock_total rest (atvNext ve c1) h.2)
    simp [lowerBlock, h1, h2]
theorem lowerChain_total : ∀ (arms : Arms) (sel : Sel) (xe : Var) (tb idx c : Nat), shapedA arms = true →
    (lowerChain arms sel xe tb idx c).isSome = true
  | .nil, sel, xe, tb, idx, c, _ => by simp [lowerChain]
  | .arm p body rest, sel, xe, tb, idx, c, h => by
    simp [shapedA] at h
    obtain ⟨⟨st, c2⟩, h2⟩ := Option.isSome_iff_exists.mp (lowerChain_total rest sel xe tb (idx + 1) c h.2)
    simp only [lowerChain]
    split <;> simp [h2]
  | .armG p g body rest, sel, xe, tb, idx, c, h => by
    simp [shapedA] at h
    simp only [lowerChain]
    split
    · obtain ⟨⟨cg, vg, c1⟩, h1⟩ := Option.isSome_iff_exists.mp (lowerE_total g c h.1.1)
      obtain ⟨⟨st, c2⟩, h2⟩ := Option.isSome_iff_exists.mp (lowerChain_total rest sel xe tb (idx + 1) (atvNext vg c1) h.2)
      simp [h1, h2]
    · exact lowerChain_total rest sel xe tb (idx + 1) c h.2
theorem lowerArms_total : ∀ (arms : Arms) (out : Var) (c : Nat), shapedA arms = true → (lowerArms arms out c).isSome = true
  | .nil, out, c, _ => by simp [lowerArms]
  | .arm p body rest, out, c, h => by
    simp [shapedA] at h
    obtain ⟨⟨cb, xb, c1⟩, h1⟩ := Option.isSome_iff_exists.mp (lowerBlock_total body c h.1)
    obtain ⟨⟨cs, c2⟩, h2⟩ := Option.isSome_iff_exists.mp (lowerArms_total rest out c1 h.2)
    simp [lowerArms, h1, h2]
  | .armG p g body rest, out, c, h => by
    simp [shapedA] at h
    obtain ⟨⟨cb, xb, c1⟩, h1⟩ := Option.isSome_iff_exists.mp (lowerBlock_total body c h.1.2)
    obtain ⟨⟨cs, c2⟩, h2⟩ := Option.isSome_iff_exists.mp (lowerArms_total rest out c1 h.2)
    simp [lowerArms, h1, h2]
end

/-- a program all of whose function bodies are well shaped is in the model's fragment -/
theorem lowerProg_total : ∀ (fns : List FnDef), (∀ fd ∈ fns, shapedB fd.body = true) → (lowerProg fns).isSome = true
  | [], _ => by simp [lowerProg]
  | fd :: rest, h => by
    obtain ⟨⟨cb, xb, c1⟩, h1⟩ := Option.isSome_iff_exists.mp (lowerBlock_total fd.body 0 (h fd (by simp)))
    obtain ⟨more, h2⟩ := Option.isSome_iff_exists.mp (lowerProg_total rest (fun fd' hfd => h fd' (by simp [hfd])))
    simp [lowerProg, lowerFn, h1, h2]
end RotoV.LowerS
