/-
  C05 — values: `untransform ∘ transform = id`, and the script's view of a
  transformed value is the value, by structural induction over the boundary
  grammar (any nesting depth, any list length).
-/
import RotoV.Model.Boundary

namespace RotoV.Boundary
open RotoV RotoV.Gen.BoundaryTables

/-- The facts about a family of variant tables that decoding relies on: every variant the Rust
    side can produce sits, in these tables, at the index `transform` used, under the same name and
    with the payload taken from the same type parameter. -/
structure GoodTables (tbls : EnumOf → List (VName × List Nat)) : Prop where
  some_ : ∃ d, indexOf .Some rotoOptionVariants 0 = some d ∧ nameAt (tbls .option) d = some .Some
            ∧ ∀ s, payloadShape (tbls .option) [s] d = some (some s)
  none_ : ∃ d, indexOf .None rotoOptionVariants 0 = some d ∧ nameAt (tbls .option) d = some .None
            ∧ ∀ s, payloadShape (tbls .option) [s] d = some none
  ok_ : ∃ d, indexOf .Ok rotoResultVariants 0 = some d ∧ nameAt (tbls .result) d = some .Ok
            ∧ ∀ s e, payloadShape (tbls .result) [s, e] d = some (some s)
  err_ : ∃ d, indexOf .Err rotoResultVariants 0 = some d ∧ nameAt (tbls .result) d = some .Err
            ∧ ∀ s e, payloadShape (tbls .result) [s, e] d = some (some e)
  accept_ : ∃ d, indexOf .Accept verdictVariants 0 = some d ∧ nameAt (tbls .verdict) d = some .Accept
            ∧ ∀ s e, payloadShape (tbls .verdict) [s, e] d = some (some s)
  reject_ : ∃ d, indexOf .Reject verdictVariants 0 = some d ∧ nameAt (tbls .verdict) d = some .Reject
            ∧ ∀ s e, payloadShape (tbls .verdict) [s, e] d = some (some e)

theorem goodTables_rust : GoodTables rustTables :=
  { some_ := ⟨0, by decide, by decide, fun _ => rfl⟩
    none_ := ⟨1, by decide, by decide, fun _ => rfl⟩
    ok_ := ⟨0, by decide, by decide, fun _ _ => rfl⟩
    err_ := ⟨1, by decide, by decide, fun _ _ => rfl⟩
    accept_ := ⟨0, by decide, by decide, fun _ _ => rfl⟩
    reject_ := ⟨1, by decide, by decide, fun _ _ => rfl⟩ }

theorem goodTables_script : GoodTables scriptTables :=
  { some_ := ⟨0, by decide, by decide, fun _ => rfl⟩
    none_ := ⟨1, by decide, by decide, fun _ => rfl⟩
    ok_ := ⟨0, by decide, by decide, fun _ _ => rfl⟩
    err_ := ⟨1, by decide, by decide, fun _ _ => rfl⟩
    accept_ := ⟨0, by decide, by decide, fun _ _ => rfl⟩
    reject_ := ⟨1, by decide, by decide, fun _ _ => rfl⟩ }

theorem hasShape_list (vs : List RVal) (t : Shape) :
    (RVal.list vs).hasShape (.list t) = true ↔ ∀ v ∈ vs, v.hasShape t = true := by
  simp [RVal.hasShape, List.all_eq_true]

mutual
theorem decode_transform (tbls : EnumOf → List (VName × List Nat)) (g : GoodTables tbls) :
    ∀ (v : RVal) (sh : Shape), v.hasShape sh = true →
      ∃ t, transform v = some t ∧ decode tbls sh t = some v
  | .leaf n, .leaf, _ => ⟨.leaf n, rfl, rfl⟩
  | .unit, .unit, _ => ⟨.unit, rfl, rfl⟩
  | .some x, .option s, h => by
    obtain ⟨tx, h1, h2⟩ := decode_transform tbls g x s (by simpa [RVal.hasShape] using h)
    obtain ⟨d, hd, hn, hp⟩ := g.some_
    exact ⟨.tagged d (some tx), by simp [transform, h1, tag, hd],
      by simp [decode, decodeTagged, hn, hp, h2, mkVariant]⟩
  | .none, .option s, _ => by
    obtain ⟨d, hd, hn, hp⟩ := g.none_
    exact ⟨.tagged d none, by simp [transform, tag, hd], by simp [decode, decodeTagged, hn, hp, mkVariant]⟩
  | .ok x, .result s e, h => by
    obtain ⟨tx, h1, h2⟩ := decode_transform tbls g x s (by simpa [RVal.hasShape] using h)
    obtain ⟨d, hd, hn, hp⟩ := g.ok_
    exact ⟨.tagged d (some tx), by simp [transform, h1, tag, hd],
      by simp [decode, decodeTagged, hn, hp, h2, mkVariant]⟩
  | .err x, .result s e, h => by
    obtain ⟨tx, h1, h2⟩ := decode_transform tbls g x e (by simpa [RVal.hasShape] using h)
    obtain ⟨d, hd, hn, hp⟩ := g.err_
    exact ⟨.tagged d (some tx), by simp [transform, h1, tag, hd],
      by simp [decode, decodeTagged, hn, hp, h2, mkVariant]⟩
  | .accept x, .verdict s e, h => by
    obtain ⟨tx, h1, h2⟩ := decode_transform tbls g x s (by simpa [RVal.hasShape] using h)
    obtain ⟨d, hd, hn, hp⟩ := g.accept_
    exact ⟨.tagged d (some tx), by simp [transform, h1, tag, hd],
      by simp [decode, decodeTagged, hn, hp, h2, mkVariant]⟩
  | .reject x, .verdict s e, h => by
    obtain ⟨tx, h1, h2⟩ := decode_transform tbls g x e (by simpa [RVal.hasShape] using h)
    obtain ⟨d, hd, hn, hp⟩ := g.reject_
    exact ⟨.tagged d (some tx), by simp [transform, h1, tag, hd],
      by simp [decode, decodeTagged, hn, hp, h2, mkVariant]⟩
  | .list vs, .list s, h => by
    obtain ⟨ts, h1, h2⟩ := decode_transform_list tbls g vs s ((hasShape_list vs s).mp h)
    exact ⟨.list ts, by simp [transform, h1], by simp [decode, h2]⟩
  | .leaf _, .unit, h | .leaf _, .option _, h | .leaf _, .result _ _, h | .leaf _, .verdict _ _, h
  | .leaf _, .list _, h => by simp [RVal.hasShape] at h
  | .unit, .leaf, h | .unit, .option _, h | .unit, .result _ _, h | .unit, .verdict _ _, h
  | .unit, .list _, h => by simp [RVal.hasShape] at h
  | .some _, .leaf, h | .some _, .unit, h | .some _, .result _ _, h | .some _, .verdict _ _, h
  | .some _, .list _, h => by simp [RVal.hasShape] at h
  | .none, .leaf, h | .none, .unit, h | .none, .result _ _, h | .none, .verdict _ _, h
  | .none, .list _, h => by simp [RVal.hasShape] at h
  | .ok _, .leaf, h | .ok _, .unit, h | .ok _, .option _, h | .ok _, .verdict _ _, h
  | .ok _, .list _, h => by simp [RVal.hasShape] at h
  | .err _, .leaf, h | .err _, .unit, h | .err _, .option _, h | .err _, .verdict _ _, h
  | .err _, .list _, h => by simp [RVal.hasShape] at h
  | .accept _, .leaf, h | .accept _, .unit, h | .accept _, .option _, h | .accept _, .result _ _, h
  | .accept _, .list _, h => by simp [RVal.hasShape] at h
  | .reject _, .leaf, h | .reject _, .unit, h | .reject _, .option _, h | .reject _, .result _ _, h
  | .reject _, .list _, h => by simp [RVal.hasShape] at h
  | .list _, .leaf, h | .list _, .unit, h | .list _, .option _, h | .list _, .result _ _, h
  | .list _, .verdict _ _, h => by simp [RVal.hasShape] at h
theorem decode_transform_list (tbls : EnumOf → List (VName × List Nat)) (g : GoodTables tbls) :
    ∀ (vs : List RVal) (s : Shape), (∀ v ∈ vs, v.hasShape s = true) →
      ∃ ts, transformList vs = some ts ∧ decodeList tbls s ts = some vs
  | [], _, _ => ⟨[], rfl, rfl⟩
  | v :: vs, s, h => by
    obtain ⟨t, h1, h2⟩ := decode_transform tbls g v s (h v (List.mem_cons_self ..))
    obtain ⟨ts, h3, h4⟩ := decode_transform_list tbls g vs s fun x hx => h x (List.mem_cons_of_mem _ hx)
    exact ⟨t :: ts, by simp [transformList, h1, h3], by simp [decodeList, h2, h4]⟩
end

end RotoV.Boundary
