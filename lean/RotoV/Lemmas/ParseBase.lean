/-
  Lemmas about the parser's state and helper methods (`Model/ParseBase.lean`)
  behind `parse_total` / `parse_error_spans_ok` (property C06).

  `InvB b` is the invariant of the parser state: the lexer is in a reachable
  state of the source, every queued item carries a span of the source (token
  spans non-empty), at most `b` items are queued (`peek_many::<N>` needs
  `len ≤ N`), every entry of the span table and the `almost_keyword` span are
  spans of the source. `μ` is the termination measure: bytes not yet lexed +
  queued tokens. `SpecR` is the shape of every specification: a panic is
  impossible, an error cites a span of the source, running out of fuel implies
  `F` (the fuel was below the stated bound), a result satisfies `Q`.
-/
import RotoV.Lemmas.ParseLexText

namespace RotoV.Parse
open RotoV RotoV.Lex

/-- what the parser theorems need from the generated lexer tables: the
punctuation bytes are ASCII (`TablesOk`, as for the lexer theorems) and no
keyword is given the kind of a literal whose text is sliced (`KwKindsOk`) -/
structure LexOk : Prop where
  tables : TablesOk
  kw : KwKindsOk

/-- a queued item carries a span of the source; token spans are non-empty and
the text has the shape of the token's kind -/
def QOk (src : List Char) : QItem → Prop
  | .tok k sp => sp.1 < sp.2 ∧ SpanOk src sp ∧ TextOk k (textOf src sp)
  | .invalid sp => SpanOk src sp

/-- number of `Ok` tokens in the queue -/
def qtoks : List QItem → Nat
  | [] => 0
  | .tok _ _ :: r => qtoks r + 1
  | .invalid _ :: r => qtoks r

theorem qtoks_append (a b : List QItem) : qtoks (a ++ b) = qtoks a + qtoks b := by
  induction a with
  | nil => simp [qtoks]
  | cons x xs ih => cases x <;> simp [qtoks, ih] <;> omega

/-- the termination measure: bytes not yet lexed + queued tokens -/
def μ (s : PState) : Nat := blen s.lx.input + qtoks s.peeked

/-- size of the span table -/
def nsz (s : PState) : Nat := s.rspans.length

structure InvB (b : Nat) (c : Ctx) (s : PState) : Prop where
  reach : Reach c.src s.lx
  q : ∀ it ∈ s.peeked, QOk c.src it
  len : s.peeked.length ≤ b
  sp : ∀ x ∈ s.rspans, SpanOk c.src x
  al : ∀ x, s.almost = some x → SpanOk c.src x

theorem InvB.mono {b b' : Nat} {c : Ctx} {s : PState} (h : InvB b c s) (hb : b ≤ b') : InvB b' c s :=
  ⟨h.reach, h.q, by have := h.len; omega, h.sp, h.al⟩

/-- what an error must satisfy: it cites a span of the source, and so does the
hint `run_parser` will add -/
def EOk (c : Ctx) (e : PErr) (s : PState) : Prop :=
  SpanOk c.src e.span ∧ e.hint = none ∧ ∀ x, s.almost = some x → SpanOk c.src x

/-- the shape of every specification -/
def SpecR {α : Type} (c : Ctx) (F : Prop) (Q : α → PState → Prop) : PR α → Prop
  | .ok a s => Q a s
  | .err e s => EOk c e s
  | .panic => False
  | .fuel => F

theorem SpecR.bind' {α β : Type} {c : Ctx} {F1 F : Prop} {Q : α → PState → Prop} {Q' : β → PState → Prop}
    {x : PR α} {f : α → PState → PR β}
    (hx : SpecR c F1 Q x) (hF : F1 → F) (hf : ∀ a s, Q a s → SpecR c F Q' (f a s)) :
    SpecR c F Q' (x.bind f) := by
  cases x with
  | ok a s => exact hf a s hx
  | err e s => exact hx
  | panic => exact hx
  | fuel => exact hF hx

theorem SpecR.mono {α : Type} {c : Ctx} {F F' : Prop} {Q Q' : α → PState → Prop} {x : PR α}
    (hx : SpecR c F Q x) (hF : F → F') (hQ : ∀ a s, Q a s → Q' a s) : SpecR c F' Q' x := by
  cases x with
  | ok a s => exact hQ a s hx
  | err e s => exact hx
  | panic => exact hx
  | fuel => exact hF hx

/-- the post-condition of every parser method, relative to its entry state -/
def Post {α : Type} (c : Ctx) (s0 : PState) (δ : Nat) (X : α → PState → Prop) (a : α) (s : PState) : Prop :=
  InvB 2 c s ∧ μ s + δ ≤ μ s0 ∧ nsz s0 ≤ nsz s ∧ X a s

/-- the id of a `Meta` is an index of the span table -/
abbrev Vid (a : Node) (s : PState) : Prop := a.id < nsz s

/-! ## spans -/

theorem spanOk_merge {src : List Char} {a b : Span} (ha : SpanOk src a) (hb : SpanOk src b) :
    SpanOk src (mergeSp a b) := by
  obtain ⟨ha1, ha2, ha3⟩ := ha
  obtain ⟨hb1, hb2, hb3⟩ := hb
  refine ⟨?_, ?_, ?_⟩
  · show min a.1 b.1 ≤ max a.2 b.2; omega
  · show IsBoundary src (min a.1 b.1)
    rcases Nat.le_total a.1 b.1 with h | h
    · rw [Nat.min_eq_left h]; exact ha2
    · rw [Nat.min_eq_right h]; exact hb2
  · show IsBoundary src (max a.2 b.2)
    rcases Nat.le_total a.2 b.2 with h | h
    · rw [Nat.max_eq_right h]; exact hb3
    · rw [Nat.max_eq_left h]; exact ha3

theorem spanOk_eof (src : List Char) : SpanOk src (blen src, blen src) :=
  ⟨Nat.le_refl _, ⟨src, [], by simp, rfl⟩, ⟨src, [], by simp, rfl⟩⟩

/-- the state after `spans.add(sp, _)` -/
def PState.add (s : PState) (sp : Span) : PState := { s with rspans := sp :: s.rspans }

@[simp] theorem μ_add (s : PState) (sp : Span) : μ (s.add sp) = μ s := rfl
@[simp] theorem nsz_add (s : PState) (sp : Span) : nsz (s.add sp) = nsz s + 1 := by
  simp [nsz, PState.add]

theorem InvB.add {b : Nat} {c : Ctx} {s : PState} (h : InvB b c s) {sp : Span} (hsp : SpanOk c.src sp) :
    InvB b c (s.add sp) :=
  ⟨h.reach, h.q, h.len, by intro x hx; simp only [PState.add, List.mem_cons] at hx
                           rcases hx with rfl | hx
                           · exact hsp
                           · exact h.sp x hx, h.al⟩

theorem addNode_k {α : Type} (sp : Span) (sx : Sx) (s : PState) (k : Node → PState → PR α) :
    addNode sp sx s k = k ⟨nsz s, sx⟩ (s.add sp) := rfl

theorem getSpan_k {b : Nat} {c : Ctx} {s : PState} (hi : InvB b c s) {id : Nat} (h : id < nsz s) :
    ∃ sp, SpanOk c.src sp ∧ ∀ {α : Type} (k : Span → PState → PR α), getSpan id s k = k sp s := by
  have h' : id < s.rspans.length := h
  refine ⟨s.rspans[s.rspans.length - 1 - id]'(by omega), hi.sp _ (List.getElem_mem _), ?_⟩
  intro α k
  simp only [getSpan, h', dite_true]

theorem mergeSpans_k {b : Nat} {c : Ctx} {s : PState} (hi : InvB b c s) {x y : Nat}
    (hx : x < nsz s) (hy : y < nsz s) :
    ∃ sp, SpanOk c.src sp ∧ ∀ {α : Type} (k : Span → PState → PR α), mergeSpans x y s k = k sp s := by
  obtain ⟨a, ha, hka⟩ := getSpan_k hi hx
  obtain ⟨b', hb, hkb⟩ := getSpan_k hi hy
  refine ⟨mergeSp a b', spanOk_merge ha hb, ?_⟩
  intro α k
  simp only [mergeSpans, hka, hkb]

/-- finishing a method with `spans.add(sp, node)` -/
theorem addNode_ok {c : Ctx} {s0 s : PState} {δ : Nat} {F : Prop} (sp : Span) (sx : Sx)
    (hi : InvB 2 c s) (hsp : SpanOk c.src sp) (hm : μ s + δ ≤ μ s0) (hn : nsz s0 ≤ nsz s) :
    SpecR c F (Post c s0 δ Vid) (addNode sp sx s .ok) := by
  rw [addNode_k]
  exact ⟨hi.add hsp, by simpa using hm, by simp; omega, by simp [Vid]⟩

/-! ## the lexer interface -/

section
variable (T : LexOk) {c : Ctx}
include T

/-- relation between the states before and after a step that only lexes:
table and invariant kept, measure not increased -/
structure LexStep (c : Ctx) (s0 s : PState) : Prop where
  reach : Reach c.src s.lx
  al : ∀ x, s.almost = some x → SpanOk c.src x
  rsp : s.rspans = s0.rspans

theorem lexInner_spec {b : Nat} {s0 : PState} (h : InvB b c s0) :
    SpecR c False (fun r s => LexStep c s0 s ∧ s.peeked = s0.peeked ∧
      match r with
      | none => blen s.lx.input ≤ blen s0.lx.input
      | some (.tok k sp) => QOk c.src (.tok k sp) ∧ blen s.lx.input + 1 ≤ blen s0.lx.input
      | some (.invalid sp) => QOk c.src (.invalid sp) ∧ blen s.lx.input ≤ blen s0.lx.input)
      (lexInner c s0) := by
  obtain ⟨it, L', hn, hr, hp, hit⟩ := nextInner_ok' c.P T.tables c.src s0.lx h.reach
  have htext := fun k sp (e : it = .tok k sp) => nextInner_text T.kw c.P T.tables h.reach (e ▸ hn)
  have e0 := h.reach.blen_input
  have e1 := hr.blen_input
  unfold lexInner
  rw [hn]
  cases it with
  | eof => exact ⟨⟨hr, h.al, rfl⟩, rfl, by show blen L'.input ≤ _; omega⟩
  | invalid sp => exact ⟨⟨hr, h.al, rfl⟩, rfl, hit.2.2, by show blen L'.input ≤ _; omega⟩
  | tok k sp =>
    obtain ⟨h1, h2, h3, h4⟩ := hit
    refine ⟨⟨hr, ?_, rfl⟩, rfl, ⟨h2, h4, htext k sp rfl⟩, by show blen L'.input + 1 ≤ _; omega⟩
    intro x hx
    simp only at hx
    split at hx
    · cases hx; exact h4
    · exact h.al x hx

theorem lexNext_spec {b : Nat} {s0 : PState} (h : InvB b c s0) :
    SpecR c False (fun r s => InvB (b - 1) c s ∧ nsz s = nsz s0 ∧
      (∀ it rest, s0.peeked = it :: rest → r = some it) ∧
      match r with
      | none => μ s ≤ μ s0
      | some (.tok k sp) => QOk c.src (.tok k sp) ∧ μ s + 1 ≤ μ s0
      | some (.invalid sp) => QOk c.src (.invalid sp) ∧ μ s ≤ μ s0) (lexNext c s0) := by
  unfold lexNext
  cases hq : s0.peeked with
  | cons it rest =>
    have hit := h.q it (by rw [hq]; simp)
    have hl := h.len
    rw [hq] at hl
    refine ⟨⟨h.reach, fun x hx => h.q x (by rw [hq]; exact List.mem_cons_of_mem _ hx),
      by simp at hl ⊢; omega, h.sp, h.al⟩, rfl, (by intro it' rest' e; cases e; rfl), ?_⟩
    cases it with
    | tok k sp => exact ⟨hit, by simp only [μ, hq, qtoks]; omega⟩
    | invalid sp => exact ⟨hit, by simp only [μ, hq, qtoks]; omega⟩
  | nil =>
    have := lexInner_spec T h
    revert this
    cases lexInner c s0 with
    | ok r s =>
      intro ⟨hs, hpk, hr⟩
      have hinv : InvB (b - 1) c s :=
        ⟨hs.reach, by rw [hpk, hq]; simp, by rw [hpk, hq]; simp, by rw [hs.rsp]; exact h.sp, hs.al⟩
      refine ⟨hinv, by simp [nsz, hs.rsp], (by intro it rest e; cases e), ?_⟩
      cases r with
      | none => simpa [μ, hpk, hq, qtoks] using hr
      | some it =>
        cases it with
        | tok k sp => exact ⟨hr.1, by simpa [μ, hpk, hq, qtoks] using hr.2⟩
        | invalid sp => exact ⟨hr.1, by simpa [μ, hpk, hq, qtoks] using hr.2⟩
    | err e s => exact id
    | panic => exact id
    | fuel => exact id

omit T in
theorem origLen_eq {b : Nat} {s : PState} (h : InvB b c s) : s.lx.origLen = blen c.src := h.reach.1

omit T in
theorem fail_ok {α : Type} {b : Nat} {s : PState} {F : Prop} {Q : α → PState → Prop} (k : EKind) {sp : Span}
    (h : InvB b c s) (hsp : SpanOk c.src sp) : SpecR c F Q (fail k sp s) :=
  ⟨hsp, rfl, h.al⟩

/-- `Parser::next` from a state with at most 3 queued items -/
theorem pnext_spec {b : Nat} {s0 : PState} (h : InvB b c s0) (hb : b ≤ 3) :
    SpecR c False (Post c s0 1 (fun r _ => SpanOk c.src r.2 ∧
      (∀ k sp rest, s0.peeked = .tok k sp :: rest → r = (k, sp)) ∧ TextOk r.1 (textOf c.src r.2))) (pnext c s0) := by
  unfold pnext
  refine SpecR.bind' (lexNext_spec T h) id ?_
  intro r s ⟨hi, hn, hfront, hr⟩
  have hi2 : InvB 2 c s := hi.mono (by omega)
  cases r with
  | none => rw [origLen_eq hi]; exact fail_ok _ hi (spanOk_eof _)
  | some it =>
    cases it with
    | invalid sp => exact fail_ok _ hi hr.1
    | tok k sp =>
      refine ⟨hi2, hr.2, by omega, hr.1.2.1, ?_, hr.1.2.2⟩
      intro k' sp' rest e
      have := hfront _ _ e
      cases this; rfl

theorem lexPeek_spec {b : Nat} {s0 : PState} (h : InvB b c s0) (hb : 1 ≤ b) :
    SpecR c False (fun r s => InvB b c s ∧ μ s ≤ μ s0 ∧ nsz s = nsz s0 ∧
      match r with
      | some it => ∃ rest, s.peeked = it :: rest
      | none => True) (lexPeek c s0) := by
  unfold lexPeek
  cases hq : s0.peeked with
  | cons it rest => exact ⟨h, Nat.le_refl _, rfl, rest, hq⟩
  | nil =>
    refine SpecR.bind' (lexInner_spec T h) id ?_
    intro r s ⟨hs, hpk, hr⟩
    cases r with
    | none =>
      exact ⟨⟨hs.reach, by rw [hpk]; exact h.q, by rw [hpk]; exact h.len, by rw [hs.rsp]; exact h.sp, hs.al⟩,
        by simpa [μ, hpk, hq, qtoks] using hr, by simp [nsz, hs.rsp], trivial⟩
    | some it =>
      have hitok : QOk c.src it := by cases it <;> exact hr.1
      refine ⟨⟨hs.reach, by intro x hx; simp at hx; rw [hx]; exact hitok, by simpa using hb,
        by rw [hs.rsp]; exact h.sp, hs.al⟩, ?_, by simp [nsz, hs.rsp], [], rfl⟩
      cases it with
      | tok k sp => have := hr.2; simp [μ, hq, qtoks] at this ⊢; omega
      | invalid sp => have := hr.2; simp [μ, hq, qtoks] at this ⊢; omega

theorem ppeek_spec {b : Nat} {s0 : PState} (h : InvB b c s0) (hb : 1 ≤ b) :
    SpecR c False (fun r s => InvB b c s ∧ μ s ≤ μ s0 ∧ nsz s = nsz s0 ∧
      ∀ k, r = some k → ∃ sp rest, s.peeked = .tok k sp :: rest) (ppeek c s0) := by
  unfold ppeek
  refine SpecR.bind' (lexPeek_spec T h hb) id ?_
  intro r s ⟨hi, hm, hn, hr⟩
  cases r with
  | none => exact ⟨hi, hm, hn, (by intro k e; cases e)⟩
  | some it =>
    cases it with
    | tok k sp =>
      obtain ⟨rest, hrest⟩ := hr
      exact ⟨hi, hm, hn, (by intro k' e; cases e; exact ⟨sp, rest, hrest⟩)⟩
    | invalid sp => exact ⟨hi, hm, hn, (by intro k e; cases e)⟩

theorem peekIs_spec {b : Nat} {s0 : PState} (t : TokKind) (h : InvB b c s0) (hb : 1 ≤ b) :
    SpecR c False (fun r s => InvB b c s ∧ μ s ≤ μ s0 ∧ nsz s = nsz s0 ∧
      (r = true → ∃ sp rest, s.peeked = .tok t sp :: rest)) (peekIs c t s0) := by
  unfold peekIs
  refine SpecR.bind' (ppeek_spec T h hb) id ?_
  intro r s ⟨hi, hm, hn, hr⟩
  refine ⟨hi, hm, hn, ?_⟩
  intro e
  have : r = some t := by simpa using e
  exact hr t this

/-- `peek_is` in the uniform shape (2 queued items at most) -/
theorem peekIs_post {s0 : PState} (t : TokKind) (h : InvB 2 c s0) :
    SpecR c False (Post c s0 0 (fun r s => r = true → ∃ sp rest, s.peeked = .tok t sp :: rest))
      (peekIs c t s0) :=
  (peekIs_spec T t h (by omega)).mono id fun _ _ ⟨a, b, c, d⟩ => ⟨a, b, by omega, d⟩

theorem ppeek_post {s0 : PState} (h : InvB 2 c s0) :
    SpecR c False (Post c s0 0 (fun r s => ∀ k, r = some k → ∃ sp rest, s.peeked = .tok k sp :: rest))
      (ppeek c s0) :=
  (ppeek_spec T h (by omega)).mono id fun _ _ ⟨a, b, c, d⟩ => ⟨a, b, by omega, d⟩

omit T in
theorem pnext_front {s : PState} {k : TokKind} {sp : Span} {rest : List QItem}
    (h : s.peeked = .tok k sp :: rest) : pnext c s = .ok (k, sp) { s with peeked := rest } := by
  simp [pnext, lexNext, h, PR.bind]

/-- `next_is`: the `unwrap` cannot fail; a `true` consumed a token -/
theorem nextIs_spec {s0 : PState} (t : TokKind) (h : InvB 2 c s0) :
    SpecR c False (Post c s0 0 (fun r s => r = true → μ s + 1 ≤ μ s0)) (nextIs c t s0) := by
  unfold nextIs
  refine SpecR.bind' (peekIs_post T t h) id ?_
  intro r s ⟨hi, hm, hn, hr⟩
  cases r with
  | false => exact ⟨hi, hm, hn, (by intro e; cases e)⟩
  | true =>
    obtain ⟨sp, rest, hq⟩ := hr rfl
    have hx := pnext_spec T hi (by omega)
    simp only [if_true]
    rw [pnext_front hq] at hx ⊢
    obtain ⟨hi', hm', hn', _⟩ := hx
    exact ⟨hi', by omega, by omega, by intro _; omega⟩

theorem take_spec {b : Nat} {s0 : PState} (t : TokKind) (h : InvB b c s0) (hb : b ≤ 3) :
    SpecR c False (Post c s0 1 (fun r _ => SpanOk c.src r)) (take c t s0) := by
  unfold take
  refine SpecR.bind' (pnext_spec T h hb) id ?_
  intro r s ⟨hi, hm, hn, hsp, _⟩
  split
  · exact ⟨hi, hm, hn, hsp⟩
  · exact fail_ok _ hi hsp

omit T in
/-- `take` right after a successful `peek_is` of the same token cannot fail -/
theorem take_front {s : PState} {t : TokKind} {sp : Span} {rest : List QItem}
    (h : s.peeked = .tok t sp :: rest) : take c t s = .ok sp { s with peeked := rest } := by
  simp [take, pnext_front h, PR.bind]

theorem identifier_spec {b : Nat} {s0 : PState} (h : InvB b c s0) (hb : b ≤ 3) :
    SpecR c False (Post c s0 1 Vid) (identifier c s0) := by
  unfold identifier
  refine SpecR.bind' (pnext_spec T h hb) id ?_
  intro r s ⟨hi, hm, hn, hsp, _⟩
  split
  · exact addNode_ok _ _ hi hsp hm hn
  · exact fail_ok _ hi hsp

/-! ## `peek_many` -/

theorem fillQ_spec (stops : List TokKind) (k : Nat) {b : Nat} {s0 : PState} (h : InvB b c s0) :
    SpecR c False (fun r s => InvB (b + k) c s ∧ μ s ≤ μ s0 ∧ nsz s = nsz s0 ∧
      (r = true → s.peeked.length = s0.peeked.length + k) ∧ s0.peeked.length ≤ s.peeked.length ∧
      s.peeked.length ≤ s0.peeked.length + k)
      (fillQ c stops k s0) := by
  induction k generalizing b s0 with
  | zero => exact ⟨h, Nat.le_refl _, rfl, by intro _; rfl, Nat.le_refl _, Nat.le_refl _⟩
  | succ k ih =>
    unfold fillQ
    split
    · exact ⟨h.mono (by omega), Nat.le_refl _, rfl, (by intro e; cases e), Nat.le_refl _, by omega⟩
    · refine SpecR.bind' (lexInner_spec T h) id ?_
      intro r s ⟨hs, hpk, hr⟩
      cases r with
      | none =>
        exact ⟨⟨hs.reach, by rw [hpk]; exact h.q, by rw [hpk]; have := h.len; omega,
          by rw [hs.rsp]; exact h.sp, hs.al⟩, by simpa [μ, hpk] using hr, by simp [nsz, hs.rsp],
          (by intro e; cases e), by rw [hpk]; exact Nat.le_refl _, by rw [hpk]; omega⟩
      | some it =>
        have hitok : QOk c.src it := by cases it <;> exact hr.1
        have hi1 : InvB (b + 1) c { s with peeked := s.peeked ++ [it] } :=
          ⟨hs.reach, by intro x hx; simp only [List.mem_append, List.mem_singleton] at hx
                        rcases hx with hx | rfl
                        · rw [hpk] at hx; exact h.q x hx
                        · exact hitok,
           by simp [hpk]; have := h.len; omega, by rw [hs.rsp]; exact h.sp, hs.al⟩
        have hm1 : μ { s with peeked := s.peeked ++ [it] } ≤ μ s0 := by
          cases it with
          | tok k sp => have := hr.2; simp [μ, hpk, qtoks_append, qtoks] at this ⊢; omega
          | invalid sp => have := hr.2; simp [μ, hpk, qtoks_append, qtoks] at this ⊢; omega
        refine (ih hi1).mono id ?_
        intro r' s' ⟨a1, a2, a3, a4, a5, a6⟩
        refine ⟨by have : b + 1 + k = b + (k + 1) := by omega
                   rw [this] at a1; exact a1, by omega, ?_, ?_, ?_, ?_⟩
        · rw [a3]; simp [nsz, hs.rsp]
        · intro e; rw [a4 e]; simp [hpk]; omega
        · simp [hpk] at a5; omega
        · simp [hpk] at a6; omega

omit T in
theorem firstToks_ok (n : Nat) (q : List QItem) (h : n ≤ q.length) : ∃ r, firstToks n q = .ok r := by
  induction n generalizing q with
  | zero => exact ⟨_, rfl⟩
  | succ n ih =>
    cases q with
    | nil => simp at h
    | cons it rest =>
      cases it with
      | invalid sp => exact ⟨_, rfl⟩
      | tok k sp =>
        obtain ⟨r, hr⟩ := ih rest (by simp at h; omega)
        simp only [firstToks, hr]
        cases r <;> exact ⟨_, rfl⟩

/-- `peek_many::<n>` from a state with at most `b ≤ n` queued items -/
theorem peekMany_spec (stops : List TokKind) (n : Nat) {b : Nat} {s0 : PState} (h : InvB b c s0)
    (hb : b ≤ n) :
    SpecR c False (fun _ s => InvB n c s ∧ μ s ≤ μ s0 ∧ nsz s = nsz s0) (peekMany c stops n s0) := by
  unfold peekMany
  have hl := h.len
  rw [if_neg (by omega)]
  refine SpecR.bind' (fillQ_spec T stops _ (h.mono (Nat.le_refl _))) id ?_
  intro full s ⟨hi, hm, hn, hfull, hge, hle⟩
  have hlen : s.peeked.length ≤ n := by omega
  cases full with
  | true =>
    simp only [if_true]
    obtain ⟨r, hr⟩ := firstToks_ok n s.peeked (by have := hfull rfl; omega)
    rw [hr]
    exact ⟨⟨hi.reach, hi.q, hlen, hi.sp, hi.al⟩, hm, hn⟩
  | false => exact ⟨⟨hi.reach, hi.q, hlen, hi.sp, hi.al⟩, hm, hn⟩

end

end RotoV.Parse
