/-
  C07, rule "recursive constants": from the PROGRAM-level rule of the
  declarative checker (`Typing.constIsRecursive`: the constant's initialiser
  mentions an item that leads back to the constant) to the reference graph, for
  EVERY numbering of the items (the rank order of the names is whatever the
  symbol table makes it).

  `progGraph p rank` is the reference graph of `p` with item `i` numbered
  `rank i`; `constIsRecursive p c` gives a cycle through `rank (.const c)` in it
  (`prog_cycle`). With `recursive_constant_reported` this yields: what the
  declarative rule rejects, `find_compilation_order` on the program's reference
  graph rejects — in every rank order.

  (That the type checker COLLECTS exactly this graph is the tie of the
  differential run, phase `cyc`.)
-/
import RotoV.Model.Typing
import RotoV.Lemmas.TcValueCycle

namespace RotoV.TcValueCycle
open RotoV.Tarjan
open RotoV.Typing (Item Prog Decl itemRefs itemReaches constIsRecursive)

/-- the items (functions and constants) a program declares, in source order -/
def items (p : Prog) : List Item :=
  p.decls.filterMap fun
    | .fn n _ _ _ => some (.fn n)
    | .const n _ _ => some (.const n)
    | .type _ _ => none

def isConstItem : Item → Bool
  | .const _ => true
  | .fn _ => false

/-- the reference graph of a program under a numbering of its items -/
def progGraph (p : Prog) (rank : Item → Nat) : Graph :=
  ⟨(items p).map fun i => (rank i, (itemRefs p i).map rank),
   fun n => if (items p).any (fun i => isConstItem i && rank i == n) then .const else .func⟩

/-- `i` mentions `j` -/
def Mentions (p : Prog) (i j : Item) : Prop := j ∈ itemRefs p i

inductive ReachI (p : Prog) : Item → Item → Prop
  | refl (a : Item) : ReachI p a a
  | step {a b c : Item} : Mentions p a b → ReachI p b c → ReachI p a c

theorem itemReaches_sound (p : Prog) (target : Item) : ∀ (fuel : Nat) (frontier : List Item),
    itemReaches p target fuel frontier = true → ∃ y, y ∈ frontier ∧ ReachI p y target := by
  intro fuel
  induction fuel with
  | zero => intro fr h; simp [itemReaches] at h
  | succ n ih =>
    intro fr h
    simp only [itemReaches, Bool.or_eq_true, List.contains_eq_mem, decide_eq_true_eq] at h
    rcases h with h | h
    · exact ⟨target, h, .refl _⟩
    · obtain ⟨y, hy, r⟩ := ih _ h
      obtain ⟨z, hz, hzy⟩ := List.mem_flatMap.1 hy
      exact ⟨z, hz, .step hzy r⟩

/-- an item that mentions anything is declared -/
theorem declared_of_mentions {p : Prog} {i j : Item} (h : Mentions p i j) : i ∈ items p := by
  unfold Mentions itemRefs at h
  obtain ⟨d, hd, hj⟩ := List.mem_flatMap.1 h
  unfold items
  refine List.mem_filterMap.2 ⟨d, hd, ?_⟩
  cases d with
  | fn n ps rt body =>
    simp only at hj ⊢
    split at hj
    · next he => rw [he]
    · simp at hj
  | const n ty e =>
    simp only at hj ⊢
    split at hj
    · next he => rw [he]
    · simp at hj
  | type n d => simp at hj

theorem lookup_map_rank {β} (rank : Item → Nat) (hinj : ∀ a b, rank a = rank b → a = b)
    (f : Item → β) : ∀ (l : List Item) (i : Item), i ∈ l →
    (l.map fun x => (rank x, f x)).lookup (rank i) = some (f i) := by
  intro l
  induction l with
  | nil => intro i h; simp at h
  | cons x l ih =>
    intro i h
    simp only [List.map_cons, List.lookup]
    by_cases hx : rank i = rank x
    · have : i = x := hinj _ _ hx
      subst this
      simp
    · have hb : (rank i == rank x) = false := by simpa using hx
      simp only [hb]
      rcases List.mem_cons.1 h with h | h
      · subst h; exact absurd rfl hx
      · exact ih i h

theorem edge_of_mentions {p : Prog} (rank : Item → Nat) (hinj : ∀ a b, rank a = rank b → a = b)
    {i j : Item} (h : Mentions p i j) : Edge (progGraph p rank) (rank i) (rank j) := by
  have hd := declared_of_mentions h
  unfold Edge Graph.refs progGraph
  simp only
  rw [lookup_map_rank rank hinj (fun x => (itemRefs p x).map rank) (items p) i hd]
  exact List.mem_map.2 ⟨j, h, rfl⟩

theorem reach_of_reachI {p : Prog} (rank : Item → Nat) (hinj : ∀ a b, rank a = rank b → a = b)
    {a b : Item} (r : ReachI p a b) : Reach (progGraph p rank) (rank a) (rank b) := by
  induction r with
  | refl => exact .refl _
  | step e _ ih => exact .step (edge_of_mentions rank hinj e) ih

/-- the declarative rule gives a cycle through the constant in the program's
reference graph, whatever the numbering -/
theorem prog_cycle (p : Prog) (rank : Item → Nat) (hinj : ∀ a b, rank a = rank b → a = b) (c : Nat)
    (h : constIsRecursive p c = true) :
    ∃ d, (progGraph p rank).kind (rank (.const c)) = .const ∧
      Edge (progGraph p rank) (rank (.const c)) d ∧ Reach (progGraph p rank) d (rank (.const c)) := by
  unfold constIsRecursive at h
  obtain ⟨y, hy, r⟩ := itemReaches_sound p _ _ _ h
  have hm : Mentions p (.const c) y := hy
  have hd := declared_of_mentions hm
  refine ⟨rank y, ?_, edge_of_mentions rank hinj hm, reach_of_reachI rank hinj r⟩
  have : (items p).any (fun i => isConstItem i && rank i == rank (Item.const c)) = true :=
    List.any_eq_true.2 ⟨.const c, hd, by simp [isConstItem]⟩
  show (if (items p).any (fun i => isConstItem i && rank i == rank (Item.const c)) then Kind.const else Kind.func) = Kind.const
  rw [if_pos this]

end RotoV.TcValueCycle
