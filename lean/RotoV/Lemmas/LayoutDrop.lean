/-
  Lemmas/LayoutDrop — C02: the generated drop function (`dropTy`) releases
  exactly the owned handles (`handles`) of the stored value, each once, in
  field order; by mutual induction over type trees.
-/
import RotoV.Lemmas.LayoutTotal
namespace RotoV.Layout
open RotoV RotoV.LayoutStd RotoV.Gen.LayoutGen

mutual
theorem handles_nil_of_no_drop (m : Mem) : ∀ (t : Ty) (a : Nat), needsDrop t = false → handles m t a = []
  | .unit, a, _ => by simp [handles]
  | .never, a, _ => by simp [handles]
  | .leaf k s al, a, h => by
    simp only [needsDrop, needsClone] at h
    simp [handles, h]
  | .record fs, a, h => by
    simp only [needsDrop, needsClone] at h
    simp only [handles]
    exact handlesFields_nil m fs _ a h
  | .enum vs, a, h => by
    simp only [needsDrop, needsClone] at h
    simp only [handles]
    exact handlesVariant_nil m vs _ a h
theorem handlesFields_nil (m : Mem) : ∀ (ts : Tys) (b : LayoutBuilder) (a : Nat),
    anyNeedsClone ts = false → handlesFields m ts b a = []
  | .nil, b, a, _ => by simp [handlesFields]
  | .cons t ts, b, a, h => by
    simp only [anyNeedsClone, Bool.or_eq_false_iff] at h
    cases hl : layoutOf t with
    | none => simp [handlesFields, hl]
    | some l =>
      simp [handlesFields, hl, handles_nil_of_no_drop m t _ (by simpa [needsDrop] using h.1),
        handlesFields_nil m ts _ a h.2]
theorem handlesVariant_nil (m : Mem) : ∀ (vs : Vars) (tag a : Nat),
    anyVarNeedsClone vs = false → handlesVariant m vs tag a = []
  | .nil, tag, a, _ => by simp [handlesVariant]
  | .cons v vs, 0, a, h => by
    simp only [anyVarNeedsClone, Bool.or_eq_false_iff] at h
    simp only [handlesVariant]
    exact handlesFields_nil m v _ a h.1
  | .cons v vs, tag + 1, a, h => by
    simp only [anyVarNeedsClone, Bool.or_eq_false_iff] at h
    simp only [handlesVariant]
    exact handlesVariant_nil m vs tag a h.2
end

mutual
/-- the generated drop function releases exactly the owned handles of the
    stored value, each once, in field order -/
theorem dropTy_handles (m : Mem) : ∀ (t : Ty) (L : Layout), layoutOf t = some L →
    ∀ (a : Nat) (v : V), decode m t a = some v → dropTy m t a = handles m t a
  | .unit, L, _, a, v, _ => by simp [dropTy, handles]
  | .never, L, h, _, _, _ => by simp [layoutOf] at h
  | .leaf k s al, L, _, a, v, _ => by
    simp [dropTy, handles, needsDrop, needsClone]
  | .record fs, L, h, a, v, hv => by
    simp only [dropTy, handles]
    by_cases hd : needsDrop (.record fs) = true
    · simp only [hd, if_true]
      cases hb : buildFields fs LayoutBuilder.new with
      | none => simp [layoutOf, hb] at h
      | some b =>
        cases hdf : decodeFields m fs LayoutBuilder.new a with
        | none => simp [decode, hdf] at hv
        | some vs => exact dropFields_handles m fs _ b hb a vs hdf
    · have hd' : needsDrop (.record fs) = false := by simpa using hd
      have := handles_nil_of_no_drop m (.record fs) a hd'
      simp only [handles] at this
      simp [hd', this]
  | .enum vs, L, h, a, v, hv => by
    simp only [dropTy, handles]
    by_cases hd : needsDrop (.enum vs) = true
    · simp only [hd, if_true]
      cases hdv : decodeVariant m vs (m a) a with
      | none => simp [decode, hdv] at hv
      | some fs => exact dropVariant_handles m vs (m a) a fs hdv
    · have hd' : needsDrop (.enum vs) = false := by simpa using hd
      have := handles_nil_of_no_drop m (.enum vs) a hd'
      simp only [handles] at this
      simp [hd', this]
theorem dropFields_handles (m : Mem) : ∀ (ts : Tys) (b b' : LayoutBuilder), buildFields ts b = some b' →
    ∀ (a : Nat) (vs : Vs), decodeFields m ts b a = some vs → dropFields m ts b a = handlesFields m ts b a
  | .nil, b, b', _, a, vs, _ => by simp [dropFields, handlesFields]
  | .cons t ts, b, b', h, a, vs, hv => by
    cases hl : layoutOf t with
    | none => simp [buildFields, hl] at h
    | some l =>
      simp [buildFields, hl] at h
      obtain ⟨v, vs', h1, h2, _⟩ := decodeFields_cons_some m t ts b a vs l hl hv
      have ih2 := dropFields_handles m ts _ b' h a vs' h2
      simp only [dropFields, handlesFields, hl, ih2]
      by_cases hd : needsDrop t = true
      · simp only [hd, if_true]
        rw [dropTy_handles m t l hl _ v h1]
      · have hd' : needsDrop t = false := by simpa using hd
        simp [hd', handles_nil_of_no_drop m t _ hd']
theorem dropVariant_handles (m : Mem) : ∀ (vs : Vars) (tag a : Nat) (fs : Vs),
    decodeVariant m vs tag a = some fs → dropVariant m vs tag a = handlesVariant m vs tag a
  | .nil, tag, a, fs, h => by simp [decodeVariant] at h
  | .cons v .nil, 0, a, fs, h => by
    simp only [decodeVariant] at h
    cases hc : collectLayouts v with
    | none => simp [collectLayouts_none_decode m v _ _ hc] at h
    | some ls =>
      obtain ⟨b', hb⟩ := buildFields_some_of_collect v variantStart ls hc
      simp only [dropVariant, handlesVariant, hc, variantStartDrop_eq]
      exact dropFields_handles m v _ b' hb a fs h
  | .cons v .nil, tag + 1, a, fs, h => by simp [decodeVariant] at h
  | .cons v (.cons v' vs), 0, a, fs, h => by
    simp only [decodeVariant] at h
    cases hc : collectLayouts v with
    | none => simp [collectLayouts_none_decode m v _ _ hc] at h
    | some ls =>
      obtain ⟨b', hb⟩ := buildFields_some_of_collect v variantStart ls hc
      simp only [dropVariant, handlesVariant, hc, variantStartDrop_eq]
      exact dropFields_handles m v _ b' hb a fs h
  | .cons v (.cons v' vs), tag + 1, a, fs, h => by
    simp only [decodeVariant] at h
    simp only [dropVariant, handlesVariant]
    exact dropVariant_handles m (.cons v' vs) tag a fs h
end

/-- the executed drop loop visits exactly the components `dropRecordLoop` lists -/
theorem dropFields_eq_visits (m : Mem) : ∀ (ts : Tys) (i : Nat) (b : LayoutBuilder) (a : Nat),
    dropFields m ts b a = (dropRecordLoop ts i b).flatMap (fun v => dropTy m v.2.2 (a + v.2.1))
  | .nil, i, b, a => by simp [dropFields, dropRecordLoop]
  | .cons t ts, i, b, a => by
    cases hl : layoutOf t with
    | none => simp [dropFields, dropRecordLoop, hl, dropFields_eq_visits m ts (i + 1) b a]
    | some l =>
      by_cases hd : needsDrop t = true
      · simp [dropFields, dropRecordLoop, hl, hd, dropFields_eq_visits m ts (i + 1) (b.add l).1 a]
      · have hd' : needsDrop t = false := by simpa using hd
        simp [dropFields, dropRecordLoop, hl, hd', dropFields_eq_visits m ts (i + 1) (b.add l).1 a]

/-- `Lowerer::location` is compositional: the location of `p ++ q` is the
    location of `q` inside the component `p` addresses, offsets added -/
theorem locate_append : ∀ (p q : List Proj) (t : Ty) (o : Nat),
    locate t (p ++ q) o =
      match locate t p o with
      | .panic => .panic
      | .ok none => .ok none
      | .ok (some (op, tp)) => locate tp q op
  | [], q, t, o => by simp [locate]
  | s :: p, q, t, o => by
    cases t with
    | record fs =>
      cases s with
      | field n =>
        simp only [List.cons_append, locate]
        cases h : getField fs n LayoutBuilder.new with
        | panic => simp
        | ok r =>
          obtain ⟨o1, t1⟩ := r
          simp only []
          exact locate_append p q t1 (o + o1)
      | variantField v n => simp [locate]
    | enum vs =>
      cases s with
      | field n => simp [locate]
      | variantField v n =>
        simp only [List.cons_append, locate]
        cases h : variantField vs v n with
        | panic => simp
        | ok r =>
          cases r with
          | none => simp
          | some r =>
            obtain ⟨o1, t1⟩ := r
            simp only []
            exact locate_append p q t1 (o + o1)
    | unit => simp [locate]
    | never => simp [locate]
    | leaf k s' a => simp [locate]

/-- by-reference types are exactly the ones lowered to `Pointer`; by-value
    types are lowered to a scalar or (zero-sized) to nothing -/
theorem reference_iff_pointer (t : Ty) :
    (isReferenceType t = some true ↔ lowerType t = .ok (some .pointer)) ∧
    (isReferenceType t = some false →
      lowerType t = .ok none ∨ (∃ s, lowerType t = .ok (some (.int s))) ∨ (∃ s, lowerType t = .ok (some (.float s)))) := by
  have hz : noIrValue t = true → isReferenceType t = some false := by
    intro h
    simp only [noIrValue, sizeZero, Bool.and_eq_true, bne_iff_ne, ne_eq] at h
    rw [isReferenceType_eq]
    cases hl : layoutOf t with
    | none => simp [hl] at h
    | some l =>
      simp [hl] at h
      simp [h.1, h.2]
  have hscalar : ∀ k s a, t = .leaf k s a → (k = .int ∨ k = .float) → isReferenceType t ≠ some true := by
    intro k s a ht hk
    subst ht
    rw [isReferenceType_eq]
    rcases hk with rfl | rfl <;>
      (by_cases h0 : s = 0 <;>
        simp [Ty.kind, layoutOf, Layout.new, Layout.get_size, h0, Gen.LayoutDecide.is_reference_type_arms])
  rcases lowerType_cases t with ⟨h0, h⟩ | ⟨h0, ⟨s, a, ht, h⟩ | ⟨s, a, ht, h⟩ | ⟨hr, h⟩ | ⟨hr, h⟩⟩
  · have := hz h0
    constructor
    · constructor
      · intro h'; rw [this] at h'; cases h'
      · intro h'; rw [h] at h'; cases h'
    · intro _; left; exact h
  · constructor
    · constructor
      · intro h'; exact absurd h' (hscalar _ s a ht (Or.inl rfl))
      · intro h'; rw [h] at h'; cases h'
    · intro _; right; left; exact ⟨s, h⟩
  · constructor
    · constructor
      · intro h'; exact absurd h' (hscalar _ s a ht (Or.inr rfl))
      · intro h'; rw [h] at h'; cases h'
    · intro _; right; right; exact ⟨s, h⟩
  · constructor
    · exact ⟨fun _ => h, fun _ => hr⟩
    · intro h'; rw [hr] at h'; cases h'
  · constructor
    · constructor
      · intro h'; rw [hr] at h'; cases h'
      · intro h'; rw [h] at h'; cases h'
    · intro h'; rw [hr] at h'; cases h'

end RotoV.Layout
