/-
  Specifications of the parser model's path, literal and type functions
  (`Model/Parse.lean`): no panic, errors cite spans of the source, the result's
  `MetaId` is an index of the span table, every success consumed input, and the
  fuel bound (`FB n r s0`: fuel `n` was below `32 · μ s0 + r`, `r` = the rank of
  the function in the order of calls that consume nothing first).
-/
import RotoV.Lemmas.ParseBase
import RotoV.Lemmas.ParseSub

namespace RotoV.Parse
open RotoV RotoV.Lex

/-- "the fuel `n` was below the bound": `n < 32 · μ s0 + r` -/
def FB (n r : Nat) (s0 : PState) : Prop := n < 32 * μ s0 + r

/-- what the theorems assume about the literal-decoder oracle: the byte range of
an escape error lies inside the text the escaper was given, on character
boundaries — the content `&s[1..s.len() - 1]` of a string literal (a token
whose text starts with `"`), piece `j` of an f-string text. Nothing is assumed
about any other literal. -/
def LitOk (c : Ctx) : Prop :=
  ∀ f s e k j a b, c.lit f s e = some (k, j, a, b) →
    (f = true → SpanOk (textOf (textOf c.src (s, e)) (pieceOf (textOf c.src (s, e)) j)) (a, b)) ∧
    (f = false → (textOf c.src (s, e)).head? = some '"' →
      SpanOk (textOf (textOf c.src (s, e)) (1, blen (textOf c.src (s, e)) - 1)) (a, b))

/-- one `bind` step: `pb spec` -/
macro "pb " t:term : tactic =>
  `(tactic| refine SpecR.bind' $t
      (by first | exact id | exact False.elim | (intro hF; simp only [FB] at hF ⊢; omega)) ?_)

/-- close a goal `SpecR … (fail …)` -/
macro "pfail " hi:term ", " hsp:term : tactic => `(tactic| exact fail_ok _ $hi $hsp)

/-- the accumulator of `path`: non-empty, all ids valid -/
def IdsOk (ids : List Node) (s : PState) : Prop := ids ≠ [] ∧ ∀ x ∈ ids, x.id < nsz s

theorem IdsOk.mono {ids : List Node} {s s' : PState} (h : IdsOk ids s) (hn : nsz s ≤ nsz s') : IdsOk ids s' :=
  ⟨h.1, fun x hx => Nat.lt_of_lt_of_le (h.2 x hx) hn⟩

theorem IdsOk.cons {ids : List Node} {s : PState} {x : Node} (h : ids = [] ∨ IdsOk ids s) (hx : x.id < nsz s) :
    IdsOk (x :: ids) s := by
  refine ⟨by simp, ?_⟩
  intro y hy
  simp only [List.mem_cons] at hy
  rcases hy with rfl | hy
  · exact hx
  · rcases h with rfl | h
    · cases hy
    · exact h.2 y hy

section
variable (T : LexOk) {c : Ctx} (hl : LitOk c)
include T

theorem pathItem_spec {b : Nat} {s0 : PState} (h : InvB b c s0) (hb : b ≤ 3) :
    SpecR c False (Post c s0 1 Vid) (pathItem c s0) := by
  unfold pathItem
  pb pnext_spec T h hb
  intro r s ⟨hi, hm, hn, hsp, _⟩
  split
  · exact addNode_ok _ _ hi hsp hm hn
  · pfail hi, hsp

theorem pathLoop_spec (n : Nat) {ids : List Node} {s0 : PState} (h : InvB 2 c s0) (hids : IdsOk ids s0) :
    SpecR c (FB n 1 s0) (Post c s0 0 IdsOk) (pathLoop c n ids s0) := by
  induction n generalizing ids s0 with
  | zero => simp only [pathLoop, SpecR, FB]; omega
  | succ n ih =>
    unfold pathLoop
    pb nextIs_spec T _ h
    intro b s1 ⟨hi1, hm1, hn1, hb1⟩
    cases b with
    | false => exact ⟨hi1, hm1, hn1, hids.mono hn1⟩
    | true =>
      have := hb1 rfl
      simp only [if_true]
      pb pathItem_spec T hi1 (by omega)
      intro x s2 ⟨hi2, hm2, hn2, hx2⟩
      refine (ih hi2 (IdsOk.cons (Or.inr (hids.mono (by omega))) hx2)).mono
        (by intro hF; simp only [FB] at hF ⊢; omega) ?_
      intro r s3 ⟨a1, a2, a3, a4⟩
      exact ⟨a1, by omega, by omega, a4⟩

omit T in
theorem closePath_spec {ids : List Node} {s0 s : PState} {δ : Nat} {F : Prop} (hi : InvB 2 c s) (hids : IdsOk ids s)
    (hm : μ s + δ ≤ μ s0) (hn : nsz s0 ≤ nsz s) : SpecR c F (Post c s0 δ Vid) (closePath ids s) := by
  unfold closePath
  obtain ⟨hne, hall⟩ := hids
  cases hlast : ids.getLast? with
  | none => simp [List.getLast?_eq_none_iff] at hlast; exact absurd hlast hne
  | some f =>
    cases hhead : ids.head? with
    | none => simp [List.head?_eq_none_iff] at hhead; exact absurd hhead hne
    | some l =>
      have hf : f ∈ ids := List.mem_of_getLast? hlast
      have hl' : l ∈ ids := List.mem_of_head? hhead
      obtain ⟨sp, hsp, hk⟩ := mergeSpans_k hi (hall f hf) (hall l hl')
      simp only [hk]
      exact addNode_ok _ _ hi hsp hm hn

theorem path_spec (n : Nat) {s0 : PState} (h : InvB 2 c s0) :
    SpecR c (FB n 1 s0) (Post c s0 1 Vid) (path c n s0) := by
  unfold path
  pb pathItem_spec T h (by omega)
  intro x s1 ⟨hi1, hm1, hn1, hx1⟩
  pb pathLoop_spec T n hi1 (IdsOk.cons (Or.inl rfl) hx1)
  intro ids s2 ⟨hi2, hm2, hn2, hids2⟩
  exact closePath_spec hi2 hids2 (by omega) (by omega)

/-- `path_expr` / `path_list` (ranks: `path_list` 1, the loop of `path_expr` 2,
`path_expr` 3, the loop of `path_list` 4) -/
theorem pathExpr_group (n : Nat) :
    (∀ s0, InvB 2 c s0 → SpecR c (FB n 3 s0) (Post c s0 1 fun _ _ => True) (pathExpr c n s0)) ∧
    (∀ root s0, InvB 2 c s0 → (root = [] ∨ IdsOk root s0) →
      SpecR c (FB n 2 s0) (Post c s0 1 fun _ _ => True) (pathExprLoop c n root s0)) ∧
    (∀ s0, InvB 2 c s0 → SpecR c (FB n 1 s0) (Post c s0 1 fun _ _ => True) (pathList c n s0)) ∧
    (∀ acc s0, InvB 2 c s0 → SpecR c (FB n 4 s0) (Post c s0 1 fun _ _ => True) (pathListLoop c n acc s0)) := by
  induction n with
  | zero =>
    refine ⟨?_, ?_, ?_, ?_⟩ <;> intros <;> simp only [pathExpr, pathExprLoop, pathList, pathListLoop, SpecR, FB] <;> omega
  | succ n ih =>
    obtain ⟨ih1, ih2, ih3, ih4⟩ := ih
    refine ⟨?_, ?_, ?_, ?_⟩
    · intro s0 h
      unfold pathExpr
      exact (ih2 [] s0 h (Or.inl rfl)).mono (by intro hF; simp only [FB] at hF ⊢; omega) fun _ _ h => h
    · intro root s0 h hroot
      unfold pathExprLoop
      pb peekIs_post T _ h
      intro b s1 ⟨hi1, hm1, hn1, _⟩
      cases b with
      | true =>
        simp only [if_true]
        pb ih3 s1 hi1
        intro subs s2 ⟨hi2, hm2, hn2, _⟩
        exact ⟨hi2, by omega, by omega, trivial⟩
      | false =>
        simp only [Bool.false_eq_true, if_false]
        pb pathItem_spec T hi1 (by omega)
        intro x s2 ⟨hi2, hm2, hn2, hx2⟩
        have hroot2 : IdsOk (x :: root) s2 :=
          IdsOk.cons (hroot.imp id fun hr => hr.mono (by omega)) hx2
        pb nextIs_spec T _ hi2
        intro b s3 ⟨hi3, hm3, hn3, hb3⟩
        cases b with
        | true =>
          simp only [if_true]
          refine (ih2 _ s3 hi3 (Or.inr (hroot2.mono hn3))).mono
            (by intro hF; simp only [FB] at hF ⊢; omega) ?_
          intro r s4 ⟨a1, a2, a3, _⟩
          exact ⟨a1, by omega, by omega, trivial⟩
        | false =>
          simp only [Bool.false_eq_true, if_false]
          pb (closePath_spec (s0 := s0) (δ := 1) hi3 (hroot2.mono hn3) (by omega) (by omega))
          intro _ s4 ⟨a1, a2, a3, _⟩
          exact ⟨a1, a2, a3, trivial⟩
    · intro s0 h
      unfold pathList
      pb take_spec T _ h (by omega)
      intro _ s1 ⟨hi1, hm1, hn1, _⟩
      pb ih4 [] s1 hi1
      intro ps s2 ⟨hi2, hm2, hn2, _⟩
      pb take_spec T _ hi2 (by omega)
      intro _ s3 ⟨hi3, hm3, hn3, _⟩
      exact ⟨hi3, by omega, by omega, trivial⟩
    · intro acc s0 h
      unfold pathListLoop
      pb ih1 s0 h
      intro ps s1 ⟨hi1, hm1, hn1, _⟩
      pb nextIs_spec T _ hi1
      intro b s2 ⟨hi2, hm2, hn2, hb2⟩
      cases b with
      | true =>
        simp only [if_true]
        refine (ih4 _ s2 hi2).mono (by intro hF; simp only [FB] at hF ⊢; omega) ?_
        intro r s3 ⟨a1, a2, a3, _⟩
        exact ⟨a1, by omega, by omega, trivial⟩
      | false => exact ⟨hi2, by omega, by omega, trivial⟩

theorem importStmt_spec (n : Nat) {s0 : PState} (h : InvB 2 c s0) :
    SpecR c (FB n 0 s0) (Post c s0 1 fun _ _ => True) (importStmt c n s0) := by
  unfold importStmt
  pb take_spec T _ h (by omega)
  intro _ s1 ⟨hi1, hm1, hn1, _⟩
  pb (pathExpr_group T n).1 s1 hi1
  intro ps s2 ⟨hi2, hm2, hn2, _⟩
  pb take_spec T _ hi2 (by omega)
  intro _ s3 ⟨hi3, hm3, hn3, _⟩
  exact ⟨hi3, by omega, by omega, trivial⟩

/-! ## literals -/

include hl

omit T in
theorem decodeLit_spec {s0 s : PState} {δ : Nat} {F : Prop} (k : TokKind) (sp : Span) (hi : InvB 2 c s)
    (hsp : SpanOk c.src sp) (htext : TextOk k (textOf c.src sp)) (hm : μ s + δ ≤ μ s0) (hn : nsz s0 ≤ nsz s) :
    SpecR c F (Post c s0 δ Vid) (decodeLit c k sp s) := by
  unfold decodeLit
  split
  · rename_i ek j a b he
    obtain ⟨_, hstr⟩ := hl _ _ _ _ _ _ _ he
    obtain ⟨pre, post, _, _, hlen⟩ := textOf_of_spanOk hsp
    refine fail_ok _ hi ?_
    cases k with
    | string =>
      obtain ⟨m, hm'⟩ := htext
      have h2 : SpanOk (textOf c.src sp) (1, blen (textOf c.src sp) - 1) := by
        rw [hm']; exact content_spanOk (by decide) m
      have h3 := hstr rfl (by rw [hm']; rfl)
      have := spanOk_in2 hsp h2 h3
      exact this
    | char =>
      obtain ⟨m, hm'⟩ := htext
      have h2 : SpanOk (textOf c.src sp) (1, blen (textOf c.src sp)) := by
        rw [hm']; exact afterQuote_spanOk (by decide) m
      have := spanOk_in hsp h2
      have e : sp.1 + blen (textOf c.src sp) = sp.2 := hlen
      simp only at this
      rw [e] at this
      exact this
    | _ => exact hsp
  · exact addNode_ok _ _ hi hsp hm hn

theorem ipAddress_spec {s0 : PState} (h : InvB 2 c s0) :
    SpecR c False (Post c s0 1 Vid) (ipAddress c s0) := by
  unfold ipAddress
  pb pnext_spec T h (by omega)
  intro r s ⟨hi, hm, hn, hsp, _, htext⟩
  split
  · exact decodeLit_spec hl _ _ hi hsp htext hm hn
  · pfail hi, hsp

omit T hl in
/-- the slices of `simple_literal` cannot panic on a token of the lexer -/
theorem litSlices_ok {k : TokKind} {t : List Char} (h : TextOk k t) : litSlices k t = .ok () := by
  have quote : ∀ (q : Char) (m : List Char), sz q = 1 →
      (match usub (blen (q :: (m ++ [q]))) 1 with
        | .panic => (Res.panic : Res Unit)
        | .ok e => match slice (q :: (m ++ [q])) 1 e with
          | .ok _ => .ok ()
          | .panic => .panic) = .ok () := by
    intro q m hq
    have hb : blen (q :: (m ++ [q])) = 1 + blen m + 1 := by
      simp only [blen, blen_append, hq]; omega
    rw [hb, usub_ok (by omega)]
    have h1 : splitAt (q :: (m ++ [q])) 1 = .ok ([q], m ++ [q]) := by
      have := splitAt_append [q] (m ++ [q])
      simpa [blen, hq] using this
    have h2 : splitAt (m ++ [q]) (blen m) = .ok (m, [q]) := splitAt_append m [q]
    have e : 1 + blen m + 1 - 1 - 1 = blen m := by omega
    simp only [slice, h1, usub_ok (show 1 ≤ 1 + blen m + 1 - 1 by omega), sliceTo, e, h2]
  have pre2 : ∀ (a b : Char) (m : List Char), sz a = 1 → sz b = 1 →
      (match sliceFrom (a :: b :: m) 2 with
        | .ok _ => (Res.ok () : Res Unit)
        | .panic => .panic) = .ok () := by
    intro a b m ha hb
    have : splitAt (a :: b :: m) 2 = .ok ([a, b], m) := by
      have := splitAt_append [a, b] m
      simpa [blen, ha, hb] using this
    simp only [sliceFrom, this]
  cases k <;> simp only [litSlices]
  · obtain ⟨m, rfl⟩ := h; exact quote _ m (by decide)
  · obtain ⟨m, rfl⟩ := h; exact quote _ m (by decide)
  · obtain ⟨m, rfl⟩ := h; exact pre2 _ _ m (by decide) (by decide)
  · obtain ⟨m, rfl⟩ := h; exact pre2 _ _ m (by decide) (by decide)

theorem simpleLiteral_spec {s0 : PState} (h : InvB 2 c s0) :
    SpecR c False (Post c s0 1 Vid) (simpleLiteral c s0) := by
  unfold simpleLiteral
  pb pnext_spec T h (by omega)
  intro r s ⟨hi, hm, hn, hsp, _, htext⟩
  split
  · rw [litSlices_ok htext]
    dsimp only
    split
    · exact addNode_ok _ _ hi hsp hm hn
    · exact decodeLit_spec hl _ _ hi hsp htext hm hn
  · pfail hi, hsp

theorem literal_spec {s0 : PState} (h : InvB 2 c s0) :
    SpecR c False (Post c s0 1 Vid) (literal c s0) := by
  unfold literal
  pb ppeek_post T h
  intro k s1 ⟨hi1, hm1, hn1, _⟩
  have e1 := (ipAddress_spec T hl hi1).mono id (fun a s (hp : Post c s1 1 Vid a s) =>
    (⟨hp.1, by have := hp.2.1; omega, by have := hp.2.2.1; omega, hp.2.2.2⟩ : Post c s0 1 Vid a s))
  have e2 := (simpleLiteral_spec T hl hi1).mono id (fun a s (hp : Post c s1 1 Vid a s) =>
    (⟨hp.1, by have := hp.2.1; omega, by have := hp.2.2.1; omega, hp.2.2.2⟩ : Post c s0 1 Vid a s))
  split
  · split
    · exact e1
    · exact e2
  · exact e2

end

end RotoV.Parse
