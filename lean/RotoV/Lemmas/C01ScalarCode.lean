/-
  C01ScalarCode: the structured MIR the lowering model emits for a program of the
  common fragment (`C01Resolve.resolve`) is scalar code (`C01MirComplete.scC`):
  only constants in the `i32` range / booleans / `()`, clones, moves, `binop`, `not`,
  `neg`, script-function calls, two-way switches, loops and `return` — so the
  table-based executable semantics is complete on it (`C01MirComplete`).
-/
import RotoV.Lemmas.C01MirComplete
import RotoV.Model.C01Resolve

namespace RotoV.C01ScalarCode
open RotoV RotoV.C01Resolve RotoV.LowerS RotoV.C01MirComplete RotoV.C01MirRun

theorem scC_append : ∀ (a b : Code), scC (a ++ b) = (scC a && scC b)
  | [], b => by simp [scC]
  | s :: a, b => by simp [scC, scC_append a b, Bool.and_assoc]

theorem scC_atv {v : Value} (c : Nat) (h : scV v = true) : scC (atvCode v c) = true := by
  cases v <;> simp_all [atvCode, scC, scS]

theorem okVal_of_lit {v : Spec.Val} {v' : TraceSpec.Val} (hl : litOk v = true) (he : encVal v = some v') :
    okVal v' = true := by
  cases v with
  | int t n =>
    cases t <;> simp [encVal] at he
    subst he
    exact hl
  | f32 b => simp [encVal] at he
  | f64 b => simp [encVal] at he
  | bool b => simp [encVal] at he; subst he; rfl
  | unit => simp [encVal] at he; subst he; rfl
  | enum t k fs => simp [encVal] at he

macro "inv" h:ident : tactic => `(tactic|
  simp only [lowerE, lowerBlock, lowerArgs, shortCircuit, Option.bind_eq_bind, Option.bind_eq_some_iff, Option.pure_def,
    Option.some.injEq, Prod.mk.injEq, Prod.exists] at $h:ident)

macro "fin" : tactic => `(tactic|
  simp_all [scC_append, scC, scS, scV, scC_atv, okVal])

mutual
theorem trE_sc (fs : List String) : ∀ (e : Spec.Expr) (ρ : List String) (e' : TraceSpec.Expr) (c : Nat) (code : Code)
    (v : Value) (c' : Nat), trE fs ρ e = some e' → lowerE e' c = some (code, v, c') → scC code = true ∧ scV v = true
  | .lit w, ρ, e', c, code, v, c', h, hl => by
    simp only [trE] at h
    split at h
    · rename_i hok
      obtain ⟨w', hw, rfl⟩ := Option.map_eq_some_iff.mp h
      inv hl
      obtain ⟨rfl, rfl, rfl⟩ := hl
      exact ⟨rfl, okVal_of_lit hok hw⟩
    · cases h
  | .var x, ρ, e', c, code, v, c', h, hl => by
    simp only [trE] at h
    obtain ⟨i, _, rfl⟩ := Option.map_eq_some_iff.mp h
    inv hl
    obtain ⟨rfl, rfl, rfl⟩ := hl
    exact ⟨rfl, rfl⟩
  | .neg e, ρ, e', c, code, v, c', h, hl => by
    simp only [trE] at h
    obtain ⟨e1, h1, rfl⟩ := Option.map_eq_some_iff.mp h
    inv hl
    obtain ⟨ce, ve, c1, hle, rfl, rfl, rfl⟩ := hl
    have := trE_sc fs e ρ e1 c ce ve c1 h1 hle
    fin
  | .not e, ρ, e', c, code, v, c', h, hl => by
    simp only [trE] at h
    obtain ⟨e1, h1, rfl⟩ := Option.map_eq_some_iff.mp h
    inv hl
    obtain ⟨ce, ve, c1, hle, rfl, rfl, rfl⟩ := hl
    have := trE_sc fs e ρ e1 c ce ve c1 h1 hle
    fin
  | .bin op l r, ρ, e', c, code, v, c', h, hl => by
    simp only [trE] at h
    split at h
    case h_2 => cases h
    rename_i l' r' hl' hr'
    cases op <;> simp [encOp] at h <;> subst h
    all_goals
      inv hl
      obtain ⟨cl, vl, c1, hll, cr, vr, c2, hlr, rfl, rfl, rfl⟩ := hl
      have := trE_sc fs l ρ l' _ cl vl c1 hl' hll
      have := trE_sc fs r ρ r' _ cr vr c2 hr' hlr
      fin
  | .ite cnd t none, ρ, e', c, code, v, c', h, hl => by
    simp only [trE] at h
    split at h
    case h_2 => cases h
    rename_i c1' t' hc ht
    simp only [Option.some.injEq] at h; subst h
    inv hl
    obtain ⟨cc, vc, c1, hlc, ct, xt, c2, hlt, rfl, rfl, rfl⟩ := hl
    have := trE_sc fs cnd ρ c1' c cc vc c1 hc hlc
    have := trBU_sc fs t ρ t' _ ct xt c2 ht hlt
    fin
  | .ite cnd t (some el), ρ, e', c, code, v, c', h, hl => by
    simp only [trE] at h
    split at h
    case h_2 => cases h
    rename_i c1' t' el' hc ht he
    simp only [Option.some.injEq] at h; subst h
    inv hl
    obtain ⟨cc, vc, c1, hlc, ct, xt, c2, hlt, ce, xe, c3, hle, rfl, rfl, rfl⟩ := hl
    have := trE_sc fs cnd ρ c1' c cc vc c1 hc hlc
    have := trB_sc fs t ρ t' _ ct xt c2 ht hlt
    have := trB_sc fs el ρ el' _ ce xe c3 he hle
    fin
  | .while cnd b, ρ, e', c, code, v, c', h, hl => by
    simp only [trE] at h
    split at h
    case h_2 => cases h
    rename_i c1' b' hc hb
    simp only [Option.some.injEq] at h; subst h
    inv hl
    obtain ⟨cc, vc, c1, hlc, cb, xb, c2, hlb, rfl, rfl, rfl⟩ := hl
    have := trE_sc fs cnd ρ c1' _ cc vc c1 hc hlc
    have := trB_sc fs b ρ b' _ cb xb c2 hb hlb
    fin
  | .block b, ρ, e', c, code, v, c', h, hl => by
    simp only [trE] at h
    obtain ⟨b', hb, rfl⟩ := Option.map_eq_some_iff.mp h
    inv hl
    obtain ⟨cb, xb, c2, hlb, rfl, rfl, rfl⟩ := hl
    have := trB_sc fs b ρ b' _ cb xb c2 hb hlb
    fin
  | .call f args, ρ, e', c, code, v, c', h, hl => by
    simp only [trE] at h
    split at h
    case h_2 => cases h
    rename_i i args' hi ha
    simp only [Option.some.injEq] at h; subst h
    inv hl
    obtain ⟨ca, tmps, c2, hla, rfl, rfl, rfl⟩ := hl
    have := trArgs_sc fs args ρ args' _ ca tmps c2 ha hla
    fin
  | .assign x e, ρ, e', c, code, v, c', h, hl => by
    simp only [trE] at h
    split at h
    case h_2 => cases h
    rename_i i e1 hi he
    simp only [Option.some.injEq] at h; subst h
    inv hl
    obtain ⟨ce, ve, c1, hle, rfl, rfl, rfl⟩ := hl
    have := trE_sc fs e ρ e1 c ce ve c1 he hle
    fin
  | .cassign op x e, ρ, e', c, code, v, c', h, hl => by
    simp only [trE] at h
    split at h
    case h_2 => cases h
    rename_i op' i e1 hop hi he
    split at h
    case isFalse => cases h
    rename_i harith
    simp only [Option.some.injEq] at h; subst h
    simp only [lowerE, harith, if_true] at hl
    inv hl
    obtain ⟨cr, vr, c1, hle, rfl, rfl, rfl⟩ := hl
    have := trE_sc fs e ρ e1 _ cr vr c1 he hle
    fin
  | .ret none, ρ, e', c, code, v, c', h, hl => by
    simp only [trE, Option.some.injEq] at h; subst h
    inv hl
    obtain ⟨ce, ve, c1, ⟨rfl, rfl, rfl⟩, rfl, rfl, rfl⟩ := hl
    simp [scC_append, scC, scS, scV, atvCode, okVal]
  | .ret (some e), ρ, e', c, code, v, c', h, hl => by
    simp only [trE] at h
    obtain ⟨e1, h1, rfl⟩ := Option.map_eq_some_iff.mp h
    inv hl
    obtain ⟨ce, ve, c1, hle, rfl, rfl, rfl⟩ := hl
    have := trE_sc fs e ρ e1 c ce ve c1 h1 hle
    fin

theorem trArgs_sc (fs : List String) : ∀ (es : List Spec.Expr) (ρ : List String) (es' : TraceSpec.Exprs) (c : Nat)
    (code : Code) (tmps : List Var) (c' : Nat), trArgs fs ρ es = some es' → lowerArgs es' c = some (code, tmps, c') →
    scC code = true
  | [], ρ, es', c, code, tmps, c', h, hl => by
    simp only [trArgs, Option.some.injEq] at h; subst h
    inv hl
    obtain ⟨rfl, rfl, rfl⟩ := hl
    rfl
  | e :: es, ρ, es', c, code, tmps, c', h, hl => by
    simp only [trArgs] at h
    split at h
    case h_2 => cases h
    rename_i e1 es1 he hes
    simp only [Option.some.injEq] at h; subst h
    inv hl
    obtain ⟨ce, ve, c1, hle, cs, ts, c2, hls, rfl, rfl, rfl⟩ := hl
    have := trE_sc fs e ρ e1 c ce ve c1 he hle
    have := trArgs_sc fs es ρ es1 _ cs ts c2 hes hls
    fin

theorem trB_sc (fs : List String) : ∀ (b : Spec.Block) (ρ : List String) (b' : TraceSpec.Block) (c : Nat) (code : Code)
    (x : Var) (c' : Nat), trB fs ρ b = some b' → lowerBlock b' c = some (code, x, c') → scC code = true
  | .mk stmts none, ρ, b', c, code, x, c', h, hl => by
    simp only [trB] at h
    refine trStmts_sc fs stmts ρ .nil b' ?_ h c code x c' hl
    intro c code x c' hl
    inv hl
    obtain ⟨rfl, rfl, rfl⟩ := hl
    fin
  | .mk stmts (some e), ρ, b', c, code, x, c', h, hl => by
    simp only [trB] at h
    split at h
    case h_2 => cases h
    rename_i e1 he
    refine trStmts_sc fs stmts ρ (.last e1) b' ?_ h c code x c' hl
    intro c code x c' hl
    inv hl
    obtain ⟨ce, ve, c1, hle, rfl, rfl, rfl⟩ := hl
    have := trE_sc fs e _ e1 c ce ve c1 he hle
    fin

theorem trBU_sc (fs : List String) : ∀ (b : Spec.Block) (ρ : List String) (b' : TraceSpec.Block) (c : Nat) (code : Code)
    (x : Var) (c' : Nat), trBU fs ρ b = some b' → lowerBlock b' c = some (code, x, c') → scC code = true
  | .mk stmts none, ρ, b', c, code, x, c', h, hl => by
    simp only [trBU] at h
    refine trStmts_sc fs stmts ρ .nil b' ?_ h c code x c' hl
    intro c code x c' hl
    inv hl
    obtain ⟨rfl, rfl, rfl⟩ := hl
    fin
  | .mk stmts (some e), ρ, b', c, code, x, c', h, hl => by simp [trBU] at h

theorem trStmts_sc (fs : List String) : ∀ (stmts : List Spec.Stmt) (ρ : List String) (tl b' : TraceSpec.Block),
    (∀ c code x c', lowerBlock tl c = some (code, x, c') → scC code = true) →
    trStmts fs ρ stmts tl = some b' → ∀ c code x c', lowerBlock b' c = some (code, x, c') → scC code = true
  | [], ρ, tl, b', htl, h, c, code, x, c', hl => by
    simp only [trStmts, Option.some.injEq] at h; subst h
    exact htl c code x c' hl
  | .let_ y e :: rest, ρ, tl, b', htl, h, c, code, x, c', hl => by
    simp only [trStmts] at h
    split at h
    case h_2 => cases h
    rename_i e1 rest1 he hrest
    simp only [Option.some.injEq] at h; subst h
    inv hl
    obtain ⟨ce, ve, c1, hle, cr, xr, c2, hlr, rfl, rfl, rfl⟩ := hl
    have := trE_sc fs e ρ e1 c ce ve c1 he hle
    have := trStmts_sc fs rest (y :: ρ) tl rest1 htl hrest _ cr xr c2 hlr
    fin
  | .expr e :: rest, ρ, tl, b', htl, h, c, code, x, c', hl => by
    simp only [trStmts] at h
    split at h
    case h_2 => cases h
    rename_i e1 rest1 he hrest
    simp only [Option.some.injEq] at h; subst h
    inv hl
    obtain ⟨ce, ve, c1, hle, cr, xr, c2, hlr, rfl, rfl, rfl⟩ := hl
    have := trE_sc fs e ρ e1 c ce ve c1 he hle
    have := trStmts_sc fs rest ρ tl rest1 htl hrest _ cr xr c2 hlr
    fin
end

theorem trFns_sc (fs : List String) : ∀ (fns : List Spec.FnDef) (fnsT : List TraceSpec.FnDef),
    trFns fs fns = some fnsT → ∀ fd ∈ fnsT, ∀ code, lowerFn fd = some code → scC code = true
  | [], fnsT, h => by simp only [trFns, Option.some.injEq] at h; subst h; simp
  | g :: fns, fnsT, h => by
    simp only [trFns] at h
    split at h
    case h_2 => cases h
    rename_i g' rest' hg hrest
    simp only [Option.some.injEq] at h; subst h
    intro fd hfd code hcode
    simp only [List.mem_cons] at hfd
    rcases hfd with rfl | hfd
    · simp only [trFn] at hg
      split at hg
      case isFalse => cases hg
      obtain ⟨b', hb', rfl⟩ := Option.map_eq_some_iff.mp hg
      simp only [lowerFn, Option.bind_eq_bind, Option.bind_eq_some_iff, Option.pure_def, Option.some.injEq,
        Prod.exists] at hcode
      obtain ⟨cb, xb, c', hlb, rfl⟩ := hcode
      have := trB_sc fs g.body _ b' 0 cb xb c' hb' hlb
      simp_all [scC_append, scC, scS]
    · exact trFns_sc fs fns rest' hrest fd hfd code hcode

/-- every function of the lowered program is its function's lowering -/
theorem lowerProg_mem : ∀ (fns : List TraceSpec.FnDef) (P : Prog), lowerProg fns = some P →
    ∀ (f : Nat) (params : List Nat) (code : Code), P[f]? = some (params, code) → ∃ fd ∈ fns, lowerFn fd = some code
  | [], P, h => by
    simp only [lowerProg, Option.some.injEq] at h; subst h
    intro f params code hf; simp at hf
  | fd0 :: rest, P, h => by
    simp only [lowerProg, Option.bind_eq_bind, Option.bind_eq_some_iff, Option.pure_def, Option.some.injEq] at h
    obtain ⟨code0, hc, more, hm, rfl⟩ := h
    intro f params code hf
    cases f with
    | zero =>
      simp only [List.getElem?_cons_zero, Option.some.injEq, Prod.mk.injEq] at hf
      obtain ⟨_, rfl⟩ := hf
      exact ⟨fd0, by simp, hc⟩
    | succ f' =>
      simp only [List.getElem?_cons_succ] at hf
      obtain ⟨fd, hfd, hcode⟩ := lowerProg_mem rest more hm f' params code hf
      exact ⟨fd, by simp [hfd], hcode⟩

/-- **The lowered program of a resolved program is scalar code.** -/
theorem resolve_scalar (fnsS : List Spec.FnDef) (fnsT : List TraceSpec.FnDef) (P : Prog)
    (h : resolve fnsS = some fnsT) (hP : lowerProg fnsT = some P) : scP P := by
  simp only [resolve] at h
  split at h
  case isFalse => cases h
  intro f params code hf
  obtain ⟨fd, hfd, hcode⟩ := lowerProg_mem fnsT P hP f params code hf
  exact trFns_sc _ fnsS fnsT h fd hfd code hcode

end RotoV.C01ScalarCode
