/-
  Registration (C18): closed form of a pass.

  A pass is a list of guarded insertions into one table of the scope graph.
  `runL_ok_iff`: the run of such a list succeeds exactly when every operation's
  own precondition holds in the table the pass starts from, the names the
  list binds are pairwise different, and none of them is bound already; the
  result is then that table with all the entries inserted.  Everything in this
  statement is invariant under permutation of the list (`runL_ok_perm`).
-/
import RotoV.Lemmas.RegistrationOps

namespace RotoV.Reg

/-! ## generic: lists of guarded insertions into one table -/

section Generic
variable {α K V : Type}
variable (get : St → K → Option V) (set : St → K → V → St)
variable (ent : St → α → Option (K × V)) (okp : St → α → Prop)
variable (run : α → St → Res St) (Inv : St → Prop)

/-- the interface of a guarded insertion -/
structure Guarded : Prop where
  run_none : ∀ o st st', Inv st → ent st o = none → (run o st = .ok st' ↔ okp st o ∧ st' = st)
  run_some : ∀ o st st' k v, Inv st → ent st o = some (k, v) →
    (run o st = .ok st' ↔ okp st o ∧ get st k = none ∧ st' = set st k v)
  get_set : ∀ st k v k', get (set st k v) k' = none ↔ (k' ≠ k ∧ get st k' = none)
  frame_ent : ∀ o st k v, Inv st → get st k = none → ent (set st k v) o = ent st o
  frame_ok : ∀ o st k v, Inv st → get st k = none → (okp (set st k v) o ↔ okp st o)
  inv : ∀ o st st', Inv st → run o st = .ok st' → Inv st'
  set_comm : ∀ st k v k' v', k ≠ k' → set (set st k v) k' v' = set (set st k' v') k v

def entsL (st : St) (l : List α) : List (K × V) := l.filterMap (ent st)
def setAll (es : List (K × V)) (st : St) : St := es.foldl (fun s e => set s e.1 e.2) st

/-- what a pass demands of the table it starts from -/
def CheckL (st : St) (l : List α) : Prop :=
  (∀ o ∈ l, okp st o) ∧ ((entsL ent st l).map (·.1)).Nodup ∧ ∀ e ∈ entsL ent st l, get st e.1 = none

variable {get set ent okp run Inv}

theorem entsL_frame (g : Guarded get set ent okp run Inv) (st : St) (hi : Inv st) (k : K) (v : V)
    (hk : get st k = none) : ∀ (l : List α), entsL ent (set st k v) l = entsL ent st l
  | [] => rfl
  | a :: l => by
    unfold entsL
    simp only [List.filterMap_cons, g.frame_ent a st k v hi hk]
    have := entsL_frame g st hi k v hk l
    unfold entsL at this
    rw [this]

theorem runL_ok_iff (g : Guarded get set ent okp run Inv) :
    ∀ (l : List α) (st : St), Inv st → ∀ st',
      runL run l st = .ok st' ↔ CheckL get ent okp st l ∧ st' = setAll set (entsL ent st l) st
  | [], st, _, st' => by
    simp only [runL, CheckL, entsL, setAll, List.filterMap_nil, List.map_nil, List.foldl_nil,
      List.nodup_nil, List.not_mem_nil, false_imp_iff, implies_true, true_and, Res.ok.injEq]
    exact eq_comm
  | o :: l, st, hi, st' => by
    cases he : ent st o with
    | none =>
      have hf : entsL ent st (o :: l) = entsL ent st l := List.filterMap_cons_none he
      simp only [CheckL, hf, List.mem_cons, forall_eq_or_imp]
      constructor
      · intro h
        simp only [runL] at h
        cases hr : run o st with
        | err e => simp [hr] at h
        | panic s => simp [hr] at h
        | ok st1 =>
          simp only [hr] at h
          obtain ⟨ho, rfl⟩ := (g.run_none o st st1 hi he).mp hr
          have := (runL_ok_iff g l st1 hi st').mp h
          exact ⟨⟨⟨ho, this.1.1⟩, this.1.2⟩, this.2⟩
      · rintro ⟨⟨⟨ho, hl⟩, h2⟩, h3⟩
        have hr := (g.run_none o st st hi he).mpr ⟨ho, rfl⟩
        simp only [runL, hr]
        exact (runL_ok_iff g l st hi st').mpr ⟨⟨hl, h2⟩, h3⟩
    | some kv =>
      obtain ⟨k, v⟩ := kv
      have hf : entsL ent st (o :: l) = (k, v) :: entsL ent st l := List.filterMap_cons_some he
      have hents : ∀ st1, st1 = set st k v → get st k = none → entsL ent st1 l = entsL ent st l := by
        intro st1 h1 hk
        subst h1
        exact entsL_frame g st hi k v hk l
      simp only [CheckL, hf, List.mem_cons, forall_eq_or_imp, List.map_cons, List.nodup_cons, setAll,
        List.foldl_cons]
      constructor
      · intro h
        simp only [runL] at h
        cases hr : run o st with
        | err e => simp [hr] at h
        | panic s => simp [hr] at h
        | ok st1 =>
          simp only [hr] at h
          obtain ⟨ho, hk, h1⟩ := (g.run_some o st st1 k v hi he).mp hr
          have hi1 := g.inv o st st1 hi hr
          have ih := (runL_ok_iff g l st1 hi1 st').mp h
          simp only [CheckL] at ih
          rw [hents st1 h1 hk] at ih
          obtain ⟨⟨ihok, ihnd, ihfree⟩, ihst⟩ := ih
          subst h1
          refine ⟨⟨⟨ho, fun a ha => (g.frame_ok a st k v hi hk).mp (ihok a ha)⟩, ⟨?_, ihnd⟩, hk, ?_⟩, ihst⟩
          · intro hm
            obtain ⟨e, he1, he2⟩ := List.mem_map.mp hm
            have := (g.get_set st k v e.1).mp (ihfree e he1)
            exact this.1 he2
          · intro e he1
            exact ((g.get_set st k v e.1).mp (ihfree e he1)).2
      · rintro ⟨⟨⟨ho, hl⟩, ⟨hnk, hnd⟩, hk, hfree⟩, h3⟩
        have hr := (g.run_some o st (set st k v) k v hi he).mpr ⟨ho, hk, rfl⟩
        have hi1 := g.inv o st _ hi hr
        simp only [runL, hr]
        refine (runL_ok_iff g l (set st k v) hi1 st').mpr ?_
        simp only [CheckL]
        rw [hents _ rfl hk]
        refine ⟨⟨fun a ha => (g.frame_ok a st k v hi hk).mpr (hl a ha), hnd, fun e he1 => ?_⟩, h3⟩
        refine (g.get_set st k v e.1).mpr ⟨fun heq => hnk ?_, hfree e he1⟩
        exact List.mem_map.mpr ⟨e, he1, heq⟩

theorem keys_inj {es : List (K × V)} (hnd : (es.map (·.1)).Nodup) :
    ∀ x ∈ es, ∀ y ∈ es, x.1 = y.1 → x = y := by
  induction es with
  | nil => intro x hx; cases hx
  | cons e es ih =>
    simp only [List.map_cons, List.nodup_cons] at hnd
    intro x hx y hy hxy
    rcases List.mem_cons.mp hx with hxe | hx'
    · rcases List.mem_cons.mp hy with hye | hy'
      · rw [hxe, hye]
      · have hm : e.1 ∈ es.map (·.1) := List.mem_map.mpr ⟨y, hy', by rw [← hxy, hxe]⟩
        exact absurd hm hnd.1
    · rcases List.mem_cons.mp hy with hye | hy'
      · have hm : e.1 ∈ es.map (·.1) := List.mem_map.mpr ⟨x, hx', by rw [hxy, hye]⟩
        exact absurd hm hnd.1
      · exact ih hnd.2 x hx' y hy' hxy

theorem setAll_perm (g : Guarded get set ent okp run Inv) {es es' : List (K × V)}
    (hp : es.Perm es') (hnd : (es.map (·.1)).Nodup) (st : St) : setAll set es st = setAll set es' st := by
  unfold setAll
  refine hp.foldl_eq' (fun x hx y hy z => ?_) st
  by_cases hxy : x.1 = y.1
  · rw [keys_inj hnd x hx y hy hxy]
  · exact g.set_comm z x.1 x.2 y.1 y.2 hxy

theorem CheckL_perm {l l' : List α} (hp : l.Perm l') (st : St) (h : CheckL get ent okp st l) :
    CheckL get ent okp st l' := by
  have hpe : (entsL ent st l).Perm (entsL ent st l') := hp.filterMap _
  refine ⟨fun o ho => h.1 o (hp.mem_iff.mpr ho), ((hpe.map _).nodup_iff).mp h.2.1, fun e he => ?_⟩
  exact h.2.2 e (hpe.mem_iff.mpr he)

/-- the outcome of a pass does not depend on the order of its operations -/
theorem runL_ok_perm (g : Guarded get set ent okp run Inv) {l l' : List α} (hp : l.Perm l')
    (st : St) (hi : Inv st) (st' : St) (h : runL run l st = .ok st') : runL run l' st = .ok st' := by
  obtain ⟨hc, hs⟩ := (runL_ok_iff g l st hi st').mp h
  refine (runL_ok_iff g l' st hi st').mpr ⟨CheckL_perm hp st hc, ?_⟩
  rw [hs]
  exact setAll_perm g (hp.filterMap _) hc.2.1 st

end Generic

/-! ## passes 1, 3, 4: guarded insertions into the declaration table -/

/-- a guarded insertion: nothing to insert, or one declaration under a name that must be free -/
def gi (pre : Res (Option (RName × Decl))) (st : St) : Res St :=
  match pre with
  | .ok none => .ok st
  | .ok (some (k, d)) =>
    match st.decls k with
    | some _ => .err .nameTaken
    | none => .ok (st.insertDecl k d)
  | .err e => .err e
  | .panic s => .panic s

section
variable (lex : Name → Lex)

/-- what `declare_function` computes before it touches the table -/
def fnPre (st : St) (scope : ScopeId) (n : Name) (ps : List RustTy) (r : RustTy) (tag : Nat)
    (method : Bool) : Res (Option (RName × Decl)) :=
  if !checkName Cfg.fixed (lex n) then .err .invalidName else
  match convTys st ps with
  | .panic s => .panic s
  | .err e => .err e
  | .ok ps' =>
    match convTy st r with
    | .panic s => .panic s
    | .err e => .err e
    | .ok r' => .ok (some (⟨scope, n⟩, ⟨if method then .method ps' r' tag else .function ps' r' tag, none⟩))

def constPre (st : St) (scope : ScopeId) (n : Name) (ty : RustTy) (tag : Nat) :
    Res (Option (RName × Decl)) :=
  match convTy st ty with
  | .panic s => .panic s
  | .err e => .err e
  | .ok ty' => .ok (some (⟨scope, n⟩, ⟨.const ty' tag, none⟩))

theorem declareFunction_gi (st : St) (scope : ScopeId) (n : Name) (ps : List RustTy) (r : RustTy)
    (tag : Nat) (m : Bool) :
    declareFunction Cfg.fixed lex scope n ps r tag m st = gi (fnPre lex st scope n ps r tag m) st := by
  unfold declareFunction fnPre
  split
  · rfl
  · cases convTys st ps with
    | panic s => rfl
    | err e => rfl
    | ok ps' =>
      cases convTy st r with
      | panic s => rfl
      | err e => rfl
      | ok r' => rfl

theorem declareConstant_gi (st : St) (scope : ScopeId) (n : Name) (ty : RustTy) (tag : Nat) :
    declareConstant scope n ty tag st = gi (constPre st scope n ty tag) st := by
  unfold declareConstant constPre
  cases convTy st ty with
  | panic s => rfl
  | err e => rfl
  | ok r' => rfl

def DOp.pre (st : St) : DOp → Res (Option (RName × Decl))
  | .mod scope n => .ok (some (⟨scope, n⟩, ⟨.module, some (scope ++ [n])⟩))
  | .fn scope n ps r tag => fnPre lex st scope n ps r tag false
  | .implCheck ty =>
    match implScope ty st with
    | .ok _ => .ok none
    | .err e => .err e
    | .panic s => .panic s
  | .method ty n ps r tag =>
    match implScope ty st with
    | .ok s => fnPre lex st s n ps r tag true
    | .err e => .err e
    | .panic s => .panic s
  | .nested => .err .nestedInImpl
  | .const scope n ty tag => constPre st scope n ty tag
  | .implConst ty n cty tag =>
    match implScope ty st with
    | .ok s => constPre st s n cty tag
    | .err e => .err e
    | .panic s => .panic s

theorem DOp.run_eq_gi (o : DOp) (st : St) : o.run lex st = gi (o.pre lex st) st := by
  cases o with
  | mod scope n =>
    simp only [DOp.run, DOp.pre, gi, declareModule]
    cases st.decls ⟨scope, n⟩ <;> rfl
  | fn scope n ps r tag => exact declareFunction_gi lex st scope n ps r tag false
  | implCheck ty =>
    simp only [DOp.run, DOp.pre]
    cases implScope ty st <;> rfl
  | method ty n ps r tag =>
    simp only [DOp.run, DOp.pre]
    cases implScope ty st with
    | ok s => exact declareFunction_gi lex st s n ps r tag true
    | err e => rfl
    | panic s => rfl
  | nested => rfl
  | const scope n ty tag => exact declareConstant_gi st scope n ty tag
  | implConst ty n cty tag =>
    simp only [DOp.run, DOp.pre]
    cases implScope ty st with
    | ok s => exact declareConstant_gi st s n cty tag
    | err e => rfl
    | panic s => rfl

theorem implScope_insertDecl {st : St} (hw : WF st) {k : RName} (d : Decl) (hk : st.decls k = none)
    (ty : TyId) : implScope ty (st.insertDecl k d) = implScope ty st := by
  unfold implScope
  show (match st.types ty with
    | none => Res.err Err.unregistered
    | some nm => match (st.insertDecl k d).getScopeOf nm.scope nm.ident with
      | none => Res.panic Site.implScope
      | some s => Res.ok s) = _
  cases ht : st.types ty with
  | none => rfl
  | some nm =>
    obtain ⟨d', s, hd, hs⟩ := hw.types ty nm ht
    have hne : (⟨nm.scope, nm.ident⟩ : RName) ≠ k := by
      intro h
      have : nm = k := h
      rw [this, hk] at hd
      cases hd
    simp only [St.getScopeOf, St.insertDecl, hne, if_false]
    rfl

theorem fnPre_insertDecl (st : St) (k : RName) (d : Decl) (scope : ScopeId) (n : Name)
    (ps : List RustTy) (r : RustTy) (tag : Nat) (m : Bool) :
    fnPre lex (st.insertDecl k d) scope n ps r tag m = fnPre lex st scope n ps r tag m := by
  unfold fnPre
  rw [convTys_insertDecl, convTy_insertDecl]

theorem constPre_insertDecl (st : St) (k : RName) (d : Decl) (scope : ScopeId) (n : Name)
    (ty : RustTy) (tag : Nat) :
    constPre (st.insertDecl k d) scope n ty tag = constPre st scope n ty tag := by
  unfold constPre
  rw [convTy_insertDecl]

/-- no operation of passes 1, 3, 4 reads a name that another one may write -/
theorem DOp.pre_insertDecl {st : St} (hw : WF st) {k : RName} (d : Decl) (hk : st.decls k = none)
    (o : DOp) : o.pre lex (st.insertDecl k d) = o.pre lex st := by
  cases o with
  | mod scope n => rfl
  | fn scope n ps r tag => exact fnPre_insertDecl lex st k d scope n ps r tag false
  | implCheck ty => simp only [DOp.pre, implScope_insertDecl hw d hk]
  | method ty n ps r tag => simp only [DOp.pre, implScope_insertDecl hw d hk, fnPre_insertDecl]
  | nested => rfl
  | const scope n ty tag => exact constPre_insertDecl st k d scope n ty tag
  | implConst ty n cty tag => simp only [DOp.pre, implScope_insertDecl hw d hk, constPre_insertDecl]

/-- the declaration an operation makes, evaluated in the table `st` -/
def DOp.ent (st : St) (o : DOp) : Option (RName × Decl) :=
  match o.pre lex st with
  | .ok (some e) => some e
  | _ => none

/-- the operation's own precondition (valid name, every mentioned type
    registered, impl block for a registered type, nothing nested in an impl) -/
def DOp.okp (st : St) (o : DOp) : Prop := ∃ v, o.pre lex st = .ok v

theorem insertDecl_comm (st : St) (k : RName) (v : Decl) (k' : RName) (v' : Decl) (h : k ≠ k') :
    (st.insertDecl k v).insertDecl k' v' = (st.insertDecl k' v').insertDecl k v := by
  simp only [St.insertDecl]
  congr 1
  funext x
  by_cases h1 : x = k'
  · subst h1
    have : x ≠ k := fun e => h e.symm
    simp [this]
  · simp [h1]

theorem guardedD : Guarded (fun st k => st.decls k) St.insertDecl (DOp.ent lex) (DOp.okp lex)
    (DOp.run lex) WF where
  run_none := by
    intro o st st' _ he
    rw [DOp.run_eq_gi]
    unfold DOp.ent at he
    unfold DOp.okp
    cases hp : o.pre lex st with
    | ok v =>
      cases v with
      | none => simp [gi, eq_comm]
      | some e => simp [hp] at he
    | err e => simp [gi]
    | panic s => simp [gi]
  run_some := by
    intro o st st' k v _ he
    rw [DOp.run_eq_gi]
    unfold DOp.ent at he
    unfold DOp.okp
    cases hp : o.pre lex st with
    | ok w =>
      cases w with
      | none => simp [hp] at he
      | some e =>
        simp only [hp, Option.some.injEq] at he
        subst he
        simp only [gi]
        cases hd : st.decls k with
        | none => simp [eq_comm]
        | some d => simp
    | err e => simp [hp] at he
    | panic s => simp [hp] at he
  get_set := by
    intro st k v k'
    simp only [St.insertDecl]
    by_cases h : k' = k <;> simp [h]
  frame_ent := by
    intro o st k v hw hk
    simp only [DOp.ent, DOp.pre_insertDecl lex hw v hk]
  frame_ok := by
    intro o st k v hw hk
    simp only [DOp.okp, DOp.pre_insertDecl lex hw v hk]
  inv := by
    intro o st st' hw hr
    have := DOp.run_good lex o st hw
    rw [hr] at this
    exact this.2
  set_comm := insertDecl_comm

end

/-! ## pass 5: guarded insertions into the imports of the root -/

/-- the import a `use` path makes: its last segment, bound to that name in the
    scope its other segments lead to -/
def impEnt (st : St) (p : List Name) : Option (Name × RName) :=
  match p.getLast? with
  | none => none
  | some last =>
    match scopeAt st [] p.dropLast with
    | some s => some (last, ⟨s, last⟩)
    | none => none

/-- a `use` path is well-formed: not empty, and every segment but the last owns a scope -/
def impOk (st : St) (p : List Name) : Prop := (impEnt st p).isSome

theorem walkPath_fixed_eq (st : St) (start : ScopeId) :
    ∀ (p : List Name) (cur : ScopeId), walkPath Cfg.fixed start st cur p =
      match scopeAt st cur p with
      | some s => .ok s
      | none => .err .noScope
  | [], cur => rfl
  | part :: rest, cur => by
    simp only [walkPath, scopeAt, Cfg.fixed, Bool.false_eq_true, if_false]
    cases st.getScopeOf cur part with
    | none => rfl
    | some s' => exact walkPath_fixed_eq st start rest s'

theorem scopeAt_congr {st st' : St} (h : st'.decls = st.decls) :
    ∀ (p : List Name) (s : ScopeId), scopeAt st' s p = scopeAt st s p
  | [], s => rfl
  | n :: rest, s => by
    simp only [scopeAt, getScopeOf_congr h]
    cases st.getScopeOf s n with
    | none => rfl
    | some s' => exact scopeAt_congr h rest s'

theorem insertImport_comm (st : St) (k : Name) (v : RName) (k' : Name) (v' : RName) (h : k ≠ k') :
    (st.insertImport [] k v).insertImport [] k' v' = (st.insertImport [] k' v').insertImport [] k v := by
  simp only [St.insertImport]
  congr 1
  funext s m
  by_cases h1 : s = [] ∧ m = k'
  · obtain ⟨rfl, rfl⟩ := h1
    have : m ≠ k := fun e => h e.symm
    simp [this]
  · simp [h1]

theorem guardedI : Guarded (fun st k => st.imports [] k) (fun st k v => st.insertImport [] k v)
    impEnt impOk runImport (fun _ => True) where
  run_none := by
    intro p st st' _ he
    unfold impOk
    simp only [he, Option.isSome_none, Bool.false_eq_true, false_and, iff_false]
    unfold impEnt at he
    unfold runImport declareImport
    cases hl : p.getLast? with
    | none => simp [Cfg.fixed]
    | some last =>
      simp only [hl] at he ⊢
      rw [walkPath_fixed_eq]
      cases hs : scopeAt st [] p.dropLast with
      | none => simp
      | some s => simp [hs] at he
  run_some := by
    intro p st st' k v _ he
    unfold impOk
    simp only [he, Option.isSome_some, true_and]
    unfold impEnt at he
    unfold runImport declareImport
    cases hl : p.getLast? with
    | none => simp [hl] at he
    | some last =>
      simp only [hl] at he ⊢
      rw [walkPath_fixed_eq]
      cases hs : scopeAt st [] p.dropLast with
      | none => simp [hs] at he
      | some s =>
        simp only [hs, Option.some.injEq, Prod.mk.injEq] at he
        obtain ⟨rfl, rfl⟩ := he
        simp only
        cases hi : st.imports [] last with
        | none => simp [eq_comm]
        | some t => simp
  get_set := by
    intro st k v k'
    simp only [St.insertImport]
    by_cases h : k' = k <;> simp [h]
  frame_ent := by
    intro p st k v _ _
    unfold impEnt
    rw [scopeAt_congr (st' := st.insertImport [] k v) (st := st) rfl]
  frame_ok := by
    intro p st k v _ _
    unfold impOk impEnt
    rw [scopeAt_congr (st' := st.insertImport [] k v) (st := st) rfl]
  inv := fun _ _ _ _ _ => trivial
  set_comm := insertImport_comm

/-! ## pass 2: types -/

/-- the type item can be registered in `st`: its Rust type is not registered,
    no registered type has its name, and the name is free (or that of a
    pre-declared primitive that no registered type has taken yet) -/
def TOp.free (st : St) (t : TOp) : Prop :=
  st.types t.id = none ∧ st.typeNames t.nm = false ∧
    (st.decls t.nm = none ∨ ∃ d, st.decls t.nm = some d ∧ d.kind = .prim)

def TOp.apply (st : St) (t : TOp) : St :=
  match st.decls t.nm with
  | some _ => st.insertType t.id t.nm
  | none => (st.insertDecl t.nm ⟨.type t.id, some (t.scope ++ [t.n])⟩).insertType t.id t.nm

theorem TOp.run_ok_iff (t : TOp) (st st' : St) :
    t.run st = .ok st' ↔ t.free st ∧ st' = t.apply st := by
  unfold TOp.run declareType TOp.free TOp.apply
  simp only [TOp.nm, Cfg.fixed, Bool.not_false, Bool.true_and, Bool.false_eq_true, if_false]
  cases ht : st.types t.id with
  | some nm => simp
  | none =>
    simp only [true_and]
    cases hn : st.typeNames ⟨t.scope, t.n⟩ with
    | true => simp
    | false =>
      simp only [Bool.false_eq_true, if_false, true_and]
      cases hd : st.decls ⟨t.scope, t.n⟩ with
      | none => simp [eq_comm]
      | some d =>
        by_cases hp : d.kind = .prim
        · simp [hp, eq_comm]
        · simp [hp]

theorem TOp.free_apply_iff (t t' : TOp) (st : St) :
    t'.free (t.apply st) ↔ t'.free st ∧ t'.id ≠ t.id ∧ t'.nm ≠ t.nm := by
  have htypes : (t.apply st).types t'.id = none ↔ (t'.id ≠ t.id ∧ st.types t'.id = none) := by
    unfold TOp.apply
    cases st.decls t.nm <;> simp only [St.insertType, St.insertDecl] <;>
      by_cases h : t'.id = t.id <;> simp [h]
  have hnames : (t.apply st).typeNames t'.nm = false ↔ (t'.nm ≠ t.nm ∧ st.typeNames t'.nm = false) := by
    unfold TOp.apply
    cases st.decls t.nm <;> simp only [St.insertType, St.insertDecl] <;>
      by_cases h : t'.nm = t.nm <;> simp [h]
  have hdecls : t'.nm ≠ t.nm → (t.apply st).decls t'.nm = st.decls t'.nm := by
    intro hne
    unfold TOp.apply
    cases st.decls t.nm <;> simp [St.insertType, St.insertDecl, hne]
  unfold TOp.free
  constructor
  · rintro ⟨h1, h2, h3⟩
    have a := htypes.mp h1
    have b := hnames.mp h2
    rw [hdecls b.1] at h3
    exact ⟨⟨a.2, b.2, h3⟩, a.1, b.1⟩
  · rintro ⟨⟨h1, h2, h3⟩, ha, hb⟩
    refine ⟨htypes.mpr ⟨ha, h1⟩, hnames.mpr ⟨hb, h2⟩, ?_⟩
    rw [hdecls hb]
    exact h3

/-- what pass 2 demands of the table it starts from -/
def CheckT (st : St) (l : List TOp) : Prop :=
  (l.map (·.id)).Nodup ∧ (l.map (·.nm)).Nodup ∧ ∀ t ∈ l, t.free st

theorem runT_ok_iff : ∀ (l : List TOp) (st st' : St),
    runL TOp.run l st = .ok st' ↔ CheckT st l ∧ st' = l.foldl TOp.apply st
  | [], st, st' => by simp [runL, CheckT, eq_comm]
  | t :: l, st, st' => by
    simp only [runL, CheckT, List.map_cons, List.nodup_cons, List.mem_cons, forall_eq_or_imp,
      List.foldl_cons]
    constructor
    · intro h
      cases hr : t.run st with
      | err e => simp [hr] at h
      | panic s => simp [hr] at h
      | ok st1 =>
        simp only [hr] at h
        obtain ⟨hf, rfl⟩ := (TOp.run_ok_iff t st st1).mp hr
        obtain ⟨⟨hid, hnm, hfree⟩, hst⟩ := (runT_ok_iff l _ st').mp h
        refine ⟨⟨⟨?_, hid⟩, ⟨?_, hnm⟩, hf, fun t' ht' => ((TOp.free_apply_iff t t' st).mp (hfree t' ht')).1⟩, hst⟩
        · intro hm
          obtain ⟨t', ht', he⟩ := List.mem_map.mp hm
          exact ((TOp.free_apply_iff t t' st).mp (hfree t' ht')).2.1 he
        · intro hm
          obtain ⟨t', ht', he⟩ := List.mem_map.mp hm
          exact ((TOp.free_apply_iff t t' st).mp (hfree t' ht')).2.2 he
    · rintro ⟨⟨⟨hi1, hid⟩, ⟨hn1, hnm⟩, hf, hfree⟩, hst⟩
      have hr := (TOp.run_ok_iff t st _).mpr ⟨hf, rfl⟩
      simp only [hr]
      refine (runT_ok_iff l _ st').mpr ⟨⟨hid, hnm, fun t' ht' => ?_⟩, hst⟩
      refine (TOp.free_apply_iff t t' st).mpr ⟨hfree t' ht', fun he => hi1 ?_, fun he => hn1 ?_⟩
      · exact List.mem_map.mpr ⟨t', ht', he⟩
      · exact List.mem_map.mpr ⟨t', ht', he⟩

/-- `TOp.apply` in one shape -/
def TOp.applyU (st : St) (t : TOp) : St :=
  { decls := fun k => if k = t.nm then some ((st.decls t.nm).getD ⟨.type t.id, some (t.scope ++ [t.n])⟩)
      else st.decls k,
    imports := st.imports,
    types := fun i => if i = t.id then some t.nm else st.types i,
    typeNames := fun n => if n = t.nm then true else st.typeNames n }

theorem TOp.apply_eq (st : St) (t : TOp) : TOp.apply st t = TOp.applyU st t := by
  unfold TOp.apply TOp.applyU
  cases h : st.decls t.nm with
  | none => simp only [St.insertType, St.insertDecl, Option.getD_none]
  | some d =>
    simp only [St.insertType, Option.getD_some]
    congr 1
    funext k
    by_cases hk : k = t.nm <;> simp [hk, h]

theorem TOp.apply_comm (st : St) (a b : TOp) (hid : a.id ≠ b.id) (hnm : a.nm ≠ b.nm) :
    TOp.apply (TOp.apply st a) b = TOp.apply (TOp.apply st b) a := by
  simp only [TOp.apply_eq]
  simp only [TOp.applyU, hnm, Ne.symm hnm, if_false]
  congr 1
  · funext k
    by_cases h1 : k = b.nm <;> by_cases h2 : k = a.nm <;> simp_all
  · funext i
    by_cases h1 : i = b.id <;> by_cases h2 : i = a.id <;> simp_all
  · funext n
    by_cases h1 : n = b.nm <;> by_cases h2 : n = a.nm <;> simp_all

theorem ids_inj {l : List TOp} (h1 : (l.map (·.id)).Nodup) (h2 : (l.map (·.nm)).Nodup) :
    ∀ x ∈ l, ∀ y ∈ l, x ≠ y → x.id ≠ y.id ∧ x.nm ≠ y.nm := by
  induction l with
  | nil => intro x hx; cases hx
  | cons e es ih =>
    simp only [List.map_cons, List.nodup_cons] at h1 h2
    intro x hx y hy hxy
    rcases List.mem_cons.mp hx with hxe | hx'
    · rcases List.mem_cons.mp hy with hye | hy'
      · exact absurd (hxe.trans hye.symm) hxy
      · subst hxe
        exact ⟨fun h => h1.1 (List.mem_map.mpr ⟨y, hy', h.symm⟩),
          fun h => h2.1 (List.mem_map.mpr ⟨y, hy', h.symm⟩)⟩
    · rcases List.mem_cons.mp hy with hye | hy'
      · subst hye
        exact ⟨fun h => h1.1 (List.mem_map.mpr ⟨x, hx', h⟩),
          fun h => h2.1 (List.mem_map.mpr ⟨x, hx', h⟩)⟩
      · exact ih h1.2 h2.2 x hx' y hy' hxy

theorem runT_ok_perm {l l' : List TOp} (hp : l.Perm l') (st st' : St)
    (h : runL TOp.run l st = .ok st') : runL TOp.run l' st = .ok st' := by
  obtain ⟨⟨h1, h2, h3⟩, hs⟩ := (runT_ok_iff l st st').mp h
  refine (runT_ok_iff l' st st').mpr ⟨⟨((hp.map _).nodup_iff).mp h1, ((hp.map _).nodup_iff).mp h2,
    fun t ht => h3 t (hp.mem_iff.mpr ht)⟩, ?_⟩
  rw [hs]
  refine hp.foldl_eq' (fun x hx y hy z => ?_) st
  by_cases hxy : x = y
  · rw [hxy]
  · obtain ⟨a, b⟩ := ids_inj h1 h2 x hx y hy hxy
    exact TOp.apply_comm z x y a b

end RotoV.Reg
