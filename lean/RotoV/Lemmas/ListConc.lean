/-
  C16 — lemmas about the step model of shared lists (Model/ListConc.lean):
  the invariant "a thread in the middle of an operation owns the mutex of the
  list its pointer points into", the frame property of a step (it leaves the
  cells owned by other threads alone), and the forward simulation of the
  sequential specification at the step that completes an operation.
-/
import RotoV.Model.ListConc

set_option linter.unusedSimpArgs false

namespace RotoV.ListConc

@[simp] theorem upd_same {α : Type} (f : Nat → α) (i : Nat) (v : α) : upd f i v i = v := by
  simp [upd]

@[simp] theorem upd_other {α : Type} (f : Nat → α) (i j : Nat) (v : α) (h : j ≠ i) :
    upd f i v j = f j := by
  simp [upd, h]

/-- the abstract (shared-vector) view of a store -/
def absOf (cells : Nat → Cell) : Spec := fun l => (cells l).raw.elems

theorem abs_eq (s : State) : abs s = absOf s.cells := rfl

/-- thread `t` holds the mutex of list `l` and a current pointer to element `i` -/
def Held (cells : Nat → Cell) (t : Nat) (ptr : Option Ptr) (l i : Nat) : Prop :=
  (cells l).owner = some t ∧ ptr = some ⟨l, (cells l).raw.gen, i⟩ ∧ i < (cells l).raw.elems.length

/-- what must hold when thread `t` stands at step `pc` of `op` -/
def OpPc (cells : Nat → Cell) (t : Nat) (ptr : Option Ptr) : Op → Nat → Prop
  | _, 0 => True
  | .get l i, 1 => Held cells t ptr l i
  | .ffiGet l i, 1 => Held cells t ptr l i
  | .eq a b, 1 => a ≠ b ∧ (cells (eqFirst Facts.guarded a b)).owner = some t
  | .concat a b, 1 => (cells (min a b)).owner = some t
  | .concat a b, 2 => a ≠ b ∧ (cells (min a b)).owner = some t ∧ (cells (max a b)).owner = some t
  | _, _ => False

def PcOK (cells : Nat → Cell) (t : Nat) (th : Thread) : Prop :=
  match th.prog with
  | [] => th.pc = 0
  | op :: _ => OpPc cells t th.ptr op th.pc

/-- the invariant of every reachable state -/
def Inv (s : State) : Prop := ∀ t, PcOK s.cells t (s.threads t)

/-- a step of thread `u` leaves every cell whose mutex another thread holds alone -/
def Frame (u : Nat) (c c' : Nat → Cell) : Prop :=
  ∀ l t, t ≠ u → (c l).owner = some t → (c' l).owner = some t ∧ (c' l).raw = (c l).raw

theorem Frame.refl (u : Nat) (c : Nat → Cell) : Frame u c c := fun _ _ _ h => ⟨h, rfl⟩

theorem isFree_iff (c : Nat → Cell) (l : Nat) : isFree c l = true ↔ (c l).owner = none := by
  simp [isFree]

theorem frame_setOwner_free {u : Nat} {c : Nat → Cell} {x : Nat} (o : Option Nat)
    (hx : (c x).owner = none) : Frame u c (setOwner c x o) := by
  intro l t _ hl
  by_cases h : l = x
  · subst h; rw [hx] at hl; cases hl
  · simp [setOwner, h, hl]

theorem frame_setOwner_own {u : Nat} {c : Nat → Cell} {x : Nat} (o : Option Nat)
    (hx : (c x).owner = some u) : Frame u c (setOwner c x o) := by
  intro l t ht hl
  by_cases h : l = x
  · subst h; rw [hx] at hl; cases hl; exact absurd rfl ht
  · simp [setOwner, h, hl]

theorem frame_setRaw_free {u : Nat} {c : Nat → Cell} {x : Nat} (r : RawList)
    (hx : (c x).owner = none) : Frame u c (setRaw c x r) := by
  intro l t _ hl
  by_cases h : l = x
  · subst h; rw [hx] at hl; cases hl
  · simp [setRaw, h, hl]

theorem frame_rc {u : Nat} {c : Nat → Cell} {x : Nat} (n : Nat) :
    Frame u c (upd c x { c x with rc := n }) := by
  intro l t _ hl
  by_cases h : l = x
  · subst h; simp [hl]
  · simp [h, hl]

theorem held_frame {u t : Nat} {c c' : Nat → Cell} {ptr : Option Ptr} {l i : Nat}
    (hf : Frame u c c') (ht : t ≠ u) (h : Held c t ptr l i) : Held c' t ptr l i := by
  obtain ⟨ho, hp, hi⟩ := h
  obtain ⟨ho', hr⟩ := hf l t ht ho
  exact ⟨ho', by rw [hr]; exact hp, by rw [hr]; exact hi⟩

theorem opPc_frame {u t : Nat} {c c' : Nat → Cell} {ptr : Option Ptr} (hf : Frame u c c')
    (ht : t ≠ u) : ∀ (op : Op) (pc : Nat), OpPc c t ptr op pc → OpPc c' t ptr op pc := by
  intro op pc h
  match op, pc, h with
  | _, 0, _ => simp [OpPc]
  | .get l i, 1, h => exact held_frame hf ht h
  | .ffiGet l i, 1, h => exact held_frame hf ht h
  | .eq a b, 1, h => exact ⟨h.1, (hf _ t ht h.2).1⟩
  | .concat a b, 1, h => exact (hf _ t ht h).1
  | .concat a b, 2, h => exact ⟨h.1, (hf _ t ht h.2.1).1, (hf _ t ht h.2.2).1⟩

theorem pcOK_frame {u t : Nat} {c c' : Nat → Cell} {th : Thread} (hf : Frame u c c')
    (ht : t ≠ u) (h : PcOK c t th) : PcOK c' t th := by
  unfold PcOK at *
  split
  · rename_i hp; rw [hp] at h; exact h
  · rename_i op rest hp; rw [hp] at h; exact opPc_frame hf ht op _ h

/-! ### one step of one operation, with the guard held across the clone -/

/-- what a step of an operation guarantees (facts = `guarded`) -/
structure StepGood (t : Nat) (cells : Nat → Cell) (op : Op) (pc : Nat) (o : StepOut) : Prop where
  frame : Frame t cells o.cells
  /-- no stale use, no pointer parked outside its critical section -/
  evs : ∀ e ∈ o.evs, e ≠ Ev.outside ∧ e ≠ Ev.stale
  /-- the operation never traps -/
  notrap : o.next ≠ .trap
  /-- if it continues, the next step's precondition holds and nothing observable changed -/
  cont : o.next = .cont → OpPc o.cells t o.ptr op (pc + 1) ∧ absOf o.cells = absOf cells
  /-- if it completes, it never reports a stale use … -/
  res : ∀ r, o.next = .done r → r ≠ .uaf
  /-- … and (unless it is `concat`) it is the sequential operation applied now -/
  sim : ∀ r, o.next = .done r → (∀ a b, op ≠ .concat a b) → specOp (absOf cells) op = (r, absOf o.cells)
  /-- `concat` reads and writes no shared list contents -/
  absConcat : ∀ a b, op = .concat a b → absOf o.cells = absOf cells

theorem absOf_setOwner (c : Nat → Cell) (x : Nat) (o : Option Nat) :
    absOf (setOwner c x o) = absOf c := by
  funext l
  by_cases h : l = x
  · subst h; simp [absOf, setOwner]
  · simp [absOf, setOwner, h]

theorem absOf_rc (c : Nat → Cell) (x : Nat) (n : Nat) :
    absOf (upd c x { c x with rc := n }) = absOf c := by
  funext l
  by_cases h : l = x
  · subst h; simp [absOf]
  · simp [absOf, h]

theorem absOf_setRaw (c : Nat → Cell) (x : Nat) (r : RawList) :
    absOf (setRaw c x r) = upd (absOf c) x r.elems := by
  funext l
  by_cases h : l = x
  · subst h; simp [absOf, setRaw]
  · simp [absOf, setRaw, h]

theorem reserve_elems (r : RawList) (n : Nat) : (r.reserve n).1.elems = r.elems := by
  unfold RawList.reserve
  simp only
  split
  · split <;> rfl
  · rfl

theorem push_elems (r : RawList) (v : Nat) : (r.push v).1.elems = r.elems ++ [v] := by
  simp [RawList.push, reserve_elems]

theorem stepGood_done {t : Nat} {cells cells' : Nat → Cell} {op : Op} {pc : Nat} {r : Res}
    {evs : List Ev} (ptr : Option Ptr) (acc : RawList)
    (hframe : Frame t cells cells')
    (hevs : ∀ e ∈ evs, e ≠ Ev.outside ∧ e ≠ Ev.stale) (hr : r ≠ .uaf)
    (hsim : (∀ a b, op ≠ .concat a b) → specOp (absOf cells) op = (r, absOf cells'))
    (habs : ∀ a b, op = .concat a b → absOf cells' = absOf cells) :
    StepGood t cells op pc { cells := cells', ptr := ptr, acc := acc, next := .done r, evs := evs } where
  frame := hframe
  evs := hevs
  notrap := by simp
  cont := by simp
  res := by intro r' h; simp at h; subst h; exact hr
  sim := by intro r' h hc; simp at h; subst h; exact hsim hc
  absConcat := habs

theorem stepGood_cont {t : Nat} {cells cells' : Nat → Cell} {op : Op} {pc : Nat}
    {evs : List Ev} {ptr : Option Ptr} (acc : RawList)
    (hframe : Frame t cells cells')
    (hevs : ∀ e ∈ evs, e ≠ Ev.outside ∧ e ≠ Ev.stale)
    (hnext : OpPc cells' t ptr op (pc + 1)) (habs : absOf cells' = absOf cells) :
    StepGood t cells op pc { cells := cells', ptr := ptr, acc := acc, next := .cont, evs := evs } where
  frame := hframe
  evs := hevs
  notrap := by simp
  cont := fun _ => ⟨hnext, habs⟩
  res := by intro r' h; simp at h
  sim := by intro r' h; simp at h
  absConcat := fun _ _ _ => habs

theorem lookup_good {t : Nat} {cells : Nat → Cell} {op : Op} {l i : Nat} {o : StepOut}
    (hop : op = .get l i ∨ op = .ffiGet l i)
    (h : lookupStep true t cells l i = some o) : StepGood t cells op 0 o := by
  simp only [lookupStep] at h
  split at h
  · rename_i hfree
    have hfree' := (isFree_iff _ _).1 hfree
    split at h
    · rename_i hi
      cases h
      refine stepGood_cont _ (frame_setOwner_free _ hfree') (by simp) ?_ (absOf_setOwner _ _ _)
      have : Held (setOwner cells l (some t)) t (some ⟨l, (cells l).raw.gen, i⟩) l i := by
        refine ⟨by simp [setOwner], by simp [setOwner], by simpa [setOwner] using hi⟩
      rcases hop with h | h <;> subst h <;> exact this
    · rename_i hi
      cases h
      refine stepGood_done _ _ (Frame.refl _ _) (by simp) (by simp) ?_ ?_
      · intro _
        have : (absOf cells l)[i]? = none := by
          simp only [absOf]; exact List.getElem?_eq_none (Nat.le_of_not_lt hi)
        rcases hop with h | h <;> subst h <;> simp [specOp, this]
      · intros; rfl
  · cases h

theorem clone_good {t : Nat} {cells : Nat → Cell} {op : Op} {l i : Nat} {o : StepOut}
    {relock : Bool}
    (hop : op = .get l i ∨ op = .ffiGet l i)
    (hh : Held cells t (some ⟨l, (cells l).raw.gen, i⟩) l i)
    (h : cloneStep true relock cells ⟨l, (cells l).raw.gen, i⟩ = some o) :
    StepGood t cells op 1 o := by
  obtain ⟨ho, _, hi⟩ := hh
  simp only [cloneStep, Bool.not_true, Bool.and_false, Bool.false_and, Bool.false_eq_true,
    ↓reduceIte] at h
  cases h
  refine stepGood_done _ _ (frame_setOwner_own _ ho) (by simp) (by simp) ?_ ?_
  · intro _
    have : (absOf cells l)[i]? = some ((cells l).raw.elems.getD i 0) := by
      simp only [absOf]
      rw [List.getElem?_eq_getElem hi]
      simp [List.getD_eq_getElem?_getD, List.getElem?_eq_getElem hi]
    rcases hop with h | h <;> subst h <;> simp [specOp, this, absOf_setOwner]
  · intro a b hc; exact absOf_setOwner _ _ _

theorem owner_setOwner (c : Nat → Cell) (x : Nat) (o : Option Nat) (l : Nat) :
    (setOwner c x o l).owner = if l = x then o else (c l).owner := by
  by_cases h : l = x
  · subst h; simp [setOwner]
  · simp [setOwner, h]

theorem Frame.trans {u : Nat} {c c' c'' : Nat → Cell} (h1 : Frame u c c') (h2 : Frame u c' c'') :
    Frame u c c'' := by
  intro l t ht hl
  obtain ⟨ho, hr⟩ := h1 l t ht hl
  obtain ⟨ho', hr'⟩ := h2 l t ht ho
  exact ⟨ho', by rw [hr', hr]⟩

theorem extend_elems (r : RawList) (other : List Nat) : (r.extend other).1.elems = r.elems ++ other := by
  unfold RawList.extend
  split
  · rename_i h; subst h; simp
  · simp [reserve_elems]

theorem concatCopy_elems (ea eb : List Nat) : (concatCopy ea eb).1.elems = ea ++ eb := by
  unfold concatCopy
  simp only
  rw [extend_elems, extend_elems]
  rfl

theorem min_ne_max {a b : Nat} (h : a ≠ b) : min a b ≠ max a b := by
  simp only [Nat.min_def, Nat.max_def]
  split <;> omega

theorem owner_setOwner_ne (c : Nat → Cell) (x l : Nat) (o : Option Nat) (h : l ≠ x) :
    (setOwner c x o l).owner = (c l).owner := by
  rw [owner_setOwner]; simp [h]

theorem owner_setOwner_same (c : Nat → Cell) (x : Nat) (o : Option Nat) :
    (setOwner c x o x).owner = o := by
  rw [owner_setOwner]; simp

/-- the steps of `concat` (both operands held): `StepGood`, and the completing
    step *is* the sequential `concat` applied at that moment -/
theorem concat_good {t : Nat} {cells : Nat → Cell} {ptr : Option Ptr} {a b pc : Nat} {o : StepOut}
    (hpc : OpPc cells t ptr (.concat a b) pc) (h : concatAtomicStep t cells a b pc = some o) :
    StepGood t cells (.concat a b) pc o ∧
    (∀ r, o.next = .done r → specOp (absOf cells) (.concat a b) = (r, absOf o.cells)) := by
  rcases pc with _ | _ | _ | n
  · simp only [concatAtomicStep] at h
    split at h
    · rename_i hfree
      have hfree' := (isFree_iff _ _).1 hfree
      cases h
      refine ⟨stepGood_cont _ (frame_setOwner_free _ hfree') (by simp)
        (by simp [OpPc, owner_setOwner_same]) (absOf_setOwner _ _ _), by simp⟩
    · cases h
  · simp only [concatAtomicStep] at h
    split at h
    · rename_i hab
      subst hab
      have hown : (cells a).owner = some t := by simpa [OpPc] using hpc
      have he := concatCopy_elems (cells a).raw.elems (cells a).raw.elems
      generalize concatCopy (cells a).raw.elems (cells a).raw.elems = pr at h he
      obtain ⟨acc', re⟩ := pr
      cases h
      refine ⟨stepGood_done _ _ (frame_setOwner_own _ hown) ?_ (by simp)
        (fun hc => absurd rfl (hc a a)) (fun _ _ _ => absOf_setOwner _ _ _), ?_⟩
      · intro e he'; split at he' <;> simp at he'; subst he'; simp
      · intro r hr
        simp only [Next.done.injEq] at hr
        subst hr
        simp only at he
        simp [specOp, absOf_setOwner, he, absOf]
    · rename_i hab
      split at h
      · rename_i hfree
        have hfree' := (isFree_iff _ _).1 hfree
        have hown : (cells (min a b)).owner = some t := by simpa [OpPc] using hpc
        cases h
        refine ⟨stepGood_cont _ (frame_setOwner_free _ hfree') (by simp) ?_ (absOf_setOwner _ _ _), by simp⟩
        refine ⟨hab, ?_, owner_setOwner_same _ _ _⟩
        rw [owner_setOwner_ne _ _ _ _ (min_ne_max hab)]
        exact hown
      · cases h
  · obtain ⟨hab, hmin, hmax⟩ := hpc
    simp only [concatAtomicStep] at h
    have he := concatCopy_elems (cells a).raw.elems (cells b).raw.elems
    generalize concatCopy (cells a).raw.elems (cells b).raw.elems = pr at h he
    obtain ⟨acc', re⟩ := pr
    cases h
    have hf : Frame t cells (setOwner (setOwner cells (min a b) none) (max a b) none) := by
      refine Frame.trans (frame_setOwner_own _ hmin) (frame_setOwner_own _ ?_)
      rw [owner_setOwner_ne _ _ _ _ (fun h => min_ne_max hab h.symm)]
      exact hmax
    have ha : absOf (setOwner (setOwner cells (min a b) none) (max a b) none) = absOf cells := by
      rw [absOf_setOwner, absOf_setOwner]
    refine ⟨stepGood_done _ _ hf ?_ (by simp) (fun hc => absurd rfl (hc a b)) (fun _ _ _ => ha), ?_⟩
    · intro e he'; split at he' <;> simp at he'; subst he'; simp
    · intro r hr
      simp only [Next.done.injEq] at hr
      subst hr
      simp only at he
      simp [specOp, ha, he, absOf]
  · simp [OpPc] at hpc

theorem opStep_good {F : Facts} (hF : F = Facts.guarded) {t : Nat} {cells : Nat → Cell}
    {ptr : Option Ptr} {acc : RawList} {op : Op} {pc : Nat} {o : StepOut}
    (hpc : OpPc cells t ptr op pc) (h : opStep F t cells ptr acc op pc = some o) :
    StepGood t cells op pc o := by
  subst hF
  cases op with
  | get l i =>
    cases pc with
    | zero => exact lookup_good (Or.inl rfl) (by simpa [opStep, Facts.guarded] using h)
    | succ n =>
      cases n with
      | zero =>
        have hp := hpc.2.1
        subst hp
        exact clone_good (Or.inl rfl) hpc (by simpa [opStep, Facts.guarded] using h)
      | succ m => simp [OpPc] at hpc
  | ffiGet l i =>
    cases pc with
    | zero => exact lookup_good (Or.inr rfl) (by simpa [opStep, Facts.guarded] using h)
    | succ n =>
      cases n with
      | zero =>
        have hp := hpc.2.1
        subst hp
        exact clone_good (Or.inr rfl) hpc (by simpa [opStep, Facts.guarded] using h)
      | succ m => simp [OpPc] at hpc
  | push l v =>
    simp only [opStep] at h
    split at h
    · rename_i hfree
      have hfree' := (isFree_iff _ _).1 hfree
      have he := push_elems (cells l).raw v
      generalize (cells l).raw.push v = pr at h he
      obtain ⟨r', re⟩ := pr
      cases h
      refine stepGood_done _ _ (frame_setRaw_free _ hfree') ?_ (by simp) ?_ ?_
      · intro e he; split at he <;> simp at he; subst he; simp
      · intro _; simp only [specOp, absOf_setRaw]; simp at he; rw [he]; rfl
      · intro a b hc; cases hc
    · cases h
  | contains l v =>
    simp only [opStep] at h
    split at h
    · cases h
      exact stepGood_done _ _ (Frame.refl _ _) (by simp) (by simp) (fun _ => rfl) (fun _ _ _ => rfl)
    · cases h
  | swap l i j =>
    simp only [opStep] at h
    split at h
    · rename_i hfree
      have hfree' := (isFree_iff _ _).1 hfree
      cases h
      refine stepGood_done _ _ (frame_setRaw_free _ hfree') (by simp) (by simp) ?_ ?_
      · intro _; simp only [specOp, absOf_setRaw]; rfl
      · intro a b hc; cases hc
    · cases h
  | len l =>
    simp only [opStep] at h
    split at h
    · cases h
      exact stepGood_done _ _ (Frame.refl _ _) (by simp) (by simp) (fun _ => rfl) (fun _ _ _ => rfl)
    · cases h
  | index l v =>
    simp only [opStep] at h
    split at h
    · cases h
      exact stepGood_done _ _ (Frame.refl _ _) (by simp) (by simp) (fun _ => rfl) (fun _ _ _ => rfl)
    · cases h
  | isEmpty l =>
    simp only [opStep] at h
    split at h
    · cases h
      exact stepGood_done _ _ (Frame.refl _ _) (by simp) (by simp) (fun _ => rfl) (fun _ _ _ => rfl)
    · cases h
  | toVec l =>
    simp only [opStep] at h
    split at h
    · cases h
      exact stepGood_done _ _ (Frame.refl _ _) (by simp) (by simp) (fun _ => rfl) (fun _ _ _ => rfl)
    · cases h
  | clone l =>
    simp only [opStep] at h
    cases h
    exact stepGood_done _ _ (frame_rc _) (by simp) (by simp)
      (fun _ => by simp [specOp, absOf_rc]) (fun _ _ hc => by cases hc)
  | drop l =>
    simp only [opStep] at h
    cases h
    refine stepGood_done _ _ (frame_rc _) ?_ (by simp)
      (fun _ => by simp [specOp, absOf_rc]) (fun _ _ hc => by cases hc)
    intro e he; split at he <;> simp at he; subst he; simp
  | eq a b =>
    cases pc with
    | zero =>
      simp only [opStep] at h
      split at h
      · rename_i hab
        cases h
        subst hab
        exact stepGood_done _ _ (Frame.refl _ _) (by simp) (by simp)
          (fun _ => by simp [specOp]) (fun _ _ hc => by cases hc)
      · rename_i hab
        split at h
        · rename_i hfree
          have hfree' := (isFree_iff _ _).1 hfree
          cases h
          exact stepGood_cont _ (frame_setOwner_free _ hfree') (by simp)
            ⟨hab, by simp [setOwner]⟩ (absOf_setOwner _ _ _)
        · cases h
    | succ n =>
      cases n with
      | zero =>
        simp only [opStep] at h
        split at h
        · cases h
          refine stepGood_done _ _ (frame_setOwner_own _ hpc.2) (by simp) (by simp) ?_ ?_
          · intro _; simp [specOp, absOf_setOwner]; rfl
          · intro a b hc; cases hc
        · cases h
      | succ m => simp [OpPc] at hpc
  | concat a b =>
    have h' : concatAtomicStep t cells a b pc = some o := by
      simpa [opStep, Facts.guarded] using h
    exact (concat_good hpc h').1

/-- the step that completes an operation *is* the sequential operation applied
    at that moment (every operation, `concat` included) -/
theorem opStep_sim {F : Facts} (hF : F = Facts.guarded) {t : Nat} {cells : Nat → Cell}
    {ptr : Option Ptr} {acc : RawList} {op : Op} {pc : Nat} {o : StepOut}
    (hpc : OpPc cells t ptr op pc) (h : opStep F t cells ptr acc op pc = some o)
    (r : Res) (hr : o.next = .done r) : specOp (absOf cells) op = (r, absOf o.cells) := by
  by_cases hc : ∃ a b, op = .concat a b
  · obtain ⟨a, b, rfl⟩ := hc
    subst hF
    have h' : concatAtomicStep t cells a b pc = some o := by
      simpa [opStep, Facts.guarded] using h
    exact (concat_good hpc h').2 r hr
  · exact (opStep_good hF hpc h).sim r hr (fun a b hab => hc ⟨a, b, hab⟩)

/-! ### one step of the whole system -/

/-- what one step of thread `t` does to the ghost log and the abstract view -/
inductive HistStep (t : Nat) (s s' : State) : Prop
  /-- the operation goes on: nothing observable changed -/
  | quiet (hh : s'.hist = s.hist) (ha : abs s' = abs s)
      (hr : ∀ u, (s'.threads u).results = (s.threads u).results)
      (hq : ∀ u, (s'.threads u).prog = (s.threads u).prog)
  /-- the operation completes with result `r`: it is the sequential operation applied now -/
  | completes (op : Op) (rest : List Op) (r : Res) (hp : (s.threads t).prog = op :: rest)
      (hh : s'.hist = s.hist ++ [⟨t, op, r⟩]) (hne : r ≠ .uaf)
      (hsim : specOp (abs s) op = (r, abs s'))
      (hr : ∀ u, (s'.threads u).results = (s.threads u).results ++ (if u = t then [r] else []))
      (hq : ∀ u, (s'.threads u).prog = if u = t then rest else (s.threads u).prog)

structure StepFacts (t : Nat) (s s' : State) : Prop where
  inv : Inv s'
  trace : ∃ evs, s'.trace = s.trace ++ [(t, evs)] ∧ ∀ e ∈ evs, e ≠ Ev.outside ∧ e ≠ Ev.stale
  hist : HistStep t s s'
  /-- programs only shrink -/
  progs : ∀ u op, op ∈ (s'.threads u).prog → op ∈ (s.threads u).prog

theorem step_facts {F : Facts} (hF : F = Facts.guarded) {t : Nat} {s s' : State}
    (hinv : Inv s) (h : step F t s = some s') : StepFacts t s s' := by
  unfold step at h
  simp only at h
  split at h
  · cases h
  · split at h
    · cases h
    · rename_i op rest hprog
      split at h
      · cases h
      · rename_i o hop
        have hpc : OpPc s.cells t (s.threads t).ptr op (s.threads t).pc := by
          have := hinv t
          unfold PcOK at this
          rw [hprog] at this
          exact this
        have g := opStep_good hF hpc hop
        split at h
        · -- cont
          rename_i hnext
          cases h
          obtain ⟨hn, ha⟩ := g.cont hnext
          refine ⟨?_, ⟨o.evs, rfl, g.evs⟩, ?_, ?_⟩
          · intro u
            by_cases hu : u = t
            · subst hu
              simp only [upd_same]
              unfold PcOK
              simp only [hprog]
              exact hn
            · simp only [upd_other _ _ _ _ hu]
              exact pcOK_frame g.frame hu (hinv u)
          · refine .quiet rfl ha ?_ ?_
            · intro u
              by_cases hu : u = t
              · subst hu; simp
              · simp [upd_other _ _ _ _ hu]
            · intro u
              by_cases hu : u = t
              · subst hu; simp
              · simp [upd_other _ _ _ _ hu]
          · intro u op' hop'
            by_cases hu : u = t
            · subst hu; simpa [hprog] using hop'
            · simpa [upd_other _ _ _ _ hu] using hop'
        · -- done
          rename_i r hnext
          cases h
          refine ⟨?_, ⟨o.evs, rfl, g.evs⟩, ?_, ?_⟩
          · intro u
            by_cases hu : u = t
            · subst hu
              simp only [upd_same]
              unfold PcOK
              simp only
              split <;> simp [OpPc]
            · simp only [upd_other _ _ _ _ hu]
              exact pcOK_frame g.frame hu (hinv u)
          · refine .completes op rest r hprog rfl (g.res r hnext) (opStep_sim hF hpc hop r hnext) ?_ ?_
            · intro u
              by_cases hu : u = t
              · subst hu; simp
              · simp [hu]
            · intro u
              by_cases hu : u = t
              · subst hu; simp
              · simp [hu]
          · intro u op' hop'
            by_cases hu : u = t
            · subst hu
              simp only [upd_same] at hop'
              rw [hprog]; exact List.mem_cons_of_mem _ hop'
            · simpa [upd_other _ _ _ _ hu] using hop'
        · -- trap
          rename_i hnext
          exact absurd hnext g.notrap

theorem specRun_append (σ : Spec) (xs ys : List Op) :
    specRun σ (xs ++ ys) =
      ((specRun σ xs).1 ++ (specRun (specRun σ xs).2 ys).1, (specRun (specRun σ xs).2 ys).2) := by
  induction xs generalizing σ with
  | nil => simp [specRun]
  | cons x xs ih =>
    simp only [List.cons_append, specRun]
    rw [ih]

theorem specRun_snoc (σ : Spec) (xs : List Op) (op : Op) (rs : List Res) (σ' : Spec) (r : Res) (σ'' : Spec)
    (h1 : specRun σ xs = (rs, σ')) (h2 : specOp σ' op = (r, σ'')) :
    specRun σ (xs ++ [op]) = (rs ++ [r], σ'') := by
  rw [specRun_append, h1]
  simp [specRun, h2]

/-- what a whole schedule guarantees, relative to its start state -/
structure RunFacts (s s' : State) : Prop where
  inv : Inv s'
  /-- the new part of the ghost log -/
  hist : ∃ ds, s'.hist = s.hist ++ ds ∧ (∀ d ∈ ds, d.res ≠ .uaf) ∧
    (∀ d ∈ ds, d.op ∈ (s.threads d.tid).prog) ∧
    (∀ u, (s'.threads u).results = (s.threads u).results ++ ((ds.filter (·.tid = u)).map (·.res))) ∧
    (∀ u, (ds.filter (·.tid = u)).map (·.op) ++ (s'.threads u).prog = (s.threads u).prog) ∧
    specRun (abs s) (ds.map (·.op)) = (ds.map (·.res), abs s')
  trace : ∃ tr, s'.trace = s.trace ++ tr ∧ ∀ e ∈ tr, ∀ x ∈ e.2, x ≠ Ev.outside ∧ x ≠ Ev.stale
  progs : ∀ u op, op ∈ (s'.threads u).prog → op ∈ (s.threads u).prog

theorem run_facts {F : Facts} (hF : F = Facts.guarded) :
    ∀ (sched : List Nat) (s s' : State), Inv s → run F s sched = some s' → RunFacts s s' := by
  intro sched
  induction sched with
  | nil =>
    intro s s' hinv h
    simp only [run, Option.some.injEq] at h
    subst h
    exact ⟨hinv, ⟨[], by simp [specRun]⟩, ⟨[], by simp⟩, fun _ _ h => h⟩
  | cons t rest ih =>
    intro s s' hinv h
    simp only [run] at h
    split at h
    · cases h
    · rename_i s1 hstep
      have f1 := step_facts hF hinv hstep
      have f2 := ih s1 s' f1.inv h
      obtain ⟨ds, hds, hne, hmem, hres, hord, hsim⟩ := f2.hist
      obtain ⟨tr, htr, htrg⟩ := f2.trace
      obtain ⟨evs, hevs, hevg⟩ := f1.trace
      refine ⟨f2.inv, ?_, ⟨(t, evs) :: tr, by rw [htr, hevs]; simp, ?_⟩,
        fun u op h' => f1.progs u op (f2.progs u op h')⟩
      · cases f1.hist with
        | quiet hh ha hr hq =>
          refine ⟨ds, by rw [hds, hh], hne, fun d hd => f1.progs _ _ (hmem d hd), ?_, ?_, ?_⟩
          · intro u; rw [hres u, hr u]
          · intro u; rw [hord u, hq u]
          · rw [← ha]; exact hsim
        | completes op rest' r hp hh hne' hsim' hr hq =>
          refine ⟨⟨t, op, r⟩ :: ds, by rw [hds, hh]; simp, ?_, ?_, ?_, ?_, ?_⟩
          · intro d hd
            rcases List.mem_cons.1 hd with h' | h'
            · subst h'; exact hne'
            · exact hne d h'
          · intro d hd
            rcases List.mem_cons.1 hd with h' | h'
            · subst h'; simp [hp]
            · exact f1.progs _ _ (hmem d h')
          · intro u
            rw [hres u, hr u]
            by_cases hu : u = t
            · subst hu; simp
            · have : ¬ t = u := fun h => hu h.symm
              simp [hu, this]
          · intro u
            have h1 := hord u
            rw [hq u] at h1
            by_cases hu : u = t
            · subst hu
              simp only [↓reduceIte] at h1
              simp [hp, h1]
            · have : ¬ t = u := fun h => hu h.symm
              simp only [hu, ↓reduceIte] at h1
              simp [this, h1]
          · simp only [List.map_cons, specRun, hsim', hsim]
      · intro e he
        rcases List.mem_cons.1 he with h' | h'
        · subst h'; exact hevg
        · exact htrg e h'

theorem inv_init (lists : List (List Nat)) (progs : List (List Op)) : Inv (init lists progs) := by
  intro t
  unfold PcOK init
  simp only
  split <;> simp [OpPc]

/-- the ghost log only grows (any facts) -/
theorem step_hist_grows {F : Facts} {t : Nat} {s s' : State} (h : step F t s = some s') :
    ∃ ds, s'.hist = s.hist ++ ds := by
  unfold step at h
  simp only at h
  split at h
  · cases h
  · split at h
    · cases h
    · split at h
      · cases h
      · split at h
        · cases h; exact ⟨[], by simp⟩
        · cases h; exact ⟨_, rfl⟩
        · cases h; exact ⟨_, rfl⟩

theorem run_hist_grows {F : Facts} : ∀ (sched : List Nat) (s s' : State),
    run F s sched = some s' → ∃ ds, s'.hist = s.hist ++ ds := by
  intro sched
  induction sched with
  | nil => intro s s' h; simp only [run, Option.some.injEq] at h; subst h; exact ⟨[], by simp⟩
  | cons t rest ih =>
    intro s s' h
    simp only [run] at h
    split at h
    · cases h
    · rename_i s1 hs
      obtain ⟨d1, h1⟩ := step_hist_grows hs
      obtain ⟨d2, h2⟩ := ih s1 s' h
      exact ⟨d1 ++ d2, by rw [h2, h1]; simp⟩

theorem run_append {F : Facts} : ∀ (pre post : List Nat) (s : State),
    run F s (pre ++ post) = (run F s pre).bind fun s1 => run F s1 post := by
  intro pre
  induction pre with
  | nil => intro post s; simp [run]
  | cons t rest ih =>
    intro post s
    simp only [List.cons_append, run]
    split
    · simp
    · rename_i s1 _; exact ih post s1

/-! ### who owns which mutex (for deadlock freedom) -/

/-- the mutex thread `t` holds when it stands at step `pc` of `op` -/
def HoldsOp : Op → Nat → Nat → Prop
  | .get l' _, 1, l => l' = l
  | .ffiGet l' _, 1, l => l' = l
  | .eq a b, 1, l => a ≠ b ∧ eqFirst Facts.guarded a b = l
  | .concat a b, 1, l => min a b = l
  | .concat a b, 2, l => a ≠ b ∧ (min a b = l ∨ max a b = l)
  | _, _, _ => False

theorem owner_setRaw (c : Nat → Cell) (x : Nat) (r : RawList) (l : Nat) :
    (setRaw c x r l).owner = (c l).owner := by
  by_cases h : l = x
  · subst h; simp [setRaw]
  · simp [setRaw, h]

theorem owner_rc (c : Nat → Cell) (x n l : Nat) :
    (upd c x { c x with rc := n } l).owner = (c l).owner := by
  by_cases h : l = x
  · subst h; simp
  · simp [h]

/-- after a step of `t`: every mutex is held by whom it was held before (not
    `t`), or by `t` at its next position -/
def OwnerOK (t : Nat) (cells : Nat → Cell) (op : Op) (pc : Nat) (o : StepOut) : Prop :=
  ∀ l u, (o.cells l).owner = some u →
    (u ≠ t ∧ (cells l).owner = some u) ∨ (u = t ∧ o.next = .cont ∧ HoldsOp op (pc + 1) l)

/-- the cells did not change owners and `t` holds nothing -/
theorem ownerOK_same {t : Nat} {cells cells' : Nat → Cell} {op : Op} {pc : Nat} {o : StepOut}
    (hc : o.cells = cells') (hsame : ∀ l, (cells' l).owner = (cells l).owner)
    (hnone : ∀ l, (cells l).owner ≠ some t) : OwnerOK t cells op pc o := by
  intro l u h
  rw [hc, hsame] at h
  refine Or.inl ⟨?_, h⟩
  intro hu; subst hu; exact hnone l h

/-- `t` acquires `x` (free before) and goes on -/
theorem ownerOK_acquire {t : Nat} {cells : Nat → Cell} {op : Op} {pc : Nat} {o : StepOut} {x : Nat}
    (hc : o.cells = setOwner cells x (some t)) (hn : o.next = .cont) (hh : HoldsOp op (pc + 1) x)
    (hnone : ∀ l, (cells l).owner ≠ some t) : OwnerOK t cells op pc o := by
  intro l u h
  rw [hc, owner_setOwner] at h
  split at h
  · rename_i hl; subst hl; cases h; exact Or.inr ⟨rfl, hn, hh⟩
  · refine Or.inl ⟨?_, h⟩
    intro hu; subst hu; exact hnone l h

/-- `t` releases `x`, the only mutex it held -/
theorem ownerOK_release {t : Nat} {cells : Nat → Cell} {op : Op} {pc : Nat} {o : StepOut} {x : Nat}
    (hc : o.cells = setOwner cells x none)
    (honly : ∀ l, (cells l).owner = some t → l = x) : OwnerOK t cells op pc o := by
  intro l u h
  rw [hc, owner_setOwner] at h
  split at h
  · cases h
  · rename_i hl
    refine Or.inl ⟨?_, h⟩
    intro hu; subst hu; exact hl (honly l h)

/-- `t` acquires `x` (free before) while keeping what it holds -/
theorem ownerOK_acquire_more {t : Nat} {cells : Nat → Cell} {op : Op} {pc : Nat} {o : StepOut} {x : Nat}
    (hc : o.cells = setOwner cells x (some t)) (hn : o.next = .cont) (hh : HoldsOp op (pc + 1) x)
    (hkeep : ∀ l, (cells l).owner = some t → HoldsOp op (pc + 1) l) : OwnerOK t cells op pc o := by
  intro l u h
  rw [hc, owner_setOwner] at h
  split at h
  · rename_i hl; subst hl; cases h; exact Or.inr ⟨rfl, hn, hh⟩
  · by_cases hu : u = t
    · subst hu; exact Or.inr ⟨rfl, hn, hkeep l h⟩
    · exact Or.inl ⟨hu, h⟩

/-- `t` releases `x` and `y`, the only mutexes it held -/
theorem ownerOK_release2 {t : Nat} {cells : Nat → Cell} {op : Op} {pc : Nat} {o : StepOut} {x y : Nat}
    (hc : o.cells = setOwner (setOwner cells x none) y none)
    (honly : ∀ l, (cells l).owner = some t → l = x ∨ l = y) : OwnerOK t cells op pc o := by
  intro l u h
  rw [hc, owner_setOwner] at h
  split at h
  · cases h
  · rename_i hy
    rw [owner_setOwner] at h
    split at h
    · cases h
    · rename_i hx
      refine Or.inl ⟨?_, h⟩
      intro hu; subst hu
      rcases honly l h with h' | h'
      · exact hx h'
      · exact hy h'

theorem concat_owner {t : Nat} {cells : Nat → Cell} {ptr : Option Ptr} {a b pc : Nat} {o : StepOut}
    (hpc : OpPc cells t ptr (.concat a b) pc)
    (hown : ∀ l, (cells l).owner = some t → HoldsOp (.concat a b) pc l)
    (h : concatAtomicStep t cells a b pc = some o) : OwnerOK t cells (.concat a b) pc o := by
  rcases pc with _ | _ | _ | n
  · have hn : ∀ l, (cells l).owner ≠ some t := fun l hl => by simpa [HoldsOp] using hown l hl
    simp only [concatAtomicStep] at h
    split at h
    · cases h; exact ownerOK_acquire rfl rfl (by simp [HoldsOp]) hn
    · cases h
  · simp only [concatAtomicStep] at h
    split at h
    · rename_i hab
      subst hab
      generalize concatCopy (cells a).raw.elems (cells a).raw.elems = pr at h
      obtain ⟨acc', re⟩ := pr
      cases h
      exact ownerOK_release rfl (fun l' hl' => by simpa [HoldsOp] using (hown l' hl').symm)
    · rename_i hab
      split at h
      · cases h
        refine ownerOK_acquire_more rfl rfl ⟨hab, Or.inr rfl⟩ ?_
        intro l hl
        exact ⟨hab, Or.inl (by simpa [HoldsOp] using hown l hl)⟩
      · cases h
  · simp only [concatAtomicStep] at h
    generalize concatCopy (cells a).raw.elems (cells b).raw.elems = pr at h
    obtain ⟨acc', re⟩ := pr
    cases h
    refine ownerOK_release2 rfl ?_
    intro l hl
    have := (hown l hl).2
    rcases this with h' | h'
    · exact Or.inl h'.symm
    · exact Or.inr h'.symm
  · simp [OpPc] at hpc

theorem opStep_owner {F : Facts} (hF : F = Facts.guarded) {t : Nat} {cells : Nat → Cell}
    {ptr : Option Ptr} {acc : RawList} {op : Op} {pc : Nat} {o : StepOut}
    (hpc : OpPc cells t ptr op pc)
    (hown : ∀ l, (cells l).owner = some t → HoldsOp op pc l)
    (h : opStep F t cells ptr acc op pc = some o) : OwnerOK t cells op pc o := by
  subst hF
  have none_of (hf : ∀ l, ¬ HoldsOp op pc l) : ∀ l, (cells l).owner ≠ some t :=
    fun l hl => hf l (hown l hl)
  cases op with
  | get l i =>
    cases pc with
    | zero =>
      have hn := none_of (by intro l; simp [HoldsOp])
      simp only [opStep, lookupStep, Facts.guarded] at h
      split at h
      · split at h
        · cases h; exact ownerOK_acquire rfl rfl (by simp [HoldsOp]) hn
        · cases h; exact ownerOK_same rfl (fun _ => rfl) hn
      · cases h
    | succ n =>
      cases n with
      | zero =>
        have hp := hpc.2.1
        subst hp
        simp only [opStep, cloneStep, Facts.guarded, Bool.not_true, Bool.and_false, Bool.false_and,
          Bool.false_eq_true, ↓reduceIte] at h
        cases h
        exact ownerOK_release rfl (fun l' hl' => (hown l' hl').symm)
      | succ m => simp [OpPc] at hpc
  | ffiGet l i =>
    cases pc with
    | zero =>
      have hn := none_of (by intro l; simp [HoldsOp])
      simp only [opStep, lookupStep, Facts.guarded] at h
      split at h
      · split at h
        · cases h; exact ownerOK_acquire rfl rfl (by simp [HoldsOp]) hn
        · cases h; exact ownerOK_same rfl (fun _ => rfl) hn
      · cases h
    | succ n =>
      cases n with
      | zero =>
        have hp := hpc.2.1
        subst hp
        simp only [opStep, cloneStep, Facts.guarded, Bool.not_true, Bool.and_false, Bool.false_and,
          Bool.false_eq_true, ↓reduceIte] at h
        cases h
        exact ownerOK_release rfl (fun l' hl' => (hown l' hl').symm)
      | succ m => simp [OpPc] at hpc
  | push l v =>
    have hn := none_of (by intro l; simp [HoldsOp])
    simp only [opStep] at h
    split at h
    · generalize (cells l).raw.push v = pr at h
      obtain ⟨r', re⟩ := pr
      cases h
      exact ownerOK_same rfl (fun l' => owner_setRaw _ _ _ l') hn
    · cases h
  | contains l v =>
    have hn := none_of (by intro l; simp [HoldsOp])
    simp only [opStep] at h
    split at h
    · cases h; exact ownerOK_same rfl (fun _ => rfl) hn
    · cases h
  | swap l i j =>
    have hn := none_of (by intro l; simp [HoldsOp])
    simp only [opStep] at h
    split at h
    · cases h; exact ownerOK_same rfl (fun l' => owner_setRaw _ _ _ l') hn
    · cases h
  | len l =>
    have hn := none_of (by intro l; simp [HoldsOp])
    simp only [opStep] at h
    split at h
    · cases h; exact ownerOK_same rfl (fun _ => rfl) hn
    · cases h
  | index l v =>
    have hn := none_of (by intro l; simp [HoldsOp])
    simp only [opStep] at h
    split at h
    · cases h; exact ownerOK_same rfl (fun _ => rfl) hn
    · cases h
  | isEmpty l =>
    have hn := none_of (by intro l; simp [HoldsOp])
    simp only [opStep] at h
    split at h
    · cases h; exact ownerOK_same rfl (fun _ => rfl) hn
    · cases h
  | toVec l =>
    have hn := none_of (by intro l; simp [HoldsOp])
    simp only [opStep] at h
    split at h
    · cases h; exact ownerOK_same rfl (fun _ => rfl) hn
    · cases h
  | clone l =>
    have hn := none_of (by intro l; simp [HoldsOp])
    simp only [opStep] at h
    cases h
    exact ownerOK_same rfl (fun l' => owner_rc _ _ _ l') hn
  | drop l =>
    have hn := none_of (by intro l; simp [HoldsOp])
    simp only [opStep] at h
    cases h
    exact ownerOK_same rfl (fun l' => owner_rc _ _ _ l') hn
  | eq a b =>
    cases pc with
    | zero =>
      have hn := none_of (by intro l; simp [HoldsOp])
      simp only [opStep] at h
      split at h
      · cases h; exact ownerOK_same rfl (fun _ => rfl) hn
      · rename_i hab
        split at h
        · cases h; exact ownerOK_acquire rfl rfl ⟨hab, rfl⟩ hn
        · cases h
    | succ n =>
      cases n with
      | zero =>
        simp only [opStep] at h
        split at h
        · cases h
          exact ownerOK_release rfl (fun l' hl' => ((hown l' hl').2).symm)
        · cases h
      | succ m => simp [OpPc] at hpc
  | concat a b =>
    have h' : concatAtomicStep t cells a b pc = some o := by
      simpa [opStep, Facts.guarded] using h
    exact concat_owner hpc hown h'

def Own (s : State) : Prop :=
  (∀ l u, (s.cells l).owner = some u →
    ∃ op rest, (s.threads u).prog = op :: rest ∧ HoldsOp op (s.threads u).pc l) ∧
  (∀ t, (s.threads t).halted = false)

theorem own_init (lists : List (List Nat)) (progs : List (List Op)) : Own (init lists progs) := by
  refine ⟨?_, fun _ => rfl⟩
  intro l u h
  simp [init, initCell] at h

theorem step_own {F : Facts} (hF : F = Facts.guarded) {t : Nat} {s s' : State}
    (hinv : Inv s) (hown : Own s) (h : step F t s = some s') : Own s' := by
  unfold step at h
  simp only at h
  split at h
  · cases h
  · rename_i hhalt
    split at h
    · cases h
    · rename_i op rest hprog
      split at h
      · cases h
      · rename_i o hop
        have hpc : OpPc s.cells t (s.threads t).ptr op (s.threads t).pc := by
          have := hinv t
          unfold PcOK at this
          rw [hprog] at this
          exact this
        have hmine : ∀ l, (s.cells l).owner = some t → HoldsOp op (s.threads t).pc l := by
          intro l hl
          obtain ⟨op', rest', hp', hh⟩ := hown.1 l t hl
          rw [hprog] at hp'
          cases hp'
          exact hh
        have g := opStep_good hF hpc hop
        have w := opStep_owner hF hpc hmine hop
        split at h
        · rename_i hnext
          cases h
          refine ⟨?_, ?_⟩
          · intro l u hl
            rcases w l u hl with ⟨hu, hold⟩ | ⟨hu, _, hh⟩
            · obtain ⟨op', rest', hp', hh⟩ := hown.1 l u hold
              exact ⟨op', rest', by simpa [upd_other _ _ _ _ hu] using hp', by simpa [upd_other _ _ _ _ hu] using hh⟩
            · subst hu
              exact ⟨op, rest, by simp [hprog], by simpa using hh⟩
          · intro u
            by_cases hu : u = t
            · subst hu; simpa using hhalt
            · simpa [upd_other _ _ _ _ hu] using hown.2 u
        · rename_i r hnext
          cases h
          refine ⟨?_, ?_⟩
          · intro l u hl
            rcases w l u hl with ⟨hu, hold⟩ | ⟨_, hc, _⟩
            · obtain ⟨op', rest', hp', hh⟩ := hown.1 l u hold
              exact ⟨op', rest', by simpa [upd_other _ _ _ _ hu] using hp', by simpa [upd_other _ _ _ _ hu] using hh⟩
            · rw [hnext] at hc; cases hc
          · intro u
            by_cases hu : u = t
            · subst hu; simpa using hhalt
            · simpa [upd_other _ _ _ _ hu] using hown.2 u
        · rename_i hnext
          exact absurd hnext g.notrap

theorem run_own {F : Facts} (hF : F = Facts.guarded) :
    ∀ (sched : List Nat) (s s' : State), Inv s → Own s → run F s sched = some s' → Own s' := by
  intro sched
  induction sched with
  | nil => intro s s' _ ho h; simp only [run, Option.some.injEq] at h; subst h; exact ho
  | cons t rest ih =>
    intro s s' hi ho h
    simp only [run] at h
    split at h
    · cases h
    · rename_i s1 hs
      exact ih s1 s' (step_facts hF hi hs).inv (step_own hF hi ho hs) h

/-! ### enabledness -/

/-- the mutex the next step of `op` at `pc` must find free, if any -/
def NeedsOp : Op → Nat → Option Nat
  | .get l _, 0 => some l
  | .ffiGet l _, 0 => some l
  | .push l _, _ => some l
  | .contains l _, _ => some l
  | .swap l _ _, _ => some l
  | .len l, _ => some l
  | .index l _, _ => some l
  | .isEmpty l, _ => some l
  | .toVec l, _ => some l
  | .eq a b, 0 => if a = b then none else some (eqFirst Facts.guarded a b)
  | .eq a b, _ => some (eqSecond Facts.guarded a b)
  | .concat a b, 0 => some (min a b)
  | .concat a b, 1 => if a = b then none else some (max a b)
  | _, _ => none

theorem opStep_enabled {F : Facts} (hF : F = Facts.guarded) {t : Nat} {cells : Nat → Cell}
    {ptr : Option Ptr} {acc : RawList} {op : Op} {pc : Nat}
    (hpc : OpPc cells t ptr op pc)
    (hfree : ∀ l, NeedsOp op pc = some l → (cells l).owner = none) :
    (opStep F t cells ptr acc op pc).isSome = true := by
  subst hF
  have fr : ∀ l, NeedsOp op pc = some l → isFree cells l = true :=
    fun l hl => (isFree_iff _ _).2 (hfree l hl)
  cases op with
  | get l i =>
    cases pc with
    | zero =>
      have := fr l rfl
      simp only [opStep, lookupStep, this, ↓reduceIte]
      split <;> rfl
    | succ n =>
      cases n with
      | zero =>
        have hp := hpc.2.1
        subst hp
        simp [opStep, cloneStep, Facts.guarded]
      | succ m => simp [OpPc] at hpc
  | ffiGet l i =>
    cases pc with
    | zero =>
      have := fr l rfl
      simp only [opStep, lookupStep, this, ↓reduceIte]
      split <;> rfl
    | succ n =>
      cases n with
      | zero =>
        have hp := hpc.2.1
        subst hp
        simp [opStep, cloneStep, Facts.guarded]
      | succ m => simp [OpPc] at hpc
  | push l v => have := fr l (by simp [NeedsOp]); simp [opStep, this]
  | contains l v => have := fr l (by simp [NeedsOp]); simp [opStep, this]
  | swap l i j => have := fr l (by simp [NeedsOp]); simp [opStep, this]
  | len l => have := fr l (by simp [NeedsOp]); simp [opStep, this]
  | index l v => have := fr l (by simp [NeedsOp]); simp [opStep, this]
  | isEmpty l => have := fr l (by simp [NeedsOp]); simp [opStep, this]
  | toVec l => have := fr l (by simp [NeedsOp]); simp [opStep, this]
  | clone l => simp [opStep]
  | drop l => simp [opStep]
  | eq a b =>
    cases pc with
    | zero =>
      by_cases hab : a = b
      · simp [opStep, hab]
      · have := fr (eqFirst Facts.guarded a b) (by simp [NeedsOp, hab])
        simp [opStep, hab, this]
    | succ n => have := fr (eqSecond Facts.guarded a b) (by simp [NeedsOp]); simp [opStep, this]
  | concat a b =>
    rcases pc with _ | _ | n
    · have := fr (min a b) rfl
      simp [opStep, Facts.guarded, concatAtomicStep, this]
    · by_cases hab : a = b
      · simp [opStep, Facts.guarded, concatAtomicStep, hab]
      · have := fr (max a b) (by simp [NeedsOp, hab])
        simp [opStep, Facts.guarded, concatAtomicStep, hab, this]
    · simp [opStep, Facts.guarded, concatAtomicStep]

theorem step_enabled {F : Facts} (hF : F = Facts.guarded) {t : Nat} {s : State} {op : Op}
    {rest : List Op} (hinv : Inv s) (hown : Own s) (hprog : (s.threads t).prog = op :: rest)
    (hfree : ∀ l, NeedsOp op (s.threads t).pc = some l → (s.cells l).owner = none) :
    (step F t s).isSome = true := by
  have hpc : OpPc s.cells t (s.threads t).ptr op (s.threads t).pc := by
    have := hinv t
    unfold PcOK at this
    rw [hprog] at this
    exact this
  have he := opStep_enabled hF (acc := (s.threads t).acc) hpc hfree
  unfold step
  simp only [hown.2 t, Bool.false_eq_true, ↓reduceIte, hprog]
  cases hop : opStep F t s.cells (s.threads t).ptr (s.threads t).acc op (s.threads t).pc with
  | none => rw [hop] at he; cases he
  | some o =>
    simp only
    split <;> rfl

/-- the largest list index an operation mentions -/
def Op.maxId : Op → Nat
  | .get l _ | .ffiGet l _ | .push l _ | .contains l _ | .swap l _ _ | .len l | .clone l | .drop l
  | .index l _ | .isEmpty l | .toVec l => l
  | .concat a b | .eq a b => max a b

theorem needs_le_maxId (op : Op) (pc l : Nat) (h : NeedsOp op pc = some l) : l ≤ op.maxId := by
  cases op <;> cases pc <;> simp [NeedsOp, Op.maxId, eqFirst, eqSecond, Facts.guarded] at h ⊢
  all_goals first
    | omega
    | (rename_i n; cases n <;> simp [NeedsOp] at h <;> omega)
    | (split at h <;> simp at h <;> omega)

/-- if some mutex `l ≤ M` is held, some thread can move (all mutex indices the
    programs mention are ≤ M; `==` takes the smaller index first, so a chain of
    waiting holders climbs and must end) -/
theorem progress_of_held {F : Facts} (hF : F = Facts.guarded) {s : State} (hinv : Inv s)
    (hown : Own s) (M : Nat) (hM : ∀ t op, op ∈ (s.threads t).prog → op.maxId ≤ M) :
    ∀ k l, M - l ≤ k → l ≤ M → (∃ u, (s.cells l).owner = some u) → ∃ v, (step F v s).isSome = true := by
  intro k
  induction k with
  | zero =>
    intro l hk hl ⟨u, hu⟩
    obtain ⟨op, rest, hp, hh⟩ := hown.1 l u hu
    by_cases hfree : ∀ l', NeedsOp op (s.threads u).pc = some l' → (s.cells l').owner = none
    · exact ⟨u, step_enabled hF hinv hown hp hfree⟩
    · exfalso
      have hle := hM u op (by rw [hp]; exact List.mem_cons_self)
      -- only `==` waits while holding, and it waits for a larger index
      cases op <;> generalize hpc : (s.threads u).pc = pc at hh hfree <;> cases pc <;>
        simp [HoldsOp, NeedsOp] at hh hfree
      all_goals first
        | (rename_i n; cases n <;> simp [HoldsOp, NeedsOp] at hh hfree)
        | skip
      all_goals
        try simp [eqFirst, eqSecond, Facts.guarded, Op.maxId] at hh hle
        omega
  | succ k ih =>
    intro l hk hl ⟨u, hu⟩
    obtain ⟨op, rest, hp, hh⟩ := hown.1 l u hu
    by_cases hfree : ∀ l', NeedsOp op (s.threads u).pc = some l' → (s.cells l').owner = none
    · exact ⟨u, step_enabled hF hinv hown hp hfree⟩
    · have hle := hM u op (by rw [hp]; exact List.mem_cons_self)
      obtain ⟨l2, h2⟩ := Classical.not_forall.1 hfree
      obtain ⟨hneed, hheld⟩ := Classical.not_imp.1 h2
      have hl2 : l2 ≤ M := Nat.le_trans (needs_le_maxId _ _ _ hneed) hle
      have hgt : l < l2 := by
        cases op <;> generalize hpc : (s.threads u).pc = pc at hh hneed <;> cases pc <;>
          simp [HoldsOp, NeedsOp] at hh hneed
        all_goals first
          | (rename_i n; cases n <;> simp [HoldsOp, NeedsOp] at hh hneed)
          | skip
        all_goals
          try simp [eqFirst, eqSecond, Facts.guarded] at hh hneed
          omega
      have hsome : ∃ v, (s.cells l2).owner = some v := by
        cases h : (s.cells l2).owner with
        | none => exact absurd h hheld
        | some v => exact ⟨v, rfl⟩
      exact ih l2 (by omega) hl2 hsome

/-- **progress**: in a reachable state, if some thread still has work, some thread can move -/
theorem progress {F : Facts} (hF : F = Facts.guarded) {s : State} (hinv : Inv s) (hown : Own s)
    (M : Nat) (hM : ∀ t op, op ∈ (s.threads t).prog → op.maxId ≤ M)
    (t : Nat) (hunf : unfinished s t = true) : ∃ v, (step F v s).isSome = true := by
  have hne : (s.threads t).prog ≠ [] := by
    intro h; simp [unfinished, h] at hunf
  obtain ⟨op, rest, hp⟩ := List.exists_cons_of_ne_nil hne
  by_cases hfree : ∀ l', NeedsOp op (s.threads t).pc = some l' → (s.cells l').owner = none
  · exact ⟨t, step_enabled hF hinv hown hp hfree⟩
  · obtain ⟨l2, h2⟩ := Classical.not_forall.1 hfree
    obtain ⟨hneed, hheld⟩ := Classical.not_imp.1 h2
    have hle := hM t op (by rw [hp]; exact List.mem_cons_self)
    have hl2 : l2 ≤ M := Nat.le_trans (needs_le_maxId _ _ _ hneed) hle
    have hsome : ∃ v, (s.cells l2).owner = some v := by
      cases h : (s.cells l2).owner with
      | none => exact absurd h hheld
      | some v => exact ⟨v, rfl⟩
    exact progress_of_held hF hinv hown M hM (M - l2) l2 (Nat.le_refl _) hl2 hsome

theorem le_foldr_max (l : List Nat) (x : Nat) (h : x ∈ l) : x ≤ l.foldr max 0 := by
  induction l with
  | nil => cases h
  | cons y ys ih =>
    simp only [List.foldr_cons]
    rcases List.mem_cons.1 h with h' | h'
    · subst h'; exact Nat.le_max_left _ _
    · exact Nat.le_trans (ih h') (Nat.le_max_right _ _)

/-- a bound on every list index the programs mention -/
def maxIdOf (progs : List (List Op)) : Nat := (progs.flatten.map Op.maxId).foldr max 0

theorem init_prog_mem {lists : List (List Nat)} {progs : List (List Op)} {t : Nat} {op : Op}
    (h : op ∈ ((init lists progs).threads t).prog) : t < progs.length ∧ op ∈ progs.flatten := by
  simp only [init] at h
  by_cases hlt : t < progs.length
  · have : progs.getD t [] = progs[t] := by simp [List.getD, hlt]
    rw [this] at h
    exact ⟨hlt, List.mem_flatten.2 ⟨_, List.getElem_mem hlt, h⟩⟩
  · have : progs.getD t [] = [] := by
      simp [List.getD, List.getElem?_eq_none (Nat.le_of_not_lt hlt)]
    rw [this] at h
    cases h

/-- in every reachable state, if thread `t` still has work then some thread
    `v` (one of the `progs.length` threads) can take a step -/
theorem reachable_progress {F : Facts} (hF : F = Facts.guarded) (lists : List (List Nat))
    (progs : List (List Op)) (sched : List Nat) (s' : State)
    (hrun : run F (init lists progs) sched = some s') (t : Nat) (hunf : unfinished s' t = true) :
    ∃ v, v < progs.length ∧ (step F v s').isSome = true := by
  have f := run_facts hF sched _ _ (inv_init lists progs) hrun
  have ho := run_own hF sched _ _ (inv_init lists progs) (own_init lists progs) hrun
  have hM : ∀ u op, op ∈ (s'.threads u).prog → op.maxId ≤ maxIdOf progs := by
    intro u op h
    have := (init_prog_mem (f.progs u op h)).2
    exact le_foldr_max _ _ (List.mem_map.2 ⟨op, this, rfl⟩)
  obtain ⟨v, hv⟩ := progress hF f.inv ho (maxIdOf progs) hM t hunf
  refine ⟨v, ?_, hv⟩
  -- an enabled thread has a non-empty program, so it is one of the real threads
  have hne : (s'.threads v).prog ≠ [] := by
    intro hnil
    unfold step at hv
    simp [hnil] at hv
  obtain ⟨op, rest, hp⟩ := List.exists_cons_of_ne_nil hne
  exact (init_prog_mem (f.progs v op (by rw [hp]; exact List.mem_cons_self))).1

/-! ### real-time bookkeeping (ghost `spans`, any facts) -/

/-- `spans` runs parallel to `hist`; the last-step indices increase along the
    log and lie in the past; an operation starts no later than it ends -/
structure Timed (s : State) : Prop where
  len : s.spans.length = s.hist.length
  sorted : s.spans.Pairwise (fun a b => a.2 < b.2)
  bound : ∀ p ∈ s.spans, p.2 < s.trace.length
  le : ∀ p ∈ s.spans, p.1 ≤ p.2
  start : ∀ t, (s.threads t).startAt ≤ s.trace.length

theorem timed_init (lists : List (List Nat)) (progs : List (List Op)) : Timed (init lists progs) :=
  ⟨rfl, List.Pairwise.nil, by simp [init], by simp [init], by simp [init]⟩

theorem timed_snoc {s : State} (h : Timed s) (st : Nat) (hst : st ≤ s.trace.length) :
    (s.spans ++ [(st, s.trace.length)]).Pairwise (fun a b => a.2 < b.2) ∧
    (∀ p ∈ s.spans ++ [(st, s.trace.length)], p.2 < s.trace.length + 1) ∧
    (∀ p ∈ s.spans ++ [(st, s.trace.length)], p.1 ≤ p.2) := by
  refine ⟨?_, ?_, ?_⟩
  · rw [List.pairwise_append]
    refine ⟨h.sorted, List.pairwise_singleton _ _, ?_⟩
    intro a ha b hb
    simp only [List.mem_singleton] at hb
    subst hb
    exact h.bound a ha
  · intro p hp
    rcases List.mem_append.1 hp with hp | hp
    · exact Nat.lt_succ_of_lt (h.bound p hp)
    · simp only [List.mem_singleton] at hp; subst hp; exact Nat.lt_succ_self _
  · intro p hp
    rcases List.mem_append.1 hp with hp | hp
    · exact h.le p hp
    · simp only [List.mem_singleton] at hp; subst hp; exact hst

theorem step_timed {F : Facts} {t : Nat} {s s' : State} (ht : Timed s) (h : step F t s = some s') :
    Timed s' := by
  have hstart : (if (s.threads t).pc = 0 then s.trace.length else (s.threads t).startAt) ≤ s.trace.length := by
    split
    · exact Nat.le_refl _
    · exact ht.start t
  unfold step at h
  simp only at h
  split at h
  · cases h
  · split at h
    · cases h
    · split at h
      · cases h
      · split at h
        · cases h
          refine ⟨ht.len, ht.sorted, ?_, ht.le, ?_⟩
          · intro p hp
            simp only [List.length_append, List.length_singleton]
            exact Nat.lt_succ_of_lt (ht.bound p hp)
          · intro u
            simp only [List.length_append, List.length_singleton]
            by_cases hu : u = t
            · subst hu
              simp only [upd_same]
              exact Nat.le_succ_of_le hstart
            · simp only [upd_other _ _ _ _ hu]
              exact Nat.le_succ_of_le (ht.start u)
        · cases h
          obtain ⟨h1, h2, h3⟩ := timed_snoc ht _ hstart
          refine ⟨by simp [ht.len], h1, ?_, h3, ?_⟩
          · simpa using h2
          · intro u
            simp only [List.length_append, List.length_singleton]
            by_cases hu : u = t
            · subst hu
              simp only [upd_same]
              exact Nat.le_succ_of_le (ht.start u)
            · simp only [upd_other _ _ _ _ hu]
              exact Nat.le_succ_of_le (ht.start u)
        · cases h
          obtain ⟨h1, h2, h3⟩ := timed_snoc ht _ hstart
          refine ⟨by simp [ht.len], h1, ?_, h3, ?_⟩
          · simpa using h2
          · intro u
            simp only [List.length_append, List.length_singleton]
            by_cases hu : u = t
            · subst hu
              simp only [upd_same]
              exact Nat.le_succ_of_le (ht.start u)
            · simp only [upd_other _ _ _ _ hu]
              exact Nat.le_succ_of_le (ht.start u)

theorem run_timed {F : Facts} : ∀ (sched : List Nat) (s s' : State),
    Timed s → run F s sched = some s' → Timed s' := by
  intro sched
  induction sched with
  | nil => intro s s' ht h; simp only [run, Option.some.injEq] at h; subst h; exact ht
  | cons t rest ih =>
    intro s s' ht h
    simp only [run] at h
    split at h
    · cases h
    · rename_i s1 hs
      exact ih s1 s' (step_timed ht hs) h

/-- in a timed log, an operation whose last step precedes another's first step
    comes first -/
theorem timed_order {s : State} (ht : Timed s) (i j : Nat) (hi : i < s.spans.length)
    (hj : j < s.spans.length) (h : (s.spans[i]).2 < (s.spans[j]).1) : i < j := by
  have hle := ht.le (s.spans[j]) (List.getElem_mem hj)
  rcases Nat.lt_trichotomy i j with hlt | heq | hgt
  · exact hlt
  · subst heq; omega
  · have := (List.pairwise_iff_getElem.1 ht.sorted) j i hj hi hgt
    omega

end RotoV.ListConc
