/-
  C16 — lemmas about the step model of shared lists (Model/ListConc.lean):
  the invariant "a thread in the middle of an operation owns the mutex of the
  list its pointer points into", the frame property of a step (it leaves the
  cells owned by other threads alone), and the forward simulation of the
  sequential specification at the step that completes an operation.
-/
import RotoV.Model.ListConc

namespace RotoV.ListConc

@[simp] theorem upd_same {α : Type} (f : Nat → α) (i : Nat) (v : α) : upd f i v i = v := by
  simp [upd]

@[simp] theorem upd_other {α : Type} (f : Nat → α) (i j : Nat) (v : α) (h : j ≠ i) :
    upd f i v j = f j := by
  simp [upd, h]

/-- the abstract (shared-vector) view of a store -/
def absOf (cells : Nat → Cell) : Spec := fun l => (cells l).raw.elems

theorem abs_eq (s : State) : abs s = absOf s.cells := rfl

/-- thread `t` holds the mutex of list `l` and a current pointer to element `i` -/
def Held (cells : Nat → Cell) (t : Nat) (ptr : Option Ptr) (l i : Nat) : Prop :=
  (cells l).owner = some t ∧ ptr = some ⟨l, (cells l).raw.gen, i⟩ ∧ i < (cells l).raw.elems.length

/-- what must hold when thread `t` stands at step `pc` of `op` -/
def OpPc (cells : Nat → Cell) (t : Nat) (ptr : Option Ptr) : Op → Nat → Prop
  | _, 0 => True
  | .get l i, 1 => Held cells t ptr l i
  | .ffiGet l i, 1 => Held cells t ptr l i
  | .eq a b, 1 => a ≠ b ∧ (cells a).owner = some t
  | .concat a _, 1 => (cells a).owner = some t
  | .concat _ _, 2 => True
  | _, _ => False

def PcOK (cells : Nat → Cell) (t : Nat) (th : Thread) : Prop :=
  match th.prog with
  | [] => th.pc = 0
  | op :: _ => OpPc cells t th.ptr op th.pc

/-- the invariant of every reachable state -/
def Inv (s : State) : Prop := ∀ t, PcOK s.cells t (s.threads t)

/-- a step of thread `u` leaves every cell whose mutex another thread holds alone -/
def Frame (u : Nat) (c c' : Nat → Cell) : Prop :=
  ∀ l t, t ≠ u → (c l).owner = some t → (c' l).owner = some t ∧ (c' l).raw = (c l).raw

theorem Frame.refl (u : Nat) (c : Nat → Cell) : Frame u c c := fun _ _ _ h => ⟨h, rfl⟩

theorem isFree_iff (c : Nat → Cell) (l : Nat) : isFree c l = true ↔ (c l).owner = none := by
  simp [isFree]

theorem frame_setOwner_free {u : Nat} {c : Nat → Cell} {x : Nat} (o : Option Nat)
    (hx : (c x).owner = none) : Frame u c (setOwner c x o) := by
  intro l t _ hl
  by_cases h : l = x
  · subst h; rw [hx] at hl; cases hl
  · simp [setOwner, h, hl]

theorem frame_setOwner_own {u : Nat} {c : Nat → Cell} {x : Nat} (o : Option Nat)
    (hx : (c x).owner = some u) : Frame u c (setOwner c x o) := by
  intro l t ht hl
  by_cases h : l = x
  · subst h; rw [hx] at hl; cases hl; exact absurd rfl ht
  · simp [setOwner, h, hl]

theorem frame_setRaw_free {u : Nat} {c : Nat → Cell} {x : Nat} (r : RawList)
    (hx : (c x).owner = none) : Frame u c (setRaw c x r) := by
  intro l t _ hl
  by_cases h : l = x
  · subst h; rw [hx] at hl; cases hl
  · simp [setRaw, h, hl]

theorem frame_rc {u : Nat} {c : Nat → Cell} {x : Nat} (n : Nat) :
    Frame u c (upd c x { c x with rc := n }) := by
  intro l t _ hl
  by_cases h : l = x
  · subst h; simp [hl]
  · simp [h, hl]

theorem held_frame {u t : Nat} {c c' : Nat → Cell} {ptr : Option Ptr} {l i : Nat}
    (hf : Frame u c c') (ht : t ≠ u) (h : Held c t ptr l i) : Held c' t ptr l i := by
  obtain ⟨ho, hp, hi⟩ := h
  obtain ⟨ho', hr⟩ := hf l t ht ho
  exact ⟨ho', by rw [hr]; exact hp, by rw [hr]; exact hi⟩

theorem opPc_frame {u t : Nat} {c c' : Nat → Cell} {ptr : Option Ptr} (hf : Frame u c c')
    (ht : t ≠ u) : ∀ (op : Op) (pc : Nat), OpPc c t ptr op pc → OpPc c' t ptr op pc := by
  intro op pc h
  match op, pc, h with
  | _, 0, _ => simp [OpPc]
  | .get l i, 1, h => exact held_frame hf ht h
  | .ffiGet l i, 1, h => exact held_frame hf ht h
  | .eq a b, 1, h => exact ⟨h.1, (hf a t ht h.2).1⟩
  | .concat a _, 1, h => exact (hf a t ht h).1
  | .concat _ _, 2, _ => simp [OpPc]

theorem pcOK_frame {u t : Nat} {c c' : Nat → Cell} {th : Thread} (hf : Frame u c c')
    (ht : t ≠ u) (h : PcOK c t th) : PcOK c' t th := by
  unfold PcOK at *
  split
  · rename_i hp; rw [hp] at h; exact h
  · rename_i op rest hp; rw [hp] at h; exact opPc_frame hf ht op _ h

/-! ### one step of one operation, with the guard held across the clone -/

/-- what a step of an operation guarantees (facts = `guarded`) -/
structure StepGood (t : Nat) (cells : Nat → Cell) (op : Op) (pc : Nat) (o : StepOut) : Prop where
  frame : Frame t cells o.cells
  /-- no stale use, no pointer parked outside its critical section -/
  evs : ∀ e ∈ o.evs, e ≠ Ev.outside ∧ e ≠ Ev.stale
  /-- the operation never traps -/
  notrap : o.next ≠ .trap
  /-- if it continues, the next step's precondition holds and nothing observable changed -/
  cont : o.next = .cont → OpPc o.cells t o.ptr op (pc + 1) ∧ absOf o.cells = absOf cells
  /-- if it completes, it never reports a stale use … -/
  res : ∀ r, o.next = .done r → r ≠ .uaf
  /-- … and (unless it is `concat`) it is the sequential operation applied now -/
  sim : ∀ r, o.next = .done r → (∀ a b, op ≠ .concat a b) → specOp (absOf cells) op = (r, absOf o.cells)
  /-- `concat` reads and writes no shared list contents -/
  absConcat : ∀ a b, op = .concat a b → absOf o.cells = absOf cells

theorem absOf_setOwner (c : Nat → Cell) (x : Nat) (o : Option Nat) :
    absOf (setOwner c x o) = absOf c := by
  funext l
  by_cases h : l = x
  · subst h; simp [absOf, setOwner]
  · simp [absOf, setOwner, h]

theorem absOf_rc (c : Nat → Cell) (x : Nat) (n : Nat) :
    absOf (upd c x { c x with rc := n }) = absOf c := by
  funext l
  by_cases h : l = x
  · subst h; simp [absOf]
  · simp [absOf, h]

theorem absOf_setRaw (c : Nat → Cell) (x : Nat) (r : RawList) :
    absOf (setRaw c x r) = upd (absOf c) x r.elems := by
  funext l
  by_cases h : l = x
  · subst h; simp [absOf, setRaw]
  · simp [absOf, setRaw, h]

theorem reserve_elems (r : RawList) (n : Nat) : (r.reserve n).1.elems = r.elems := by
  unfold RawList.reserve
  simp only
  split
  · split <;> rfl
  · rfl

theorem push_elems (r : RawList) (v : Nat) : (r.push v).1.elems = r.elems ++ [v] := by
  simp [RawList.push, reserve_elems]

theorem stepGood_done {t : Nat} {cells cells' : Nat → Cell} {op : Op} {pc : Nat} {r : Res}
    {evs : List Ev} (ptr : Option Ptr) (acc : RawList)
    (hframe : Frame t cells cells')
    (hevs : ∀ e ∈ evs, e ≠ Ev.outside ∧ e ≠ Ev.stale) (hr : r ≠ .uaf)
    (hsim : (∀ a b, op ≠ .concat a b) → specOp (absOf cells) op = (r, absOf cells'))
    (habs : ∀ a b, op = .concat a b → absOf cells' = absOf cells) :
    StepGood t cells op pc { cells := cells', ptr := ptr, acc := acc, next := .done r, evs := evs } where
  frame := hframe
  evs := hevs
  notrap := by simp
  cont := by simp
  res := by intro r' h; simp at h; subst h; exact hr
  sim := by intro r' h hc; simp at h; subst h; exact hsim hc
  absConcat := habs

theorem stepGood_cont {t : Nat} {cells cells' : Nat → Cell} {op : Op} {pc : Nat}
    {evs : List Ev} {ptr : Option Ptr} (acc : RawList)
    (hframe : Frame t cells cells')
    (hevs : ∀ e ∈ evs, e ≠ Ev.outside ∧ e ≠ Ev.stale)
    (hnext : OpPc cells' t ptr op (pc + 1)) (habs : absOf cells' = absOf cells) :
    StepGood t cells op pc { cells := cells', ptr := ptr, acc := acc, next := .cont, evs := evs } where
  frame := hframe
  evs := hevs
  notrap := by simp
  cont := fun _ => ⟨hnext, habs⟩
  res := by intro r' h; simp at h
  sim := by intro r' h; simp at h
  absConcat := fun _ _ _ => habs

theorem lookup_good {t : Nat} {cells : Nat → Cell} {op : Op} {l i : Nat} {o : StepOut}
    (hop : op = .get l i ∨ op = .ffiGet l i)
    (h : lookupStep true t cells l i = some o) : StepGood t cells op 0 o := by
  simp only [lookupStep] at h
  split at h
  · rename_i hfree
    have hfree' := (isFree_iff _ _).1 hfree
    split at h
    · rename_i hi
      cases h
      refine stepGood_cont _ (frame_setOwner_free _ hfree') (by simp) ?_ (absOf_setOwner _ _ _)
      have : Held (setOwner cells l (some t)) t (some ⟨l, (cells l).raw.gen, i⟩) l i := by
        refine ⟨by simp [setOwner], by simp [setOwner], by simpa [setOwner] using hi⟩
      rcases hop with h | h <;> subst h <;> exact this
    · rename_i hi
      cases h
      refine stepGood_done _ _ (Frame.refl _ _) (by simp) (by simp) ?_ ?_
      · intro _
        have : (absOf cells l)[i]? = none := by
          simp only [absOf]; exact List.getElem?_eq_none (Nat.le_of_not_lt hi)
        rcases hop with h | h <;> subst h <;> simp [specOp, this]
      · intros; rfl
  · cases h

theorem clone_good {t : Nat} {cells : Nat → Cell} {op : Op} {l i : Nat} {o : StepOut}
    {relock : Bool}
    (hop : op = .get l i ∨ op = .ffiGet l i)
    (hh : Held cells t (some ⟨l, (cells l).raw.gen, i⟩) l i)
    (h : cloneStep true relock cells ⟨l, (cells l).raw.gen, i⟩ = some o) :
    StepGood t cells op 1 o := by
  obtain ⟨ho, _, hi⟩ := hh
  simp only [cloneStep, Bool.not_true, Bool.and_false, Bool.false_and, Bool.false_eq_true,
    ↓reduceIte] at h
  cases h
  refine stepGood_done _ _ (frame_setOwner_own _ ho) (by simp) (by simp) ?_ ?_
  · intro _
    have : (absOf cells l)[i]? = some ((cells l).raw.elems.getD i 0) := by
      simp only [absOf]
      rw [List.getElem?_eq_getElem hi]
      simp [List.getD_eq_getElem?_getD, List.getElem?_eq_getElem hi]
    rcases hop with h | h <;> subst h <;> simp [specOp, this, absOf_setOwner]
  · intro a b hc; exact absOf_setOwner _ _ _

theorem opStep_good {F : Facts} (hF : F = Facts.guarded) {t : Nat} {cells : Nat → Cell}
    {ptr : Option Ptr} {acc : RawList} {op : Op} {pc : Nat} {o : StepOut}
    (hpc : OpPc cells t ptr op pc) (h : opStep F t cells ptr acc op pc = some o) :
    StepGood t cells op pc o := by
  subst hF
  cases op with
  | get l i =>
    cases pc with
    | zero => exact lookup_good (Or.inl rfl) (by simpa [opStep, Facts.guarded] using h)
    | succ n =>
      cases n with
      | zero =>
        have hp := hpc.2.1
        subst hp
        exact clone_good (Or.inl rfl) hpc (by simpa [opStep, Facts.guarded] using h)
      | succ m => simp [OpPc] at hpc
  | ffiGet l i =>
    cases pc with
    | zero => exact lookup_good (Or.inr rfl) (by simpa [opStep, Facts.guarded] using h)
    | succ n =>
      cases n with
      | zero =>
        have hp := hpc.2.1
        subst hp
        exact clone_good (Or.inr rfl) hpc (by simpa [opStep, Facts.guarded] using h)
      | succ m => simp [OpPc] at hpc
  | push l v =>
    simp only [opStep] at h
    split at h
    · rename_i hfree
      have hfree' := (isFree_iff _ _).1 hfree
      have he := push_elems (cells l).raw v
      generalize (cells l).raw.push v = pr at h he
      obtain ⟨r', re⟩ := pr
      cases h
      refine stepGood_done _ _ (frame_setRaw_free _ hfree') ?_ (by simp) ?_ ?_
      · intro e he; split at he <;> simp at he; subst he; simp
      · intro _; simp only [specOp, absOf_setRaw]; simp at he; rw [he]; rfl
      · intro a b hc; cases hc
    · cases h
  | contains l v =>
    simp only [opStep] at h
    split at h
    · cases h
      exact stepGood_done _ _ (Frame.refl _ _) (by simp) (by simp) (fun _ => rfl) (fun _ _ _ => rfl)
    · cases h
  | swap l i j =>
    simp only [opStep] at h
    split at h
    · rename_i hfree
      have hfree' := (isFree_iff _ _).1 hfree
      cases h
      refine stepGood_done _ _ (frame_setRaw_free _ hfree') (by simp) (by simp) ?_ ?_
      · intro _; simp only [specOp, absOf_setRaw]; rfl
      · intro a b hc; cases hc
    · cases h
  | len l =>
    simp only [opStep] at h
    split at h
    · cases h
      exact stepGood_done _ _ (Frame.refl _ _) (by simp) (by simp) (fun _ => rfl) (fun _ _ _ => rfl)
    · cases h
  | clone l =>
    simp only [opStep] at h
    cases h
    exact stepGood_done _ _ (frame_rc _) (by simp) (by simp)
      (fun _ => by simp [specOp, absOf_rc]) (fun _ _ hc => by cases hc)
  | drop l =>
    simp only [opStep] at h
    cases h
    refine stepGood_done _ _ (frame_rc _) ?_ (by simp)
      (fun _ => by simp [specOp, absOf_rc]) (fun _ _ hc => by cases hc)
    intro e he; split at he <;> simp at he; subst he; simp
  | eq a b =>
    cases pc with
    | zero =>
      simp only [opStep] at h
      split at h
      · rename_i hab
        cases h
        subst hab
        exact stepGood_done _ _ (Frame.refl _ _) (by simp) (by simp)
          (fun _ => by simp [specOp]) (fun _ _ hc => by cases hc)
      · rename_i hab
        split at h
        · rename_i hfree
          have hfree' := (isFree_iff _ _).1 hfree
          cases h
          exact stepGood_cont _ (frame_setOwner_free _ hfree') (by simp)
            ⟨hab, by simp [setOwner]⟩ (absOf_setOwner _ _ _)
        · cases h
    | succ n =>
      cases n with
      | zero =>
        simp only [opStep] at h
        split at h
        · cases h
          refine stepGood_done _ _ (frame_setOwner_own _ hpc.2) (by simp) (by simp) ?_ ?_
          · intro _; simp [specOp, absOf_setOwner]; rfl
          · intro a b hc; cases hc
        · cases h
      | succ m => simp [OpPc] at hpc
  | concat a b =>
    cases pc with
    | zero =>
      simp only [opStep] at h
      split at h
      · rename_i hfree
        have hfree' := (isFree_iff _ _).1 hfree
        cases h
        exact stepGood_cont _ (frame_setOwner_free _ hfree') (by simp)
          (by simp [OpPc, setOwner]) (absOf_setOwner _ _ _)
      · cases h
    | succ n =>
      cases n with
      | zero =>
        simp only [opStep] at h
        generalize (RawList.extend {} (cells a).raw.elems) = pr at h
        obtain ⟨acc', re⟩ := pr
        cases h
        refine stepGood_cont _ (frame_setOwner_own _ hpc) ?_ (by simp [OpPc]) (absOf_setOwner _ _ _)
        intro e he; split at he <;> simp at he; subst he; simp
      | succ m =>
        cases m with
        | zero =>
          simp only [opStep] at h
          split at h
          · generalize (acc.extend (cells b).raw.elems) = pr at h
            obtain ⟨acc', re⟩ := pr
            cases h
            refine stepGood_done _ _ (Frame.refl _ _) ?_ (by simp) ?_ (fun _ _ _ => rfl)
            · intro e he; split at he <;> simp at he; subst he; simp
            · intro hc; exact absurd rfl (hc a b)
          · cases h
        | succ k => simp [OpPc] at hpc

/-! ### one step of the whole system -/

/-- what one step of thread `t` does to the ghost log and the abstract view -/
inductive HistStep (t : Nat) (s s' : State) : Prop
  /-- the operation goes on: nothing observable changed -/
  | quiet (hh : s'.hist = s.hist) (ha : abs s' = abs s)
      (hr : ∀ u, (s'.threads u).results = (s.threads u).results)
  /-- the operation completes with result `r`: it is the sequential operation applied now -/
  | completes (op : Op) (rest : List Op) (r : Res) (hp : (s.threads t).prog = op :: rest)
      (hh : s'.hist = s.hist ++ [⟨t, op, r⟩]) (hne : r ≠ .uaf)
      (hsim : (∀ a b, op ≠ .concat a b) → specOp (abs s) op = (r, abs s'))
      (hc : ∀ a b, op = .concat a b → abs s' = abs s)
      (hr : ∀ u, (s'.threads u).results = (s.threads u).results ++ (if u = t then [r] else []))

structure StepFacts (t : Nat) (s s' : State) : Prop where
  inv : Inv s'
  trace : ∃ evs, s'.trace = s.trace ++ [(t, evs)] ∧ ∀ e ∈ evs, e ≠ Ev.outside ∧ e ≠ Ev.stale
  hist : HistStep t s s'
  /-- programs only shrink -/
  progs : ∀ u op, op ∈ (s'.threads u).prog → op ∈ (s.threads u).prog

theorem step_facts {F : Facts} (hF : F = Facts.guarded) {t : Nat} {s s' : State}
    (hinv : Inv s) (h : step F t s = some s') : StepFacts t s s' := by
  unfold step at h
  simp only at h
  split at h
  · cases h
  · split at h
    · cases h
    · rename_i op rest hprog
      split at h
      · cases h
      · rename_i o hop
        have hpc : OpPc s.cells t (s.threads t).ptr op (s.threads t).pc := by
          have := hinv t
          unfold PcOK at this
          rw [hprog] at this
          exact this
        have g := opStep_good hF hpc hop
        split at h
        · -- cont
          rename_i hnext
          cases h
          obtain ⟨hn, ha⟩ := g.cont hnext
          refine ⟨?_, ⟨o.evs, rfl, g.evs⟩, ?_, ?_⟩
          · intro u
            by_cases hu : u = t
            · subst hu
              simp only [upd_same]
              unfold PcOK
              simp only [hprog]
              exact hn
            · simp only [upd_other _ _ _ _ hu]
              exact pcOK_frame g.frame hu (hinv u)
          · refine .quiet rfl ha ?_
            intro u
            by_cases hu : u = t
            · subst hu; simp
            · simp [upd_other _ _ _ _ hu]
          · intro u op' hop'
            by_cases hu : u = t
            · subst hu; simpa [hprog] using hop'
            · simpa [upd_other _ _ _ _ hu] using hop'
        · -- done
          rename_i r hnext
          cases h
          refine ⟨?_, ⟨o.evs, rfl, g.evs⟩, ?_, ?_⟩
          · intro u
            by_cases hu : u = t
            · subst hu
              simp only [upd_same]
              unfold PcOK
              simp only
              split <;> simp [OpPc]
            · simp only [upd_other _ _ _ _ hu]
              exact pcOK_frame g.frame hu (hinv u)
          · refine .completes op rest r hprog rfl (g.res r hnext) (g.sim r hnext) g.absConcat ?_
            intro u
            by_cases hu : u = t
            · subst hu; simp
            · simp [hu]
          · intro u op' hop'
            by_cases hu : u = t
            · subst hu
              simp only [upd_same] at hop'
              rw [hprog]; exact List.mem_cons_of_mem _ hop'
            · simpa [upd_other _ _ _ _ hu] using hop'
        · -- trap
          rename_i hnext
          exact absurd hnext g.notrap

theorem specRun_append (σ : Spec) (xs ys : List Op) :
    specRun σ (xs ++ ys) =
      ((specRun σ xs).1 ++ (specRun (specRun σ xs).2 ys).1, (specRun (specRun σ xs).2 ys).2) := by
  induction xs generalizing σ with
  | nil => simp [specRun]
  | cons x xs ih =>
    simp only [List.cons_append, specRun]
    rw [ih]

theorem specRun_snoc (σ : Spec) (xs : List Op) (op : Op) (rs : List Res) (σ' : Spec) (r : Res) (σ'' : Spec)
    (h1 : specRun σ xs = (rs, σ')) (h2 : specOp σ' op = (r, σ'')) :
    specRun σ (xs ++ [op]) = (rs ++ [r], σ'') := by
  rw [specRun_append, h1]
  simp [specRun, h2]

/-- what a whole schedule guarantees, relative to its start state -/
structure RunFacts (s s' : State) : Prop where
  inv : Inv s'
  /-- the new part of the ghost log -/
  hist : ∃ ds, s'.hist = s.hist ++ ds ∧ (∀ d ∈ ds, d.res ≠ .uaf) ∧
    (∀ d ∈ ds, d.op ∈ (s.threads d.tid).prog) ∧
    (∀ u, (s'.threads u).results = (s.threads u).results ++ ((ds.filter (·.tid = u)).map (·.res))) ∧
    ((∀ d ∈ ds, ∀ a b, d.op ≠ .concat a b) →
      specRun (abs s) (ds.map (·.op)) = (ds.map (·.res), abs s'))
  trace : ∃ tr, s'.trace = s.trace ++ tr ∧ ∀ e ∈ tr, ∀ x ∈ e.2, x ≠ Ev.outside ∧ x ≠ Ev.stale
  progs : ∀ u op, op ∈ (s'.threads u).prog → op ∈ (s.threads u).prog

theorem run_facts {F : Facts} (hF : F = Facts.guarded) :
    ∀ (sched : List Nat) (s s' : State), Inv s → run F s sched = some s' → RunFacts s s' := by
  intro sched
  induction sched with
  | nil =>
    intro s s' hinv h
    simp only [run, Option.some.injEq] at h
    subst h
    exact ⟨hinv, ⟨[], by simp [specRun]⟩, ⟨[], by simp⟩, fun _ _ h => h⟩
  | cons t rest ih =>
    intro s s' hinv h
    simp only [run] at h
    split at h
    · cases h
    · rename_i s1 hstep
      have f1 := step_facts hF hinv hstep
      have f2 := ih s1 s' f1.inv h
      obtain ⟨ds, hds, hne, hmem, hres, hsim⟩ := f2.hist
      obtain ⟨tr, htr, htrg⟩ := f2.trace
      obtain ⟨evs, hevs, hevg⟩ := f1.trace
      refine ⟨f2.inv, ?_, ⟨(t, evs) :: tr, by rw [htr, hevs]; simp, ?_⟩,
        fun u op h' => f1.progs u op (f2.progs u op h')⟩
      · cases f1.hist with
        | quiet hh ha hr =>
          refine ⟨ds, by rw [hds, hh], hne, fun d hd => f1.progs _ _ (hmem d hd), ?_, ?_⟩
          · intro u; rw [hres u, hr u]
          · intro hc; rw [← ha]; exact hsim hc
        | completes op rest' r hp hh hne' hsim' hc hr =>
          refine ⟨⟨t, op, r⟩ :: ds, by rw [hds, hh]; simp, ?_, ?_, ?_, ?_⟩
          · intro d hd
            rcases List.mem_cons.1 hd with h' | h'
            · subst h'; exact hne'
            · exact hne d h'
          · intro d hd
            rcases List.mem_cons.1 hd with h' | h'
            · subst h'; simp [hp]
            · exact f1.progs _ _ (hmem d h')
          · intro u
            rw [hres u, hr u]
            by_cases hu : u = t
            · subst hu; simp
            · have : ¬ t = u := fun h => hu h.symm
              simp [hu, this]
          · intro hc
            have hop : ∀ a b, op ≠ .concat a b := hc ⟨t, op, r⟩ (by simp)
            have h1 := hsim' hop
            have h2 := hsim (fun d hd => hc d (List.mem_cons_of_mem _ hd))
            simp only [List.map_cons, specRun, h1, h2]
      · intro e he
        rcases List.mem_cons.1 he with h' | h'
        · subst h'; exact hevg
        · exact htrg e h'

theorem inv_init (lists : List (List Nat)) (progs : List (List Op)) : Inv (init lists progs) := by
  intro t
  unfold PcOK init
  simp only
  split <;> simp [OpPc]

/-- the ghost log only grows (any facts) -/
theorem step_hist_grows {F : Facts} {t : Nat} {s s' : State} (h : step F t s = some s') :
    ∃ ds, s'.hist = s.hist ++ ds := by
  unfold step at h
  simp only at h
  split at h
  · cases h
  · split at h
    · cases h
    · split at h
      · cases h
      · split at h
        · cases h; exact ⟨[], by simp⟩
        · cases h; exact ⟨_, rfl⟩
        · cases h; exact ⟨_, rfl⟩

theorem run_hist_grows {F : Facts} : ∀ (sched : List Nat) (s s' : State),
    run F s sched = some s' → ∃ ds, s'.hist = s.hist ++ ds := by
  intro sched
  induction sched with
  | nil => intro s s' h; simp only [run, Option.some.injEq] at h; subst h; exact ⟨[], by simp⟩
  | cons t rest ih =>
    intro s s' h
    simp only [run] at h
    split at h
    · cases h
    · rename_i s1 hs
      obtain ⟨d1, h1⟩ := step_hist_grows hs
      obtain ⟨d2, h2⟩ := ih s1 s' h
      exact ⟨d1 ++ d2, by rw [h2, h1]; simp⟩

theorem run_append {F : Facts} : ∀ (pre post : List Nat) (s : State),
    run F s (pre ++ post) = (run F s pre).bind fun s1 => run F s1 post := by
  intro pre
  induction pre with
  | nil => intro post s; simp [run]
  | cons t rest ih =>
    intro post s
    simp only [List.cons_append, run]
    split
    · simp
    · rename_i s1 _; exact ih post s1

end RotoV.ListConc
