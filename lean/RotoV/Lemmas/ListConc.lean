/-
  C16 — lemmas about the step model of shared lists (Model/ListConc.lean):
  the invariant "a thread in the middle of an operation owns the mutex of the
  list its pointer points into", the frame property of a step (it leaves the
  cells owned by other threads alone), and the forward simulation of the
  sequential specification at the step that completes an operation.
-/
import RotoV.Model.ListConc

namespace RotoV.ListConc

@[simp] theorem upd_same {α : Type} (f : Nat → α) (i : Nat) (v : α) : upd f i v i = v := by
  simp [upd]

@[simp] theorem upd_other {α : Type} (f : Nat → α) (i j : Nat) (v : α) (h : j ≠ i) :
    upd f i v j = f j := by
  simp [upd, h]

/-- the abstract (shared-vector) view of a store -/
def absOf (cells : Nat → Cell) : Spec := fun l => (cells l).raw.elems

theorem abs_eq (s : State) : abs s = absOf s.cells := rfl

/-- thread `t` holds the mutex of list `l` and a current pointer to element `i` -/
def Held (cells : Nat → Cell) (t : Nat) (ptr : Option Ptr) (l i : Nat) : Prop :=
  (cells l).owner = some t ∧ ptr = some ⟨l, (cells l).raw.gen, i⟩ ∧ i < (cells l).raw.elems.length

/-- what must hold when thread `t` stands at step `pc` of `op` -/
def OpPc (cells : Nat → Cell) (t : Nat) (ptr : Option Ptr) : Op → Nat → Prop
  | _, 0 => True
  | .get l i, 1 => Held cells t ptr l i
  | .ffiGet l i, 1 => Held cells t ptr l i
  | .eq a b, 1 => a ≠ b ∧ (cells a).owner = some t
  | .concat a _, 1 => (cells a).owner = some t
  | .concat _ _, 2 => True
  | _, _ => False

def PcOK (cells : Nat → Cell) (t : Nat) (th : Thread) : Prop :=
  match th.prog with
  | [] => th.pc = 0
  | op :: _ => OpPc cells t th.ptr op th.pc

/-- the invariant of every reachable state -/
def Inv (s : State) : Prop := ∀ t, PcOK s.cells t (s.threads t)

/-- a step of thread `u` leaves every cell whose mutex another thread holds alone -/
def Frame (u : Nat) (c c' : Nat → Cell) : Prop :=
  ∀ l t, t ≠ u → (c l).owner = some t → (c' l).owner = some t ∧ (c' l).raw = (c l).raw

theorem Frame.refl (u : Nat) (c : Nat → Cell) : Frame u c c := fun _ _ _ h => ⟨h, rfl⟩

theorem isFree_iff (c : Nat → Cell) (l : Nat) : isFree c l = true ↔ (c l).owner = none := by
  simp [isFree]

theorem frame_setOwner_free {u : Nat} {c : Nat → Cell} {x : Nat} (o : Option Nat)
    (hx : (c x).owner = none) : Frame u c (setOwner c x o) := by
  intro l t _ hl
  by_cases h : l = x
  · subst h; rw [hx] at hl; cases hl
  · simp [setOwner, h, hl]

theorem frame_setOwner_own {u : Nat} {c : Nat → Cell} {x : Nat} (o : Option Nat)
    (hx : (c x).owner = some u) : Frame u c (setOwner c x o) := by
  intro l t ht hl
  by_cases h : l = x
  · subst h; rw [hx] at hl; cases hl; exact absurd rfl ht
  · simp [setOwner, h, hl]

theorem frame_setRaw_free {u : Nat} {c : Nat → Cell} {x : Nat} (r : RawList)
    (hx : (c x).owner = none) : Frame u c (setRaw c x r) := by
  intro l t _ hl
  by_cases h : l = x
  · subst h; rw [hx] at hl; cases hl
  · simp [setRaw, h, hl]

theorem frame_rc {u : Nat} {c : Nat → Cell} {x : Nat} (n : Nat) :
    Frame u c (upd c x { c x with rc := n }) := by
  intro l t _ hl
  by_cases h : l = x
  · subst h; simp [hl]
  · simp [h, hl]

theorem held_frame {u t : Nat} {c c' : Nat → Cell} {ptr : Option Ptr} {l i : Nat}
    (hf : Frame u c c') (ht : t ≠ u) (h : Held c t ptr l i) : Held c' t ptr l i := by
  obtain ⟨ho, hp, hi⟩ := h
  obtain ⟨ho', hr⟩ := hf l t ht ho
  exact ⟨ho', by rw [hr]; exact hp, by rw [hr]; exact hi⟩

theorem opPc_frame {u t : Nat} {c c' : Nat → Cell} {ptr : Option Ptr} (hf : Frame u c c')
    (ht : t ≠ u) : ∀ (op : Op) (pc : Nat), OpPc c t ptr op pc → OpPc c' t ptr op pc := by
  intro op pc h
  match op, pc, h with
  | _, 0, _ => simp [OpPc]
  | .get l i, 1, h => exact held_frame hf ht h
  | .ffiGet l i, 1, h => exact held_frame hf ht h
  | .eq a b, 1, h => exact ⟨h.1, (hf a t ht h.2).1⟩
  | .concat a _, 1, h => exact (hf a t ht h).1
  | .concat _ _, 2, _ => simp [OpPc]

theorem pcOK_frame {u t : Nat} {c c' : Nat → Cell} {th : Thread} (hf : Frame u c c')
    (ht : t ≠ u) (h : PcOK c t th) : PcOK c' t th := by
  unfold PcOK at *
  split
  · rename_i hp; rw [hp] at h; exact h
  · rename_i op rest hp; rw [hp] at h; exact opPc_frame hf ht op _ h

/-! ### one step of one operation, with the guard held across the clone -/

/-- what a step of an operation guarantees (facts = `guarded`) -/
structure StepGood (t : Nat) (cells : Nat → Cell) (op : Op) (pc : Nat) (o : StepOut) : Prop where
  frame : Frame t cells o.cells
  /-- no stale use, no pointer parked outside its critical section -/
  evs : ∀ e ∈ o.evs, e ≠ Ev.outside ∧ e ≠ Ev.stale
  /-- the operation never traps -/
  notrap : o.next ≠ .trap
  /-- if it continues, the next step's precondition holds and nothing observable changed -/
  cont : o.next = .cont → OpPc o.cells t o.ptr op (pc + 1) ∧ absOf o.cells = absOf cells
  /-- if it completes, it never reports a stale use … -/
  res : ∀ r, o.next = .done r → r ≠ .uaf
  /-- … and (unless it is `concat`) it is the sequential operation applied now -/
  sim : ∀ r, o.next = .done r → (∀ a b, op ≠ .concat a b) → specOp (absOf cells) op = (r, absOf o.cells)
  /-- `concat` reads and writes no shared list contents -/
  absConcat : ∀ a b, op = .concat a b → absOf o.cells = absOf cells

theorem absOf_setOwner (c : Nat → Cell) (x : Nat) (o : Option Nat) :
    absOf (setOwner c x o) = absOf c := by
  funext l
  by_cases h : l = x
  · subst h; simp [absOf, setOwner]
  · simp [absOf, setOwner, h]

theorem absOf_rc (c : Nat → Cell) (x : Nat) (n : Nat) :
    absOf (upd c x { c x with rc := n }) = absOf c := by
  funext l
  by_cases h : l = x
  · subst h; simp [absOf]
  · simp [absOf, h]

theorem absOf_setRaw (c : Nat → Cell) (x : Nat) (r : RawList) :
    absOf (setRaw c x r) = upd (absOf c) x r.elems := by
  funext l
  by_cases h : l = x
  · subst h; simp [absOf, setRaw]
  · simp [absOf, setRaw, h]

theorem reserve_elems (r : RawList) (n : Nat) : (r.reserve n).1.elems = r.elems := by
  unfold RawList.reserve
  simp only
  split
  · split <;> rfl
  · rfl

theorem push_elems (r : RawList) (v : Nat) : (r.push v).1.elems = r.elems ++ [v] := by
  simp [RawList.push, reserve_elems]

end RotoV.ListConc
