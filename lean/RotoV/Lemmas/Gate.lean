/-
  Helper lemmas for C04 (the signature gate): the model's tables as read off
  the generated definitions, boolean-equality facts, the leaf-name table in
  order-independent form, and `gate_iff_model` (the induction behind
  `RotoV.C04.gate_iff`).
-/
import RotoV.Model.Gate
import RotoV.Generated.Gate
open RotoV.Gate
namespace RotoV.C04

/-- The hand-written gate is instantiated with the *generated* leaf table and
    `UNIT` constant; the constructor and default names are the documented ones. -/
def tables : Tables where
  unitId := Gen.Gate.UNIT
  leafNames := Gen.Gate.leafNames
  intDefault := id% "i32"
  floatDefault := id% "f64"
  verdictName := id% "Verdict"
  resultName := id% "Result"
  optionName := id% "Option"
  listName := id% "List"

theorem beq_unit_iff (t : RotoTy) : (t == RotoTy.unit) = true ↔ t = .unit := by
  cases t <;> simp [BEq.beq, RotoTy.beq]

theorem named_beq_iff (n : Ident) (t : RotoTy) : (RotoTy.named n [] == t) = true ↔ t = .named n [] := by
  cases t with
  | name m bs => 
    cases bs <;> simp [BEq.beq, RotoTy.beq, RotoTy.beqList, RotoTy.named, eq_comm]
  | _ => simp [BEq.beq, RotoTy.beq, RotoTy.named]

theorem lookupFirst_mem {α} (l : List (TypeId × α)) (x : TypeId) (v : α) :
    lookupFirst l x = some v → (x, v) ∈ l := by
  induction l with
  | nil => simp [lookupFirst]
  | cons p rest ih =>
    obtain ⟨k, w⟩ := p
    simp only [lookupFirst]
    split
    · rename_i h; intro hv; simp at h hv; subst h; subst hv; simp
    · intro h; exact List.mem_cons_of_mem _ (ih h)

/-- every documented leaf is in the gate's table under its Rust type -/
theorem table_complete : ∀ p ∈ docLeaves, lookupFirst Gen.Gate.leafNames (.prim p.2) = some p.1 := by decide
/-- every arm of the gate's table is a documented leaf -/
theorem table_sound : ∀ e ∈ Gen.Gate.leafNames, ∃ p ∈ docLeaves, e = (TypeId.prim p.2, p.1) := by decide
theorem doc_functional : ∀ p ∈ docLeaves, docLeaf p.1 = some p.2 := by decide
theorem doc_not_unit : ∀ p ∈ docLeaves, TypeId.prim p.2 ≠ Gen.Gate.UNIT := by decide
theorem unit_const : Gen.Gate.UNIT = .prim (id% "()") := rfl

theorem docLeaf_mem (i r : Ident) : docLeaf i = some r ↔ (i, r) ∈ docLeaves := by
  constructor
  · intro h
    simp only [docLeaf, Option.map_eq_some_iff] at h
    obtain ⟨p, hp, rfl⟩ := h
    have := List.find?_some hp
    have hm := List.mem_of_find?_eq_some hp
    simp at this; subst this; exact hm
  · intro h; exact doc_functional _ h

/-- the leaf table, order-independently: -/
theorem leaf_table (tid : TypeId) (n : Ident) :
    lookupFirst Gen.Gate.leafNames tid = some n ↔ ∃ rust, tid = .prim rust ∧ docLeaf n = some rust := by
  constructor
  · intro h
    obtain ⟨p, hp, he⟩ := table_sound _ (lookupFirst_mem _ _ _ h)
    simp only [Prod.mk.injEq] at he
    exact ⟨p.2, he.1, he.2 ▸ doc_functional p hp⟩
  · rintro ⟨rust, rfl, h⟩
    exact table_complete (n, rust) ((docLeaf_mem _ _).1 h)

theorem seq_ok (a : Res) : a.seq .ok = a := by cases a <;> rfl

theorem seq_ok_iff (a b : Res) : a.seq b = .ok ↔ a = .ok ∧ b = .ok := by
  cases a <;> simp [Res.seq]

theorem doc_not_unit' (n rust : Ident) (h : docLeaf n = some rust) : TypeId.prim rust ≠ Gen.Gate.UNIT :=
  doc_not_unit (n, rust) ((docLeaf_mem _ _).1 h)

theorem defaulted_unit (t : RotoTy) : defaulted tables t = .unit ↔ t = .unit := by
  cases t <;> simp [defaulted, RotoTy.named]

theorem leaf_arm (ti : TypeInfo) (tid : TypeId) (t : RotoTy) :
    checkRotoType tables ti (.leaf tid) t = .ok ↔
      (t = .unit ∧ tid = .prim (id% "()")) ∨
      (∃ n rust, docLeaf n = some rust ∧ tid = .prim rust ∧ defaulted tables t = .named n []) := by
  unfold checkRotoType
  simp only [TypeInfo.resolve]
  by_cases hu : tid = Gen.Gate.UNIT
  · have hu' : (tid == tables.unitId) = true := by simp [tables, hu]
    simp only [hu', if_true]
    constructor
    · intro h
      left
      refine ⟨(defaulted_unit t).1 ?_, by rw [hu]; rfl⟩
      by_cases hb : (defaulted tables t == RotoTy.unit) = true
      · exact (beq_unit_iff _).1 hb
      · simp [hb] at h
    · rintro (⟨rfl, _⟩ | ⟨n, rust, hd, rfl, _⟩)
      · rfl
      · exact absurd hu (doc_not_unit' n rust hd)
  · have hu' : (tid == tables.unitId) = false := by simp [tables, hu]
    simp only [hu']
    constructor
    · intro h
      right
      cases hl : lookupFirst tables.leafNames tid with
      | none => simp [hl] at h
      | some n =>
        simp only [hl] at h
        by_cases hb : (RotoTy.named n [] == defaulted tables t) = true
        · obtain ⟨rust, rfl, hd⟩ := (leaf_table tid n).1 hl
          exact ⟨n, rust, hd, rfl, (named_beq_iff _ _).1 hb⟩
        · simp [hb] at h
    · rintro (⟨rfl, rfl⟩ | ⟨n, rust, hd, rfl, hdef⟩)
      · exact absurd rfl hu
      · have hl : lookupFirst tables.leafNames (.prim rust) = some n := (leaf_table _ n).2 ⟨rust, rfl, hd⟩
        simp only [hl]
        have : (RotoTy.named n [] == defaulted tables t) = true := (named_beq_iff _ _).2 hdef
        simp [this]

theorem leaf_case (ti : TypeInfo) (tid : TypeId) (t : RotoTy) :
   checkRotoType tables ti (.leaf tid) t = .ok ↔ mapping ti t = some (.leaf tid) := by
  rw [leaf_arm]
  fun_cases mapping ti t
  all_goals simp [defaulted, tables, nOption, nList, nResult, nVerdict, rustUnit, RotoTy.named]
  case case1 => exact eq_comm
  case case2 =>
    have h32 : docLeaf (id% "i32") = some (id% "i32") := by decide
    constructor
    · rintro ⟨n, rust, hd, rfl, rfl⟩
      rw [h32] at hd; cases hd; rfl
    · rintro rfl; exact ⟨_, _, h32, rfl, rfl⟩
  case case3 =>
    have h64 : docLeaf (id% "f64") = some (id% "f64") := by decide
    constructor
    · rintro ⟨n, rust, hd, rfl, rfl⟩
      rw [h64] at hd; cases hd; rfl
    · rintro rfl; exact ⟨_, _, h64, rfl, rfl⟩
  case case4 =>
    rename_i n rust hd hs
    obtain ⟨sc, idn⟩ := n
    simp only at hd hs
    subst hs
    constructor
    · rintro ⟨n, rust', hd', rfl, hn⟩
      simp only [ResolvedName.mk.injEq, true_and] at hn
      subst hn
      rw [hd] at hd'; cases hd'; rfl
    · rintro rfl; exact ⟨idn, rust, hd, rfl, rfl⟩
  case case5 =>
    rename_i n _ _ _ hno
    intro x r hd _ hn
    subst hn
    exact hno r rfl hd
  case case6 =>
    rename_i n hno _
    intro x r hd _ hn
    subst hn
    exact hno r rfl hd
  case case17 =>
    rename_i h0 _ _ _ _ _
    intro _ _ _ _ _ h
    exact h0 h
  case case18 =>
    rename_i h0 _ _ _
    intro _ _ _ _ _ h
    exact h0 h
  case case19 =>
    rename_i hu _ _ h0 _ _ _
    exact ⟨fun h => absurd h (fun h' => hu h'), fun x r _ _ h => h0 _ h⟩

theorem wf_reserved (ti : TypeInfo) (hwf : ti.WF) (n : ResolvedName) (hs : n.scope = .GLOBAL)
    (hi : n.ident ∈ reserved) (nm : ResolvedName) (id : TypeId) :
    ti.resolve_type_name n ≠ .runtime nm id := by
  obtain ⟨sc, i⟩ := n
  simp only at hs hi
  subst hs
  exact hwf i hi nm id

theorem docLeaf_reserved (i r : Ident) (h : docLeaf i = some r) : i ∈ reserved := by
  have := (docLeaf_mem i r).1 h
  simp only [reserved, List.mem_append, List.mem_map]
  exact Or.inl ⟨(i, r), this, rfl⟩

theorem val_case (ti : TypeInfo) (hwf : ti.WF) (tid : TypeId) (t : RotoTy) :
   checkRotoType tables ti (.val tid) t = .ok ↔ mapping ti t = some (.val tid) := by
  have r1 := wf_reserved ti hwf ⟨.GLOBAL, id% "i32"⟩ rfl (by decide)
  have r2 := wf_reserved ti hwf ⟨.GLOBAL, id% "f64"⟩ rfl (by decide)
  have r3 := wf_reserved ti hwf ⟨.GLOBAL, id% "Option"⟩ rfl (by decide)
  have r4 := wf_reserved ti hwf ⟨.GLOBAL, id% "List"⟩ rfl (by decide)
  have r5 := wf_reserved ti hwf ⟨.GLOBAL, id% "Result"⟩ rfl (by decide)
  have r6 := wf_reserved ti hwf ⟨.GLOBAL, id% "Verdict"⟩ rfl (by decide)
  fun_cases mapping ti t
  case case4 =>
    rename_i n rust hd hs
    have := wf_reserved ti hwf n hs (docLeaf_reserved _ _ hd)
    simp only [checkRotoType, defaulted, TypeInfo.resolve]
    first | (split <;> simp_all) | simp_all
  all_goals simp_all [checkRotoType, defaulted, TypeInfo.resolve, tables, nOption, nList, nResult, nVerdict, RotoTy.named, rustUnit]
  all_goals first | exact eq_comm | (split <;> simp_all)


/-- The induction behind `gate_iff`, on the hand-written gate. -/
theorem gate_iff_model (ti : TypeInfo) (hwf : ti.WF) (r : RustTy) (t : RotoTy) :
    checkRotoType tables ti r t = .ok ↔ mapping ti t = some r := by
  induction r generalizing t with
  | unknown =>
    fun_cases mapping ti t
    all_goals simp_all [checkRotoType, nOption, nList, nResult, nVerdict, rustUnit]
  | leaf tid => exact leaf_case ti tid t
  | val tid => exact val_case ti hwf tid t
  | option r ih =>
    fun_cases mapping ti t
    all_goals simp_all [checkRotoType, defaulted, TypeInfo.resolve, tables, nOption, nList, nResult, nVerdict, RotoTy.named, rustUnit]
  | list r ih =>
    fun_cases mapping ti t
    all_goals simp_all [checkRotoType, defaulted, TypeInfo.resolve, tables, nOption, nList, nResult, nVerdict, RotoTy.named, rustUnit]
  | result a b iha ihb =>
    fun_cases mapping ti t
    all_goals simp_all [checkRotoType, defaulted, TypeInfo.resolve, tables, nOption, nList, nResult, nVerdict, RotoTy.named, rustUnit, seq_ok_iff]
  | verdict a b iha ihb =>
    fun_cases mapping ti t
    all_goals simp_all [checkRotoType, defaulted, TypeInfo.resolve, tables, nOption, nList, nResult, nVerdict, RotoTy.named, rustUnit, seq_ok_iff]

/-- The function regenerated from `check_roto_type` is the hand-written gate
    instantiated with the generated tables. -/
theorem generated_gate_eq_model (ti : TypeInfo) (r : RustTy) (t : RotoTy) :
    Gen.Gate.checkRotoType ti r t = checkRotoType tables ti r t := by
  induction r generalizing t with
  | unknown => cases t <;> rfl
  | leaf tid => 
    unfold Gen.Gate.checkRotoType checkRotoType
    simp only [TypeInfo.resolve, RustTy.type_id]
    cases t <;> rfl
  | val tid => 
    unfold Gen.Gate.checkRotoType checkRotoType
    simp only [TypeInfo.resolve, RustTy.type_id]
    cases t <;> rfl
  | option r ih =>
    unfold Gen.Gate.checkRotoType checkRotoType
    simp only [TypeInfo.resolve, ih]
    cases t <;> rfl
  | list r ih =>
    unfold Gen.Gate.checkRotoType checkRotoType
    simp only [TypeInfo.resolve, ih]
    cases t <;> rfl
  | result a b iha ihb =>
    unfold Gen.Gate.checkRotoType checkRotoType
    simp only [TypeInfo.resolve, iha, ihb, seq_ok]
    cases t <;> rfl
  | verdict a b iha ihb =>
    unfold Gen.Gate.checkRotoType checkRotoType
    simp only [TypeInfo.resolve, iha, ihb, seq_ok]
    cases t <;> rfl

/-! ### Literal defaults at every depth -/

theorem defaulted_deepDefault_name (tb : Tables) (n : ResolvedName) (args : List RotoTy) :
    defaulted tb (deepDefault tb (.name n args)) = .name n (deepDefaultList tb args) := by
  simp [deepDefault, defaulted]

theorem named_beq_deepDefault (tb : Tables) (m : Ident) (t : RotoTy) :
    (RotoTy.named m [] == defaulted tb (deepDefault tb t)) = (RotoTy.named m [] == defaulted tb t) := by
  cases t with
  | name n args =>
    cases args <;> simp [deepDefault, deepDefaultList, defaulted, BEq.beq, RotoTy.beq, RotoTy.beqList, RotoTy.named]
  | _ => simp [deepDefault, defaulted, RotoTy.named]

theorem unit_beq_deepDefault (tb : Tables) (t : RotoTy) :
    (defaulted tb (deepDefault tb t) == RotoTy.unit) = (defaulted tb t == RotoTy.unit) := by
  cases t <;> simp [deepDefault, defaulted, BEq.beq, RotoTy.beq, RotoTy.named]

theorem ite_congr_bool {α} {b c : Bool} (h : b = c) (x y : α) :
    (if b = true then x else y) = (if c = true then x else y) := by subst h; rfl

/-- the gate's answer for a type is its answer for the type with every literal
    type variable — at any depth — replaced by its default -/
theorem checkRotoType_deepDefault (tb : Tables) (ti : TypeInfo) (r : RustTy) (t : RotoTy) :
    checkRotoType tb ti r (deepDefault tb t) = checkRotoType tb ti r t := by
  induction r generalizing t with
  | unknown => simp [checkRotoType]
  | leaf tid =>
    simp only [checkRotoType, TypeInfo.resolve]
    by_cases hu : (tid == tb.unitId) = true
    · rw [if_pos hu, if_pos hu]
      exact ite_congr_bool (unit_beq_deepDefault tb t) _ _
    · rw [if_neg hu, if_neg hu]
      cases lookupFirst tb.leafNames tid with
      | none => rfl
      | some m => exact ite_congr_bool (named_beq_deepDefault tb m t) _ _
  | val tid =>
    cases t <;> simp [checkRotoType, TypeInfo.resolve, deepDefault, defaulted, RotoTy.named]
  | option r ih =>
    cases t with
    | name n args =>
      match args with
      | [] => simp [checkRotoType, TypeInfo.resolve, deepDefault, deepDefaultList, defaulted]
      | [a] => simp [checkRotoType, TypeInfo.resolve, deepDefault, deepDefaultList, defaulted, ih]
      | _ :: _ :: _ => simp [checkRotoType, TypeInfo.resolve, deepDefault, deepDefaultList, defaulted]
    | _ => simp [checkRotoType, TypeInfo.resolve, deepDefault, defaulted, RotoTy.named]
  | list r ih =>
    cases t with
    | name n args =>
      match args with
      | [] => simp [checkRotoType, TypeInfo.resolve, deepDefault, deepDefaultList, defaulted]
      | [a] => simp [checkRotoType, TypeInfo.resolve, deepDefault, deepDefaultList, defaulted, ih]
      | _ :: _ :: _ => simp [checkRotoType, TypeInfo.resolve, deepDefault, deepDefaultList, defaulted]
    | _ => simp [checkRotoType, TypeInfo.resolve, deepDefault, defaulted, RotoTy.named]
  | result a b iha ihb =>
    cases t with
    | name n args =>
      match args with
      | [] => simp [checkRotoType, TypeInfo.resolve, deepDefault, deepDefaultList, defaulted]
      | [x] => simp [checkRotoType, TypeInfo.resolve, deepDefault, deepDefaultList, defaulted]
      | [x, y] => simp [checkRotoType, TypeInfo.resolve, deepDefault, deepDefaultList, defaulted, iha, ihb]
      | _ :: _ :: _ :: _ => simp [checkRotoType, TypeInfo.resolve, deepDefault, deepDefaultList, defaulted]
    | _ => simp [checkRotoType, TypeInfo.resolve, deepDefault, defaulted, RotoTy.named]
  | verdict a b iha ihb =>
    cases t with
    | name n args =>
      match args with
      | [] => simp [checkRotoType, TypeInfo.resolve, deepDefault, deepDefaultList, defaulted]
      | [x] => simp [checkRotoType, TypeInfo.resolve, deepDefault, deepDefaultList, defaulted]
      | [x, y] => simp [checkRotoType, TypeInfo.resolve, deepDefault, deepDefaultList, defaulted, iha, ihb]
      | _ :: _ :: _ :: _ => simp [checkRotoType, TypeInfo.resolve, deepDefault, deepDefaultList, defaulted]
    | _ => simp [checkRotoType, TypeInfo.resolve, deepDefault, defaulted, RotoTy.named]

end RotoV.C04
