/-
  Lemmas for C07: `infer_sound` for items and whole programs — function items
  from any state (`fnItem_sound`), constant items (`constItem_sound`), the items
  of a program in source order with the store threaded through
  (`decls_sound`), and `TcInfer.checkProgM` against `Typing.checkProg`
  (`checkProgM_sound`).
-/
import RotoV.Lemmas.TcInferObls


namespace RotoV.TcInfer
open RotoV.Typing RotoV.Unify RotoV.Gen

/-- the items of the fragment: written (plain) signatures and annotations, bodies in `coreB` / `coreE` -/
def coreD : Decl → Bool
  | .fn _ params rt body => (params.all fun q => plain q.2) && plain rt && coreB body
  | .const _ ty e => plain ty && coreE e
  | .type _ _ => true

theorem keeps_runObligations_nil {env : Env} {st st' : St} {u : Unit} (hob : st.obls = [])
    (h : runObligations env st = .ok u st') : st' = st := by
  unfold runObligations at h
  rw [hob] at h
  simp only [resolveObligations] at h
  obtain ⟨_, rfl⟩ := pure_ok.mp h
  cases st; simp_all

/-- one function item, from any well-formed state without pending obligations -/
theorem fnItem_sound (env : Env) (henv : EnvPlain env) (p : Prog) (n : Nat) (params : List (Nat × Ty))
    (rt : Ty) (body : Block) (hpp : (params.all fun q => plain q.2) = true) (hpr : plain rt = true)
    (hcb : coreB body = true) (st st' : St) (hW : WTs st.store) (hob : st.obls = []) (u : Unit)
    (h : inferFn env params rt body st = .ok u st') :
    WTs st'.store ∧ st'.obls = [] ∧ ∀ σ : Val, GVal σ → Sat σ st'.store → Sat σ st.store ∧
      checkDecl env p (.fn n params rt body) = .ok () := by
  obtain ⟨st1, h0, hrun⟩ := inferFn_split h
  have hk : Keeps (inferFnBody env params rt body) := by
    unfold inferFnBody
    have ihb := keepsB env body hcb
    repeat' (first | exact keeps_go _ _ | exact keeps_declareAllM _ _ | exact ihb _ _ | keeps_step)
  have hob1 : st1.obls = [] := by rw [keeps_apply hk h0]; exact hob
  have hst : st' = st1 := keeps_runObligations_nil hob1 hrun
  subst hst
  unfold inferFnBody at h0
  obtain ⟨ps, s1, h1, h2⟩ := bind_ok.mp h0
  obtain ⟨g, s2, h3, h4⟩ := bind_ok.mp h2
  obtain ⟨ret, s3, h5, h6⟩ := bind_ok.mp h4
  obtain ⟨d, s4, h7, h8⟩ := bind_ok.mp h6
  obtain ⟨_, rfl⟩ := pure_ok.mp h8
  obtain ⟨rfl, rfl, hwp⟩ := go_ok h1
  have hg0 : WTg [[]] := by
    intro s hs q hq
    simp only [List.mem_singleton] at hs; subst hs; cases hq
  obtain ⟨rfl, hg, hdecl⟩ := declareAllM_ok h3 hpp hg0
  unfold evalTy at h5
  by_cases hw : wfTy env rt = true
  · simp only [hw, if_true] at h5
    obtain ⟨rfl, rfl⟩ := pure_ok.mp h5
    have hWr : WT (toM rt) = true := (den_toM (fun _ => .unit) rt hpr).2.1
    have hcx : WTcx ⟨toM rt, some (toM rt)⟩ := ⟨hWr, by intro r hr; cases hr; exact hWr⟩
    obtain ⟨hW4, hpost⟩ := soundB env henv body hcb ⟨toM rt, some (toM rt)⟩ g _ d s4 hW hcx hg h7
    refine ⟨hW4, hob1, fun σ hσ hs => ?_⟩
    obtain ⟨hs0, hsyn⟩ := hpost σ hσ hs
    refine ⟨hs0, ?_⟩
    obtain ⟨hdr, _, hgr⟩ := den_toM σ rt hpr
    obtain ⟨t, dd, a1, a2, _⟩ := hsyn (denG σ g) (gammaInst_self σ hσ g hg)
    have hctx : denCx σ ⟨toM rt, some (toM rt)⟩ = ⟨some rt⟩ := by simp [denCx, hdr]
    rw [hctx] at a1
    have a2' : inst t rt = true := by
      have : inst t (den σ (toM rt)) = true := a2
      rwa [hdr] at this
    have hd := hdecl σ
    simp only [denG, denS] at hd
    simp only [checkDecl, hwp, hw, hd, a1, expect_ok' (inst_compat t rt hgr a2'), bind, Except.bind, pure, Except.pure,
      Bool.not_true, Bool.or_false, Bool.false_eq_true, if_false]
  · simp only [hw, Bool.false_eq_true, if_false] at h5
    exact (throw_ok.mp h5).elim

/-- one constant item (without the recursion test, which is a rule about the whole program) -/
theorem constItem_sound (env : Env) (henv : EnvPlain env) (ty : Ty) (e : Expr)
    (hpt : plain ty = true) (hce : coreE e = true) (st st' : St) (hW : WTs st.store) (hob : st.obls = []) (u : Unit)
    (h : inferConst env ty e st = .ok u st') :
    WTs st'.store ∧ st'.obls = [] ∧ ∀ σ : Val, GVal σ → Sat σ st'.store → Sat σ st.store ∧
      wfTy env ty = true ∧ ∃ t dd, synth env ⟨none⟩ [[]] e = .ok (t, dd) ∧ compat t ty = true := by
  unfold inferConst at h
  obtain ⟨t0, s1, h1, h2⟩ := bind_ok.mp h
  obtain ⟨d, s2, h3, h4⟩ := bind_ok.mp h2
  unfold evalTy at h1
  by_cases hw : wfTy env ty = true
  · simp only [hw, if_true] at h1
    obtain ⟨rfl, rfl⟩ := pure_ok.mp h1
    have hob2 : s2.obls = [] := by rw [keeps_apply (keepsE env e hce _ _) h3]; exact hob
    have hst : st' = s2 := keeps_runObligations_nil hob2 h4
    subst hst
    have hWt : WT (toM ty) = true := (den_toM (fun _ => .unit) ty hpt).2.1
    have hcx : WTcx ⟨toM ty, none⟩ := ⟨hWt, by intro r hr; cases hr⟩
    have hg0 : WTg [[]] := by
      intro s hs q hq
      simp only [List.mem_singleton] at hs; subst hs; cases hq
    obtain ⟨hW2, hpost⟩ := soundE env henv e hce ⟨toM ty, none⟩ [[]] st d st' hW hcx hg0 h3
    refine ⟨hW2, hob2, fun σ hσ hs => ?_⟩
    obtain ⟨hs0, hsyn⟩ := hpost σ hσ hs
    obtain ⟨hdt, _, hgt⟩ := den_toM σ ty hpt
    obtain ⟨t, dd, a1, a2, _⟩ := hsyn [[]] (by rfl)
    have hctx : denCx σ ⟨toM ty, none⟩ = ⟨none⟩ := by simp [denCx]
    rw [hctx] at a1
    have a2' : inst t ty = true := by
      have : inst t (den σ (toM ty)) = true := a2
      rwa [hdt] at this
    exact ⟨hs0, hw, t, dd, a1, inst_compat t ty hgt a2'⟩
  · simp only [hw, Bool.false_eq_true, if_false] at h1
    exact (throw_ok.mp h1).elim

/-- the items of a program in source order -/
theorem decls_sound (env : Env) (henv : EnvPlain env) (p : Prog) : ∀ (ds : List Decl) (st st' : St) (u : Unit),
    ds.all coreD = true → WTs st.store → st.obls = [] → inferDecls env ds st = .ok u st' →
    (∀ n d, Decl.type n d ∈ ds → typeDefWf env d = none ∧ typeIsRecursive env.types n = false) →
    (∀ c ty e, Decl.const c ty e ∈ ds → constIsRecursive p c = false) →
    ∀ σ : Val, GVal σ → Sat σ st'.store → Sat σ st.store ∧ checkDecls env p ds = .ok ()
  | [], st, st', u, _, _, _, h, _, _ => by
    simp only [inferDecls] at h
    obtain ⟨_, rfl⟩ := pure_ok.mp h
    exact fun σ _ hs => ⟨hs, rfl⟩
  | .fn n params rt body :: rest, st, st', u, hc, hW, hob, h, hty, hcr => by
    simp only [List.all_cons, coreD, Bool.and_eq_true] at hc
    obtain ⟨⟨⟨hpp, hpr⟩, hcb⟩, hrest⟩ := hc
    simp only [inferDecls] at h
    obtain ⟨u1, s1, h1, h2⟩ := bind_ok.mp h
    obtain ⟨hW1, hob1, hp1⟩ := fnItem_sound env henv p n params rt body hpp hpr hcb st s1 hW hob u1 h1
    have ih := decls_sound env henv p rest s1 st' u hrest hW1 hob1 h2
      (fun n d hm => hty n d (List.mem_cons_of_mem _ hm)) (fun c ty e hm => hcr c ty e (List.mem_cons_of_mem _ hm))
    intro σ hσ hs
    obtain ⟨hs1, hr⟩ := ih σ hσ hs
    obtain ⟨hs0, hd⟩ := hp1 σ hσ hs1
    exact ⟨hs0, by simp only [checkDecls, hd, hr, bind, Except.bind]⟩
  | .const c ty e :: rest, st, st', u, hc, hW, hob, h, hty, hcr => by
    simp only [List.all_cons, coreD, Bool.and_eq_true] at hc
    obtain ⟨⟨hpt, hce⟩, hrest⟩ := hc
    simp only [inferDecls] at h
    obtain ⟨u1, s1, h1, h2⟩ := bind_ok.mp h
    obtain ⟨hW1, hob1, hp1⟩ := constItem_sound env henv ty e hpt hce st s1 hW hob u1 h1
    have ih := decls_sound env henv p rest s1 st' u hrest hW1 hob1 h2
      (fun n d hm => hty n d (List.mem_cons_of_mem _ hm)) (fun c ty e hm => hcr c ty e (List.mem_cons_of_mem _ hm))
    intro σ hσ hs
    obtain ⟨hs1, hr⟩ := ih σ hσ hs
    obtain ⟨hs0, hw, t, dd, a1, a2⟩ := hp1 σ hσ hs1
    have hnr := hcr c ty e List.mem_cons_self
    refine ⟨hs0, ?_⟩
    simp only [checkDecls, checkDecl, hw, a1, expect_ok' a2, hnr, hr, bind, Except.bind, pure, Except.pure, Bool.not_true,
      Bool.false_eq_true, if_false]
  | .type n d :: rest, st, st', u, hc, hW, hob, h, hty, hcr => by
    simp only [List.all_cons, coreD, Bool.true_and] at hc
    simp only [inferDecls] at h
    have ih := decls_sound env henv p rest st st' u hc hW hob h
      (fun n d hm => hty n d (List.mem_cons_of_mem _ hm)) (fun c ty e hm => hcr c ty e (List.mem_cons_of_mem _ hm))
    intro σ hσ hs
    obtain ⟨hs0, hr⟩ := ih σ hσ hs
    obtain ⟨h1, h2⟩ := hty n d List.mem_cons_self
    exact ⟨hs0, by simp only [checkDecls, checkDecl, h1, h2, hr, bind, Except.bind, pure, Except.pure,
      Bool.false_eq_true, if_false]⟩

/-- **Whole programs**: if the model of the pass accepts a program of the
    fragment and the store it ends with has a solution in ground types, the
    declarative checker accepts the program. -/
theorem checkProgM_sound (p : Prog) (henv : EnvPlain (mkEnv p)) (hc : p.decls.all coreD = true)
    (u : Unit) (st : St) (h : checkProgM p = .ok u st) (hsol : ∃ σ : Val, GVal σ ∧ Sat σ st.store) :
    checkProg p = .ok () := by
  unfold checkProgM at h
  simp only at h
  by_cases hdup : hasDupPair (p.decls.map declName) = true
  · simp [hdup] at h
  · simp only [hdup, Bool.false_eq_true, if_false] at h
    split at h
    · cases h
    · rename_i hty
      split at h
      · cases h
      · cases hi : inferDecls (mkEnv p) p.decls ⟨[], []⟩ with
        | ok u1 st1 =>
          simp only [hi] at h
          split at h
          · cases h
          · rename_i hcr
            have hst : st1 = st := (Res.ok.inj h).2
            subst hst
            obtain ⟨σ, hσ, hs⟩ := hsol
            have hW0 : WTs ([] : Store) := by intro i t hh; simp at hh
            have := decls_sound (mkEnv p) henv p p.decls ⟨[], []⟩ st1 u1 hc hW0 rfl hi
              (by
                intro n d hm
                have hno : ((typeDefWf (mkEnv p) d).isSome || typeIsRecursive (mkEnv p).types n) = false := by
                  cases hb : ((typeDefWf (mkEnv p) d).isSome || typeIsRecursive (mkEnv p).types n) with
                  | false => rfl
                  | true =>
                    exfalso
                    apply hty
                    exact List.any_eq_true.mpr ⟨_, hm, by simpa using hb⟩
                simp only [Bool.or_eq_false_iff] at hno
                exact ⟨by cases hx : typeDefWf (mkEnv p) d <;> simp_all, hno.2⟩)
              (by
                intro c ty e hm
                cases hb : constIsRecursive p c with
                | false => rfl
                | true =>
                  exfalso
                  apply hcr
                  exact List.any_eq_true.mpr ⟨_, hm, by simpa using hb⟩)
              σ hσ hs
            simp only [checkProg, hdup, Bool.false_eq_true, if_false, this.2]
        | err e => simp [hi] at h
        | ice => simp [hi] at h
        | stuck => simp [hi] at h

end RotoV.TcInfer

namespace RotoV.TcInfer
open RotoV.Typing RotoV.Unify RotoV.Gen

/-- every type a program writes (signatures, constants, fields, variants) is a written type -/
def progPlain (p : Prog) : Bool :=
  p.decls.all fun
    | .fn _ ps rt _ => (ps.all fun q => plain q.2) && plain rt
    | .const _ t _ => plain t
    | .type _ (.record fs) => fs.all fun f => plain f.2
    | .type _ (.enum vs) => vs.all fun v => v.2.all plain

theorem lookup_mem' {β : Type} : ∀ {l : List (Nat × β)} {k : Nat} {v : β}, l.lookup k = some v → (k, v) ∈ l
  | [], _, _, h => by simp [List.lookup] at h
  | (k', v') :: r, k, v, h => by
    simp only [List.lookup] at h
    cases hk : (k == k') with
    | true =>
      simp only [hk] at h; cases h
      have : k = k' := by simpa using hk
      subst this; exact List.mem_cons_self
    | false => simp only [hk] at h; exact List.mem_cons_of_mem _ (lookup_mem' h)

theorem map_snd_all {ps : List (Nat × Ty)} (h : (ps.all fun q => plain q.2) = true) :
    (ps.map (·.2)).all plain = true := by
  induction ps with
  | nil => rfl
  | cons q r ih =>
    simp only [List.all_cons, Bool.and_eq_true] at h
    simp only [List.map_cons, List.all_cons, h.1, ih h.2, Bool.and_self]

theorem envPlain_of_progPlain (p : Prog) (h : progPlain p = true) : EnvPlain (mkEnv p) := by
  unfold progPlain at h
  rw [List.all_eq_true] at h
  refine ⟨?_, ?_, ?_, ?_⟩
  · intro f sig hl
    have hm := lookup_mem' hl
    simp only [mkEnv, List.mem_filterMap] at hm
    obtain ⟨d, hd, he⟩ := hm
    cases d with
    | fn n ps rt b =>
      simp only [Option.some.injEq, Prod.mk.injEq] at he
      obtain ⟨_, rfl⟩ := he
      have := h _ hd
      simp only [Bool.and_eq_true] at this
      exact ⟨map_snd_all this.1, this.2⟩
    | const _ _ _ => simp at he
    | type _ _ => simp at he
  · intro c t hl
    have hm := lookup_mem' hl
    simp only [mkEnv, List.mem_filterMap] at hm
    obtain ⟨d, hd, he⟩ := hm
    cases d with
    | const n ty e =>
      simp only [Option.some.injEq, Prod.mk.injEq] at he
      obtain ⟨_, rfl⟩ := he
      exact h _ hd
    | fn _ _ _ _ => simp at he
    | type _ _ => simp at he
  · intro n fs hl
    have hm := lookup_mem' hl
    simp only [mkEnv, List.mem_filterMap] at hm
    obtain ⟨d, hd, he⟩ := hm
    cases d with
    | type m td =>
      simp only [Option.some.injEq, Prod.mk.injEq] at he
      obtain ⟨_, rfl⟩ := he
      exact h _ hd
    | fn _ _ _ _ => simp at he
    | const _ _ _ => simp at he
  · intro n vs hl v hv
    have hm := lookup_mem' hl
    simp only [mkEnv, List.mem_filterMap] at hm
    obtain ⟨d, hd, he⟩ := hm
    cases d with
    | type m td =>
      simp only [Option.some.injEq, Prod.mk.injEq] at he
      obtain ⟨_, rfl⟩ := he
      have := h _ hd
      simp only at this
      rw [List.all_eq_true] at this
      exact this v hv
    | fn _ _ _ _ => simp at he
    | const _ _ _ => simp at he

end RotoV.TcInfer
