/-
  Invariants of the construction (C13): every graph the type checker builds —
  `ScopeGraph::new`, `wrap`, `insert_declaration`, `insert_import` as used by
  `declare_modules`, `imports`, `block`, `tree` — is well-formed, its module
  scopes are owned by their declarations and its imports point at existing
  declarations.  So the hypotheses of the C13 theorems hold for every graph
  that can actually occur.
-/
import RotoV.Model.Scope
import RotoV.Lemmas.Scope
import RotoV.Lemmas.ScopePath
import RotoV.Lemmas.ScopeFrame

namespace RotoV.Scope

structure Inv (g : Graph) : Prop where
  wf : WF g
  mok : ModulesOk g
  iok : ImportsOk g
  root : 0 < g.scopes.length

theorem inv_new : Inv Graph.new where
  wf := new_wf
  mok := by
    intro m sc name pm hs hk
    simp only [Graph.new] at hs
    cases m with
    | zero => simp at hs; subst hs; simp at hk
    | succ k => simp at hs
  iok := by
    intro s sc hs a t hm
    simp only [Graph.new] at hs
    cases s with
    | zero => simp at hs; subst hs; simp at hm
    | succ k => simp at hs
  root := by simp [Graph.new]

theorem getElem?_lt {α} {l : List α} {i : Nat} {a : α} (h : l[i]? = some a) : i < l.length := by
  rcases Nat.lt_or_ge i l.length with h' | h'
  · exact h'
  · rw [List.getElem?_eq_none h'] at h; cases h

/-! ## wrap -/

theorem wrap_scopes_old {g : Graph} (parent : Nat) (kind : SKind) {i : Nat} (h : i < g.scopes.length) :
    (g.wrap parent kind).1.scopes[i]? = g.scopes[i]? := by
  simp only [Graph.wrap]
  exact List.getElem?_append_left h

theorem wrap_scopes_new {g : Graph} (parent : Nat) (kind : SKind) :
    (g.wrap parent kind).1.scopes[g.scopes.length]? = some ⟨kind, some parent, []⟩ := by
  simp [Graph.wrap]

theorem wrap_cases {g : Graph} (parent : Nat) (kind : SKind) {i : Nat} {sc : Scope}
    (h : (g.wrap parent kind).1.scopes[i]? = some sc) :
    (i < g.scopes.length ∧ g.scopes[i]? = some sc) ∨
    (i = g.scopes.length ∧ sc = ⟨kind, some parent, []⟩) := by
  by_cases hlt : i < g.scopes.length
  · left; exact ⟨hlt, by rw [← wrap_scopes_old parent kind hlt]; exact h⟩
  · right
    have hl := getElem?_lt h
    simp only [Graph.wrap, List.length_append, List.length_cons, List.length_nil] at hl
    have : i = g.scopes.length := by omega
    subst this
    rw [wrap_scopes_new] at h
    exact ⟨rfl, by cases h; rfl⟩

theorem wrap_decl (g : Graph) (parent : Nat) (kind : SKind) (n : RName) :
    (g.wrap parent kind).1.decl n = g.decl n := rfl

theorem wrap_length (g : Graph) (parent : Nat) (kind : SKind) :
    (g.wrap parent kind).1.scopes.length = g.scopes.length + 1 := by
  simp [Graph.wrap]

theorem wrap_snd (g : Graph) (parent : Nat) (kind : SKind) :
    (g.wrap parent kind).2 = g.scopes.length := rfl

/-- wrapping a scope that is not a module scope keeps the invariant -/
theorem inv_wrap_other {g : Graph} (inv : Inv g) (parent : Nat) (kind : SKind)
    (hp : parent < g.scopes.length) (hk : ∀ n pm, kind ≠ .module n pm) :
    Inv (g.wrap parent kind).1 where
  wf := wrap_wf inv.wf parent kind hp
  mok := by
    intro m sc name pm hs hkind
    rcases wrap_cases parent kind hs with ⟨hlt, hold⟩ | ⟨_, hnew⟩
    · obtain ⟨hd, hpar⟩ := inv.mok m sc name pm hold hkind
      refine ⟨hd, ?_⟩
      intro p hpm
      obtain ⟨psc, pn, ppm, hps, hpk⟩ := hpar p hpm
      exact ⟨psc, pn, ppm, by rw [wrap_scopes_old parent kind (getElem?_lt hps)]; exact hps, hpk⟩
    · subst hnew
      exact absurd hkind (hk name pm)
  iok := by
    intro s sc hs a t hm
    rcases wrap_cases parent kind hs with ⟨_, hold⟩ | ⟨_, hnew⟩
    · exact inv.iok s sc hold a t hm
    · subst hnew; simp at hm
  root := by rw [wrap_length]; omega

/-! ## insert_declaration -/

theorem inv_insertDecl {g g' : Graph} (inv : Inv g) {n : RName} {k : DKind} {sc : Option Nat}
    (h : g.insertDecl n k sc = .ok g') : Inv g' := by
  obtain ⟨hfresh, hsc, hdecl⟩ := insertDecl_ok h
  have keep : ∀ m d, g.decl m = some d → g'.decl m = some d := by
    intro m d hm
    rw [hdecl m]
    have : m ≠ n := by intro e; rw [e, hfresh] at hm; cases hm
    simp [this, hm]
  exact {
    wf := wf_congr hsc inv.wf
    mok := by
      intro m s name pm hs hk
      rw [hsc] at hs
      obtain ⟨⟨d, hd, hds⟩, hpar⟩ := inv.mok m s name pm hs hk
      refine ⟨⟨d, keep _ _ hd, hds⟩, ?_⟩
      intro p hpm
      obtain ⟨psc, pn, ppm, hps, hpk⟩ := hpar p hpm
      exact ⟨psc, pn, ppm, by rw [hsc]; exact hps, hpk⟩
    iok := by
      intro s scp hs a t hm
      rw [hsc] at hs
      have := inv.iok s scp hs a t hm
      cases hd : g.decl t with
      | none => rw [hd] at this; cases this
      | some d => rw [keep t d hd]; rfl
    root := by rw [hsc]; exact inv.root }

/-- declaring a module: `wrap(GLOBAL, Module{name, parent_module})` followed by
    `insert_module(name, scope)` -/
theorem inv_declare_module {g g' : Graph} (inv : Inv g) (name : RName) (pm : Option Nat)
    (hpm : ∀ p, pm = some p → ∃ psc pn ppm, g.scopes[p]? = some psc ∧ psc.kind = .module pn ppm)
    (h : (g.wrap 0 (.module name pm)).1.insertDecl name .module (some g.scopes.length) = .ok g') :
    Inv g' := by
  obtain ⟨hfresh, hsc, hdecl⟩ := insertDecl_ok h
  rw [wrap_decl] at hfresh
  have keep : ∀ m d, g.decl m = some d → g'.decl m = some d := by
    intro m d hm
    rw [hdecl m, wrap_decl]
    have : m ≠ name := by intro e; rw [e, hfresh] at hm; cases hm
    simp [this, hm]
  exact {
    wf := wf_congr hsc (wrap_wf inv.wf 0 _ inv.root)
    mok := by
      intro m s nm pm' hs hk
      rw [hsc] at hs
      rcases wrap_cases 0 _ hs with ⟨hlt, hold⟩ | ⟨hm, hnew⟩
      · obtain ⟨⟨d, hd, hds⟩, hpar⟩ := inv.mok m s nm pm' hold hk
        refine ⟨⟨d, keep _ _ hd, hds⟩, ?_⟩
        intro p hp
        obtain ⟨psc, pn, ppm, hps, hpk⟩ := hpar p hp
        exact ⟨psc, pn, ppm, by rw [hsc, wrap_scopes_old 0 _ (getElem?_lt hps)]; exact hps, hpk⟩
      · subst hnew
        simp only [SKind.module.injEq] at hk
        obtain ⟨rfl, rfl⟩ := hk
        refine ⟨⟨⟨name, .module, some g.scopes.length⟩, ?_, by rw [hm]⟩, ?_⟩
        · rw [hdecl name]; simp
        · intro p hp
          obtain ⟨psc, pn, ppm, hps, hpk⟩ := hpm p hp
          exact ⟨psc, pn, ppm, by rw [hsc, wrap_scopes_old 0 _ (getElem?_lt hps)]; exact hps, hpk⟩
    iok := by
      intro s scp hs a t hm
      rw [hsc] at hs
      rcases wrap_cases 0 _ hs with ⟨_, hold⟩ | ⟨_, hnew⟩
      · have := inv.iok s scp hold a t hm
        cases hd : g.decl t with
        | none => rw [hd] at this; cases this
        | some d => rw [keep t d hd]; rfl
      · subst hnew; simp at hm
    root := by rw [hsc, wrap_length]; omega }

/-! ## what lookups return is in the table -/

theorem resolveName_sound {g : Graph} :
    ∀ (fuel s : Nat) (x : Name) (r : Bool) (d : Decl),
      g.resolveName fuel s x r = .ok (some d) → g.decl d.name = some d := by
  intro fuel
  induction fuel with
  | zero => intro s x r d h; simp [Graph.resolveName] at h
  | succ n ih =>
    intro s x r d h
    unfold Graph.resolveName at h
    cases hd : g.decl ⟨s, x⟩ with
    | some d' =>
      rw [hd] at h
      simp only [Res.ok.injEq, Option.some.injEq] at h
      subst h
      rw [decl_name hd]; exact hd
    | none =>
      rw [hd] at h
      simp only at h
      cases r with
      | false => simp at h
      | true =>
        simp only [Bool.not_true, Bool.false_eq_true, ↓reduceIte] at h
        cases hs : g.scopes[s]? with
        | none => rw [hs] at h; cases h
        | some sc =>
          rw [hs] at h
          simp only at h
          cases hl : sc.imports.lookup x with
          | some t =>
            rw [hl] at h
            simp only at h
            cases ht : g.decl t with
            | none => rw [ht] at h; cases h
            | some d' =>
              rw [ht] at h
              simp only [Res.ok.injEq, Option.some.injEq] at h
              subst h
              rw [decl_name ht]; exact ht
          | none =>
            rw [hl] at h
            simp only at h
            cases hp : sc.parent with
            | none => rw [hp] at h; simp at h
            | some p => rw [hp] at h; exact ih p x true d h

theorem parentModuleF_sound {g : Graph} :
    ∀ (fuel s : Nat) (d : Decl), g.parentModuleF fuel s = .ok (some d) → g.decl d.name = some d := by
  intro fuel
  induction fuel with
  | zero => intro s d h; simp [Graph.parentModuleF] at h
  | succ n ih =>
    intro s d h
    unfold Graph.parentModuleF at h
    cases hs : g.scopes[s]? with
    | none => rw [hs] at h; cases h
    | some sc =>
      rw [hs] at h
      simp only at h
      obtain ⟨kind, parent, imports⟩ := sc
      cases kind with
      | module name pm =>
        simp only at h
        cases pm with
        | none => simp at h
        | some p =>
          simp only at h
          cases hp : g.scopes[p]? with
          | none => rw [hp] at h; cases h
          | some psc =>
            rw [hp] at h
            simp only at h
            obtain ⟨pk, pp, pi⟩ := psc
            cases pk with
            | module pname ppm =>
              simp only at h
              cases hd : g.decl pname with
              | none => rw [hd] at h; cases h
              | some d' =>
                rw [hd] at h
                simp only [Res.ok.injEq, Option.some.injEq] at h
                subst h
                rw [decl_name hd]; exact hd
            | root => cases h
            | function n => cases h
            | type n => cases h
            | block i => cases h
      | root => cases parent <;> simp at h <;> exact ih _ d h
      | function n => cases parent <;> simp at h <;> exact ih _ d h
      | type n => cases parent <;> simp at h <;> exact ih _ d h
      | block i => cases parent <;> simp at h <;> exact ih _ d h

theorem segments_sound {g : Graph} :
    ∀ (rest : List Name) (s : Nat) (id : Name) (rc : Bool) (r : PathRes),
      segments g s id rest rc = .ok r → g.decl r.decl.name = some r.decl := by
  intro rest
  induction rest with
  | nil =>
    intro s id rc r h
    unfold segments at h
    by_cases hid : id = SUPER
    · simp [hid] at h
    · simp only [hid, ↓reduceIte] at h
      cases hr : g.resolve s id rc with
      | panic p => rw [hr] at h; cases h
      | err e => rw [hr] at h; cases h
      | ok o =>
        rw [hr] at h
        cases o with
        | none => cases h
        | some stub =>
          have hs := resolveName_sound _ _ _ _ _ hr
          simp only at h
          cases hsc : stub.scope with
          | none => rw [hsc] at h; cases h; exact hs
          | some s' => rw [hsc] at h; cases h; exact hs
  | cons i rest' ih =>
    intro s id rc r h
    unfold segments at h
    by_cases hid : id = SUPER
    · simp [hid] at h
    · simp only [hid, ↓reduceIte] at h
      cases hr : g.resolve s id rc with
      | panic p => rw [hr] at h; cases h
      | err e => rw [hr] at h; cases h
      | ok o =>
        rw [hr] at h
        cases o with
        | none => cases h
        | some stub =>
          have hs := resolveName_sound _ _ _ _ _ hr
          simp only at h
          cases hsc : stub.scope with
          | none => rw [hsc] at h; cases h; exact hs
          | some s' => rw [hsc] at h; exact ih s' i false r h

theorem supers_sound {g : Graph} :
    ∀ (rest : List Name) (s : Nat) (id : Name) (after : Bool) (r : PathRes),
      supers g s id rest after = .ok r → g.decl r.decl.name = some r.decl := by
  intro rest
  induction rest with
  | nil =>
    intro s id after r h
    unfold supers at h
    by_cases hid : id = SUPER
    · simp only [hid, ↓reduceIte] at h
      cases hp : g.parentModule s with
      | panic p => rw [hp] at h; cases h
      | err e => rw [hp] at h; cases h
      | ok o =>
        rw [hp] at h
        cases o with
        | none => cases h
        | some dec =>
          have hs := parentModuleF_sound _ _ _ hp
          simp only at h
          cases hsc : dec.scope with
          | none => rw [hsc] at h; cases h
          | some s' => rw [hsc] at h; cases h; exact hs
    · simp only [hid, ↓reduceIte] at h
      exact segments_sound _ _ _ _ _ h
  | cons i rest' ih =>
    intro s id after r h
    unfold supers at h
    by_cases hid : id = SUPER
    · simp only [hid, ↓reduceIte] at h
      cases hp : g.parentModule s with
      | panic p => rw [hp] at h; cases h
      | err e => rw [hp] at h; cases h
      | ok o =>
        rw [hp] at h
        cases o with
        | none => cases h
        | some dec =>
          simp only at h
          cases hsc : dec.scope with
          | none => rw [hsc] at h; cases h
          | some s' => rw [hsc] at h; exact ih s' i true r h
    · simp only [hid, ↓reduceIte] at h
      exact segments_sound _ _ _ _ _ h

theorem resolveModulePart_sound {g : Graph} {s : Nat} {p : Path} {r : PathRes}
    (h : resolveModulePart g s p = .ok r) : g.decl r.decl.name = some r.decl := by
  cases p with
  | nil => cases h
  | cons id rest => exact supers_sound rest s id false r h

/-! ## insert_import, import, imports -/

theorem inv_insertImport {g g' : Graph} (inv : Inv g) {s : Nat} {tgt : RName}
    (ht : (g.decl tgt).isSome = true) (h : g.insertImport s tgt = .ok g') :
    Inv g' ∧ g'.scopes.length = g.scopes.length := by
  unfold Graph.insertImport at h
  cases hs : g.scopes[s]? with
  | none => rw [hs] at h; cases h
  | some sc =>
    rw [hs] at h
    simp only at h
    cases hl : sc.imports.lookup tgt.ident with
    | some _ => rw [hl] at h; cases h
    | none =>
      rw [hl] at h
      simp only [Res.ok.injEq] at h
      subst h
      have hslt := getElem?_lt hs
      have get : ∀ i, (g.scopes.set s { sc with imports := sc.imports ++ [(tgt.ident, tgt)] })[i]? =
          if s = i then some { sc with imports := sc.imports ++ [(tgt.ident, tgt)] } else g.scopes[i]? := by
        intro i
        rw [List.getElem?_set]
        by_cases hsi : s = i
        · subst hsi; simp [hslt]
        · simp [hsi]
      refine ⟨{ wf := ?_, mok := ?_, iok := ?_, root := by simpa using inv.root }, by simp⟩
      · intro i sci hi p hp
        simp only at hi
        rw [get i] at hi
        by_cases hsi : s = i
        · simp only [hsi, ↓reduceIte, Option.some.injEq] at hi
          subst hi
          exact inv.wf i sc (by rw [← hsi]; exact hs) p hp
        · simp only [hsi, ↓reduceIte] at hi
          exact inv.wf i sci hi p hp
      · intro m scm name pm hm hk
        simp only at hm
        rw [get m] at hm
        have hold : ∃ scm', g.scopes[m]? = some scm' ∧ scm'.kind = .module name pm := by
          by_cases hsm : s = m
          · simp only [hsm, ↓reduceIte, Option.some.injEq] at hm
            subst hm
            exact ⟨sc, by rw [← hsm]; exact hs, hk⟩
          · simp only [hsm, ↓reduceIte] at hm
            exact ⟨scm, hm, hk⟩
        obtain ⟨scm', hm', hk'⟩ := hold
        obtain ⟨hd, hpar⟩ := inv.mok m scm' name pm hm' hk'
        refine ⟨hd, ?_⟩
        intro p hp
        obtain ⟨psc, pn, ppm, hps, hpk⟩ := hpar p hp
        simp only
        rw [get p]
        by_cases hsp : s = p
        · refine ⟨{ sc with imports := sc.imports ++ [(tgt.ident, tgt)] }, pn, ppm, by simp [hsp], ?_⟩
          simp only
          rw [hsp] at hs
          rw [hs] at hps
          cases hps
          exact hpk
        · exact ⟨psc, pn, ppm, by simp [hsp, hps], hpk⟩
      · intro i sci hi a t hm
        simp only at hi
        rw [get i] at hi
        show (g.decl t).isSome = true
        by_cases hsi : s = i
        · simp only [hsi, ↓reduceIte, Option.some.injEq] at hi
          subst hi
          simp only [List.mem_append, List.mem_singleton, Prod.mk.injEq] at hm
          rcases hm with hm | ⟨_, rfl⟩
          · exact inv.iok i sc (by rw [← hsi]; exact hs) a t hm
          · exact ht
        · simp only [hsi, ↓reduceIte] at hi
          exact inv.iok i sci hi a t hm

/-- nothing that exists is lost: scopes keep their kind and parent, the
    declaration table only grows at its end -/
structure Ext (g g' : Graph) : Prop where
  scopes : ∀ (i : Nat) (sc : Scope), g.scopes[i]? = some sc →
    ∃ sc' : Scope, g'.scopes[i]? = some sc' ∧ sc'.kind = sc.kind ∧ sc'.parent = sc.parent
  decls : ∃ extra, g'.decls = g.decls ++ extra

theorem ext_refl (g : Graph) : Ext g g :=
  ⟨fun _ sc h => ⟨sc, h, rfl, rfl⟩, ⟨[], by simp⟩⟩

theorem ext_trans {g₁ g₂ g₃ : Graph} (a : Ext g₁ g₂) (b : Ext g₂ g₃) : Ext g₁ g₃ where
  scopes := by
    intro i sc h
    obtain ⟨sc2, h2, k2, p2⟩ := a.scopes i sc h
    obtain ⟨sc3, h3, k3, p3⟩ := b.scopes i sc2 h2
    exact ⟨sc3, h3, by rw [k3, k2], by rw [p3, p2]⟩
  decls := by
    obtain ⟨e1, h1⟩ := a.decls
    obtain ⟨e2, h2⟩ := b.decls
    exact ⟨e1 ++ e2, by rw [h2, h1, List.append_assoc]⟩

theorem ext_decl {g g' : Graph} (e : Ext g g') {n : RName} {d : Decl} (h : g.decl n = some d) :
    g'.decl n = some d := by
  obtain ⟨extra, he⟩ := e.decls
  simp only [Graph.decl, he, List.find?_append]
  simp only [Graph.decl] at h
  simp [h]

/-- the conjunction threaded through the passes: the invariant, no scope
    disappears, nothing that exists changes its identity -/
def Step (g g' : Graph) : Prop := Inv g' ∧ g.scopes.length ≤ g'.scopes.length ∧ Ext g g'

theorem step_refl {g : Graph} (inv : Inv g) : Step g g := ⟨inv, Nat.le_refl _, ext_refl g⟩

theorem step_trans {g₁ g₂ g₃ : Graph} (a : Step g₁ g₂) (b : Step g₂ g₃) : Step g₁ g₃ :=
  ⟨b.1, Nat.le_trans a.2.1 b.2.1, ext_trans a.2.2 b.2.2⟩

theorem step_insertDecl {g g' : Graph} (inv : Inv g) {n : RName} {k : DKind} {sc : Option Nat}
    (h : g.insertDecl n k sc = .ok g') : Step g g' ∧ g'.scopes.length = g.scopes.length := by
  have hsc := (insertDecl_ok h).2.1
  refine ⟨⟨inv_insertDecl inv h, by rw [hsc]; exact Nat.le_refl _, ?_⟩, by rw [hsc]⟩
  refine ⟨fun i s hs => ⟨s, by rw [hsc]; exact hs, rfl, rfl⟩, ?_⟩
  unfold Graph.insertDecl at h
  cases hd : g.decl n with
  | some d => rw [hd] at h; cases h
  | none => rw [hd] at h; cases h; exact ⟨_, rfl⟩

theorem step_wrap_other {g : Graph} (inv : Inv g) (parent : Nat) (kind : SKind)
    (hp : parent < g.scopes.length) (hk : ∀ n pm, kind ≠ .module n pm) :
    Step g (g.wrap parent kind).1 :=
  ⟨inv_wrap_other inv parent kind hp hk, by rw [wrap_length]; omega,
   ⟨fun i s hs => ⟨s, by rw [wrap_scopes_old parent kind (getElem?_lt hs)]; exact hs, rfl, rfl⟩,
    ⟨[], by simp [Graph.wrap]⟩⟩⟩

theorem ext_insertImport {g g' : Graph} {s : Nat} {tgt : RName}
    (h : g.insertImport s tgt = .ok g') : Ext g g' := by
  unfold Graph.insertImport at h
  cases hs : g.scopes[s]? with
  | none => rw [hs] at h; cases h
  | some sc =>
    rw [hs] at h
    simp only at h
    cases hl : sc.imports.lookup tgt.ident with
    | some _ => rw [hl] at h; cases h
    | none =>
      rw [hl] at h
      simp only [Res.ok.injEq] at h
      subst h
      have hslt := getElem?_lt hs
      refine ⟨?_, ⟨[], by simp⟩⟩
      intro i sci hi
      simp only
      rw [List.getElem?_set]
      by_cases hsi : s = i
      · subst hsi
        rw [hs] at hi
        cases hi
        exact ⟨{ sc with imports := sc.imports ++ [(tgt.ident, tgt)] }, by simp [hslt], rfl, rfl⟩
      · exact ⟨sci, by simp [hsi, hi], rfl, rfl⟩

theorem step_importOne {g g' : Graph} (inv : Inv g) {s : Nat} {p : Path}
    (h : importOne g s p = .ok g') : Step g g' := by
  unfold importOne at h
  cases hr : resolveModulePart g s p with
  | panic x => rw [hr] at h; cases h
  | err e => rw [hr] at h; cases h
  | ok r =>
    rw [hr] at h
    simp only at h
    cases hrest : r.rest with
    | cons a b => rw [hrest] at h; cases h
    | nil =>
      rw [hrest] at h
      simp only at h
      have hsound := resolveModulePart_sound hr
      obtain ⟨i, hl⟩ := inv_insertImport inv (by rw [hsound]; rfl) h
      exact ⟨i, by omega, ext_insertImport h⟩

theorem step_retainPass {s : Nat} :
    ∀ (ps : List Path) (g g' : Graph) (rem : List Path), Inv g →
      retainPass s g ps = .ok (g', rem) → Step g g' := by
  intro ps
  induction ps with
  | nil =>
    intro g g' rem inv h
    simp only [retainPass, Res.ok.injEq, Prod.mk.injEq] at h
    rw [← h.1]; exact step_refl inv
  | cons p ps ih =>
    intro g g' rem inv h
    unfold retainPass at h
    cases hi : importOne g s p with
    | panic x => rw [hi] at h; cases h
    | ok g1 =>
      rw [hi] at h
      simp only at h
      have s1 := step_importOne inv hi
      cases hr : retainPass s g1 ps with
      | panic x => rw [hr] at h; cases h
      | err e => rw [hr] at h; cases h
      | ok pr =>
        rw [hr] at h
        obtain ⟨g2, rem2⟩ := pr
        simp only [Res.ok.injEq, Prod.mk.injEq] at h
        rw [← h.1]
        exact step_trans s1 (ih g1 g2 rem2 s1.1 hr)
    | err e =>
      rw [hi] at h
      simp only at h
      cases hr : retainPass s g ps with
      | panic x => rw [hr] at h; cases h
      | err e => rw [hr] at h; cases h
      | ok pr =>
        rw [hr] at h
        obtain ⟨g2, rem2⟩ := pr
        simp only [Res.ok.injEq, Prod.mk.injEq] at h
        rw [← h.1]
        exact ih g g2 rem2 inv hr

theorem step_importAll {s : Nat} :
    ∀ (ps : List Path) (g g' : Graph), Inv g → importAll s g ps = .ok g' → Step g g' := by
  intro ps
  induction ps with
  | nil =>
    intro g g' inv h
    simp only [importAll, Res.ok.injEq] at h
    rw [← h]; exact step_refl inv
  | cons p ps ih =>
    intro g g' inv h
    unfold importAll at h
    cases hi : importOne g s p with
    | panic x => rw [hi] at h; cases h
    | err e => rw [hi] at h; cases h
    | ok g1 =>
      rw [hi] at h
      have s1 := step_importOne inv hi
      exact step_trans s1 (ih g1 g' s1.1 h)

theorem step_importsF {s : Nat} :
    ∀ (fuel : Nat) (g g' : Graph) (ps : List Path), Inv g →
      importsF s fuel g ps = .ok g' → Step g g' := by
  intro fuel
  induction fuel with
  | zero => intro g g' ps inv h; simp [importsF] at h
  | succ n ih =>
    intro g g' ps inv h
    unfold importsF at h
    cases hr : retainPass s g ps with
    | panic x => rw [hr] at h; cases h
    | err e => rw [hr] at h; cases h
    | ok pr =>
      rw [hr] at h
      obtain ⟨g1, rem⟩ := pr
      have s1 := step_retainPass ps g g1 rem inv hr
      simp only at h
      by_cases h0 : rem.length = 0
      · simp only [h0, ↓reduceIte, Res.ok.injEq] at h
        rw [← h]; exact s1
      · simp only [h0, ↓reduceIte] at h
        by_cases h1 : rem.length = ps.length
        · simp only [h1, ↓reduceIte] at h
          cases ha : importAll s g1 rem with
          | panic x => rw [ha] at h; cases h
          | err e => rw [ha] at h; cases h
          | ok g2 =>
            rw [ha] at h
            have s2 := step_importAll rem g1 g2 s1.1 ha
            exact step_trans s1 (step_trans s2 (ih g2 g' rem s2.1 h))
        · simp only [h1, ↓reduceIte] at h
          exact step_trans s1 (ih g1 g' rem s1.1 h)

theorem step_imports {g g' : Graph} (inv : Inv g) {s : Nat} {ps : List Path}
    (h : imports g s ps = .ok g') : Step g g' :=
  step_importsF _ g g' ps inv h

/-! ## the passes -/

mutual
theorem step_checkBlock (s : Nat) :
    ∀ (b : Block) (st st' : St), Inv st.g → s < st.g.scopes.length →
      checkBlock s b st = .ok st' → Step st.g st'.g
  | .mk imps stmts, st, st', inv, hs, h => by
    unfold checkBlock at h
    cases hi : imports st.g s imps with
    | panic x => rw [hi] at h; cases h
    | err e => rw [hi] at h; cases h
    | ok g1 =>
      rw [hi] at h
      have s1 := step_imports inv hi
      have := step_checkStmts s stmts { st with g := g1 } st' s1.1 (Nat.lt_of_lt_of_le hs s1.2.1) h
      exact step_trans s1 this
theorem step_checkStmts (s : Nat) :
    ∀ (l : List Stmt) (st st' : St), Inv st.g → s < st.g.scopes.length →
      checkStmts s l st = .ok st' → Step st.g st'.g
  | [], st, st', inv, _, h => by
    simp only [checkStmts, Res.ok.injEq] at h
    rw [← h]; exact step_refl inv
  | stmt :: rest, st, st', inv, hs, h => by
    unfold checkStmts at h
    cases h1 : checkStmt s stmt st with
    | panic x => rw [h1] at h; cases h
    | err e => rw [h1] at h; cases h
    | ok st1 =>
      rw [h1] at h
      have s1 := step_checkStmt s stmt st st1 inv hs h1
      exact step_trans s1 (step_checkStmts s rest st1 st' s1.1 (Nat.lt_of_lt_of_le hs s1.2.1) h)
theorem step_checkStmt (s : Nat) :
    ∀ (stmt : Stmt) (st st' : St), Inv st.g → s < st.g.scopes.length →
      checkStmt s stmt st = .ok st' → Step st.g st'.g
  | .letv x tag, st, st', inv, _, h => by
    unfold checkStmt at h
    cases hd : st.g.insertDecl ⟨s, x⟩ (.localv tag) none with
    | panic x => rw [hd] at h; cases h
    | err e => rw [hd] at h; cases h
    | ok g1 =>
      rw [hd] at h
      simp only [Res.ok.injEq] at h
      rw [← h]
      exact (step_insertDecl inv hd).1
  | .block b, st, st', inv, hs, h => by
    unfold checkStmt at h
    simp only at h
    have i1 : Inv (st.g.wrap s (.block st.blockCounter)).1 :=
      inv_wrap_other inv s _ hs (by intro n pm hc; cases hc)
    have s1 : Step st.g (st.g.wrap s (.block st.blockCounter)).1 :=
      step_wrap_other inv s _ hs (by intro n pm hc; cases hc)
    have := step_checkBlock (st.g.wrap s (.block st.blockCounter)).2 b
      { st with g := (st.g.wrap s (.block st.blockCounter)).1, blockCounter := st.blockCounter + 1 } st' i1
      (by simp only [wrap_snd, wrap_length]; omega) h
    exact step_trans s1 this
  | .probe id k p, st, st', inv, _, h => by
    simp only [checkStmt, Res.ok.injEq] at h
    rw [← h]; exact step_refl inv
  | .param x tag, st, st', inv, _, h => by
    simp only [checkStmt, Res.ok.injEq] at h
    rw [← h]; exact step_refl inv
end

theorem step_declareParams (s : Nat) :
    ∀ (ps : List (Name × Nat)) (g g' : Graph), Inv g → declareParams s ps g = .ok g' →
      Step g g' ∧ g'.scopes.length = g.scopes.length := by
  intro ps
  induction ps with
  | nil =>
    intro g g' inv h
    simp only [declareParams, Res.ok.injEq] at h
    subst h; exact ⟨step_refl inv, rfl⟩
  | cons p rest ih =>
    intro g g' inv h
    obtain ⟨x, tag⟩ := p
    unfold declareParams at h
    cases hd : g.insertDecl ⟨s, x⟩ (.localv tag) none with
    | panic q => rw [hd] at h; cases h
    | err e => rw [hd] at h; cases h
    | ok g1 =>
      rw [hd] at h
      obtain ⟨s1, hl1⟩ := step_insertDecl inv hd
      obtain ⟨s2, hl2⟩ := ih g1 g' s1.1 h
      exact ⟨step_trans s1 s2, by rw [hl2, hl1]⟩

theorem step_declareItems (s : Nat) :
    ∀ (items : List Item) (g g' : Graph), Inv g → s < g.scopes.length →
      declareItems s items g = .ok g' → Step g g' := by
  intro items
  induction items with
  | nil =>
    intro g g' inv _ h
    simp only [declareItems, Res.ok.injEq] at h
    rw [← h]; exact step_refl inv
  | cons it rest ih =>
    intro g g' inv hs h
    cases it with
    | fn n tag body =>
      unfold declareItems at h
      cases hd : g.insertDecl ⟨s, n⟩ (.fn tag) none with
      | panic x => rw [hd] at h; cases h
      | err e => rw [hd] at h; cases h
      | ok g1 =>
        rw [hd] at h
        obtain ⟨s1, hl⟩ := step_insertDecl inv hd
        exact step_trans s1 (ih g1 g' s1.1 (by omega) h)
    | const n tag =>
      unfold declareItems at h
      cases hd : g.insertDecl ⟨s, n⟩ (.const tag) none with
      | panic x => rw [hd] at h; cases h
      | err e => rw [hd] at h; cases h
      | ok g1 =>
        rw [hd] at h
        obtain ⟨s1, hl⟩ := step_insertDecl inv hd
        exact step_trans s1 (ih g1 g' s1.1 (by omega) h)
    | ty n tag =>
      unfold declareItems at h
      simp only at h
      have s0 : Step g (g.wrap s (.type n)).1 := step_wrap_other inv s _ hs (by intro a b hc; cases hc)
      have i0 := s0.1
      cases hd : (g.wrap s (.type n)).1.insertDecl ⟨s, n⟩ (.ty tag) (some (g.wrap s (.type n)).2) with
      | panic x => rw [hd] at h; cases h
      | err e => rw [hd] at h; cases h
      | ok g1 =>
        rw [hd] at h
        obtain ⟨s1, hl⟩ := step_insertDecl i0 hd
        rw [wrap_length] at hl
        exact step_trans s0 (step_trans s1 (ih g1 g' s1.1 (by omega) h))
    | imports ps =>
      unfold declareItems at h
      exact ih g g' inv hs h
    | sigProbe id k p =>
      unfold declareItems at h
      exact ih g g' inv hs h

/-- the scopes of the modules declared so far are module scopes of the graph -/
def ModScopes (g : Graph) (mods : List Nat) : Prop :=
  ∀ x ∈ mods, ∃ sc n pm, g.scopes[x]? = some sc ∧ sc.kind = .module n pm

theorem modScopes_mono {g g' : Graph} {mods : List Nat} (h : ModScopes g mods)
    (keep : ∀ (i : Nat) (sc : Scope), g.scopes[i]? = some sc →
      ∃ sc' : Scope, g'.scopes[i]? = some sc' ∧ sc'.kind = sc.kind) :
    ModScopes g' mods := by
  intro x hx
  obtain ⟨sc, n, pm, hs, hk⟩ := h x hx
  obtain ⟨sc', hs', hk'⟩ := keep x sc hs
  exact ⟨sc', n, pm, hs', by rw [hk', hk]⟩

theorem ext_wrap (g : Graph) (parent : Nat) (kind : SKind) : Ext g (g.wrap parent kind).1 :=
  ⟨fun i s hs => ⟨s, by rw [wrap_scopes_old parent kind (getElem?_lt hs)]; exact hs, rfl, rfl⟩,
   ⟨[], by simp [Graph.wrap]⟩⟩

theorem ext_insertDecl {g g' : Graph} {n : RName} {k : DKind} {sc : Option Nat}
    (h : g.insertDecl n k sc = .ok g') : Ext g g' := by
  have hsc := (insertDecl_ok h).2.1
  refine ⟨fun i s hs => ⟨s, by rw [hsc]; exact hs, rfl, rfl⟩, ?_⟩
  unfold Graph.insertDecl at h
  cases hd : g.decl n with
  | some d => rw [hd] at h; cases h
  | none => rw [hd] at h; cases h; exact ⟨_, rfl⟩

theorem modScopes_ext {g g' : Graph} {mods : List Nat} (h : ModScopes g mods) (e : Ext g g') :
    ModScopes g' mods :=
  modScopes_mono h (fun i sc hs => by
    obtain ⟨sc', h1, h2, _⟩ := e.scopes i sc hs
    exact ⟨sc', h1, h2⟩)

theorem step_declareModules :
    ∀ (ms : List Module) (mods : List Nat) (g g' : Graph) (mods' : List Nat),
      Inv g → ModScopes g mods → declareModules ms mods g = .ok (g', mods') →
      Step g g' ∧ ModScopes g' mods' ∧ mods'.length = mods.length + ms.length := by
  intro ms
  induction ms with
  | nil =>
    intro mods g g' mods' inv hm h
    simp only [declareModules, Res.ok.injEq, Prod.mk.injEq] at h
    obtain ⟨rfl, rfl⟩ := h
    exact ⟨step_refl inv, hm, by simp⟩
  | cons m rest ih =>
    intro mods g g' mods' inv hm h
    unfold declareModules at h
    simp only at h
    -- the parent module's scope
    have hpm : ∀ pmv : Option Nat, parentScopeOf mods m.parent = .ok pmv →
        ∀ p, pmv = some p → ∃ psc pn ppm, g.scopes[p]? = some psc ∧ psc.kind = .module pn ppm := by
      intro pmv hpm p hp
      subst hp
      unfold parentScopeOf at hpm
      cases hpar : m.parent with
      | none => rw [hpar] at hpm; cases hpm
      | some q =>
        rw [hpar] at hpm
        simp only at hpm
        cases hq : mods[q]? with
        | none => rw [hq] at hpm; cases hpm
        | some ps =>
          rw [hq] at hpm
          simp only [Res.ok.injEq, Option.some.injEq] at hpm
          subst hpm
          exact hm ps (List.mem_of_getElem? hq)
    generalize hpmeq : parentScopeOf mods m.parent = pmr at h
    cases pmr with
    | panic x => cases h
    | err e => cases h
    | ok pmv =>
      simp only at h
      have hpm' := hpm pmv hpmeq
      cases hd : (g.wrap 0 (.module ⟨pmv.getD 0, m.ident⟩ pmv)).1.insertDecl ⟨pmv.getD 0, m.ident⟩ .module
          (some (g.wrap 0 (.module ⟨pmv.getD 0, m.ident⟩ pmv)).2) with
      | panic x => rw [hd] at h; cases h
      | err e => rw [hd] at h; cases h
      | ok g2 =>
        rw [hd] at h
        simp only at h
        have i2 : Inv g2 := inv_declare_module inv _ pmv hpm' hd
        have hl2 : g2.scopes.length = g.scopes.length + 1 := by
          rw [(insertDecl_ok hd).2.1, wrap_length]
        have e2 : Ext g g2 := ext_trans (ext_wrap g 0 _) (ext_insertDecl hd)
        have s2 : Step g g2 := ⟨i2, by omega, e2⟩
        cases hi : declareItems (g.wrap 0 (.module ⟨pmv.getD 0, m.ident⟩ pmv)).2 m.items g2 with
        | panic x => rw [hi] at h; cases h
        | err e => rw [hi] at h; cases h
        | ok g3 =>
          rw [hi] at h
          simp only at h
          have s3 := step_declareItems _ m.items g2 g3 i2 (by rw [wrap_snd]; omega) hi
          have hm3 : ModScopes g3 (mods ++ [(g.wrap 0 (.module ⟨pmv.getD 0, m.ident⟩ pmv)).2]) := by
            intro x hx
            simp only [List.mem_append, List.mem_singleton] at hx
            rcases hx with hx | hx
            · exact modScopes_ext (modScopes_ext hm e2) s3.2.2 x hx
            · subst hx
              have h2 : g2.scopes[g.scopes.length]? = some ⟨.module ⟨pmv.getD 0, m.ident⟩ pmv, some 0, []⟩ := by
                rw [(insertDecl_ok hd).2.1]; exact wrap_scopes_new 0 _
              obtain ⟨sc', h1, hk, _⟩ := s3.2.2.scopes _ _ h2
              exact ⟨sc', _, _, h1, hk⟩
          obtain ⟨s4, hm4, hl4⟩ := ih _ g3 g' mods' s3.1 hm3 h
          exact ⟨step_trans s2 (step_trans s3 s4), hm4, by
            rw [hl4]; simp only [List.length_append, List.length_cons, List.length_nil]; omega⟩

theorem step_declareImports :
    ∀ (l : List (Nat × Module)) (g g' : Graph), Inv g → declareImports l g = .ok g' → Step g g' := by
  intro l
  induction l with
  | nil =>
    intro g g' inv h
    simp only [declareImports, Res.ok.injEq] at h
    rw [← h]; exact step_refl inv
  | cons x rest ih =>
    intro g g' inv h
    obtain ⟨s, m⟩ := x
    unfold declareImports at h
    cases hi : imports g s (importPathsOf m.items) with
    | panic x => rw [hi] at h; cases h
    | err e => rw [hi] at h; cases h
    | ok g1 =>
      rw [hi] at h
      have s1 := step_imports inv hi
      exact step_trans s1 (ih g1 g' s1.1 h)

theorem step_checkItems (s : Nat) :
    ∀ (items : List Item) (st st' : St), Inv st.g → s < st.g.scopes.length →
      checkItems s items st = .ok st' → Step st.g st'.g := by
  intro items
  induction items with
  | nil =>
    intro st st' inv _ h
    simp only [checkItems, Res.ok.injEq] at h
    rw [← h]; exact step_refl inv
  | cons it rest ih =>
    intro st st' inv hs h
    cases it with
    | fn n tag body =>
      unfold checkItems at h
      simp only at h
      have s0 : Step st.g (st.g.wrap s (.function n)).1 :=
        step_wrap_other inv s _ hs (by intro a b hc; cases hc)
      cases hpar : declareParams (st.g.wrap s (.function n)).2 (paramsOf body) (st.g.wrap s (.function n)).1 with
      | panic x => rw [hpar] at h; cases h
      | err e => rw [hpar] at h; cases h
      | ok gp =>
        rw [hpar] at h
        simp only at h
        obtain ⟨sp, hlp⟩ := step_declareParams _ _ _ gp s0.1 hpar
        cases hb : checkBlock (st.g.wrap s (.function n)).2 body { st with g := gp } with
        | panic x => rw [hb] at h; cases h
        | err e => rw [hb] at h; cases h
        | ok st1 =>
          rw [hb] at h
          have s1 := step_checkBlock _ body _ st1 sp.1
            (by simp only [wrap_snd]; rw [hlp, wrap_length]; omega) hb
          have s01 := step_trans s0 (step_trans sp s1)
          exact step_trans s01 (ih st1 st' s1.1 (Nat.lt_of_lt_of_le hs s01.2.1) h)
    | const n tag =>
      unfold checkItems at h
      simp only at h
      have s0 : Step st.g (st.g.wrap s (.function n)).1 :=
        step_wrap_other inv s _ hs (by intro a b hc; cases hc)
      exact step_trans s0 (ih _ st' s0.1 (Nat.lt_of_lt_of_le hs s0.2.1) h)
    | sigProbe id k p =>
      unfold checkItems at h
      simp only at h
      have s0 : Step st.g (st.g.wrap s (.function (1000 + id))).1 :=
        step_wrap_other inv s _ hs (by intro a b hc; cases hc)
      exact step_trans s0 (ih _ st' s0.1 (Nat.lt_of_lt_of_le hs s0.2.1) h)
    | ty n tag =>
      unfold checkItems at h
      exact ih st st' inv hs h
    | imports ps =>
      unfold checkItems at h
      exact ih st st' inv hs h

theorem step_checkTree :
    ∀ (l : List (Nat × Module)) (st st' : St), Inv st.g →
      (∀ x ∈ l, x.1 < st.g.scopes.length) →
      checkTree l st = .ok st' → Step st.g st'.g := by
  intro l
  induction l with
  | nil =>
    intro st st' inv _ h
    simp only [checkTree, Res.ok.injEq] at h
    rw [← h]; exact step_refl inv
  | cons x rest ih =>
    intro st st' inv hv h
    obtain ⟨s, m⟩ := x
    unfold checkTree at h
    cases hi : checkItems s m.items st with
    | panic x => rw [hi] at h; cases h
    | err e => rw [hi] at h; cases h
    | ok st1 =>
      rw [hi] at h
      have s1 := step_checkItems s m.items st st1 inv (hv (s, m) List.mem_cons_self) hi
      exact step_trans s1 (ih st1 st' s1.1
        (fun y hy => Nat.lt_of_lt_of_le (hv y (List.mem_cons_of_mem _ hy)) s1.2.1) h)

/-- **Every graph `check_module_tree` produces satisfies the invariant**, and
    nothing the runtime had declared is lost. -/
theorem step_checkModuleTree {g0 : Graph} (inv : Inv g0) {ms : List Module} {out : Outcome}
    (h : checkModuleTree g0 ms = .ok out) : Step g0 out.g := by
  unfold checkModuleTree at h
  cases hd : declareModules ms [] g0 with
  | panic x => rw [hd] at h; cases h
  | err e => rw [hd] at h; cases h
  | ok pr =>
    rw [hd] at h
    obtain ⟨g1, mods⟩ := pr
    simp only at h
    obtain ⟨s1, hm1, _⟩ := step_declareModules ms [] g0 g1 mods inv (by intro x hx; cases hx) hd
    cases hi : declareImports (mods.zip ms) g1 with
    | panic x => rw [hi] at h; cases h
    | err e => rw [hi] at h; cases h
    | ok g2 =>
      rw [hi] at h
      simp only at h
      have s2 := step_declareImports _ g1 g2 s1.1 hi
      cases ht : checkTree (mods.zip ms) ⟨g2, 0, sigProbes g2 (mods.zip ms)⟩ with
      | panic x => rw [ht] at h; cases h
      | err e => rw [ht] at h; cases h
      | ok st =>
        rw [ht] at h
        simp only [Res.ok.injEq] at h
        subst h
        have hv : ∀ x ∈ mods.zip ms, x.1 < g2.scopes.length := by
          intro x hx
          have hx1 : x.1 ∈ mods := (List.of_mem_zip hx).1
          obtain ⟨sc, _, _, hs, _⟩ := hm1 x.1 hx1
          exact Nat.lt_of_lt_of_le (getElem?_lt hs) s2.2.1
        have s3 := step_checkTree _ ⟨g2, 0, sigProbes g2 (mods.zip ms)⟩ st s2.1 hv ht
        exact step_trans s1 (step_trans s2 s3)

end RotoV.Scope
