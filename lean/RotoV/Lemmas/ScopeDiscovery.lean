/-
  File discovery (C13): `find_files` / `process_subdir` against the documented
  map from a directory to a module tree, and against `FileTree::file_spec`.
-/
import RotoV.Model.Scope

namespace RotoV.Scope

/-- a module tree: a module and its child modules -/
inductive MTree
  | node (name : Name) (children : List MTree)

/-- **The documented map.**  In a directory, `name.roto` is the leaf module
    `name` — except `pkg.roto` and `mod.roto`, which are the directory's own
    file, never modules of their own; a sub-directory `name/` that contains
    `mod.roto` is the module `name` whose children are discovered the same way
    inside it; anything else (other extensions, directories without `mod.roto`
    and everything below them) is ignored. -/
def specChildren : List Entry → List MTree
  | [] => []
  | .file stem roto :: rest =>
    if roto && stem != PKG && stem != MOD then .node stem [] :: specChildren rest
    else specChildren rest
  | .dir name sub :: rest =>
    if hasMod sub then .node name (specChildren sub) :: specChildren rest
    else specChildren rest

/-- `FileTree::file_spec`'s `inner`, for a list of sibling specs: push the file,
    register it with its parent, then its children under its own index
    (`FileSpec::File` is the case without children). -/
def specInto (parent : Nat) : List MTree → List SrcFile → List SrcFile
  | [], files => files
  | .node name ch :: rest, files =>
    let idx := files.length
    specInto parent rest (specInto idx ch (pushChild files parent ⟨name, []⟩))

/-- `find_files` is `file_spec` applied to the documented tree. -/
theorem findFiles_eq_spec :
    ∀ (es : List Entry) (parent : Nat) (files : List SrcFile),
      findFiles parent es files = specInto parent (specChildren es) files
  | [], parent, files => by simp [findFiles, specChildren, specInto]
  | .file stem roto :: rest, parent, files => by
    have ih := findFiles_eq_spec rest parent
    unfold findFiles specChildren
    cases roto with
    | false => simp [ih]
    | true =>
      by_cases h1 : stem = PKG
      · simp [h1, ih]
      · by_cases h2 : stem = MOD
        · simp [h2, ih]
        · simp [h1, h2, ih, specInto]
  | .dir name sub :: rest, parent, files => by
    have ih1 := findFiles_eq_spec sub
    have ih2 := findFiles_eq_spec rest parent
    unfold findFiles specChildren
    cases hm : hasMod sub with
    | false => simp [ih2]
    | true => simp [ih1, ih2, specInto]

/-! ## the modules that are discovered, in order -/

theorem map_modify_of_fix {α β} (g : α → β) (f : α → α) (h : ∀ a, g (f a) = g a) :
    ∀ (l : List α) (i : Nat), (l.modify i f).map g = l.map g := by
  intro l
  induction l with
  | nil => intro i; simp
  | cons a t ih =>
    intro i
    cases i with
    | zero => simp [h]
    | succ k => simp [ih k]

theorem pushChild_names (files : List SrcFile) (parent : Nat) (f : SrcFile) :
    (pushChild files parent f).map (·.moduleName) = files.map (·.moduleName) ++ [f.moduleName] := by
  unfold pushChild
  simp only
  rw [map_modify_of_fix (fun x : SrcFile => x.moduleName)]
  · simp
  · intro a; rfl

theorem pushChild_length (files : List SrcFile) (parent : Nat) (f : SrcFile) :
    (pushChild files parent f).length = files.length + 1 := by
  simp [pushChild]

mutual
def preorder : List MTree → List Name
  | [] => []
  | t :: rest => preorder1 t ++ preorder rest
def preorder1 : MTree → List Name
  | .node name ch => name :: preorder ch
end

theorem specInto_names :
    ∀ (ts : List MTree) (parent : Nat) (files : List SrcFile),
      (specInto parent ts files).map (·.moduleName) = files.map (·.moduleName) ++ preorder ts
  | [], parent, files => by simp [specInto, preorder]
  | .node name ch :: rest, parent, files => by
    have ih1 := specInto_names ch
    have ih2 := specInto_names rest
    simp only [specInto, preorder, preorder1, ih2, ih1, pushChild_names]
    simp

end RotoV.Scope
