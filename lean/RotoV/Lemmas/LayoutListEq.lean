/-
  Lemmas/LayoutListEq — C02: what the runtime side of `==` on lists computes
  (`listEq`, `listContains`, `listIndex` of Model/LayoutListEq, i.e. the steps
  regenerated from src/value/list.rs): for ANY element comparison function the
  loops hand every pair of element addresses `ptr + size * i` to it and to
  nothing else; no `unwrap()` fails; no mutex is locked twice.
-/
import RotoV.Lemmas.LayoutEq
import RotoV.Model.LayoutListEq
namespace RotoV.Layout
open RotoV RotoV.Gen.LayoutListEq

theorem rawGet_lt (size ptr len i : Nat) (h : i < len) : rawGet size ptr len i = some (ptr + size * i) := by
  simp [rawGet, offsetOf, Nat.not_le.2 h]

theorem all_range_congr {n : Nat} {f g : Nat → Bool} (h : ∀ j, j < n → f j = g j) :
    (List.range n).all f = (List.range n).all g := by
  apply Bool.eq_iff_iff.2
  simp only [List.all_eq_true, List.mem_range]
  constructor
  · intro H j hj; rw [← h j hj]; exact H j hj
  · intro H j hj; rw [h j hj]; exact H j hj

theorem find_congr_mem {l : List Nat} {f g : Nat → Bool} (h : ∀ j, j ∈ l → f j = g j) : l.find? f = l.find? g := by
  induction l with
  | nil => rfl
  | cons x xs ih =>
    simp only [List.find?_cons, h x List.mem_cons_self]
    rw [ih (fun j hj => h j (List.mem_cons_of_mem _ hj))]

theorem find_range_congr {n : Nat} {f g : Nat → Bool} (h : ∀ j, j < n → f j = g j) :
    (List.range n).find? f = (List.range n).find? g :=
  find_congr_mem (fun j hj => h j (List.mem_range.1 hj))

/-- the loop of `ErasedList::eq` (`if !is_eq { return false; }`): it runs to
    its end iff every pair compares equal, and never unwraps a `None` as long
    as both lists have the elements it asks for -/
theorem pairLoop_spec (eqFn : Nat → Nat → Bool) (size : Nat) (a b : RawBuf) :
    ∀ (n i : Nat), i + n ≤ a.len → i + n ≤ b.len →
      pairLoop eqFn size a b false false n i =
        .ok (if (List.range' i n).all (fun j => eqFn (a.ptr + size * j) (b.ptr + size * j)) then none else some false)
  | 0, _, _, _ => by simp [pairLoop]
  | n + 1, i, ha, hb => by
    have ia : i < a.len := by omega
    have ib : i < b.len := by omega
    simp only [pairLoop, RawBuf.get, rawGet_lt _ _ _ _ ia, rawGet_lt _ _ _ _ ib, List.range'_succ, List.all_cons]
    cases h : eqFn (a.ptr + size * i) (b.ptr + size * i)
    · simp
    · rw [if_neg (by simp), pairLoop_spec eqFn size a b n (i + 1) (by omega) (by omega)]
      rfl

/-- the loop of `RawList::contains` / `index` -/
theorem scanLoop_spec (eqFn : Nat → Nat → Bool) (size : Nat) (a : RawBuf) (item : Nat) (h : ScanHit) :
    ∀ (n i : Nat), i + n ≤ a.len →
      scanLoop eqFn size a item h n i =
        .ok (((List.range' i n).find? (fun j => eqFn (a.ptr + size * j) item)).map h.res)
  | 0, _, _ => by simp [scanLoop]
  | n + 1, i, ha => by
    have ia : i < a.len := by omega
    simp only [scanLoop, RawBuf.get, rawGet_lt _ _ _ _ ia, List.range'_succ, List.find?_cons]
    cases hq : eqFn (a.ptr + size * i) item
    · simp [scanLoop_spec eqFn size a item h n (i + 1) (by omega)]
    · simp

/-- `a == b` on lists: the same `Arc` is equal to itself; otherwise equal
    lengths and every pair of element addresses equal by `eqFn` -/
theorem listEq_spec (eqFn : Nat → Nat → Bool) (size : Nat) (a b : RawBuf) :
    listEq eqFn size a b =
      .ok (if a.handle = b.handle then true
           else decide (a.len = b.len) &&
             (List.range a.len).all (fun j => eqFn (a.ptr + size * j) (b.ptr + size * j))) := by
  have hs : erasedEqSteps = [.ptrEqReturn true, .lockBoth, .lenMismatchReturn false, .forEachPair false false, .ret true] := rfl
  unfold listEq
  rw [hs]
  by_cases hh : a.handle = b.handle
  · simp [runListEq, hh]
  · by_cases hl : a.len = b.len
    · have h := pairLoop_spec eqFn size a b a.len 0 (by omega) (by omega)
      have hl' : (a.len = b.len) = True := eq_true hl
      simp only [runListEq, hh, if_false, ne_eq, hl', not_true_eq_false, decide_true, Bool.true_and, h,
        List.range_eq_range']
      cases (List.range' 0 a.len).all fun j => eqFn (a.ptr + size * j) (b.ptr + size * j) <;> simp
    · simp [runListEq, hh, hl]

theorem listContains_spec (eqFn : Nat → Nat → Bool) (size : Nat) (a : RawBuf) (item : Nat) :
    listContains eqFn size a item =
      .ok (.bool ((List.range a.len).find? (fun j => eqFn (a.ptr + size * j) item)).isSome) := by
  have hs : containsSteps = [.forEachItem .found, .ret .missing] := rfl
  unfold listContains
  rw [hs]
  simp only [runScan, scanLoop_spec eqFn size a item .found a.len 0 (by omega), List.range_eq_range']
  cases (List.range' 0 a.len).find? (fun j => eqFn (a.ptr + size * j) item) <;> simp [ScanHit.res, ScanEnd.res]

theorem listIndex_spec (eqFn : Nat → Nat → Bool) (size : Nat) (a : RawBuf) (item : Nat) :
    listIndex eqFn size a item =
      .ok (.idx ((List.range a.len).find? (fun j => eqFn (a.ptr + size * j) item))) := by
  have hs : indexSteps = [.forEachItem .foundAt, .ret .missingAt] := rfl
  unfold listIndex
  rw [hs]
  simp only [runScan, scanLoop_spec eqFn size a item .foundAt a.len 0 (by omega), List.range_eq_range']
  cases (List.range' 0 a.len).find? (fun j => eqFn (a.ptr + size * j) item) <;> simp [ScanHit.res, ScanEnd.res]

end RotoV.Layout
