/-
  C13 — the steps of `TypeChecker::import` read off the source
  (`Generated/ScopeImportOne.lean`) against the hand model `Scope.importOne`.
-/
import RotoV.Model.ScopeImportOne
import RotoV.Generated.ScopeImportOne

namespace RotoV.Scope.ImportOne
open RotoV.Scope

theorem run_generated (g : Graph) (s : Nat) (p : Path) :
    runImport Gen.ScopeImportOne.importSteps g s p = importOne g s p := by
  unfold runImport Gen.ScopeImportOne.importSteps importOne
  simp only [run]
  cases h : resolveModulePart g s p with
  | panic x => rfl
  | err e => rfl
  | ok r =>
    simp only
    cases hr : r.rest <;> simp

end RotoV.Scope.ImportOne
