/-
  `get_function` (C13): for a script compiled against a runtime without
  registered modules, looking a function up by `pkg.<module path>.<fn>` in the
  table of compiled functions finds exactly that function.
-/
import RotoV.Model.Scope
import RotoV.Lemmas.Scope
import RotoV.Lemmas.ScopePath
import RotoV.Lemmas.ScopeFrame
import RotoV.Lemmas.ScopeBuild
import RotoV.Lemmas.ScopeExport

namespace RotoV.Scope

/-! ## predicates preserved by the passes after `declare_modules` -/

/-- what the passes after `declare_modules` do to the graph, step by step -/
structure Pres (Q : Graph → Prop) : Prop where
  wrap : ∀ (g : Graph) (p : Nat) (k : SKind), Q g → Q (g.wrap p k).1
  imp : ∀ (g g' : Graph) (s : Nat) (t : RName), Q g → g.insertImport s t = .ok g' → Q g'
  loc : ∀ (g g' : Graph) (n : RName) (t : Nat), Q g → g.insertDecl n (.localv t) none = .ok g' → Q g'

variable {Q : Graph → Prop}

theorem pres_importOne (pq : Pres Q) {g g' : Graph} {s : Nat} {p : Path} (q : Q g)
    (h : importOne g s p = .ok g') : Q g' := by
  unfold importOne at h
  cases hr : resolveModulePart g s p with
  | panic x => rw [hr] at h; cases h
  | err e => rw [hr] at h; cases h
  | ok r =>
    rw [hr] at h
    simp only at h
    cases hrest : r.rest with
    | cons a b => rw [hrest] at h; cases h
    | nil => rw [hrest] at h; exact pq.imp _ _ _ _ q h

theorem pres_retainPass (pq : Pres Q) {s : Nat} :
    ∀ (ps : List Path) (g g' : Graph) (rem : List Path), Q g →
      retainPass s g ps = .ok (g', rem) → Q g' := by
  intro ps
  induction ps with
  | nil =>
    intro g g' rem q h
    simp only [retainPass, Res.ok.injEq, Prod.mk.injEq] at h
    rw [← h.1]; exact q
  | cons p ps ih =>
    intro g g' rem q h
    unfold retainPass at h
    cases hi : importOne g s p with
    | panic x => rw [hi] at h; cases h
    | ok g1 =>
      rw [hi] at h
      simp only at h
      cases hr : retainPass s g1 ps with
      | panic x => rw [hr] at h; cases h
      | err e => rw [hr] at h; cases h
      | ok pr =>
        rw [hr] at h
        obtain ⟨g2, rem2⟩ := pr
        simp only [Res.ok.injEq, Prod.mk.injEq] at h
        rw [← h.1]
        exact ih g1 g2 rem2 (pres_importOne pq q hi) hr
    | err e =>
      rw [hi] at h
      simp only at h
      cases hr : retainPass s g ps with
      | panic x => rw [hr] at h; cases h
      | err e => rw [hr] at h; cases h
      | ok pr =>
        rw [hr] at h
        obtain ⟨g2, rem2⟩ := pr
        simp only [Res.ok.injEq, Prod.mk.injEq] at h
        rw [← h.1]
        exact ih g g2 rem2 q hr

theorem pres_importAll (pq : Pres Q) {s : Nat} :
    ∀ (ps : List Path) (g g' : Graph), Q g → importAll s g ps = .ok g' → Q g' := by
  intro ps
  induction ps with
  | nil => intro g g' q h; simp only [importAll, Res.ok.injEq] at h; rw [← h]; exact q
  | cons p ps ih =>
    intro g g' q h
    unfold importAll at h
    cases hi : importOne g s p with
    | panic x => rw [hi] at h; cases h
    | err e => rw [hi] at h; cases h
    | ok g1 => rw [hi] at h; exact ih g1 g' (pres_importOne pq q hi) h

theorem pres_importsF (pq : Pres Q) {s : Nat} :
    ∀ (fuel : Nat) (g g' : Graph) (ps : List Path), Q g → importsF s fuel g ps = .ok g' → Q g' := by
  intro fuel
  induction fuel with
  | zero => intro g g' ps _ h; simp [importsF] at h
  | succ n ih =>
    intro g g' ps q h
    unfold importsF at h
    cases hr : retainPass s g ps with
    | panic x => rw [hr] at h; cases h
    | err e => rw [hr] at h; cases h
    | ok pr =>
      rw [hr] at h
      obtain ⟨g1, rem⟩ := pr
      have q1 := pres_retainPass pq ps g g1 rem q hr
      simp only at h
      by_cases h0 : rem.length = 0
      · simp only [h0, ↓reduceIte, Res.ok.injEq] at h; rw [← h]; exact q1
      · simp only [h0, ↓reduceIte] at h
        by_cases h1 : rem.length = ps.length
        · simp only [h1, ↓reduceIte] at h
          cases ha : importAll s g1 rem with
          | panic x => rw [ha] at h; cases h
          | err e => rw [ha] at h; cases h
          | ok g2 => rw [ha] at h; exact ih g2 g' rem (pres_importAll pq rem g1 g2 q1 ha) h
        · simp only [h1, ↓reduceIte] at h
          exact ih g1 g' rem q1 h

theorem pres_imports (pq : Pres Q) {g g' : Graph} {s : Nat} {ps : List Path} (q : Q g)
    (h : imports g s ps = .ok g') : Q g' :=
  pres_importsF pq _ g g' ps q h

mutual
theorem pres_checkBlock (pq : Pres Q) (s : Nat) :
    ∀ (b : Block) (st st' : St), Q st.g → checkBlock s b st = .ok st' → Q st'.g
  | .mk imps stmts, st, st', q, h => by
    unfold checkBlock at h
    cases hi : imports st.g s imps with
    | panic x => rw [hi] at h; cases h
    | err e => rw [hi] at h; cases h
    | ok g1 =>
      rw [hi] at h
      exact pres_checkStmts pq s stmts { st with g := g1 } st' (pres_imports pq q hi) h
theorem pres_checkStmts (pq : Pres Q) (s : Nat) :
    ∀ (l : List Stmt) (st st' : St), Q st.g → checkStmts s l st = .ok st' → Q st'.g
  | [], st, st', q, h => by
    simp only [checkStmts, Res.ok.injEq] at h
    rw [← h]; exact q
  | stmt :: rest, st, st', q, h => by
    unfold checkStmts at h
    cases h1 : checkStmt s stmt st with
    | panic x => rw [h1] at h; cases h
    | err e => rw [h1] at h; cases h
    | ok st1 =>
      rw [h1] at h
      exact pres_checkStmts pq s rest st1 st' (pres_checkStmt pq s stmt st st1 q h1) h
theorem pres_checkStmt (pq : Pres Q) (s : Nat) :
    ∀ (stmt : Stmt) (st st' : St), Q st.g → checkStmt s stmt st = .ok st' → Q st'.g
  | .letv x tag, st, st', q, h => by
    unfold checkStmt at h
    cases hd : st.g.insertDecl ⟨s, x⟩ (.localv tag) none with
    | panic x => rw [hd] at h; cases h
    | err e => rw [hd] at h; cases h
    | ok g1 =>
      rw [hd] at h
      simp only [Res.ok.injEq] at h
      rw [← h]
      exact pq.loc _ _ _ _ q hd
  | .block b, st, st', q, h => by
    unfold checkStmt at h
    simp only at h
    exact pres_checkBlock pq _ b _ st' (pq.wrap _ _ _ q) h
  | .probe id k p, st, st', q, h => by
    simp only [checkStmt, Res.ok.injEq] at h
    rw [← h]; exact q
  | .param x tag, st, st', q, h => by
    simp only [checkStmt, Res.ok.injEq] at h
    rw [← h]; exact q
end

theorem pres_declareParams (pq : Pres Q) (s : Nat) :
    ∀ (ps : List (Name × Nat)) (g g' : Graph), Q g → declareParams s ps g = .ok g' → Q g' := by
  intro ps
  induction ps with
  | nil => intro g g' q h; simp only [declareParams, Res.ok.injEq] at h; rw [← h]; exact q
  | cons p rest ih =>
    intro g g' q h
    obtain ⟨x, tag⟩ := p
    unfold declareParams at h
    cases hd : g.insertDecl ⟨s, x⟩ (.localv tag) none with
    | panic e => rw [hd] at h; cases h
    | err e => rw [hd] at h; cases h
    | ok g1 => rw [hd] at h; exact ih g1 g' (pq.loc _ _ _ _ q hd) h

theorem pres_checkItems (pq : Pres Q) (s : Nat) :
    ∀ (items : List Item) (st st' : St), Q st.g → checkItems s items st = .ok st' → Q st'.g := by
  intro items
  induction items with
  | nil => intro st st' q h; simp only [checkItems, Res.ok.injEq] at h; rw [← h]; exact q
  | cons it rest ih =>
    intro st st' q h
    cases it with
    | fn n tag body =>
      unfold checkItems at h
      simp only at h
      cases hpar : declareParams (st.g.wrap s (.function n)).2 (paramsOf body) (st.g.wrap s (.function n)).1 with
      | panic x => rw [hpar] at h; cases h
      | err e => rw [hpar] at h; cases h
      | ok gp =>
        rw [hpar] at h
        simp only at h
        have qp := pres_declareParams pq _ _ _ gp (pq.wrap _ _ _ q) hpar
        cases hb : checkBlock (st.g.wrap s (.function n)).2 body { st with g := gp } with
        | panic x => rw [hb] at h; cases h
        | err e => rw [hb] at h; cases h
        | ok st1 =>
          rw [hb] at h
          exact ih st1 st' (pres_checkBlock pq _ body _ st1 qp hb) h
    | const n tag =>
      unfold checkItems at h
      exact ih _ st' (pq.wrap _ _ _ q) h
    | sigProbe id k p =>
      unfold checkItems at h
      exact ih _ st' (pq.wrap _ _ _ q) h
    | ty n tag => unfold checkItems at h; exact ih st st' q h
    | imports ps => unfold checkItems at h; exact ih st st' q h

theorem pres_checkTree (pq : Pres Q) :
    ∀ (l : List (Nat × Module)) (st st' : St), Q st.g → checkTree l st = .ok st' → Q st'.g := by
  intro l
  induction l with
  | nil => intro st st' q h; simp only [checkTree, Res.ok.injEq] at h; rw [← h]; exact q
  | cons x rest ih =>
    intro st st' q h
    obtain ⟨s, m⟩ := x
    unfold checkTree at h
    cases hi : checkItems s m.items st with
    | panic x => rw [hi] at h; cases h
    | err e => rw [hi] at h; cases h
    | ok st1 => rw [hi] at h; exact ih st1 st' (pres_checkItems pq s m.items st st1 q hi) h

theorem pres_declareImports (pq : Pres Q) :
    ∀ (l : List (Nat × Module)) (g g' : Graph), Q g → declareImports l g = .ok g' → Q g' := by
  intro l
  induction l with
  | nil => intro g g' q h; simp only [declareImports, Res.ok.injEq] at h; rw [← h]; exact q
  | cons x rest ih =>
    intro g g' q h
    obtain ⟨s, m⟩ := x
    unfold declareImports at h
    cases hi : imports g s (importPathsOf m.items) with
    | panic x => rw [hi] at h; cases h
    | err e => rw [hi] at h; cases h
    | ok g1 => rw [hi] at h; exact ih g1 g' (pres_imports pq q hi) h

/-- everything `check_module_tree` does after `declare_modules` preserves `Q` -/
theorem pres_phase2 (pq : Pres Q) {g0 : Graph} {ms : List Module} {out : Outcome}
    (h : checkModuleTree g0 ms = .ok out) :
    ∃ g1, declareModules ms [] g0 = .ok (g1, out.mods) ∧ (Q g1 → Q out.g) := by
  unfold checkModuleTree at h
  cases hd : declareModules ms [] g0 with
  | panic x => rw [hd] at h; cases h
  | err e => rw [hd] at h; cases h
  | ok pr =>
    rw [hd] at h
    obtain ⟨g1, mods⟩ := pr
    simp only at h
    cases hi : declareImports (mods.zip ms) g1 with
    | panic x => rw [hi] at h; cases h
    | err e => rw [hi] at h; cases h
    | ok g2 =>
      rw [hi] at h
      simp only at h
      cases ht : checkTree (mods.zip ms) ⟨g2, 0, sigProbes g2 (mods.zip ms)⟩ with
      | panic x => rw [ht] at h; cases h
      | err e => rw [ht] at h; cases h
      | ok st =>
        rw [ht] at h
        simp only [Res.ok.injEq] at h
        subst h
        refine ⟨g1, rfl, ?_⟩
        intro q
        exact pres_checkTree pq _ _ st (pres_declareImports pq _ g1 g2 q hi) ht

/-! ## the two facts about the declaration table -/

/-- every declaration is the one its name finds -/
def DeclUniq (g : Graph) : Prop := ∀ d ∈ g.decls, g.decl d.name = some d

/-- functions are declared in module scopes only: the runtime's (`base`) or the script's -/
def FnOk (g : Graph) (base mods : List Nat) : Prop :=
  ∀ d ∈ g.decls, ∀ tag, d.kind = .fn tag → d.name.scope ∈ base ++ mods

theorem insertDecl_decls {g g' : Graph} {n : RName} {k : DKind} {sc : Option Nat}
    (h : g.insertDecl n k sc = .ok g') : g'.decls = g.decls ++ [⟨n, k, sc⟩] ∧ g.decl n = none := by
  unfold Graph.insertDecl at h
  cases hd : g.decl n with
  | some d => rw [hd] at h; cases h
  | none => rw [hd] at h; cases h; exact ⟨rfl, rfl⟩

theorem declUniq_insertDecl {g g' : Graph} {n : RName} {k : DKind} {sc : Option Nat}
    (u : DeclUniq g) (h : g.insertDecl n k sc = .ok g') : DeclUniq g' := by
  obtain ⟨hdecls, hfresh⟩ := insertDecl_decls h
  obtain ⟨_, _, hdecl⟩ := insertDecl_ok h
  intro d hd
  rw [hdecls] at hd
  simp only [List.mem_append, List.mem_singleton] at hd
  rw [hdecl]
  rcases hd with hd | hd
  · have := u d hd
    have hne : d.name ≠ n := by intro e; rw [e, hfresh] at this; cases this
    simp [hne, this]
  · subst hd; simp

theorem insertImport_decls {g g' : Graph} {s : Nat} {t : RName}
    (h : g.insertImport s t = .ok g') : g'.decls = g.decls := by
  unfold Graph.insertImport at h
  cases hs : g.scopes[s]? with
  | none => rw [hs] at h; cases h
  | some sc =>
    rw [hs] at h
    simp only at h
    cases hl : sc.imports.lookup t.ident with
    | some _ => rw [hl] at h; cases h
    | none => rw [hl] at h; cases h; rfl

theorem pres_tables (base mods : List Nat) : Pres (fun g => DeclUniq g ∧ FnOk g base mods) where
  wrap := fun g p k q => q
  imp := by
    intro g g' s t q h
    have hd := insertImport_decls h
    refine ⟨?_, ?_⟩
    · intro d hm
      rw [hd] at hm
      have := q.1 d hm
      simp only [Graph.decl, hd] at this ⊢
      exact this
    · intro d hm tag hk
      rw [hd] at hm
      exact q.2 d hm tag hk
  loc := by
    intro g g' n t q h
    refine ⟨declUniq_insertDecl q.1 h, ?_⟩
    intro d hm tag hk
    rw [(insertDecl_decls h).1] at hm
    simp only [List.mem_append, List.mem_singleton] at hm
    rcases hm with hm | hm
    · exact q.2 d hm tag hk
    · subst hm; cases hk

/-! ## `declare_modules` establishes them -/

theorem tables_declareItems (base : List Nat) (s : Nat) :
    ∀ (items : List Item) (g g' : Graph) (mods : List Nat), DeclUniq g → FnOk g base mods → s ∈ mods →
      declareItems s items g = .ok g' →
      DeclUniq g' ∧ FnOk g' base mods ∧
      (∀ d ∈ g.decls, d ∈ g'.decls) ∧
      ∀ n tag body, Item.fn n tag body ∈ items → (⟨⟨s, n⟩, .fn tag, none⟩ : Decl) ∈ g'.decls := by
  intro items
  induction items with
  | nil =>
    intro g g' mods u f _ h
    simp only [declareItems, Res.ok.injEq] at h
    subst h
    exact ⟨u, f, fun d hd => hd, by intro n tag body hm; cases hm⟩
  | cons it rest ih =>
    intro g g' mods u f hs h
    cases it with
    | fn n tag body =>
      unfold declareItems at h
      cases hd : g.insertDecl ⟨s, n⟩ (.fn tag) none with
      | panic x => rw [hd] at h; cases h
      | err e => rw [hd] at h; cases h
      | ok g1 =>
        rw [hd] at h
        have hdecls := (insertDecl_decls hd).1
        have f1 : FnOk g1 base mods := by
          intro d hm t hk
          rw [hdecls] at hm
          simp only [List.mem_append, List.mem_singleton] at hm
          rcases hm with hm | hm
          · exact f d hm t hk
          · subst hm; exact List.mem_append_right _ hs
        obtain ⟨u', f', hkeep, hfn⟩ := ih g1 g' mods (declUniq_insertDecl u hd) f1 hs h
        refine ⟨u', f', fun d hm => hkeep d (by rw [hdecls]; exact List.mem_append_left _ hm), ?_⟩
        intro n' tag' body' hm
        simp only [List.mem_cons, Item.fn.injEq] at hm
        rcases hm with ⟨rfl, rfl, _⟩ | hm
        · exact hkeep _ (by rw [hdecls]; simp)
        · exact hfn n' tag' body' hm
    | const n tag =>
      unfold declareItems at h
      cases hd : g.insertDecl ⟨s, n⟩ (.const tag) none with
      | panic x => rw [hd] at h; cases h
      | err e => rw [hd] at h; cases h
      | ok g1 =>
        rw [hd] at h
        have hdecls := (insertDecl_decls hd).1
        have f1 : FnOk g1 base mods := by
          intro d hm t hk
          rw [hdecls] at hm
          simp only [List.mem_append, List.mem_singleton] at hm
          rcases hm with hm | hm
          · exact f d hm t hk
          · subst hm; cases hk
        obtain ⟨u', f', hkeep, hfn⟩ := ih g1 g' mods (declUniq_insertDecl u hd) f1 hs h
        refine ⟨u', f', fun d hm => hkeep d (by rw [hdecls]; exact List.mem_append_left _ hm), ?_⟩
        intro n' tag' body' hm
        simp only [List.mem_cons, reduceCtorEq, false_or] at hm
        exact hfn n' tag' body' hm
    | ty n tag =>
      unfold declareItems at h
      simp only at h
      cases hd : (g.wrap s (.type n)).1.insertDecl ⟨s, n⟩ (.ty tag) (some (g.wrap s (.type n)).2) with
      | panic x => rw [hd] at h; cases h
      | err e => rw [hd] at h; cases h
      | ok g1 =>
        rw [hd] at h
        have hdecls : g1.decls = g.decls ++ [⟨⟨s, n⟩, .ty tag, some (g.wrap s (.type n)).2⟩] :=
          (insertDecl_decls hd).1
        have f1 : FnOk g1 base mods := by
          intro d hm t hk
          rw [hdecls] at hm
          simp only [List.mem_append, List.mem_singleton] at hm
          rcases hm with hm | hm
          · exact f d hm t hk
          · subst hm; cases hk
        have u0 : DeclUniq (g.wrap s (.type n)).1 := u
        obtain ⟨u', f', hkeep, hfn⟩ := ih g1 g' mods (declUniq_insertDecl u0 hd) f1 hs h
        refine ⟨u', f', fun d hm => hkeep d (by rw [hdecls]; exact List.mem_append_left _ hm), ?_⟩
        intro n' tag' body' hm
        simp only [List.mem_cons, reduceCtorEq, false_or] at hm
        exact hfn n' tag' body' hm
    | imports ps =>
      unfold declareItems at h
      obtain ⟨u', f', hkeep, hfn⟩ := ih g g' mods u f hs h
      refine ⟨u', f', hkeep, ?_⟩
      intro n' tag' body' hm
      simp only [List.mem_cons, reduceCtorEq, false_or] at hm
      exact hfn n' tag' body' hm
    | sigProbe id k p =>
      unfold declareItems at h
      obtain ⟨u', f', hkeep, hfn⟩ := ih g g' mods u f hs h
      refine ⟨u', f', hkeep, ?_⟩
      intro n' tag' body' hm
      simp only [List.mem_cons, reduceCtorEq, false_or] at hm
      exact hfn n' tag' body' hm

/-- `declare_modules` only appends to the list of module scopes -/
theorem declareModules_prefix :
    ∀ (r : List Module) (ms0 : List Nat) (ga gb : Graph) (msb : List Nat),
      declareModules r ms0 ga = .ok (gb, msb) → ∃ ext, msb = ms0 ++ ext := by
  intro r
  induction r with
  | nil =>
    intro ms0 ga gb msb hh
    simp only [declareModules, Res.ok.injEq, Prod.mk.injEq] at hh
    exact ⟨[], by rw [← hh.2]; simp⟩
  | cons mm rr ihr =>
    intro ms0 ga gb msb hh
    unfold declareModules at hh
    simp only at hh
    cases hp : parentScopeOf ms0 mm.parent with
    | panic x => rw [hp] at hh; cases hh
    | err e => rw [hp] at hh; cases hh
    | ok pv =>
      rw [hp] at hh
      simp only at hh
      cases hd : (ga.wrap 0 (.module ⟨pv.getD 0, mm.ident⟩ pv)).1.insertDecl ⟨pv.getD 0, mm.ident⟩ .module
          (some (ga.wrap 0 (.module ⟨pv.getD 0, mm.ident⟩ pv)).2) with
      | panic x => rw [hd] at hh; cases hh
      | err e => rw [hd] at hh; cases hh
      | ok gc =>
        rw [hd] at hh
        simp only at hh
        cases hi : declareItems (ga.wrap 0 (.module ⟨pv.getD 0, mm.ident⟩ pv)).2 mm.items gc with
        | panic x => rw [hi] at hh; cases hh
        | err e => rw [hi] at hh; cases hh
        | ok gd =>
          rw [hi] at hh
          simp only at hh
          obtain ⟨ext, he⟩ := ihr _ _ _ _ hh
          exact ⟨(ga.wrap 0 (.module ⟨pv.getD 0, mm.ident⟩ pv)).2 :: ext, by rw [he]; simp⟩

theorem tables_declareModules (base : List Nat) :
    ∀ (rest done : List Module) (mods : List Nat) (g g' : Graph) (mods' : List Nat),
      mods.length = done.length → DeclUniq g → FnOk g base mods →
      declareModules rest mods g = .ok (g', mods') →
      DeclUniq g' ∧ FnOk g' base mods' ∧ (∀ d ∈ g.decls, d ∈ g'.decls) ∧
      ∀ i m s n tag body, (done ++ rest)[i]? = some m → done.length ≤ i → mods'[i]? = some s →
        Item.fn n tag body ∈ m.items → (⟨⟨s, n⟩, .fn tag, none⟩ : Decl) ∈ g'.decls := by
  intro rest
  induction rest with
  | nil =>
    intro done mods g g' mods' hl u f h
    simp only [declareModules, Res.ok.injEq, Prod.mk.injEq] at h
    obtain ⟨rfl, rfl⟩ := h
    refine ⟨u, f, fun d hd => hd, ?_⟩
    intro i m s n tag body hm hle hs
    simp only [List.append_nil] at hm
    have := getElem?_lt hm
    omega
  | cons m rest ih =>
    intro done mods g g' mods' hl u f h
    unfold declareModules at h
    simp only at h
    cases hp : parentScopeOf mods m.parent with
    | panic x => rw [hp] at h; cases h
    | err e => rw [hp] at h; cases h
    | ok pmv =>
      rw [hp] at h
      simp only at h
      cases hd : (g.wrap 0 (.module ⟨pmv.getD 0, m.ident⟩ pmv)).1.insertDecl ⟨pmv.getD 0, m.ident⟩ .module
          (some (g.wrap 0 (.module ⟨pmv.getD 0, m.ident⟩ pmv)).2) with
      | panic x => rw [hd] at h; cases h
      | err e => rw [hd] at h; cases h
      | ok g2 =>
        rw [hd] at h
        simp only at h
        have hdecls : g2.decls = g.decls ++ [⟨⟨pmv.getD 0, m.ident⟩, .module, some g.scopes.length⟩] :=
          (insertDecl_decls hd).1
        have u0 : DeclUniq (g.wrap 0 (.module ⟨pmv.getD 0, m.ident⟩ pmv)).1 := u
        have u2 := declUniq_insertDecl u0 hd
        have f2 : FnOk g2 base (mods ++ [g.scopes.length]) := by
          intro d hm t hk
          rw [hdecls] at hm
          simp only [List.mem_append, List.mem_singleton] at hm
          rcases hm with hm | hm
          · have := f d hm t hk
            simp only [List.mem_append] at this ⊢
            rcases this with h' | h'
            · exact Or.inl h'
            · exact Or.inr (Or.inl h')
          · subst hm; cases hk
        cases hit : declareItems (g.wrap 0 (.module ⟨pmv.getD 0, m.ident⟩ pmv)).2 m.items g2 with
        | panic x => rw [hit] at h; cases h
        | err e => rw [hit] at h; cases h
        | ok g3 =>
          rw [hit] at h
          simp only at h
          obtain ⟨u3, f3, hkeep3, hfn3⟩ := tables_declareItems base _ m.items g2 g3 (mods ++ [g.scopes.length]) u2 f2
            (by rw [wrap_snd]; simp) hit
          obtain ⟨u4, f4, hkeep4, hfn4⟩ := ih (done ++ [m]) (mods ++ [g.scopes.length]) g3 g' mods'
            (by simp [hl]) u3 f3 h
          have hprefix : ∀ i, i < (mods ++ [g.scopes.length]).length → mods'[i]? = (mods ++ [g.scopes.length])[i]? := by
            obtain ⟨ext, he⟩ := declareModules_prefix _ _ _ _ _ h
            intro i hi
            rw [he, wrap_snd, List.getElem?_append_left hi]
          refine ⟨u4, f4, ?_, ?_⟩
          · intro d hm
            exact hkeep4 d (hkeep3 d (by rw [hdecls]; exact List.mem_append_left _ hm))
          · intro i mi s n tag body hmi hle hs hmem
            have hassoc : (done ++ [m]) ++ rest = done ++ m :: rest := by simp
            by_cases hi : i = done.length
            · subst hi
              have hmi' : mi = m := by
                simp only [List.getElem?_append_right (Nat.le_refl _), Nat.sub_self,
                  List.getElem?_cons_zero, Option.some.injEq] at hmi
                exact hmi.symm
              subst hmi'
              have hs' : s = g.scopes.length := by
                rw [hprefix done.length (by simp [hl])] at hs
                rw [← hl] at hs
                simp only [List.getElem?_append_right (Nat.le_refl _), Nat.sub_self,
                  List.getElem?_cons_zero, Option.some.injEq] at hs
                exact hs.symm
              subst hs'
              exact hkeep4 _ (hfn3 n tag body hmem)
            · exact hfn4 i mi s n tag body (by rw [hassoc]; exact hmi)
                (by simp only [List.length_append, List.length_cons, List.length_nil]; omega) hs hmem

/-! ## lookup in a filtered table -/

theorem lookup_filterMap_unique {α : Type} (F : α → Option (List Seg × Nat)) (key : List Seg) (tag : Nat) :
    ∀ (l : List α), (∃ d ∈ l, F d = some (key, tag)) →
      (∀ d ∈ l, ∀ t, F d = some (key, t) → t = tag) →
      (l.filterMap F).lookup key = some tag := by
  intro l
  induction l with
  | nil => intro ⟨d, hd, _⟩; cases hd
  | cons a tl ih =>
    intro hex huniq
    simp only [List.filterMap_cons]
    cases hfa : F a with
    | none =>
      simp only
      apply ih
      · obtain ⟨d, hd, hf⟩ := hex
        simp only [List.mem_cons] at hd
        rcases hd with rfl | hd
        · rw [hfa] at hf; cases hf
        · exact ⟨d, hd, hf⟩
      · intro d hd t hf
        exact huniq d (List.mem_cons_of_mem _ hd) t hf
    | some kv =>
      obtain ⟨k, v⟩ := kv
      simp only [List.lookup]
      by_cases hk : key = k
      · subst hk
        have := huniq a List.mem_cons_self v hfa
        subst this
        simp
      · have hne : (key == k) = false := by simpa using hk
        rw [hne]
        apply ih
        · obtain ⟨d, hd, hf⟩ := hex
          simp only [List.mem_cons] at hd
          rcases hd with rfl | hd
          · rw [hfa] at hf
            simp only [Option.some.injEq, Prod.mk.injEq] at hf
            exact absurd hf.1.symm hk
          · exact ⟨d, hd, hf⟩
        · intro d hd t hf
          exact huniq d (List.mem_cons_of_mem _ hd) t hf

theorem map_id_injective : ∀ {l₁ l₂ : List Name}, l₁.map Seg.id = l₂.map Seg.id → l₁ = l₂ := by
  intro l₁
  induction l₁ with
  | nil => intro l₂ h; cases l₂ with | nil => rfl | cons _ _ => simp at h
  | cons a t ih =>
    intro l₂ h
    cases l₂ with
    | nil => simp at h
    | cons b t2 =>
      simp only [List.map_cons, List.cons.injEq, Seg.id.injEq] at h
      rw [h.1, ih h.2]

/-- the entry of a declaration in the table of compiled functions -/
def exportEntry (g : Graph) (d : Decl) : Option (List Seg × Nat) :=
  match d.kind with
  | .fn tag =>
    match fullName g d.name with
    | .ok l => some (l, tag)
    | _ => none
  | _ => none

theorem exportTable_eq (g : Graph) : exportTable g = g.decls.filterMap (exportEntry g) := rfl

/-- **`get_function` finds the function.**  For a script checked against a
    runtime without registered modules: the function `f` (tag `tag`) declared in
    module `i`, whose module path is `pkg.path'`, is what
    `get_function("path'.f")` returns. -/
theorem getFunction_spec {ms : List Module} {out : Outcome}
    (h : checkModuleTree Graph.new ms = .ok out)
    {i : Nat} {m : Module} {path' : List Name} {f tag : Nat} {body : Block}
    (hm : ms[i]? = some m) (hp : PathTo ms i (PKG :: path')) (hf : Item.fn f tag body ∈ m.items) :
    getFunction out.g (path' ++ [f]) = some tag := by
  -- the facts about the final graph
  have h0 : declareModules [] [] Graph.new = .ok (Graph.new, []) := rfl
  obtain ⟨hi, hr, inv⟩ := minfo_checkModuleTree h0 h
  obtain ⟨g1, hd, hq⟩ := pres_phase2 (pres_tables [] out.mods) h
  obtain ⟨g1', hd', _, s2⟩ := checkModuleTree_split inv_new h
  rw [hd] at hd'
  simp only [Res.ok.injEq, Prod.mk.injEq, and_true] at hd'
  subst hd'
  obtain ⟨u1, f1, _, hfn⟩ := tables_declareModules [] ms [] [] Graph.new g1 out.mods rfl
    (by intro d hd0; cases hd0) (by intro d hd0; cases hd0) hd
  obtain ⟨uq, fq⟩ := hq ⟨u1, f1⟩
  have hil : i < out.mods.length := by rw [hi.len]; exact getElem?_lt hm
  have hs : out.mods[i]? = some out.mods[i] := List.getElem?_eq_getElem hil
  -- the declaration is in the final table
  have hmem1 : (⟨⟨out.mods[i], f⟩, .fn tag, none⟩ : Decl) ∈ g1.decls :=
    hfn i m _ f tag body (by simpa using hm) (Nat.zero_le _) hs hf
  have hmem : (⟨⟨out.mods[i], f⟩, .fn tag, none⟩ : Decl) ∈ out.g.decls := by
    obtain ⟨extra, he⟩ := s2.2.2.decls
    rw [he]; exact List.mem_append_left _ hmem1
  have hfull := fullName_spec hi hr hp hs f
  unfold getFunction
  rw [exportTable_eq]
  have hkey : (PKG :: (path' ++ [f])).map Seg.id = ((PKG :: path') ++ [f]).map Seg.id := by simp
  rw [hkey]
  apply lookup_filterMap_unique
  · exact ⟨_, hmem, by simp [exportEntry, hfull]⟩
  · intro d hdm t hft
    -- `d` is a function whose exported name is the key
    unfold exportEntry at hft
    cases hk : d.kind with
    | fn t' =>
      rw [hk] at hft
      simp only at hft
      cases hfn' : fullName out.g d.name with
      | ok l =>
        rw [hfn'] at hft
        simp only [Option.some.injEq, Prod.mk.injEq] at hft
        obtain ⟨hl, ht⟩ := hft
        subst hl ht
        -- it lives in a module scope of the script
        have hsc : d.name.scope ∈ out.mods := by simpa using fq d hdm t' hk
        obtain ⟨j, hj⟩ := List.getElem?_of_mem hsc
        have hjl : j < ms.length := by have := getElem?_lt hj; rw [hi.len] at this; exact this
        obtain ⟨pj, hpj⟩ := pathTo_exists hi j hjl
        have hfull' := fullName_spec hi hr hpj hj d.name.ident
        have hname : (⟨d.name.scope, d.name.ident⟩ : RName) = d.name := rfl
        rw [hname, hfn'] at hfull'
        simp only [Res.ok.injEq] at hfull'
        have hpaths := map_id_injective hfull'
        obtain ⟨h1, h2⟩ := List.append_inj' hpaths.symm (by simp)
        simp only [List.cons.injEq, and_true] at h2
        have hji : j = i := by
          have := pathTo_injective (uniq_of_minfo hi inv.mok) hpj (by rw [h1]; exact hp)
          exact this
        subst hji
        rw [hs] at hj
        simp only [Option.some.injEq] at hj
        -- same name ⇒ same declaration
        have hdn : d.name = ⟨out.mods[j], f⟩ := by
          cases hdd : d.name with
          | mk sc id =>
            rw [hdd] at hj h2
            simp only at hj h2
            rw [← hj, h2]
        have e1 := uq d hdm
        have e2 := uq _ hmem
        simp only at e2
        rw [hdn, e2] at e1
        simp only [Option.some.injEq] at e1
        rw [← e1] at hk
        simp only [DKind.fn.injEq] at hk
        exact hk.symm
      | err e => rw [hfn'] at hft; cases hft
      | panic x => rw [hfn'] at hft; cases hft
    | module => rw [hk] at hft; cases hft
    | ty t' => rw [hk] at hft; cases hft
    | const t' => rw [hk] at hft; cases hft
    | localv t' => rw [hk] at hft; cases hft

/-! ## with registered runtime modules -/

theorem pathTo_head_root {ms : List Module} :
    ∀ {i : Nat} {l : List Name}, PathTo ms i l → ∀ {h : Name} {t : List Name}, l = h :: t →
      ∃ (r : Nat) (m : Module), ms[r]? = some m ∧ m.parent = none ∧ m.ident = h := by
  intro i l hp
  induction hp with
  | root hm hpar =>
    intro h t hl
    simp only [List.cons.injEq] at hl
    exact ⟨_, _, hm, hpar, hl.1⟩
  | child hm hpar hrest ih =>
    rename_i i m p l0
    intro h t hl
    cases l0 with
    | nil => exact absurd rfl (pathTo_ne_nil hrest)
    | cons a l1 =>
      simp only [List.cons_append, List.cons.injEq] at hl
      obtain ⟨r, mr, h1, h2, h3⟩ := ih (h := a) (t := l1) rfl
      exact ⟨r, mr, h1, h2, by rw [h3, hl.1]⟩

theorem declareItems_len (s : Nat) :
    ∀ (items : List Item) (g g' : Graph), declareItems s items g = .ok g' →
      g.scopes.length ≤ g'.scopes.length := by
  intro items
  induction items with
  | nil => intro g g' h; simp only [declareItems, Res.ok.injEq] at h; rw [h]; exact Nat.le_refl _
  | cons it rest ih =>
    intro g g' h
    cases it with
    | fn n tag body =>
      unfold declareItems at h
      cases hd : g.insertDecl ⟨s, n⟩ (.fn tag) none with
      | panic x => rw [hd] at h; cases h
      | err e => rw [hd] at h; cases h
      | ok g1 =>
        rw [hd] at h
        have := ih g1 g' h
        rw [(insertDecl_ok hd).2.1] at this; exact this
    | const n tag =>
      unfold declareItems at h
      cases hd : g.insertDecl ⟨s, n⟩ (.const tag) none with
      | panic x => rw [hd] at h; cases h
      | err e => rw [hd] at h; cases h
      | ok g1 =>
        rw [hd] at h
        have := ih g1 g' h
        rw [(insertDecl_ok hd).2.1] at this; exact this
    | ty n tag =>
      unfold declareItems at h
      simp only at h
      cases hd : (g.wrap s (.type n)).1.insertDecl ⟨s, n⟩ (.ty tag) (some (g.wrap s (.type n)).2) with
      | panic x => rw [hd] at h; cases h
      | err e => rw [hd] at h; cases h
      | ok g1 =>
        rw [hd] at h
        have := ih g1 g' h
        rw [(insertDecl_ok hd).2.1, wrap_length] at this; omega
    | imports ps => unfold declareItems at h; exact ih g g' h
    | sigProbe id k p => unfold declareItems at h; exact ih g g' h

/-- the scopes `declare_modules` allocates lie above everything that existed -/
theorem declareModules_lower :
    ∀ (r : List Module) (ms0 : List Nat) (ga gb : Graph) (msb : List Nat),
      declareModules r ms0 ga = .ok (gb, msb) → ∀ s ∈ msb, s ∈ ms0 ∨ ga.scopes.length ≤ s := by
  intro r
  induction r with
  | nil =>
    intro ms0 ga gb msb hh s hs
    simp only [declareModules, Res.ok.injEq, Prod.mk.injEq] at hh
    rw [← hh.2] at hs; exact Or.inl hs
  | cons mm rr ihr =>
    intro ms0 ga gb msb hh s hs
    unfold declareModules at hh
    simp only at hh
    cases hp : parentScopeOf ms0 mm.parent with
    | panic x => rw [hp] at hh; cases hh
    | err e => rw [hp] at hh; cases hh
    | ok pv =>
      rw [hp] at hh
      simp only at hh
      cases hd : (ga.wrap 0 (.module ⟨pv.getD 0, mm.ident⟩ pv)).1.insertDecl ⟨pv.getD 0, mm.ident⟩ .module
          (some (ga.wrap 0 (.module ⟨pv.getD 0, mm.ident⟩ pv)).2) with
      | panic x => rw [hd] at hh; cases hh
      | err e => rw [hd] at hh; cases hh
      | ok gc =>
        rw [hd] at hh
        simp only at hh
        cases hi : declareItems (ga.wrap 0 (.module ⟨pv.getD 0, mm.ident⟩ pv)).2 mm.items gc with
        | panic x => rw [hi] at hh; cases hh
        | err e => rw [hi] at hh; cases hh
        | ok gd =>
          rw [hi] at hh
          simp only at hh
          have hlen : ga.scopes.length ≤ gd.scopes.length := by
            have h1 := declareItems_len _ _ _ _ hi
            rw [(insertDecl_ok hd).2.1, wrap_length] at h1
            omega
          rcases ihr _ _ _ _ hh s hs with h1 | h1
          · simp only [List.mem_append, List.mem_singleton, wrap_snd] at h1
            rcases h1 with h1 | h1
            · exact Or.inl h1
            · exact Or.inr (by omega)
          · exact Or.inr (by omega)

/-- **`get_function` finds the function — with any registered runtime modules.** -/
theorem getFunction_spec_rt {rt ms : List Module} {g0 : Graph} {m0 : List Nat} {out : Outcome}
    (h0 : declareModules rt [] Graph.new = .ok (g0, m0))
    (h : checkModuleTree g0 ms = .ok out)
    {i : Nat} {m : Module} {path' : List Name} {f tag : Nat} {body : Block}
    (hm : ms[i]? = some m) (hp : PathTo ms i (PKG :: path')) (hf : Item.fn f tag body ∈ m.items) :
    getFunction out.g (path' ++ [f]) = some tag := by
  -- the runtime's part
  obtain ⟨s0, _, _⟩ := step_declareModules rt [] Graph.new g0 m0 inv_new (by intro x hx; cases hx) h0
  have hirt0 := minfo_declareModules rt [] [] Graph.new g0 m0 inv_new (minfo_nil _) h0
  simp only [List.nil_append] at hirt0
  obtain ⟨u0, f0, _, _⟩ := tables_declareModules [] rt [] [] Graph.new g0 m0 rfl
    (by intro d hd0; cases hd0) (by intro d hd0; cases hd0) h0
  -- the script's part
  obtain ⟨hi, hr, inv⟩ := minfo_checkModuleTree h0 h
  obtain ⟨g1, hd, hq⟩ := pres_phase2 (pres_tables m0 out.mods) h
  obtain ⟨g1', hd', s1, s2⟩ := checkModuleTree_split s0.1 h
  rw [hd] at hd'
  simp only [Res.ok.injEq, Prod.mk.injEq, and_true] at hd'
  subst hd'
  have f0' : FnOk g0 m0 [] := by
    intro d hdm t hk
    have := f0 d hdm t hk
    simpa using this
  obtain ⟨u1, f1, _, hfn⟩ := tables_declareModules m0 ms [] [] g0 g1 out.mods rfl u0 f0' hd
  obtain ⟨uq, fq⟩ := hq ⟨u1, f1⟩
  have hirt : MInfo out.g rt m0 := minfo_ext hirt0 (ext_trans s1.2.2 s2.2.2) (Nat.le_trans s1.2.1 s2.2.1)
  have hlow := declareModules_lower ms [] g0 g1 out.mods hd
  have hil : i < out.mods.length := by rw [hi.len]; exact getElem?_lt hm
  have hs : out.mods[i]? = some out.mods[i] := List.getElem?_eq_getElem hil
  have hmem1 : (⟨⟨out.mods[i], f⟩, .fn tag, none⟩ : Decl) ∈ g1.decls :=
    hfn i m _ f tag body (by simpa using hm) (Nat.zero_le _) hs hf
  have hmem : (⟨⟨out.mods[i], f⟩, .fn tag, none⟩ : Decl) ∈ out.g.decls := by
    obtain ⟨extra, he⟩ := s2.2.2.decls
    rw [he]; exact List.mem_append_left _ hmem1
  have hfull := fullName_spec hi hr hp hs f
  unfold getFunction
  rw [exportTable_eq]
  have hkey : (PKG :: (path' ++ [f])).map Seg.id = ((PKG :: path') ++ [f]).map Seg.id := by simp
  rw [hkey]
  apply lookup_filterMap_unique
  · exact ⟨_, hmem, by simp [exportEntry, hfull]⟩
  · intro d hdm t hft
    unfold exportEntry at hft
    cases hk : d.kind with
    | fn t' =>
      rw [hk] at hft
      simp only at hft
      cases hfn' : fullName out.g d.name with
      | ok l =>
        rw [hfn'] at hft
        simp only [Option.some.injEq, Prod.mk.injEq] at hft
        obtain ⟨hl, ht⟩ := hft
        subst hl ht
        have hsc := fq d hdm t' hk
        have hname : (⟨d.name.scope, d.name.ident⟩ : RName) = d.name := rfl
        simp only [List.mem_append] at hsc
        rcases hsc with hsc | hsc
        · -- a registered function: its name cannot start with `pkg`
          exfalso
          obtain ⟨j, hj⟩ := List.getElem?_of_mem hsc
          have hjl : j < rt.length := by have := getElem?_lt hj; rw [hirt.len] at this; exact this
          obtain ⟨pj, hpj⟩ := pathTo_exists hirt j hjl
          have hfull' := fullName_spec hirt hr hpj hj d.name.ident
          rw [hname, hfn'] at hfull'
          simp only [Res.ok.injEq] at hfull'
          have hpaths := map_id_injective hfull'
          obtain ⟨h1, _⟩ := List.append_inj' hpaths.symm (by simp)
          -- both module trees would have a root module called `pkg`
          obtain ⟨r, mr, hmr, hmrp, hmri⟩ := pathTo_head_root hpj h1
          obtain ⟨r', mr', hmr', hmrp', hmri'⟩ := pathTo_head_root hp rfl
          have hrl : r < m0.length := by rw [hirt.len]; exact getElem?_lt hmr
          have hrl' : r' < out.mods.length := by rw [hi.len]; exact getElem?_lt hmr'
          obtain ⟨sc1, a1, _, a3⟩ := hirt.recd r mr _ hmr (List.getElem?_eq_getElem hrl)
          obtain ⟨sc2, b1, _, b3⟩ := hi.recd r' mr' _ hmr' (List.getElem?_eq_getElem hrl')
          have k1 : sc1.kind = .module ⟨0, PKG⟩ none := by
            rcases a3 with ⟨_, hk1⟩ | ⟨p, ps, hp1, _⟩
            · rw [hk1, hmri]
            · rw [hmrp] at hp1; cases hp1
          have k2 : sc2.kind = .module ⟨0, PKG⟩ none := by
            rcases b3 with ⟨_, hk2⟩ | ⟨p, ps, hp1, _⟩
            · rw [hk2, hmri']
            · rw [hmrp'] at hp1; cases hp1
          obtain ⟨⟨d1, hd1, hs1⟩, _⟩ := inv.mok _ sc1 _ _ a1 k1
          obtain ⟨⟨d2, hd2, hs2⟩, _⟩ := inv.mok _ sc2 _ _ b1 k2
          rw [hd1] at hd2
          cases hd2
          rw [hs1] at hs2
          simp only [Option.some.injEq] at hs2
          have hb1 : m0[r] < g0.scopes.length := hirt0.bound _ (List.getElem_mem hrl)
          have hb2 := hlow _ (List.getElem_mem hrl')
          simp only [List.not_mem_nil, false_or] at hb2
          omega
        · obtain ⟨j, hj⟩ := List.getElem?_of_mem hsc
          have hjl : j < ms.length := by have := getElem?_lt hj; rw [hi.len] at this; exact this
          obtain ⟨pj, hpj⟩ := pathTo_exists hi j hjl
          have hfull' := fullName_spec hi hr hpj hj d.name.ident
          rw [hname, hfn'] at hfull'
          simp only [Res.ok.injEq] at hfull'
          have hpaths := map_id_injective hfull'
          obtain ⟨h1, h2⟩ := List.append_inj' hpaths.symm (by simp)
          simp only [List.cons.injEq, and_true] at h2
          have hji : j = i := pathTo_injective (uniq_of_minfo hi inv.mok) hpj (by rw [h1]; exact hp)
          subst hji
          rw [hs] at hj
          simp only [Option.some.injEq] at hj
          have hdn : d.name = ⟨out.mods[j], f⟩ := by
            cases hdd : d.name with
            | mk sc id =>
              rw [hdd] at hj h2
              simp only at hj h2
              rw [← hj, h2]
          have e1 := uq d hdm
          have e2 := uq _ hmem
          simp only at e2
          rw [hdn, e2] at e1
          simp only [Option.some.injEq] at e1
          rw [← e1] at hk
          simp only [DKind.fn.injEq] at hk
          exact hk.symm
      | err e => rw [hfn'] at hft; cases hft
      | panic x => rw [hfn'] at hft; cases hft
    | module => rw [hk] at hft; cases hft
    | ty t' => rw [hk] at hft; cases hft
    | const t' => rw [hk] at hft; cases hft
    | localv t' => rw [hk] at hft; cases hft

end RotoV.Scope
