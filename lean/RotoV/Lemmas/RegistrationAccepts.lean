/-
  Registration (C18): `Accepts` — what a library must satisfy to be registered,
  clause by clause in the words of the property; equivalent to the demands of
  the five passes (`accepts_iff`).
-/
import RotoV.Lemmas.RegistrationReach

namespace RotoV.Reg

section
variable (lex : Name → Lex)

theorem stageD {st : St} (hw : WF st) {l : List DOp} (c : CheckD lex st l) :
    Ext st (applyD lex st l st) ∧ WF (applyD lex st l st) := by
  have h : runL (DOp.run lex) l st = .ok (applyD lex st l st) :=
    (runL_ok_iff (guardedD lex) _ st hw _).mpr ⟨c, rfl⟩
  have g := runL_good (DOp.run lex) (DOp.run_good lex) l st hw
  rw [h] at g
  exact g

theorem stageT {st : St} (hw : WF st) {l : List TOp} (c : CheckT st l) :
    Ext st (l.foldl TOp.apply st) ∧ WF (l.foldl TOp.apply st) := by
  have h : runL TOp.run l st = .ok (l.foldl TOp.apply st) := (runT_ok_iff _ _ _).mpr ⟨c, rfl⟩
  have g := runL_good TOp.run TOp.run_good l st hw
  rw [h] at g
  exact g

/-- the Rust type is registered: in the runtime already, or by a `type` item of the library -/
def Registered (st : St) (items : Items) (i : TyId) : Prop :=
  st.types i ≠ none ∨ ∃ t ∈ ops2 items, t.id = i

theorem foldl_apply_types_ne : ∀ (l : List TOp) (st : St) (i : TyId),
    (l.foldl TOp.apply st).types i ≠ none ↔ st.types i ≠ none ∨ ∃ t ∈ l, t.id = i
  | [], st, i => by simp
  | t :: l, st, i => by
    simp only [List.foldl_cons, List.mem_cons, exists_eq_or_imp]
    rw [foldl_apply_types_ne l (TOp.apply st t) i]
    have : (TOp.apply st t).types i = if i = t.id then some t.nm else st.types i := by
      rw [TOp.apply_eq]; rfl
    rw [this]
    by_cases h : i = t.id
    · simp [h]
    · simp only [h, if_false]
      constructor
      · rintro (a | a)
        · exact Or.inl a
        · exact Or.inr (Or.inr a)
      · rintro (a | a | a)
        · exact Or.inl a
        · exact absurd a.symm h
        · exact Or.inr a

theorem registered_iff (st : St) (items : Items) (i : TyId) :
    (S2 lex st items).types i ≠ none ↔ Registered st items i := by
  unfold S2 Registered
  rw [foldl_apply_types_ne]
  have : (S1 lex st items).types = st.types := (setAll_insertDecl_types _ st).1
  rw [this]

theorem registered_iff3 (st : St) (items : Items) (i : TyId) :
    (S3 lex st items).types i ≠ none ↔ Registered st items i := by
  have : (S3 lex st items).types = (S2 lex st items).types := (setAll_insertDecl_types _ _).1
  rw [this]
  exact registered_iff lex st items i

/-- **What a library must satisfy** (the negation of each clause is one of the
    defects the property lists). -/
structure Accepts (st : St) (items : Items) : Prop where
  /-- (1) every name is a valid, non-keyword identifier -/
  names : NamesValid lex items
  /-- (2) modules: no two with one name in one scope, none under a name that is taken -/
  modules_fresh : Fresh (fun k => st.decls k) ((ops1 items).filterMap (DOp.key st.types))
  /-- (3) no Rust type is registered twice: not by two `type` items, not in the runtime already -/
  types_once : ((ops2 items).map (·.id)).Nodup ∧ ∀ t ∈ ops2 items, st.types t.id = none
  /-- (2) types: no two under one name, none under the name of a registered
      type, none under a taken name — except the name of a pre-declared primitive -/
  types_fresh : ((ops2 items).map (·.nm)).Nodup ∧ ∀ t ∈ ops2 items,
    st.typeNames t.nm = false ∧ ((S1 lex st items).decls t.nm = none ∨
      ∃ d, (S1 lex st items).decls t.nm = some d ∧ d.kind = .prim)
  /-- (4) every signature and impl block mentions registered types only; nothing is nested in an impl block -/
  functions_ok : ∀ o ∈ ops3 items, o ≠ .nested ∧ o.nameOk lex ∧ ∀ i ∈ o.mentions, Registered st items i
  /-- (2) functions and methods: pairwise different names per scope (a method's
      scope is the one its type owns), none taken by the runtime, a module or a type -/
  functions_fresh : Fresh (fun k => (S2 lex st items).decls k)
    ((ops3 items).filterMap (DOp.key (S2 lex st items).types))
  /-- (4) every constant has a registered type; impl blocks as before -/
  constants_ok : ∀ o ∈ ops4 items, o ≠ .nested ∧ ∀ i ∈ o.mentions, Registered st items i
  /-- (2) constants: pairwise different names per scope, none taken by anything declared before -/
  constants_fresh : Fresh (fun k => (S3 lex st items).decls k)
    ((ops4 items).filterMap (DOp.key (S3 lex st items).types))
  /-- every `use` path is non-empty and leads through things that own a scope -/
  uses_ok : ∀ p ∈ ops5 items, impOk (S4 lex st items) p
  /-- (2) no two `use` paths import one name, none is imported already -/
  uses_fresh : Fresh (fun k => st.imports [] k) ((entsL impEnt (S4 lex st items) (ops5 items)).map (·.1))

theorem ops1_mod (items : Items) : ∀ o ∈ ops1 items, ∃ s n, o = DOp.mod s n := by
  intro o ho
  obtain ⟨p, i, _, hoi⟩ := itemAt_of_mem_flat leafMod items [] o ho
  cases i <;> simp [leafMod] at hoi
  exact ⟨_, _, hoi⟩

theorem ops4_nameOk (items : Items) : ∀ o ∈ ops4 items, o.nameOk lex := by
  intro o ho
  obtain ⟨p, i, _, hoi⟩ := itemAt_of_mem_flat leafConst items [] o ho
  cases i with
  | constant n ty tag => simp [leafConst] at hoi; subst hoi; trivial
  | impl ty ch =>
    simp only [leafConst, List.mem_cons] at hoi
    rcases hoi with rfl | hoi
    · trivial
    · obtain ⟨c, _, hc⟩ := List.mem_flatMap.mp hoi
      cases c <;> simp [implConstOp] at hc <;> subst hc <;> trivial
  | _ => simp [leafConst] at hoi

theorem S4_imports (st : St) (items : Items) : (S4 lex st items).imports = st.imports := by
  have e4 : (S4 lex st items).imports = (S3 lex st items).imports := (setAll_insertDecl_types _ _).2.2
  have e3 : (S3 lex st items).imports = (S2 lex st items).imports := (setAll_insertDecl_types _ _).2.2
  have e1 : (S1 lex st items).imports = st.imports := (setAll_insertDecl_types _ _).2.2
  have e2 : (S2 lex st items).imports = (S1 lex st items).imports := by
    show ((ops2 items).foldl TOp.apply (S1 lex st items)).imports = _
    generalize S1 lex st items = s1
    induction ops2 items generalizing s1 with
    | nil => rfl
    | cons a l ih => simp only [List.foldl_cons]; rw [ih]; rw [TOp.apply_eq]; rfl
  rw [e4, e3, e2, e1]

/-- the clauses are exactly the demands of the five passes -/
theorem accepts_iff {st : St} (hw : WF st) (items : Items) :
    (NamesValid lex items ∧ Checks lex st items) ↔ Accepts lex st items := by
  have t1 : (S1 lex st items).types = st.types := (setAll_insertDecl_types _ st).1
  have n1 : (S1 lex st items).typeNames = st.typeNames := (setAll_insertDecl_types _ st).2.1
  have hmods : ∀ o ∈ ops1 items, o ≠ .nested ∧ o.nameOk lex ∧ ∀ i ∈ o.mentions, st.types i ≠ none := by
    intro o ho
    obtain ⟨s, n, rfl⟩ := ops1_mod items o ho
    simp [DOp.nameOk, DOp.mentions]
  constructor
  · rintro ⟨hn, c1, c2, c3, c4, c5⟩
    obtain ⟨_, w1⟩ := stageD lex hw c1
    obtain ⟨_, w2⟩ := stageT w1 c2
    obtain ⟨_, w3⟩ := stageD lex w2 c3
    have d1 := (checkD_iff lex hw _).mp c1
    have d3 := (checkD_iff lex w2 _).mp c3
    have d4 := (checkD_iff lex w3 _).mp c4
    have d5 := (checkI_iff _ _).mp c5
    refine ⟨hn, d1.2, ⟨c2.1, fun t ht => ?_⟩, ⟨c2.2.1, fun t ht => ?_⟩,
      fun o ho => ⟨(d3.1 o ho).1, (d3.1 o ho).2.1, fun i hi => (registered_iff lex st items i).mp ((d3.1 o ho).2.2 i hi)⟩,
      d3.2,
      fun o ho => ⟨(d4.1 o ho).1, fun i hi => (registered_iff3 lex st items i).mp ((d4.1 o ho).2.2 i hi)⟩,
      d4.2, d5.1, ?_⟩
    · have := (c2.2.2 t ht).1; rwa [t1] at this
    · have := (c2.2.2 t ht).2; rwa [n1] at this
    · have := d5.2; rwa [S4_imports] at this
  · intro a
    have c1 : CheckD lex st (ops1 items) := (checkD_iff lex hw _).mpr ⟨hmods, a.modules_fresh⟩
    obtain ⟨_, w1⟩ := stageD lex hw c1
    have c2 : CheckT (S1 lex st items) (ops2 items) :=
      ⟨a.types_once.1, a.types_fresh.1, fun t ht =>
        ⟨by rw [t1]; exact a.types_once.2 t ht, by rw [n1]; exact (a.types_fresh.2 t ht).1, (a.types_fresh.2 t ht).2⟩⟩
    obtain ⟨_, w2⟩ := stageT w1 c2
    have c3 : CheckD lex (S2 lex st items) (ops3 items) :=
      (checkD_iff lex w2 _).mpr ⟨fun o ho => ⟨(a.functions_ok o ho).1, (a.functions_ok o ho).2.1,
        fun i hi => (registered_iff lex st items i).mpr ((a.functions_ok o ho).2.2 i hi)⟩, a.functions_fresh⟩
    obtain ⟨_, w3⟩ := stageD lex w2 c3
    have c4 : CheckD lex (S3 lex st items) (ops4 items) :=
      (checkD_iff lex w3 _).mpr ⟨fun o ho => ⟨(a.constants_ok o ho).1, ops4_nameOk lex items o ho,
        fun i hi => (registered_iff3 lex st items i).mpr ((a.constants_ok o ho).2 i hi)⟩, a.constants_fresh⟩
    have c5 : CheckI (S4 lex st items) (ops5 items) :=
      (checkI_iff _ _).mpr ⟨a.uses_ok, by rw [S4_imports]; exact a.uses_fresh⟩
    exact ⟨a.names, c1, c2, c3, c4, c5⟩

end

end RotoV.Reg
