/-
  Lemmas/LayoutPath — C02: byte memory lemmas, projection paths (`PathOk`,
  `Indep`), totality and containment of `Lowerer::location` (`locate_ok`),
  disjointness of independent paths (`paths_disjoint`).
-/
import RotoV.Model.LayoutMem
import RotoV.Lemmas.Layout
namespace RotoV.Layout
open RotoV RotoV.LayoutStd RotoV.Gen.LayoutGen

theorem Mem.read_length (m : Mem) (a n : Nat) : (m.read a n).length = n := by simp [Mem.read]

theorem Mem.read_write_same (m : Mem) (a : Nat) (bs : List Nat) :
    (m.write a bs).read a bs.length = bs := by
  apply List.ext_getElem
  · simp [Mem.read]
  · intro i h1 h2
    simp [Mem.read, Mem.write] at *
    simp [h2]

theorem Mem.read_write_disjoint (m : Mem) (a b n : Nat) (bs : List Nat)
    (h : a + bs.length ≤ b ∨ b + n ≤ a) : (m.write a bs).read b n = m.read b n := by
  apply List.ext_getElem
  · simp [Mem.read]
  · intro i h1 h2
    simp [Mem.read] at h1 h2 ⊢
    simp only [Mem.write]
    split
    · omega
    · rfl

theorem Mem.write_outside (m : Mem) (a x : Nat) (bs : List Nat) (h : x < a ∨ a + bs.length ≤ x) :
    (m.write a bs) x = m x := by
  simp only [Mem.write]
  split
  · omega
  · rfl


/-! ### projection paths -/

/-- `p` is a projection path from a value of type `t` to a component of type
    `t'` that exists at run time: every field exists, every variant walked
    through is inhabited -/
inductive PathOk : Ty → List Proj → Ty → Prop
  | nil (t : Ty) : PathOk t [] t
  | field {fs : Tys} {i : Nat} {t1 t' : Ty} {p : List Proj} :
      fs.get? i = some t1 → PathOk t1 p t' → PathOk (.record fs) (.field i :: p) t'
  | variant {vs : Vars} {v i : Nat} {ts : Tys} {ls : List (Ty × Layout)} {t1 t' : Ty} {p : List Proj} :
      vs.get? v = some ts → collectLayouts ts = some ls → ts.get? i = some t1 → PathOk t1 p t' →
      PathOk (.enum vs) (.variantField v i :: p) t'

/-- two paths address independent components: they part at two different
    fields of one record, or at two different fields of the SAME variant
    (fields of different variants share storage by design) -/
inductive Indep : Ty → List Proj → List Proj → Prop
  | field_ne {fs : Tys} {i j : Nat} {p q : List Proj} : i ≠ j →
      Indep (.record fs) (.field i :: p) (.field j :: q)
  | variant_ne {vs : Vars} {v i j : Nat} {p q : List Proj} : i ≠ j →
      Indep (.enum vs) (.variantField v i :: p) (.variantField v j :: q)
  | field_step {fs : Tys} {i : Nat} {t1 : Ty} {p q : List Proj} : fs.get? i = some t1 → Indep t1 p q →
      Indep (.record fs) (.field i :: p) (.field i :: q)
  | variant_step {vs : Vars} {v i : Nat} {ts : Tys} {t1 : Ty} {p q : List Proj} :
      vs.get? v = some ts → ts.get? i = some t1 → Indep t1 p q →
      Indep (.enum vs) (.variantField v i :: p) (.variantField v i :: q)

theorem Tys.get?_lt : ∀ (ts : Tys) (i : Nat) (t : Ty), ts.get? i = some t → i < ts.length
  | .nil, i, t, h => by simp [Tys.get?] at h
  | .cons _ ts, 0, t, h => by simp [Tys.length]
  | .cons _ ts, i + 1, t, h => by
    simp [Tys.get?] at h
    have := Tys.get?_lt ts i t h
    simp [Tys.length]; omega

theorem getField_ge : ∀ (ts : Tys) (n : Nat) (b : LayoutBuilder) (o : Nat) (t : Ty),
    getField ts n b = .ok (o, t) → b.size ≤ o
  | .nil, n, b, o, t, h => by simp [getField] at h
  | .cons t' ts, n, b, o, t, h => by
    cases hl : layoutOf t' with
    | none => simp [getField, hl] at h
    | some l =>
      cases n with
      | zero =>
        simp [getField, hl] at h
        rw [← h.1]; exact nextMultipleOf_ge _ _
      | succ n =>
        simp [getField, hl] at h
        have := getField_ge ts n _ o t h
        simp at this
        have := nextMultipleOf_ge b.size l.align
        omega

/-- fields found by `get_field` at increasing indices lie in increasing,
    non-overlapping byte ranges -/
theorem getField_order : ∀ (ts : Tys) (i j : Nat) (b : LayoutBuilder) (o1 o2 : Nat) (t1 t2 : Ty) (l1 : Layout),
    getField ts i b = .ok (o1, t1) → getField ts j b = .ok (o2, t2) → i < j →
    layoutOf t1 = some l1 → o1 + l1.size ≤ o2
  | .nil, i, j, b, o1, o2, t1, t2, l1, h, _, _, _ => by simp [getField] at h
  | .cons t' ts, i, j, b, o1, o2, t1, t2, l1, h1, h2, hij, hl1 => by
    cases hl : layoutOf t' with
    | none => simp [getField, hl] at h1
    | some l =>
      cases j with
      | zero => omega
      | succ j =>
        simp [getField, hl] at h2
        cases i with
        | zero =>
          simp [getField, hl] at h1
          obtain ⟨a, b'⟩ := h1
          subst b'
          rw [hl] at hl1; cases hl1
          have := getField_ge ts j _ o2 t2 h2
          simp at this
          omega
        | succ i =>
          simp [getField, hl] at h1
          exact getField_order ts i j _ o1 o2 t1 t2 l1 h1 h2 (by omega) hl1

/-- one record level: an existing field of an inhabited record is found by
    `get_field`, has a layout and lies inside the record -/
theorem level_record (fs : Tys) (L : Layout) (h : layoutOf (.record fs) = some L) (i : Nat) (t1 : Ty)
    (hi : fs.get? i = some t1) :
    ∃ o1 l1, getField fs i LayoutBuilder.new = .ok (o1, t1) ∧ layoutOf t1 = some l1 ∧
      o1 + l1.size ≤ L.size := by
  obtain ⟨vs, hvs, _, hp⟩ := record_placed fs L h
  obtain ⟨off, t, a, b, c⟩ := getField_total fs i 0 _ vs hvs (Tys.get?_lt fs i t1 hi)
  rw [hi] at b; cases b
  obtain ⟨l, hl, _, hle, _⟩ := (placed_explicit hp).1 _ c
  exact ⟨off, l, a, hl, hle⟩

/-- one enum level: a field of an inhabited variant is found by the
    `VariantField` loop, lies after the tag and inside the enum -/
theorem level_variant (vs : Vars) (L : Layout) (h : layoutOf (.enum vs) = some L) (v i : Nat) (ts : Tys)
    (ls : List (Ty × Layout)) (t1 : Ty) (hv : vs.get? v = some ts) (hinh : collectLayouts ts = some ls)
    (hi : ts.get? i = some t1) :
    ∃ o1 l1, variantField vs v i = .ok (some (o1, t1)) ∧ getField ts i variantStart = .ok (o1, t1) ∧
      layoutOf t1 = some l1 ∧ 1 ≤ o1 ∧ o1 + l1.size ≤ L.size := by
  obtain ⟨ps, hps, _, hp⟩ := variant_placed vs L h v ts hv ls hinh
  obtain ⟨off, t, a, b, c⟩ := getField_total ts i 0 _ ps hps (Tys.get?_lt ts i t1 hi)
  rw [hi] at b; cases b
  obtain ⟨l, hl, hlo, hle, _⟩ := (placed_explicit hp).1 _ c
  refine ⟨off, l, ?_, a, hl, hlo, hle⟩
  have hvf := variantFieldLoop_of_getField ts i _ none (off, t1) a
  simp [variantField, hv, hvf]

/-- **location is total and stays inside**: on an inhabited type, for every
    path to a component that exists at run time, `Lowerer::location` neither
    panics nor reports "uninhabited"; the component has a layout and its byte
    range lies inside the range of the whole value -/
theorem locate_ok : ∀ (t : Ty) (p : List Proj) (t' : Ty), PathOk t p t' →
    ∀ (L : Layout), layoutOf t = some L → ∀ (o : Nat),
    ∃ off l', locate t p o = .ok (some (off, t')) ∧ layoutOf t' = some l' ∧ o ≤ off ∧
      off + l'.size ≤ o + L.size := by
  intro t p t' hp
  induction hp with
  | nil t => intro L hL o; exact ⟨o, L, by simp [locate], hL, Nat.le_refl _, Nat.le_refl _⟩
  | field hi _ ih =>
    intro L hL o
    obtain ⟨o1, l1, h1, h2, h3⟩ := level_record _ L hL _ _ hi
    obtain ⟨off, l', a, b, c, d⟩ := ih l1 h2 (o + o1)
    exact ⟨off, l', by simp [locate, h1, a], b, by omega, by omega⟩
  | variant hv hinh hi _ ih =>
    intro L hL o
    obtain ⟨o1, l1, h1, _, h2, _, h3⟩ := level_variant _ L hL _ _ _ _ _ hv hinh hi
    obtain ⟨off, l', a, b, c, d⟩ := ih l1 h2 (o + o1)
    exact ⟨off, l', by simp [locate, h1, a], b, by omega, by omega⟩

/-- **independent paths address disjoint byte ranges** -/
theorem paths_disjoint : ∀ (t : Ty) (p q : List Proj), Indep t p q →
    ∀ (tp tq : Ty), PathOk t p tp → PathOk t q tq → ∀ (L : Layout), layoutOf t = some L →
    ∀ (o op oq : Nat) (lp lq : Layout), locate t p o = .ok (some (op, tp)) → locate t q o = .ok (some (oq, tq)) →
    layoutOf tp = some lp → layoutOf tq = some lq → op + lp.size ≤ oq ∨ oq + lq.size ≤ op := by
  intro t p q hi
  induction hi with
  | @field_ne fs i j p q hne =>
    intro tp tq hp hq L hL o op oq lp lq h1 h2 h3 h4
    cases hp with
    | field hgi hpi =>
      cases hq with
      | field hgj hpj =>
        obtain ⟨oi, li, a1, a2, a3⟩ := level_record _ L hL _ _ hgi
        obtain ⟨oj, lj, b1, b2, b3⟩ := level_record _ L hL _ _ hgj
        obtain ⟨op', lp', c1, c2, c3, c4⟩ := locate_ok _ _ _ hpi li a2 (o + oi)
        obtain ⟨oq', lq', d1, d2, d3, d4⟩ := locate_ok _ _ _ hpj lj b2 (o + oj)
        simp [locate, a1, c1] at h1
        simp [locate, b1, d1] at h2
        subst h1; subst h2
        rw [c2] at h3; cases h3
        rw [d2] at h4; cases h4
        rcases Nat.lt_or_gt_of_ne hne with hlt | hgt
        · have := getField_order fs i j _ oi oj _ _ li a1 b1 hlt a2
          left; omega
        · have := getField_order fs j i _ oj oi _ _ lj b1 a1 hgt b2
          right; omega
  | @variant_ne vs v i j p q hne =>
    intro tp tq hp hq L hL o op oq lp lq h1 h2 h3 h4
    cases hp with
    | variant hv hinh hgi hpi =>
      cases hq with
      | variant hv' hinh' hgj hpj =>
        rw [hv] at hv'; cases hv'
        obtain ⟨oi, li, a1, a1', a2, _, a3⟩ := level_variant _ L hL _ _ _ _ _ hv hinh hgi
        obtain ⟨oj, lj, b1, b1', b2, _, b3⟩ := level_variant _ L hL _ _ _ _ _ hv hinh hgj
        obtain ⟨op', lp', c1, c2, c3, c4⟩ := locate_ok _ _ _ hpi li a2 (o + oi)
        obtain ⟨oq', lq', d1, d2, d3, d4⟩ := locate_ok _ _ _ hpj lj b2 (o + oj)
        simp [locate, a1, c1] at h1
        simp [locate, b1, d1] at h2
        subst h1; subst h2
        rw [c2] at h3; cases h3
        rw [d2] at h4; cases h4
        rcases Nat.lt_or_gt_of_ne hne with hlt | hgt
        · have := getField_order _ i j _ oi oj _ _ li a1' b1' hlt a2
          left; omega
        · have := getField_order _ j i _ oj oi _ _ lj b1' a1' hgt b2
          right; omega
  | @field_step fs i t1 p q hg _ ih =>
    intro tp tq hp hq L hL o op oq lp lq h1 h2 h3 h4
    cases hp with
    | field hgi hpi =>
      cases hq with
      | field hgj hpj =>
        rw [hg] at hgi hgj; cases hgi; cases hgj
        obtain ⟨oi, li, a1, a2, a3⟩ := level_record _ L hL _ _ hg
        simp [locate, a1] at h1 h2
        exact ih tp tq hpi hpj li a2 (o + oi) op oq lp lq h1 h2 h3 h4
  | @variant_step vs v i ts t1 p q hv hg _ ih =>
    intro tp tq hp hq L hL o op oq lp lq h1 h2 h3 h4
    cases hp with
    | variant hv1 hinh1 hgi hpi =>
      cases hq with
      | variant hv2 hinh2 hgj hpj =>
        rw [hv] at hv1 hv2; cases hv1; cases hv2
        rw [hg] at hgi hgj; cases hgi; cases hgj
        obtain ⟨oi, li, a1, _, a2, _, a3⟩ := level_variant _ L hL _ _ _ _ _ hv hinh1 hg
        simp [locate, a1] at h1 h2
        exact ih tp tq hpi hpj li a2 (o + oi) op oq lp lq h1 h2 h3 h4
