/-
  Import aliases (C13): an import makes the item available under the name of the
  last segment of its path.
-/
import RotoV.Model.Scope
import RotoV.Lemmas.Scope
import RotoV.Lemmas.ScopeFrame
import RotoV.Lemmas.ScopeBuild
import RotoV.Lemmas.ScopeImports
import RotoV.Lemmas.ScopeGetFunction

namespace RotoV.Scope

/-- every import is keyed by the identifier of its target -/
def KeysOk (g : Graph) : Prop :=
  ∀ (s : Nat) (sc : Scope), g.scopes[s]? = some sc → ∀ a t, (a, t) ∈ sc.imports → t.ident = a

theorem keysOk_new : KeysOk Graph.new := by
  intro s sc hs a t hm
  simp only [Graph.new] at hs
  cases s with
  | zero => simp at hs; subst hs; simp at hm
  | succ k => simp at hs

theorem keysOk_wrap {g : Graph} (h : KeysOk g) (p : Nat) (k : SKind) : KeysOk (g.wrap p k).1 := by
  intro s sc hs a t hm
  rcases wrap_cases p k hs with ⟨_, hold⟩ | ⟨_, hnew⟩
  · exact h s sc hold a t hm
  · subst hnew; simp at hm

theorem keysOk_insertDecl {g g' : Graph} (h : KeysOk g) {n : RName} {k : DKind} {sc : Option Nat}
    (hd : g.insertDecl n k sc = .ok g') : KeysOk g' := by
  intro s scp hs a t hm
  rw [(insertDecl_ok hd).2.1] at hs
  exact h s scp hs a t hm

theorem keysOk_insertImport {g g' : Graph} (h : KeysOk g) {s : Nat} {tgt : RName}
    (hi : g.insertImport s tgt = .ok g') : KeysOk g' := by
  unfold Graph.insertImport at hi
  cases hs : g.scopes[s]? with
  | none => rw [hs] at hi; cases hi
  | some sc =>
    rw [hs] at hi
    simp only at hi
    cases hl : sc.imports.lookup tgt.ident with
    | some _ => rw [hl] at hi; cases hi
    | none =>
      rw [hl] at hi
      simp only [Res.ok.injEq] at hi
      subst hi
      have hslt := getElem?_lt hs
      intro i sci hsi a t hm
      simp only at hsi
      rw [List.getElem?_set] at hsi
      by_cases hsi' : s = i
      · subst hsi'
        simp only [↓reduceIte, hslt, Option.some.injEq] at hsi
        subst hsi
        simp only [List.mem_append, List.mem_singleton, Prod.mk.injEq] at hm
        rcases hm with hm | ⟨rfl, rfl⟩
        · exact h s sc hs a t hm
        · rfl
      · simp only [hsi', ↓reduceIte] at hsi
        exact h i sci hsi a t hm

theorem pres_keysOk : Pres KeysOk where
  wrap := fun g p k q => keysOk_wrap q p k
  imp := fun g g' s t q h => keysOk_insertImport q h
  loc := fun g g' n t q h => keysOk_insertDecl q h

theorem keysOk_declareItems (s : Nat) :
    ∀ (items : List Item) (g g' : Graph), KeysOk g → declareItems s items g = .ok g' → KeysOk g' := by
  intro items
  induction items with
  | nil => intro g g' q h; simp only [declareItems, Res.ok.injEq] at h; rw [← h]; exact q
  | cons it rest ih =>
    intro g g' q h
    cases it with
    | fn n tag body =>
      unfold declareItems at h
      cases hd : g.insertDecl ⟨s, n⟩ (.fn tag) none with
      | panic x => rw [hd] at h; cases h
      | err e => rw [hd] at h; cases h
      | ok g1 => rw [hd] at h; exact ih g1 g' (keysOk_insertDecl q hd) h
    | const n tag =>
      unfold declareItems at h
      cases hd : g.insertDecl ⟨s, n⟩ (.const tag) none with
      | panic x => rw [hd] at h; cases h
      | err e => rw [hd] at h; cases h
      | ok g1 => rw [hd] at h; exact ih g1 g' (keysOk_insertDecl q hd) h
    | ty n tag =>
      unfold declareItems at h
      simp only at h
      cases hd : (g.wrap s (.type n)).1.insertDecl ⟨s, n⟩ (.ty tag) (some (g.wrap s (.type n)).2) with
      | panic x => rw [hd] at h; cases h
      | err e => rw [hd] at h; cases h
      | ok g1 => rw [hd] at h; exact ih g1 g' (keysOk_insertDecl (keysOk_wrap q s _) hd) h
    | imports ps => unfold declareItems at h; exact ih g g' q h
    | sigProbe id k p => unfold declareItems at h; exact ih g g' q h

theorem keysOk_declareModules :
    ∀ (ms : List Module) (mods : List Nat) (g g' : Graph) (mods' : List Nat), KeysOk g →
      declareModules ms mods g = .ok (g', mods') → KeysOk g' := by
  intro ms
  induction ms with
  | nil =>
    intro mods g g' mods' q h
    simp only [declareModules, Res.ok.injEq, Prod.mk.injEq] at h
    rw [← h.1]; exact q
  | cons m rest ih =>
    intro mods g g' mods' q h
    unfold declareModules at h
    simp only at h
    cases hp : parentScopeOf mods m.parent with
    | panic x => rw [hp] at h; cases h
    | err e => rw [hp] at h; cases h
    | ok pmv =>
      rw [hp] at h
      simp only at h
      cases hd : (g.wrap 0 (.module ⟨pmv.getD 0, m.ident⟩ pmv)).1.insertDecl ⟨pmv.getD 0, m.ident⟩ .module
          (some (g.wrap 0 (.module ⟨pmv.getD 0, m.ident⟩ pmv)).2) with
      | panic x => rw [hd] at h; cases h
      | err e => rw [hd] at h; cases h
      | ok g2 =>
        rw [hd] at h
        simp only at h
        cases hi : declareItems (g.wrap 0 (.module ⟨pmv.getD 0, m.ident⟩ pmv)).2 m.items g2 with
        | panic x => rw [hi] at h; cases h
        | err e => rw [hi] at h; cases h
        | ok g3 =>
          rw [hi] at h
          simp only at h
          exact ih _ g3 g' mods' (keysOk_declareItems _ _ _ _ (keysOk_insertDecl (keysOk_wrap q 0 _) hd) hi) h

/-- every graph the checker builds keys its imports by their targets' names -/
theorem keysOk_checkModuleTree {rt ms : List Module} {g0 : Graph} {m0 : List Nat} {out : Outcome}
    (h0 : declareModules rt [] Graph.new = .ok (g0, m0))
    (h : checkModuleTree g0 ms = .ok out) : KeysOk out.g := by
  have q0 := keysOk_declareModules rt [] Graph.new g0 m0 keysOk_new h0
  obtain ⟨g1, hd, hq⟩ := pres_phase2 pres_keysOk h
  exact hq (keysOk_declareModules ms [] g0 g1 out.mods q0 hd)

/-! ## what a lookup returns is named like what was looked up -/

theorem resolveName_ident {g : Graph} (hk : KeysOk g) :
    ∀ (fuel s : Nat) (x : Name) (r : Bool) (d : Decl),
      g.resolveName fuel s x r = .ok (some d) → d.name.ident = x := by
  intro fuel
  induction fuel with
  | zero => intro s x r d h; simp [Graph.resolveName] at h
  | succ n ih =>
    intro s x r d h
    unfold Graph.resolveName at h
    cases hd : g.decl ⟨s, x⟩ with
    | some d' =>
      rw [hd] at h
      simp only [Res.ok.injEq, Option.some.injEq] at h
      subst h
      rw [decl_name hd]
    | none =>
      rw [hd] at h
      simp only at h
      cases r with
      | false => simp at h
      | true =>
        simp only [Bool.not_true, Bool.false_eq_true, ↓reduceIte] at h
        cases hs : g.scopes[s]? with
        | none => rw [hs] at h; cases h
        | some sc =>
          rw [hs] at h
          simp only at h
          cases hl : sc.imports.lookup x with
          | some t =>
            rw [hl] at h
            simp only at h
            cases ht : g.decl t with
            | none => rw [ht] at h; cases h
            | some d' =>
              rw [ht] at h
              simp only [Res.ok.injEq, Option.some.injEq] at h
              subst h
              rw [decl_name ht]
              exact hk s sc hs x t (lookup_mem hl)
          | none =>
            rw [hl] at h
            simp only at h
            cases hp : sc.parent with
            | none => rw [hp] at h; simp at h
            | some p => rw [hp] at h; exact ih p x true d h

/-- the declaration `segments` returns is named like the last identifier it consumed -/
theorem segments_ident {g : Graph} (hk : KeysOk g) :
    ∀ (rest : List Name) (s : Nat) (id : Name) (rc : Bool) (r : PathRes),
      segments g s id rest rc = .ok r → r.decl.name.ident = r.ident ∧
        (r.rest = [] → r.ident = (id :: rest).getLast (by simp)) := by
  intro rest
  induction rest with
  | nil =>
    intro s id rc r h
    unfold segments at h
    by_cases hid : id = SUPER
    · simp [hid] at h
    · simp only [hid, ↓reduceIte] at h
      cases hr : g.resolve s id rc with
      | panic p => rw [hr] at h; cases h
      | err e => rw [hr] at h; cases h
      | ok o =>
        rw [hr] at h
        cases o with
        | none => cases h
        | some stub =>
          have hn := resolveName_ident hk _ _ _ _ _ hr
          simp only at h
          cases hsc : stub.scope with
          | none => rw [hsc] at h; cases h; exact ⟨hn, fun _ => rfl⟩
          | some s' => rw [hsc] at h; cases h; exact ⟨hn, fun _ => rfl⟩
  | cons i rest' ih =>
    intro s id rc r h
    unfold segments at h
    by_cases hid : id = SUPER
    · simp [hid] at h
    · simp only [hid, ↓reduceIte] at h
      cases hr : g.resolve s id rc with
      | panic p => rw [hr] at h; cases h
      | err e => rw [hr] at h; cases h
      | ok o =>
        rw [hr] at h
        cases o with
        | none => cases h
        | some stub =>
          have hn := resolveName_ident hk _ _ _ _ _ hr
          simp only at h
          cases hsc : stub.scope with
          | none =>
            rw [hsc] at h; cases h
            exact ⟨hn, fun hc => by cases hc⟩
          | some s' =>
            rw [hsc] at h
            obtain ⟨h1, h2⟩ := ih s' i false r h
            exact ⟨h1, fun hr0 => by rw [h2 hr0]; simp [List.getLast_cons]⟩

theorem lookup_append_new {α β} [BEq α] [LawfulBEq α] (l : List (α × β)) (k : α) (v : β)
    (h : l.lookup k = none) : (l ++ [(k, v)]).lookup k = some v := by
  induction l with
  | nil => simp [List.lookup]
  | cons hd tl ih =>
    obtain ⟨a, b⟩ := hd
    simp only [List.lookup] at h
    simp only [List.cons_append, List.lookup]
    cases hk : k == a with
    | true => rw [hk] at h; cases h
    | false => rw [hk] at h; exact ih h

/-- **An import makes the item available under the name of the last segment of
    its path** (paths without `super`): after `import a.b.c` the scope's import
    table maps `c` to the declaration the path resolves to. -/
theorem import_alias {g g' : Graph} (hk : KeysOk g) {s : Nat} {id : Name} {rest : List Name}
    (hid : id ≠ SUPER) (h : importOne g s (id :: rest) = .ok g') :
    ∃ (sc' : Scope) (r : PathRes),
      resolveModulePart g s (id :: rest) = .ok r ∧ r.rest = [] ∧
      g'.scopes[s]? = some sc' ∧
      sc'.imports.lookup ((id :: rest).getLast (by simp)) = some r.decl.name ∧
      g'.decl r.decl.name = some r.decl := by
  unfold importOne at h
  cases hr : resolveModulePart g s (id :: rest) with
  | panic x => rw [hr] at h; cases h
  | err e => rw [hr] at h; cases h
  | ok r =>
    rw [hr] at h
    simp only at h
    cases hrest : r.rest with
    | cons a b => rw [hrest] at h; cases h
    | nil =>
      rw [hrest] at h
      simp only at h
      have hsound := resolveModulePart_sound hr
      -- the returned declaration is named like the last segment
      have hseg : segments g (if (!false && id = PKG) then 0 else s) id rest (!false) = .ok r := by
        simp only [resolveModulePart] at hr
        unfold supers at hr
        simpa [hid] using hr
      obtain ⟨hn, hlast⟩ := segments_ident hk rest _ id _ r hseg
      have hkey : r.decl.name.ident = (id :: rest).getLast (by simp) := by rw [hn, hlast hrest]
      unfold Graph.insertImport at h
      cases hs : g.scopes[s]? with
      | none => rw [hs] at h; cases h
      | some sc =>
        rw [hs] at h
        simp only at h
        cases hl : sc.imports.lookup r.decl.name.ident with
        | some _ => rw [hl] at h; cases h
        | none =>
          rw [hl] at h
          simp only [Res.ok.injEq] at h
          subst h
          have hslt := getElem?_lt hs
          refine ⟨{ sc with imports := sc.imports ++ [(r.decl.name.ident, r.decl.name)] }, r, rfl, hrest,
            by simp [hslt], ?_, hsound⟩
          simp only
          rw [← hkey]
          exact lookup_append_new _ _ _ hl

end RotoV.Scope
