/-
  Lemmas for C07: `infer_sound` — the inference model (`Model/TcInfer.lean`)
  only accepts what the declarative checker accepts, by mutual induction over
  expressions, argument lists, statements and blocks of the core fragment, and
  for whole function items (`inferFn_sound`).
-/
import RotoV.Lemmas.TcInferSound
import RotoV.Lemmas.TcInferMethod

namespace RotoV.TcInfer
open RotoV.Typing RotoV.Unify RotoV.Gen

/-- a leaf: `unify(expected, m)` and nothing else -/
theorem post_leaf {env : Env} {cx : Cx} {g : MGamma} {e : Expr} {st st' : St} {m : MTy} {u : Unit}
    (hW : WTs st.store) (hcx : WTcx cx) (hm : WT m = true)
    (h1 : unifyM env cx.expected m st = .ok u st')
    (hsyn : ∀ σ : Val, GVal σ → Sat σ st'.store → ∀ gd, gammaInst gd (denG σ g) = true →
      ∃ t dd, synth env (denCx σ cx) gd e = .ok (t, dd) ∧ inst t (den σ m) = true) :
    PostE env cx g e st false st' := by
  obtain ⟨hW1, hE, heq⟩ := unifyM_ok h1 hW hcx.1 hm
  refine ⟨hW1, fun σ hσ hs => ⟨hE.2 σ hs, fun gd hgd => ?_⟩⟩
  obtain ⟨t, dd, h2, h3⟩ := hsyn σ hσ hs gd hgd
  exact ⟨t, dd, h2, by rw [heq σ hs]; exact h3, by simp⟩

theorem den_tVerdict (σ : Val) (a b : MTy) : den σ (tVerdict a b) = .verdict (den σ a) (den σ b) := by
  simp [tVerdict, den, denL, denName, nmVerdict]

theorem WT_tVerdict {a b : MTy} (ha : WT a = true) (hb : WT b = true) : WT (tVerdict a b) = true := by
  simp [tVerdict, WT, WTl, ha, hb, arity, nmVerdict, nmOption, nmList]

set_option maxHeartbeats 800000 in
mutual
theorem soundE (env : Env) (henv : EnvPlain env) (e : Expr) (hc : coreE e = true) :
    ∀ cx g st d st', WTs st.store → WTcx cx → WTg g → infer env cx g e st = .ok d st' →
      PostE env cx g e st d st' := by
  intro cx g st d st' hW hcx hg h
  cases e with
  | boolLit =>
    simp only [infer] at h
    obtain ⟨u, st1, h1, h2⟩ := bind_ok.mp h
    obtain ⟨rfl, rfl⟩ := pure_ok.mp h2
    exact post_leaf hW hcx WT_tBool h1 (fun σ _ _ gd _ => ⟨.bool, false, rfl, by rw [den_tBool]; rfl⟩)
  | strLit =>
    simp only [infer] at h
    obtain ⟨u, st1, h1, h2⟩ := bind_ok.mp h
    obtain ⟨rfl, rfl⟩ := pure_ok.mp h2
    exact post_leaf hW hcx WT_tString h1 (fun σ _ _ gd _ => ⟨.string, false, rfl, by rw [den_tString]; rfl⟩)
  | unitLit =>
    simp only [infer] at h
    obtain ⟨u, st1, h1, h2⟩ := bind_ok.mp h
    obtain ⟨rfl, rfl⟩ := pure_ok.mp h2
    exact post_leaf hW hcx (by rfl) h1 (fun σ _ _ gd _ => ⟨.unit, false, rfl, by simp [den, inst]⟩)
  | intLit suf =>
    cases suf with
    | some t =>
      simp only [infer] at h
      obtain ⟨u, st1, h1, h2⟩ := bind_ok.mp h
      obtain ⟨rfl, rfl⟩ := pure_ok.mp h2
      exact post_leaf hW hcx (WT_name0 _ (by have := ityNum_lt t; omega)) h1
        (fun σ _ _ gd _ => ⟨.int t, false, rfl, by rw [den_int]; simp [inst]⟩)
    | none =>
      simp only [infer] at h
      obtain ⟨t, st1, h1, h2⟩ := bind_ok.mp h
      obtain ⟨u, st2, h3, h4⟩ := bind_ok.mp h2
      obtain ⟨rfl, rfl⟩ := pure_ok.mp h4
      obtain ⟨rfl, hE1, hk⟩ := freshInt_ok h1
      have hp := post_leaf (g := g) (e := .intLit none) (hE1.1 hW) hcx (by rfl) h3 (fun σ _ hs gd _ => by
        refine ⟨.anyInt false, false, rfl, ?_⟩
        have hs1 := (unifyM_ok h3 (hE1.1 hW) hcx.1 WT_unit).2.1.2 σ hs
        have := hk σ hs1
        simp only [den]
        cases hv : σ st.store.length <;> simp [hv, isGInt] at this
        simp [inst])
      exact ⟨hp.1, fun σ hσ hs => ⟨hE1.2 σ (hp.2 σ hσ hs).1, (hp.2 σ hσ hs).2⟩⟩
  | floatLit suf =>
    cases suf with
    | some b =>
      cases b with
      | false =>
        simp only [infer] at h
        obtain ⟨u, st1, h1, h2⟩ := bind_ok.mp h
        obtain ⟨rfl, rfl⟩ := pure_ok.mp h2
        exact post_leaf hW hcx (WT_name0 _ (by decide)) h1
          (fun σ _ _ gd _ => ⟨.f32, false, rfl, by rw [den_f32]; rfl⟩)
      | true =>
        simp only [infer] at h
        obtain ⟨u, st1, h1, h2⟩ := bind_ok.mp h
        obtain ⟨rfl, rfl⟩ := pure_ok.mp h2
        exact post_leaf hW hcx (WT_name0 _ (by decide)) h1
          (fun σ _ _ gd _ => ⟨.f64, false, rfl, by rw [den_f64]; rfl⟩)
    | none =>
      simp only [infer] at h
      obtain ⟨t, st1, h1, h2⟩ := bind_ok.mp h
      obtain ⟨u, st2, h3, h4⟩ := bind_ok.mp h2
      obtain ⟨rfl, rfl⟩ := pure_ok.mp h4
      obtain ⟨rfl, hE1, hk⟩ := freshFloat_ok h1
      have hp := post_leaf (g := g) (e := .floatLit none) (hE1.1 hW) hcx (by rfl) h3 (fun σ _ hs gd _ => by
        refine ⟨.anyFloat, false, rfl, ?_⟩
        have hs1 := (unifyM_ok h3 (hE1.1 hW) hcx.1 WT_unit).2.1.2 σ hs
        have := hk σ hs1
        simp only [den]
        cases hv : σ st.store.length <;> simp [hv, isGFloat] at this <;> simp [inst])
      exact ⟨hp.1, fun σ hσ hs => ⟨hE1.2 σ (hp.2 σ hσ hs).1, (hp.2 σ hσ hs).2⟩⟩
  | var x =>
    simp only [infer] at h
    obtain ⟨p, st1, h1, h2⟩ := bind_ok.mp h
    unfold rootTy at h1
    simp only [Bool.false_eq_true, if_false] at h1
    cases hl : lookupM g x with
    | none => simp only [hl] at h1; exact (throw_ok.mp h1).elim
    | some t =>
      simp only [hl] at h1
      obtain ⟨rfl, rfl⟩ := pure_ok.mp h1
      simp only at h2
      obtain ⟨u, st2, h3, h4⟩ := bind_ok.mp h2
      obtain ⟨rfl, rfl⟩ := pure_ok.mp h4
      refine post_leaf hW hcx (lookupM_WT hg hl) h3 (fun σ _ _ gd hgd => ?_)
      obtain ⟨tf, hf1, hf2, _⟩ := gamma_lookup hgd x (den σ t) (by rw [lookup_denG, hl]; rfl)
      exact ⟨tf, false, by simp only [synth, hf1]; rfl, hf2⟩
  | not e =>
    simp only [coreE] at hc
    simp only [infer] at h
    obtain ⟨u, st1, h1, h2⟩ := bind_ok.mp h
    obtain ⟨hW1, hE1, heq1⟩ := unifyM_ok h1 hW hcx.1 WT_tBool
    obtain ⟨hW2, hpost⟩ := soundE env henv e hc (cx.withTy tBool) g st1 d st' hW1 (WTcx_with hcx WT_tBool) hg h2
    refine ⟨hW2, fun σ hσ hs => ?_⟩
    obtain ⟨hs1, hsyn⟩ := hpost σ hσ hs
    refine ⟨hE1.2 σ hs1, fun gd hgd => ?_⟩
    obtain ⟨t, dd, h3, h4, h5⟩ := hsyn gd hgd
    have h3' : synth env (denCx σ cx) gd e = .ok (t, dd) := h3
    have h4' : inst t .bool = true := by simpa [Cx.withTy, den_tBool] using h4
    refine ⟨.bool, dd, ?_, ?_, h5⟩
    · simp only [synth, h3', bind, Except.bind, expect, inst_bool t h4', if_true, pure, Except.pure]
    · rw [heq1 σ hs1, den_tBool]; rfl
  | block b =>
    simp only [coreE] at hc
    simp only [infer] at h
    obtain ⟨hW1, hpost⟩ := soundB env henv b hc cx ([] :: g) st d st' hW hcx (WTg_push hg) h
    refine ⟨hW1, fun σ hσ hs => ?_⟩
    obtain ⟨hs0, hsyn⟩ := hpost σ hσ hs
    refine ⟨hs0, fun gd hgd => ?_⟩
    obtain ⟨t, dd, h1, h2, h3⟩ := hsyn ([] :: gd) (by rw [denG_push]; exact gamma_push hgd)
    exact ⟨t, dd, by simp only [synth]; exact h1, h2, h3⟩
  | ite c t eo =>
    cases eo with
    | some el =>
      simp only [coreE, Bool.and_eq_true] at hc
      obtain ⟨⟨hcc, hct⟩, hcel⟩ := hc
      simp only [infer] at h
      obtain ⟨dc, st1, h1, h2⟩ := bind_ok.mp h
      obtain ⟨dt, st2, h3, h4⟩ := bind_ok.mp h2
      obtain ⟨de, st3, h5, h6⟩ := bind_ok.mp h4
      obtain ⟨rfl, rfl⟩ := pure_ok.mp h6
      obtain ⟨hW1, hp1⟩ := soundE env henv c hcc (cx.withTy tBool) g st dc st1 hW (WTcx_with hcx WT_tBool) hg h1
      obtain ⟨hW2, hp2⟩ := soundB env henv t hct cx ([] :: g) st1 dt st2 hW1 hcx (WTg_push hg) h3
      obtain ⟨hW3, hp3⟩ := soundB env henv el hcel cx ([] :: g) st2 de st3 hW2 hcx (WTg_push hg) h5
      refine ⟨hW3, fun σ hσ hs => ?_⟩
      obtain ⟨hs2, hsyn3⟩ := hp3 σ hσ hs
      obtain ⟨hs1, hsyn2⟩ := hp2 σ hσ hs2
      obtain ⟨hs0, hsyn1⟩ := hp1 σ hσ hs1
      refine ⟨hs0, fun gd hgd => ?_⟩
      obtain ⟨tc, ddc, a1, a2, _⟩ := hsyn1 gd hgd
      have a1' : synth env (denCx σ cx) gd c = .ok (tc, ddc) := a1
      have a2' : inst tc .bool = true := by simpa [Cx.withTy, den_tBool] using a2
      have hpush : gammaInst ([] :: gd) (denG σ ([] :: g)) = true := by rw [denG_push]; exact gamma_push hgd
      obtain ⟨tt, ddt, b1, b2, b3⟩ := hsyn2 ([] :: gd) hpush
      obtain ⟨te, dde, c1, c2, c3⟩ := hsyn3 ([] :: gd) hpush
      obtain ⟨hcm, him⟩ := inst_compat_meet _ tt te b2 c2
      refine ⟨meet tt te, ddc || (ddt && dde), ?_, him, ?_⟩
      · simp only [synth, a1', expect_ok' (inst_bool tc a2'), b1, c1, hcm, bind, Except.bind, pure, Except.pure, if_true]
      · intro hd
        simp only [Bool.and_eq_true] at hd
        simp [b3 hd.1, c3 hd.2]
    | none =>
      simp only [coreE, Bool.and_eq_true] at hc
      obtain ⟨hcc, hct⟩ := hc
      simp only [infer] at h
      obtain ⟨dc, st1, h1, h2⟩ := bind_ok.mp h
      obtain ⟨u, st2, h3, h4⟩ := bind_ok.mp h2
      obtain ⟨dt, st3, h5, h6⟩ := bind_ok.mp h4
      obtain ⟨rfl, rfl⟩ := pure_ok.mp h6
      obtain ⟨hW1, hp1⟩ := soundE env henv c hcc (cx.withTy tBool) g st dc st1 hW (WTcx_with hcx WT_tBool) hg h1
      obtain ⟨hW2, hE2, heq2⟩ := unifyM_ok h3 hW1 hcx.1 WT_unit
      obtain ⟨hW3, hp3⟩ := soundB env henv t hct (cx.withTy .unit) ([] :: g) st2 dt st3 hW2 (WTcx_with hcx WT_unit)
        (WTg_push hg) h5
      refine ⟨hW3, fun σ hσ hs => ?_⟩
      obtain ⟨hs2, hsyn3⟩ := hp3 σ hσ hs
      have hs1 := hE2.2 σ hs2
      obtain ⟨hs0, hsyn1⟩ := hp1 σ hσ hs1
      refine ⟨hs0, fun gd hgd => ?_⟩
      obtain ⟨tc, ddc, a1, a2, _⟩ := hsyn1 gd hgd
      have a1' : synth env (denCx σ cx) gd c = .ok (tc, ddc) := a1
      have a2' : inst tc .bool = true := by simpa [Cx.withTy, den_tBool] using a2
      have hpush : gammaInst ([] :: gd) (denG σ ([] :: g)) = true := by rw [denG_push]; exact gamma_push hgd
      obtain ⟨tt, ddt, b1, b2, _⟩ := hsyn3 ([] :: gd) hpush
      have b1' : synthBlock env (denCx σ cx) ([] :: gd) t = .ok (tt, ddt) := b1
      have b2' : inst tt .unit = true := by simpa [Cx.withTy, den] using b2
      refine ⟨.unit, ddc, ?_, by rw [heq2 σ hs2]; rfl, by simp⟩
      simp only [synth, a1', expect_ok' (inst_bool tc a2'), b1', expect_ok' (inst_compat tt .unit rfl b2'), bind,
        Except.bind, pure, Except.pure]
  | «while» c b =>
    simp only [coreE, Bool.and_eq_true] at hc
    obtain ⟨hcc, hcb⟩ := hc
    simp only [infer] at h
    obtain ⟨dc, st1, h1, h2⟩ := bind_ok.mp h
    obtain ⟨db, st2, h3, h4⟩ := bind_ok.mp h2
    obtain ⟨u, st3, h5, h6⟩ := bind_ok.mp h4
    obtain ⟨rfl, rfl⟩ := pure_ok.mp h6
    obtain ⟨hW1, hp1⟩ := soundE env henv c hcc (cx.withTy tBool) g st dc st1 hW (WTcx_with hcx WT_tBool) hg h1
    obtain ⟨hW2, hp2⟩ := soundB env henv b hcb cx ([] :: g) st1 db st2 hW1 hcx (WTg_push hg) h3
    obtain ⟨hW3, hE3, heq3⟩ := unifyM_ok h5 hW2 hcx.1 WT_unit
    refine ⟨hW3, fun σ hσ hs => ?_⟩
    have hs2 := hE3.2 σ hs
    obtain ⟨hs1, hsyn2⟩ := hp2 σ hσ hs2
    obtain ⟨hs0, hsyn1⟩ := hp1 σ hσ hs1
    refine ⟨hs0, fun gd hgd => ?_⟩
    obtain ⟨tc, ddc, a1, a2, a3⟩ := hsyn1 gd hgd
    have a1' : synth env (denCx σ cx) gd c = .ok (tc, ddc) := a1
    have a2' : inst tc .bool = true := by simpa [Cx.withTy, den_tBool] using a2
    have hpush : gammaInst ([] :: gd) (denG σ ([] :: g)) = true := by rw [denG_push]; exact gamma_push hgd
    obtain ⟨tb, ddb, b1, b2, _⟩ := hsyn2 ([] :: gd) hpush
    have b2' : inst tb .unit = true := by
      have := heq3 σ hs; simp only [den] at this; rw [this] at b2; exact b2
    refine ⟨.unit, ddc, ?_, by rw [heq3 σ hs]; rfl, a3⟩
    simp only [synth, a1', expect_ok' (inst_bool tc a2'), b1, expect_ok' (inst_compat tb .unit rfl b2'), bind,
      Except.bind, pure, Except.pure]
  | call f args =>
    simp only [coreE] at hc
    simp only [infer] at h
    cases hf : env.fns.lookup f with
    | none => simp only [hf] at h; exact (throw_ok.mp h).elim
    | some sig =>
      simp only [hf] at h
      obtain ⟨d1, st1, h1, h2⟩ := bind_ok.mp h
      obtain ⟨u, st2, h3, h4⟩ := bind_ok.mp h2
      obtain ⟨rfl, rfl⟩ := pure_ok.mp h4
      unfold arityThen at h1
      rw [toMList_length] at h1
      by_cases hlen : (args.length != sig.params.length) = true
      · simp only [hlen, if_true] at h1; exact (throw_ok.mp h1).elim
      · simp only [hlen, Bool.false_eq_true, if_false] at h1
        obtain ⟨hpl, hpr⟩ := henv.1 f sig hf
        obtain ⟨hW1, hp1⟩ := soundArgs env henv args hc sig.params hpl cx g st d1 st1 hW hcx hg h1
        have hWr : WT (toM sig.ret) = true := (den_toM (fun _ => .unit) sig.ret hpr).2.1
        obtain ⟨hW2, hE2, heq2⟩ := unifyM_ok h3 hW1 hcx.1 hWr
        refine ⟨hW2, fun σ hσ hs => ?_⟩
        have hs1 := hE2.2 σ hs
        obtain ⟨hs0, hsyn⟩ := hp1 σ hσ hs1
        refine ⟨hs0, fun gd hgd => ?_⟩
        obtain ⟨dd, a1, a2⟩ := hsyn gd hgd
        obtain ⟨hdr, _, hgr⟩ := den_toM σ sig.ret hpr
        refine ⟨sig.ret, dd, ?_, by rw [heq2 σ hs, hdr]; exact inst_self _ hgr, a2⟩
        simp only [synth, hf, hlen, a1, bind, Except.bind, pure, Except.pure, Bool.false_eq_true, if_false]
  | ret kind eo =>
    simp only [infer] at h
    cases hr : cx.ret with
    | none => simp only [hr] at h; exact (throw_ok.mp h).elim
    | some ret =>
      simp only [hr] at h
      have hWret : WT ret = true := hcx.2 ret hr
      obtain ⟨u, st1, h1, h2⟩ := bind_ok.mp h
      have := unifyM_never h1
      subst this
      obtain ⟨want, st2, h3, h4⟩ := bind_ok.mp h2
      have hwant : WTs st2.store ∧ WT want = true ∧ (∀ σ : Val, Sat σ st2.store → Sat σ st.store ∧
          ((kind = .ret ∧ den σ ret = den σ want) ∨ (kind = .accept ∧ ∃ r, den σ ret = .verdict (den σ want) r) ∨
           (kind = .reject ∧ ∃ a, den σ ret = .verdict a (den σ want)))) := by
        cases kind with
        | ret =>
          obtain ⟨rfl, rfl⟩ := pure_ok.mp h3
          exact ⟨hW, hWret, fun σ hs => ⟨hs, Or.inl ⟨rfl, rfl⟩⟩⟩
        | accept =>
          simp only at h3
          obtain ⟨a, s1, b1, b2⟩ := bind_ok.mp h3
          obtain ⟨b, s2, b3, b4⟩ := bind_ok.mp b2
          obtain ⟨u2, s3, b5, b6⟩ := bind_ok.mp b4
          obtain ⟨rfl, hres⟩ := resolveM_ok b6
          obtain ⟨rfl, hE1⟩ := freshVar_ok b1
          obtain ⟨rfl, hE2⟩ := freshVar_ok b3
          obtain ⟨hW3, hE3, heq3⟩ := unifyM_ok b5 (hE2.1 (hE1.1 hW)) hWret (WT_tVerdict (WT_var _) (WT_var _))
          refine ⟨hW3, resolve_WT hW3 (a := .var st.store.length) (WT_var _) hres, fun σ hs => ?_⟩
          refine ⟨hE1.2 σ (hE2.2 σ (hE3.2 σ hs)), Or.inr (Or.inl ⟨rfl, den σ (MTy.var s1.store.length), ?_⟩)⟩
          rw [heq3 σ hs, den_tVerdict, resolve_den hs hres]
        | reject =>
          simp only at h3
          obtain ⟨a, s1, b1, b2⟩ := bind_ok.mp h3
          obtain ⟨b, s2, b3, b4⟩ := bind_ok.mp b2
          obtain ⟨u2, s3, b5, b6⟩ := bind_ok.mp b4
          obtain ⟨rfl, hres⟩ := resolveM_ok b6
          obtain ⟨rfl, hE1⟩ := freshVar_ok b1
          obtain ⟨rfl, hE2⟩ := freshVar_ok b3
          obtain ⟨hW3, hE3, heq3⟩ := unifyM_ok b5 (hE2.1 (hE1.1 hW)) hWret (WT_tVerdict (WT_var _) (WT_var _))
          refine ⟨hW3, resolve_WT hW3 (a := .var s1.store.length) (WT_var _) hres, fun σ hs => ?_⟩
          refine ⟨hE1.2 σ (hE2.2 σ (hE3.2 σ hs)), Or.inr (Or.inr ⟨rfl, den σ (MTy.var st.store.length), ?_⟩)⟩
          rw [heq3 σ hs, den_tVerdict, resolve_den hs hres]
      obtain ⟨hW2, hWw, hw⟩ := hwant
      have hctx : ∀ σ : Val, (denCx σ cx).retTy = some (den σ ret) := by intro σ; simp [denCx, hr]
      cases eo with
      | none =>
        obtain ⟨u3, st3, h5, h6⟩ := bind_ok.mp h4
        obtain ⟨rfl, rfl⟩ := pure_ok.mp h6
        obtain ⟨hW3, hE3, heq3⟩ := unifyM_ok h5 hW2 hWw WT_unit
        refine ⟨hW3, fun σ hσ hs => ?_⟩
        have hs2 := hE3.2 σ hs
        obtain ⟨hs0, hm⟩ := hw σ hs2
        refine ⟨hs0, fun gd hgd => ⟨.never, true, ?_, rfl, fun _ => rfl⟩⟩
        have hu : den σ want = .unit := by rw [heq3 σ hs]; rfl
        rw [hu] at hm
        have hex : expect "returned" Ty.unit Ty.unit = .ok () := expect_ok' rfl
        rcases hm with ⟨rfl, hm⟩ | ⟨rfl, r, hm⟩ | ⟨rfl, a, hm⟩ <;>
          simp only [synth, hctx σ, hm, hex, bind, Except.bind, pure, Except.pure]
      | some e =>
        simp only [coreE] at hc
        obtain ⟨d3, st3, h5, h6⟩ := bind_ok.mp h4
        obtain ⟨rfl, rfl⟩ := pure_ok.mp h6
        obtain ⟨hW3, hp3⟩ := soundE env henv e hc (cx.withTy want) g st2 d3 st3 hW2 (WTcx_with hcx hWw) hg h5
        refine ⟨hW3, fun σ hσ hs => ?_⟩
        obtain ⟨hs2, hsyn⟩ := hp3 σ hσ hs
        obtain ⟨hs0, hm⟩ := hw σ hs2
        refine ⟨hs0, fun gd hgd => ?_⟩
        obtain ⟨te, dde, a1, a2, _⟩ := hsyn gd hgd
        have a1' : synth env (denCx σ cx) gd e = .ok (te, dde) := a1
        have a2' : inst te (den σ want) = true := a2
        refine ⟨.never, true, ?_, rfl, fun _ => rfl⟩
        have hex : expect "returned" te (den σ want) = .ok () :=
          expect_ok' (inst_compat te _ (den_ground hσ want hWw) a2')
        rcases hm with ⟨rfl, hm⟩ | ⟨rfl, r, hm⟩ | ⟨rfl, a, hm⟩ <;>
          simp only [synth, hctx σ, hm, a1', hex, bind, Except.bind, pure, Except.pure]
  | neg e =>
    simp only [coreE] at hc
    exact neg_sound (fun cx g st d st' a b c h' => soundE env henv e hc cx g st d st' a b c h') hW hcx hg h
  | bin op l r =>
    simp only [coreE, Bool.and_eq_true, bne_iff_ne, ne_eq] at hc
    obtain ⟨⟨hop, hcl⟩, hcr⟩ := hc
    simp only [infer] at h
    exact binopWith_sound hop
      (fun τ st d st' hW' _ hτ h' => soundE env henv l hcl (cx.withTy τ) g st d st' hW' (WTcx_with hcx hτ) hg h')
      (fun τ st d st' hW' hτ h' => soundE env henv r hcr (cx.withTy τ) g st d st' hW' (WTcx_with hcx hτ) hg h')
      hW hcx h
  | const c => exact const_sound henv hW hcx h
  | none => exact none_sound hW hcx h
  | some e =>
    simp only [coreE] at hc
    exact some_sound (fun cx g st d st' a b c h' => soundE env henv e hc cx g st d st' a b c h') hW hcx hg h
  | «try» e =>
    simp only [coreE] at hc
    exact try_sound (fun cx g st d st' a b c h' => soundE env henv e hc cx g st d st' a b c h') hW hcx hg h
  | «for» x e b =>
    simp only [coreE, Bool.and_eq_true] at hc
    exact for_sound (fun cx g st d st' a b' c h' => soundE env henv e hc.1 cx g st d st' a b' c h')
      (fun cx g st d st' a b' c h' => soundB env henv b hc.2 cx g st d st' a b' c h') hW hcx hg h
  | listLit es =>
    simp only [coreE] at hc
    exact listLit_sound (fun cx g st d st' a b c h' => soundList env henv es hc cx g st d st' a b c h') hW hcx hg h
  | ctor ty k args =>
    simp only [coreE] at hc
    exact ctor_sound henv (fun ps hps cx g st d st' a b c h' => soundArgs env henv args hc ps hps cx g st d st' a b c h')
      hW hcx hg h
  | record ty fields =>
    simp only [coreE] at hc
    exact record_sound henv
      (fun decl hd cx g st d st' a b c h' => soundFields env henv fields hc decl hd cx g st d st' a b c h') hW hcx hg h
  | field e f =>
    simp only [coreE] at hc
    exact field_sound henv (fun cx g st d st' a b c h' => soundE env henv e hc cx g st d st' a b c h') hW hcx hg h
  | assign ic x p e =>
    simp only [coreE] at hc
    exact assign_sound henv (fun cx g st d st' a b c h' => soundE env henv e hc cx g st d st' a b c h') hW hcx hg h
  | «match» e arms =>
    simp only [coreE, Bool.and_eq_true, Bool.not_eq_true'] at hc
    obtain ⟨⟨hce, hne⟩, hca⟩ := hc
    simp only [infer] at h
    obtain ⟨v, s1, h1, h2⟩ := bind_ok.mp h
    obtain ⟨rfl, hE1⟩ := freshVar_ok h1
    obtain ⟨d1, s2, h3, h4⟩ := bind_ok.mp h2
    obtain ⟨t, s3, h5, h6⟩ := bind_ok.mp h4
    obtain ⟨rfl, hres⟩ := resolveM_ok h5
    obtain ⟨hW2, hp2⟩ := soundE env henv e hce (cx.withTy (.var st.store.length)) g s1 d1 s2 (hE1.1 hW)
      (WTcx_with hcx (WT_var _)) hg h3
    have hWt : WT t = true := resolve_WT hW2 (WT_var _) hres
    by_cases hdiv : (d1 && !arms.isEmpty) = true
    · simp only [hdiv, if_true] at h6; exact (throw_ok.mp h6).elim
    · simp only [hdiv, Bool.false_eq_true, if_false] at h6
      cases hv : variantsM env t with
      | none => simp only [hv] at h6; exact (throw_ok.mp h6).elim
      | some vs =>
        simp only [hv] at h6
        obtain ⟨stF, s4, h7, h8⟩ := bind_ok.mp h6
        have hvs : WTvs vs := variantsM_WT henv hWt hv
        obtain ⟨⟨hW4, hp4⟩, _⟩ := soundArms env henv arms hca cx g vs ⟨[], false, true⟩ s2 stF s4 hW2 hcx hg hvs h7
        have hbook := inferArms_book env cx g vs arms ⟨[], false, true⟩ s2 stF s4 h7
        by_cases hex : (!stF.dflt && decide (stF.used.length < vs.length)) = true
        · simp only [hex, if_true] at h8; exact (throw_ok.mp h8).elim
        · simp only [hex, Bool.false_eq_true, if_false] at h8
          obtain ⟨rfl, rfl⟩ := pure_ok.mp h8
          refine ⟨hW4, fun σ hσ hs => ?_⟩
          obtain ⟨hs2, hsyn4⟩ := hp4 σ hσ hs
          obtain ⟨hs1, hsyn2⟩ := hp2 σ hσ hs2
          refine ⟨hE1.2 σ hs1, fun gd hgd => ?_⟩
          obtain ⟨te, dde, a1, a2, a3⟩ := hsyn2 gd hgd
          have a1' : synth env (denCx σ cx) gd e = .ok (te, dde) := a1
          have hden : den σ t = den σ (.var st.store.length) := resolve_den hs2 hres
          have a2' : inst te (den σ t) = true := by rw [hden]; exact a2
          have hheads := heads_ok σ vs (armHeads arms) stF.used stF.dflt hbook hex
          have hnee : (!arms.isEmpty) = true := by simp [hne]
          rcases variantsOf_rel henv σ hσ hWt hv te a2' with hunk | ⟨vsd, hvd, hvi, hk⟩
          · -- nothing is known about the examinee
            obtain ⟨ts, dda, b1, b2, b3⟩ := hsyn4 gd none hgd rfl
            obtain ⟨tr, c1, c2⟩ := foldCompat_inst "branches" (den σ cx.expected) ts .unknown b2 rfl
            refine ⟨tr, dde || (!arms.isEmpty && dda), ?_, c2, ?_⟩
            · exact synth_match_unknown a1' hunk b1 c1
            · intro hd; simp [hnee, b3 hd]
          · obtain ⟨ts, dda, b1, b2, b3⟩ := hsyn4 gd (some vsd) hgd hvi
            obtain ⟨tr, c1, c2⟩ := foldCompat_inst "branches" (den σ cx.expected) ts .unknown b2 rfl
            have hmh : matchHeads vsd (armHeads arms) [] false = none := by
              rw [matchHeads_rel vsd (denVs σ vs) hvi]; exact hheads
            refine ⟨tr, dde || (!arms.isEmpty && dda), ?_, c2, ?_⟩
            · exact synth_match_known a1' hvd hmh b1 c1
            · intro hd; simp [hnee, b3 hd]
  | cassign op ic x p e =>
    simp only [coreE, Bool.and_eq_true, bne_iff_ne, ne_eq] at hc
    exact cassign_sound henv hc.1 (fun cx g st d st' a b c h' => soundE env henv e hc.2 cx g st d st' a b c h') hW hcx hg h
  | mcall e m args =>
    simp only [coreE, Bool.and_eq_true] at hc
    exact mcall_sound henv (fun cx g st d st' a b c h' => soundE env henv e hc.1 cx g st d st' a b c h')
      (soundAll env henv args hc.2) hW hcx hg h
  | fstr _ => simp [coreE] at hc
termination_by sizeOf e

/-- every expression of a list, one by one (the arguments of a method call are
    checked against types that are not written types) -/
theorem soundAll (env : Env) (henv : EnvPlain env) (es : List Expr) (hc : coreL es = true) :
    ∀ a ∈ es, IH env a := by
  intro a ha
  cases es with
  | nil => cases ha
  | cons e es =>
    simp only [coreL, Bool.and_eq_true] at hc
    rcases List.mem_cons.mp ha with rfl | h'
    · exact fun cx g st d st' x y z h => soundE env henv _ hc.1 cx g st d st' x y z h
    · exact soundAll env henv es hc.2 a h'
termination_by sizeOf es

theorem soundList (env : Env) (henv : EnvPlain env) (es : List Expr) (hc : coreL es = true) :
    ∀ cx g st d st', WTs st.store → WTcx cx → WTg g → inferList env cx g es st = .ok d st' →
      PostList env cx g es st d st' := by
  intro cx g st d st' hW hcx hg h
  cases es with
  | nil =>
    simp only [inferList] at h
    obtain ⟨rfl, rfl⟩ := pure_ok.mp h
    exact ⟨hW, fun σ _ hs => ⟨hs, fun gd _ => ⟨[], false, by simp [synthList, pure, Except.pure], by simp, by simp⟩⟩⟩
  | cons e es =>
    simp only [coreL, Bool.and_eq_true] at hc
    simp only [inferList] at h
    obtain ⟨d1, st1, h1, h2⟩ := bind_ok.mp h
    obtain ⟨d2, st2, h3, h4⟩ := bind_ok.mp h2
    obtain ⟨rfl, rfl⟩ := pure_ok.mp h4
    obtain ⟨hW1, hp1⟩ := soundE env henv e hc.1 cx g st d1 st1 hW hcx hg h1
    obtain ⟨hW2, hp2⟩ := soundList env henv es hc.2 cx g st1 d2 st2 hW1 hcx hg h3
    refine ⟨hW2, fun σ hσ hs => ?_⟩
    obtain ⟨hs1, hsyn2⟩ := hp2 σ hσ hs
    obtain ⟨hs0, hsyn1⟩ := hp1 σ hσ hs1
    refine ⟨hs0, fun gd hgd => ?_⟩
    obtain ⟨t, dd1, a1, a2, a3⟩ := hsyn1 gd hgd
    obtain ⟨ts, dd2, b1, b2, b3⟩ := hsyn2 gd hgd
    refine ⟨t :: ts, dd1 || dd2, by simp only [synthList, a1, b1, bind, Except.bind, pure, Except.pure], ?_, ?_⟩
    · intro t' ht'
      cases ht' with
      | head => exact a2
      | tail _ h' => exact b2 t' h'
    · intro hd
      simp only [Bool.or_eq_true] at hd ⊢
      rcases hd with hd | hd
      · exact Or.inl (a3 hd)
      · exact Or.inr (b3 hd)
termination_by sizeOf es

theorem soundArms (env : Env) (henv : EnvPlain env) (arms : List Arm) (hc : coreA arms = true) :
    ∀ cx g vs (st0 : MSt) st (stF : MSt) st', WTs st.store → WTcx cx → WTg g → WTvs vs →
      inferArms env cx g vs arms st0 st = .ok stF st' →
      PostArms env cx g vs arms st stF st' ∧ (stF.allDiverge = true → st0.allDiverge = true) := by
  intro cx g vs st0 st stF st' hW hcx hg hvs h
  cases arms with
  | nil =>
    simp only [inferArms] at h
    obtain ⟨rfl, rfl⟩ := pure_ok.mp h
    exact ⟨⟨hW, fun σ _ hs => ⟨hs, fun gd vsd _ _ => ⟨[], true, by simp [synthArms, pure, Except.pure], by simp, by simp⟩⟩⟩,
      id⟩
  | cons a rest =>
    cases a with
    | mk pat guard body =>
    have hcg : ∀ gd0, guard = some gd0 → coreE gd0 = true := by
      intro gd0 hg0; subst hg0; simp only [coreA, Bool.and_eq_true] at hc; exact hc.1.1
    have hcb : coreB body = true := by
      cases guard <;> simp only [coreA, Bool.and_eq_true] at hc
      · exact hc.1
      · exact hc.1.2
    have hcr : coreA rest = true := by
      cases guard <;> simp only [coreA, Bool.and_eq_true] at hc <;> exact hc.2
    have ihg : ∀ gd0, guard = some gd0 → IH env gd0 := fun gd0 hg0 cx g st d st' a b c h' =>
      soundE env henv gd0 (hcg gd0 hg0) cx g st d st' a b c h'
    rw [inferArms.eq_def] at h
    simp only at h
    by_cases hd : st0.dflt = true
    · simp only [hd, if_true] at h; exact (throw_ok.mp h).elim
    · simp only [hd, Bool.false_eq_true, if_false] at h
      cases pat with
      | wild =>
        simp only at h
        obtain ⟨dflt, s1, h1, h2⟩ := bind_ok.mp h
        obtain ⟨db, s2, h3, h4⟩ := bind_ok.mp h2
        obtain ⟨_, hW1, hpg⟩ := guard_sound h1 ihg hW hcx (WTg_push hg)
        obtain ⟨hW2, hpb⟩ := soundB env henv body hcb cx ([] :: g) s1 db s2 hW1 hcx (WTg_push hg) h3
        obtain ⟨⟨hW3, hpr⟩, hdr⟩ := soundArms env henv rest hcr cx g vs _ s2 stF st' hW2 hcx hg hvs h4
        refine ⟨⟨hW3, fun σ hσ hs => ?_⟩, fun hF => by have := hdr hF; simp only [Bool.and_eq_true] at this; exact this.1⟩
        obtain ⟨hs2, hsr⟩ := hpr σ hσ hs
        obtain ⟨hs1, hsb⟩ := hpb σ hσ hs2
        obtain ⟨hs0, hsg⟩ := hpg σ hσ hs1
        refine ⟨hs0, fun gd vsd hgd hvo => ?_⟩
        have hpush : gammaInst ([] :: gd) (denG σ ([] :: g)) = true := by rw [denG_push]; exact gamma_push hgd
        obtain ⟨tb, ddb, b1, b2, b3⟩ := hsb ([] :: gd) hpush
        obtain ⟨ts, ddr, r1, r2, r3⟩ := hsr gd vsd hgd hvo
        have harm := synthArm_of (pat := .wild) (hsg ([] :: gd) hpush) b1
        refine ⟨tb :: ts, ddb && ddr, ?_, ?_, ?_⟩
        · simp only [synthArms, armPat, armBinds, declareAll, harm, r1, bind, Except.bind, pure, Except.pure]
        · intro t' ht'
          cases ht' with
          | head => exact b2
          | tail _ h' => exact r2 t' h'
        · intro hF
          have := hdr hF
          simp only [Bool.and_eq_true] at this
          simp [b3 this.2, r3 hF]
      | variant n bs =>
        simp only at h
        cases hl : lookupVariantM vs n with
        | none => simp only [hl] at h; exact (throw_ok.mp h).elim
        | some tys =>
          simp only [hl] at h
          by_cases hu : st0.used.any (patNameEq n) = true
          · simp only [hu, if_true] at h; exact (throw_ok.mp h).elim
          · simp only [hu, Bool.false_eq_true, if_false] at h
            obtain ⟨g', s0, h0, h0'⟩ := bind_ok.mp h
            obtain ⟨used, s1, h1, h2⟩ := bind_ok.mp h0'
            obtain ⟨db, s2, h3, h4⟩ := bind_ok.mp h2
            -- the arm's scope: what the model declared, on the ground side, and what the rules declare
            have hscope : s0 = st ∧ WTg g' ∧ ∀ σ : Val, GVal σ → ∀ gd vsd, gammaInst gd (denG σ g) = true →
                armVariantsOk vsd (denVs σ vs) = true →
                ∃ gd', declareAll ([] :: gd) (armBinds vsd (.variant n bs)) = some gd' ∧
                  gammaInst gd' (denG σ g') = true := by
              cases tys with
              | nil =>
                cases bs with
                | none =>
                  simp only at h0
                  obtain ⟨rfl, rfl⟩ := pure_ok.mp h0
                  refine ⟨rfl, WTg_push hg, fun σ _ gd vsd hgd _ => ⟨[] :: gd, ?_, by rw [denG_push]; exact gamma_push hgd⟩⟩
                  cases vsd <;> simp [armBinds, declareAll]
                | some xs => simp only at h0; exact (throw_ok.mp h0).elim
              | cons t0 ts0 =>
                cases bs with
                | none => simp only at h0; exact (throw_ok.mp h0).elim
                | some xs =>
                  simp only at h0
                  by_cases hlen : ((t0 :: ts0).length != xs.length) = true
                  · simp only [hlen, if_true] at h0; exact (throw_ok.mp h0).elim
                  · simp only [hlen, Bool.false_eq_true, if_false] at h0
                    have hlen' : (t0 :: ts0).length = xs.length := by simpa using hlen
                    obtain ⟨hst, hWg, hdecl⟩ := declareAllM_gen (xs.zip (t0 :: ts0)) h0
                    refine ⟨hst.symm, hWg (WTg_push hg) (zip_WT (lookupVariantM_WT hvs hl)), fun σ hσ gd vsd hgd hvo => ?_⟩
                    have hd := hdecl σ
                    rw [denS_zip, denG_push] at hd
                    exact declareAll_mono _ _ ([] :: gd) ([] :: denG σ g) (denG σ g')
                      (armBinds_rel σ hσ hvs hl xs hlen' vsd hvo) (gamma_push hgd) hd
            obtain ⟨rfl, hWg', hsc⟩ := hscope
            obtain ⟨_, hW1, hpg⟩ := guard_sound h1 ihg hW hcx hWg'
            obtain ⟨hW2, hpb⟩ := soundB env henv body hcb cx g' s1 db s2 hW1 hcx hWg' h3
            obtain ⟨⟨hW3, hpr⟩, hdr⟩ := soundArms env henv rest hcr cx g vs _ s2 stF st' hW2 hcx hg hvs h4
            refine ⟨⟨hW3, fun σ hσ hs => ?_⟩, fun hF => by have := hdr hF; simp only [Bool.and_eq_true] at this; exact this.1⟩
            obtain ⟨hs2, hsr⟩ := hpr σ hσ hs
            obtain ⟨hs1, hsb⟩ := hpb σ hσ hs2
            obtain ⟨hs0, hsg⟩ := hpg σ hσ hs1
            refine ⟨hs0, fun gd vsd hgd hvo => ?_⟩
            obtain ⟨gd', e1, e2⟩ := hsc σ hσ gd vsd hgd hvo
            obtain ⟨tb, ddb, b1, b2, b3⟩ := hsb gd' e2
            obtain ⟨ts, ddr, r1, r2, r3⟩ := hsr gd vsd hgd hvo
            have harm := synthArm_of (pat := .variant n bs) (hsg gd' e2) b1
            refine ⟨tb :: ts, ddb && ddr, ?_, ?_, ?_⟩
            · simp only [synthArms, armPat, e1, harm, r1, bind, Except.bind, pure, Except.pure]
            · intro t' ht'
              cases ht' with
              | head => exact b2
              | tail _ h' => exact r2 t' h'
            · intro hF
              have := hdr hF
              simp only [Bool.and_eq_true] at this
              simp [b3 this.2, r3 hF]
termination_by sizeOf arms

theorem soundFields (env : Env) (henv : EnvPlain env) (fs : List Field) (hc : coreF fs = true)
    (decl : List (Nat × Ty)) (hd : (decl.all fun f => plain f.2) = true) :
    ∀ cx g st d st', WTs st.store → WTcx cx → WTg g → inferFields env cx g fs (toMFields decl) st = .ok d st' →
      PostFields env cx g fs decl st d st' := by
  intro cx g st d st' hW hcx hg h
  cases fs with
  | nil =>
    simp only [inferFields] at h
    obtain ⟨rfl, rfl⟩ := pure_ok.mp h
    exact ⟨hW, fun σ _ hs => ⟨hs, fun gd _ => ⟨false, by simp [checkFields, pure, Except.pure], by simp⟩⟩⟩
  | cons f rest =>
    cases f with
    | mk n e =>
      simp only [coreF, Bool.and_eq_true] at hc
      simp only [inferFields, lookup_toMFields] at h
      cases hl : decl.lookup n with
      | none => simp only [hl, Option.map_none] at h; exact (throw_ok.mp h).elim
      | some t =>
        simp only [hl, Option.map_some] at h
        obtain ⟨d1, st1, h1, h2⟩ := bind_ok.mp h
        obtain ⟨d2, st2, h3, h4⟩ := bind_ok.mp h2
        obtain ⟨rfl, rfl⟩ := pure_ok.mp h4
        have hpt := lookup_plain hd hl
        have hWt : WT (toM t) = true := (den_toM (fun _ => .unit) t hpt).2.1
        obtain ⟨hW1, hp1⟩ := soundE env henv e hc.1 (cx.withTy (toM t)) g st d1 st1 hW (WTcx_with hcx hWt) hg h1
        obtain ⟨hW2, hp2⟩ := soundFields env henv rest hc.2 decl hd cx g st1 d2 st2 hW1 hcx hg h3
        refine ⟨hW2, fun σ hσ hs => ?_⟩
        obtain ⟨hs1, hsyn2⟩ := hp2 σ hσ hs
        obtain ⟨hs0, hsyn1⟩ := hp1 σ hσ hs1
        refine ⟨hs0, fun gd hgd => ?_⟩
        obtain ⟨te, dd1, a1, a2, a3⟩ := hsyn1 gd hgd
        obtain ⟨dd2, b1, b2⟩ := hsyn2 gd hgd
        have a1' : synth env (denCx σ cx) gd e = .ok (te, dd1) := a1
        obtain ⟨hdt, _, hgt⟩ := den_toM σ t hpt
        have a2' : inst te t = true := by
          have : inst te (den σ (toM t)) = true := a2
          rwa [hdt] at this
        refine ⟨dd1 || dd2, ?_, ?_⟩
        · simp only [checkFields, a1', hl, expect_ok' (inst_compat te t hgt a2'), b1, bind, Except.bind, pure, Except.pure]
        · intro hd'
          simp only [Bool.or_eq_true] at hd' ⊢
          rcases hd' with hd' | hd'
          · exact Or.inl (a3 hd')
          · exact Or.inr (b2 hd')
termination_by sizeOf fs

theorem soundArgs (env : Env) (henv : EnvPlain env) (es : List Expr) (hc : coreL es = true) (ps : List Ty)
    (hps : ps.all plain = true) :
    ∀ cx g st d st', WTs st.store → WTcx cx → WTg g → inferArgsGo env cx g es (toMList ps) st = .ok d st' →
      PostArgs env cx g es ps st d st' := by
  intro cx g st d st' hW hcx hg h
  cases es with
  | nil =>
    simp only [inferArgsGo] at h
    obtain ⟨rfl, rfl⟩ := pure_ok.mp h
    exact ⟨hW, fun σ _ hs => ⟨hs, fun gd _ => ⟨false, by simp [checkArgs, pure, Except.pure], by simp⟩⟩⟩
  | cons e es =>
    cases ps with
    | nil =>
      simp only [toMList, inferArgsGo] at h
      obtain ⟨rfl, rfl⟩ := pure_ok.mp h
      exact ⟨hW, fun σ _ hs => ⟨hs, fun gd _ => ⟨false, by simp [checkArgs, pure, Except.pure], by simp⟩⟩⟩
    | cons p ps =>
      simp only [coreL, Bool.and_eq_true] at hc
      simp only [List.all_cons, Bool.and_eq_true] at hps
      simp only [toMList, inferArgsGo] at h
      obtain ⟨d1, st1, h1, h2⟩ := bind_ok.mp h
      obtain ⟨d2, st2, h3, h4⟩ := bind_ok.mp h2
      obtain ⟨rfl, rfl⟩ := pure_ok.mp h4
      have hWp : WT (toM p) = true := (den_toM (fun _ => .unit) p hps.1).2.1
      obtain ⟨hW1, hp1⟩ := soundE env henv e hc.1 (cx.withTy (toM p)) g st d1 st1 hW (WTcx_with hcx hWp) hg h1
      obtain ⟨hW2, hp2⟩ := soundArgs env henv es hc.2 ps hps.2 cx g st1 d2 st2 hW1 hcx hg h3
      refine ⟨hW2, fun σ hσ hs => ?_⟩
      obtain ⟨hs1, hsyn2⟩ := hp2 σ hσ hs
      obtain ⟨hs0, hsyn1⟩ := hp1 σ hσ hs1
      refine ⟨hs0, fun gd hgd => ?_⟩
      obtain ⟨te, dd1, a1, a2, a3⟩ := hsyn1 gd hgd
      obtain ⟨dd2, b1, b2⟩ := hsyn2 gd hgd
      have a1' : synth env (denCx σ cx) gd e = .ok (te, dd1) := a1
      obtain ⟨hdp, _, hgp⟩ := den_toM σ p hps.1
      have a2' : inst te p = true := by
        have : inst te (den σ (toM p)) = true := a2
        rwa [hdp] at this
      refine ⟨dd1 || dd2, ?_, ?_⟩
      · simp only [checkArgs, a1', expect_ok' (inst_compat te p hgp a2'), b1, bind, Except.bind, pure, Except.pure]
      · intro hd
        simp only [Bool.or_eq_true] at hd ⊢
        rcases hd with hd | hd
        · exact Or.inl (a3 hd)
        · exact Or.inr (b2 hd)
termination_by sizeOf es

theorem soundB (env : Env) (henv : EnvPlain env) (b : Block) (hc : coreB b = true) :
    ∀ cx g st d st', WTs st.store → WTcx cx → WTg g → inferBlock env cx g b st = .ok d st' →
      PostB env cx g b st d st' := by
  intro cx g st d st' hW hcx hg h
  cases b with
  | mk ss last =>
  cases last with
  | none =>
    simp only [coreB] at hc
    simp only [inferBlock] at h
    obtain ⟨p, st1, h1, h2⟩ := bind_ok.mp h
    obtain ⟨g1, d1⟩ := p
    obtain ⟨hW1, hg1, hpost⟩ := soundS env henv ss hc cx g st g1 d1 st1 hW hcx hg h1
    simp only at h2
    cases d1 with
    | true =>
      simp only [Bool.not_true, Bool.false_eq_true, if_false] at h2
      obtain ⟨rfl, rfl⟩ := pure_ok.mp h2
      refine ⟨hW1, fun σ hσ hs => ?_⟩
      obtain ⟨hs0, hsyn⟩ := hpost σ hσ hs
      refine ⟨hs0, fun gd hgd => ?_⟩
      obtain ⟨gd', dd, h5, h6, h7⟩ := hsyn gd hgd
      have : dd = true := h7 rfl
      subst this
      exact ⟨.never, true, by simp only [synthBlock, h5, bind, Except.bind, pure, Except.pure, if_true], rfl, fun _ => rfl⟩
    | false =>
      simp only [Bool.not_false, if_true] at h2
      obtain ⟨u, st2, h3, h4⟩ := bind_ok.mp h2
      obtain ⟨rfl, rfl⟩ := pure_ok.mp h4
      obtain ⟨hW2, hE2, heq2⟩ := unifyM_ok h3 hW1 hcx.1 WT_unit
      refine ⟨hW2, fun σ hσ hs => ?_⟩
      have hs1 := hE2.2 σ hs
      obtain ⟨hs0, hsyn⟩ := hpost σ hσ hs1
      refine ⟨hs0, fun gd hgd => ?_⟩
      obtain ⟨gd', dd, h5, h6, h7⟩ := hsyn gd hgd
      refine ⟨if dd then .never else .unit, dd, by simp only [synthBlock, h5, bind, Except.bind, pure, Except.pure], ?_, by simp⟩
      cases dd
      · simp only [Bool.false_eq_true, if_false]; rw [heq2 σ hs]; rfl
      · rfl
  | some e =>
    simp only [coreB, Bool.and_eq_true] at hc
    simp only [inferBlock] at h
    obtain ⟨p, st1, h1, h2⟩ := bind_ok.mp h
    obtain ⟨g1, d1⟩ := p
    obtain ⟨hW1, hg1, hpost⟩ := soundS env henv ss hc.1 cx g st g1 d1 st1 hW hcx hg h1
    simp only at h2
    obtain ⟨d2, st2, h3, h4⟩ := bind_ok.mp h2
    obtain ⟨rfl, rfl⟩ := pure_ok.mp h4
    obtain ⟨hW2, hpost2⟩ := soundE env henv e hc.2 cx g1 st1 d2 st2 hW1 hcx hg1 h3
    refine ⟨hW2, fun σ hσ hs => ?_⟩
    obtain ⟨hs1, hsyn2⟩ := hpost2 σ hσ hs
    obtain ⟨hs0, hsyn⟩ := hpost σ hσ hs1
    refine ⟨hs0, fun gd hgd => ?_⟩
    obtain ⟨gd', dd, h5, h6, h7⟩ := hsyn gd hgd
    obtain ⟨t, dd2, h8, h9, h10⟩ := hsyn2 gd' h6
    refine ⟨if dd then .never else t, dd || dd2, by simp only [synthBlock, h5, h8, bind, Except.bind, pure, Except.pure], ?_, ?_⟩
    · cases dd
      · simpa using h9
      · rfl
    · intro hd
      simp only [Bool.or_eq_true] at hd ⊢
      rcases hd with hd | hd
      · exact Or.inl (h7 hd)
      · exact Or.inr (h10 hd)
termination_by sizeOf b

theorem soundS (env : Env) (henv : EnvPlain env) (ss : List Stmt) (hc : coreS ss = true) :
    ∀ cx g st g' d st', WTs st.store → WTcx cx → WTg g → inferStmts env cx g ss st = .ok (g', d) st' →
      PostS env cx g ss st g' d st' := by
  intro cx g st g' d st' hW hcx hg h
  cases ss with
  | nil =>
    simp only [inferStmts] at h
    obtain ⟨h1, rfl⟩ := pure_ok.mp h
    cases h1
    exact ⟨hW, hg, fun σ _ hs => ⟨hs, fun gd hgd => ⟨gd, false, rfl, hgd, by simp⟩⟩⟩
  | cons s rest =>
    cases s with
    | expr e =>
      simp only [coreS, Bool.and_eq_true] at hc
      simp only [inferStmts] at h
      obtain ⟨v, st1, h1, h2⟩ := bind_ok.mp h
      obtain ⟨rfl, hE1⟩ := freshVar_ok h1
      obtain ⟨d1, st2, h3, h4⟩ := bind_ok.mp h2
      obtain ⟨p, st3, h5, h6⟩ := bind_ok.mp h4
      obtain ⟨g2, d2⟩ := p
      simp only at h6
      obtain ⟨h7, rfl⟩ := pure_ok.mp h6
      cases h7
      obtain ⟨hW2, hpost1⟩ := soundE env henv e hc.1 (cx.withTy (.var st.store.length)) g st1 d1 st2 (hE1.1 hW)
        (WTcx_with hcx (WT_var _)) hg h3
      obtain ⟨hW3, hg3, hpost2⟩ := soundS env henv rest hc.2 cx g st2 g' d2 st3 hW2 hcx hg h5
      refine ⟨hW3, hg3, fun σ hσ hs => ?_⟩
      obtain ⟨hs2, hsyn2⟩ := hpost2 σ hσ hs
      obtain ⟨hs1, hsyn1⟩ := hpost1 σ hσ hs2
      refine ⟨hE1.2 σ hs1, fun gd hgd => ?_⟩
      obtain ⟨t, dd1, h8, _, h10⟩ := hsyn1 gd hgd
      obtain ⟨gd', dd2, h11, h12, h13⟩ := hsyn2 gd hgd
      have h8' : synth env (denCx σ cx) gd e = .ok (t, dd1) := h8
      refine ⟨gd', dd1 || dd2, by simp only [synthStmts, h8', h11, bind, Except.bind, pure, Except.pure], h12, ?_⟩
      intro hd
      simp only [Bool.or_eq_true] at hd ⊢
      rcases hd with hd | hd
      · exact Or.inl (h10 hd)
      · exact Or.inr (h13 hd)
    | let_ x ann e =>
      cases ann with
      | none =>
        simp only [coreS, Bool.and_eq_true] at hc
        simp only [inferStmts] at h
        obtain ⟨ty, st1, h1, h2⟩ := bind_ok.mp h
        obtain ⟨rfl, hE1⟩ := freshVar_ok h1
        obtain ⟨d1, st2, h3, h4⟩ := bind_ok.mp h2
        obtain ⟨ty', st3, h5, h6⟩ := bind_ok.mp h4
        obtain ⟨rfl, hres⟩ := resolveM_ok h5
        obtain ⟨g1, st4, h7, h8⟩ := bind_ok.mp h6
        obtain ⟨rfl, hdecl, hWg1⟩ := declareM_ok h7
        obtain ⟨p, st5, h9, h10⟩ := bind_ok.mp h8
        obtain ⟨g2, d2⟩ := p
        simp only at h10
        obtain ⟨h11, rfl⟩ := pure_ok.mp h10
        cases h11
        obtain ⟨hW2, hpost1⟩ := soundE env henv e hc.1 (cx.withTy (.var st.store.length)) g st1 d1 st2 (hE1.1 hW)
          (WTcx_with hcx (WT_var _)) hg h3
        have hWty' : WT ty' = true := resolve_WT hW2 (a := .var st.store.length) (WT_var _) hres
        obtain ⟨hW3, hg3, hpost2⟩ := soundS env henv rest hc.2 cx g1 st2 g' d2 st5 hW2 hcx (hWg1 hg hWty') h9
        refine ⟨hW3, hg3, fun σ hσ hs => ?_⟩
        obtain ⟨hs2, hsyn2⟩ := hpost2 σ hσ hs
        obtain ⟨hs1, hsyn1⟩ := hpost1 σ hσ hs2
        refine ⟨hE1.2 σ hs1, fun gd hgd => ?_⟩
        obtain ⟨t, dd1, h12, h13, h14⟩ := hsyn1 gd hgd
        have h12' : synth env (denCx σ cx) gd e = .ok (t, dd1) := h12
        have hden : den σ ty' = den σ (.var st.store.length) := resolve_den hs2 hres
        have h13' : inst t (den σ ty') = true := by rw [hden]; exact h13
        obtain ⟨gd1, h15, h16⟩ := gamma_declare hgd x t (den σ ty') h13' (den_ground hσ ty' hWty') (hdecl σ)
        obtain ⟨gd', dd2, h17, h18, h19⟩ := hsyn2 gd1 h16
        refine ⟨gd', dd1 || dd2, by simp only [synthStmts, h12', h15, h17, bind, Except.bind, pure, Except.pure], h18, ?_⟩
        intro hd
        simp only [Bool.or_eq_true] at hd ⊢
        rcases hd with hd | hd
        · exact Or.inl (h14 hd)
        · exact Or.inr (h19 hd)
      | some a =>
        simp only [coreS, Bool.and_eq_true] at hc
        obtain ⟨⟨hpl, hce⟩, hcr⟩ := hc
        simp only [inferStmts] at h
        obtain ⟨ty, st1, h1, h2⟩ := bind_ok.mp h
        unfold evalTy at h1
        by_cases hwf : wfTy env a = true
        · simp only [hwf, if_true] at h1
          obtain ⟨rfl, rfl⟩ := pure_ok.mp h1
          obtain ⟨d1, st2, h3, h4⟩ := bind_ok.mp h2
          obtain ⟨ty', st3, h5, h6⟩ := bind_ok.mp h4
          obtain ⟨rfl, hres⟩ := resolveM_ok h5
          obtain ⟨g1, st4, h7, h8⟩ := bind_ok.mp h6
          obtain ⟨rfl, hdecl, hWg1⟩ := declareM_ok h7
          obtain ⟨p, st5, h9, h10⟩ := bind_ok.mp h8
          obtain ⟨g2, d2⟩ := p
          simp only at h10
          obtain ⟨h11, rfl⟩ := pure_ok.mp h10
          cases h11
          have hWa : WT (toM a) = true := (den_toM (fun _ => .unit) a hpl).2.1
          obtain ⟨hW2, hpost1⟩ := soundE env henv e hce (cx.withTy (toM a)) g st d1 st2 hW
            (WTcx_with hcx hWa) hg h3
          have hWty' : WT ty' = true := resolve_WT hW2 hWa hres
          obtain ⟨hW3, hg3, hpost2⟩ := soundS env henv rest hcr cx g1 st2 g' d2 st5 hW2 hcx (hWg1 hg hWty') h9
          refine ⟨hW3, hg3, fun σ hσ hs => ?_⟩
          obtain ⟨hs2, hsyn2⟩ := hpost2 σ hσ hs
          obtain ⟨hs1, hsyn1⟩ := hpost1 σ hσ hs2
          refine ⟨hs1, fun gd hgd => ?_⟩
          obtain ⟨t, dd1, h12, h13, h14⟩ := hsyn1 gd hgd
          have h12' : synth env (denCx σ cx) gd e = .ok (t, dd1) := h12
          obtain ⟨hda, _, hga⟩ := den_toM σ a hpl
          have hden : den σ ty' = a := by rw [resolve_den hs2 hres]; exact hda
          have h13' : inst t a = true := by
            have : inst t (den σ (toM a)) = true := h13
            rwa [hda] at this
          have hdecl' := hdecl σ
          rw [hden] at hdecl'
          obtain ⟨gd1, h15, h16⟩ := gamma_declare hgd x a a (inst_self a hga) hga hdecl'
          obtain ⟨gd', dd2, h17, h18, h19⟩ := hsyn2 gd1 h16
          refine ⟨gd', dd1 || dd2, ?_, h18, ?_⟩
          · simp only [synthStmts, h12', hwf, expect_ok' (inst_compat t a hga h13'), h15, h17, bind, Except.bind, pure,
              Except.pure, Bool.not_true, Bool.false_eq_true, if_false]
          · intro hd
            simp only [Bool.or_eq_true] at hd ⊢
            rcases hd with hd | hd
            · exact Or.inl (h14 hd)
            · exact Or.inr (h19 hd)
        · simp only [hwf, Bool.false_eq_true, if_false] at h1
          exact (throw_ok.mp h1).elim
termination_by sizeOf ss
end

end RotoV.TcInfer

namespace RotoV.TcInfer
open RotoV.Typing RotoV.Unify RotoV.Gen

/-- `TypeChecker::function` up to the end of the body (before `resolve_obligations`) -/
def inferFnBody (env : Env) (params : List (Nat × Ty)) (rt : Ty) (body : Block) : M Unit := do
  let ps ← inferFn.go env params
  let g ← declareAllM [[]] ps
  let ret ← evalTy env rt
  let _ ← inferBlock env ⟨ret, some ret⟩ g body
  pure ()

theorem inferFn_split {env : Env} {params : List (Nat × Ty)} {rt : Ty} {body : Block} {st st' : St} {u : Unit}
    (h : inferFn env params rt body st = .ok u st') :
    ∃ st1, inferFnBody env params rt body st = .ok () st1 ∧ runObligations env st1 = .ok u st' := by
  unfold inferFn at h
  obtain ⟨ps, s1, h1, h2⟩ := bind_ok.mp h
  obtain ⟨g, s2, h3, h4⟩ := bind_ok.mp h2
  obtain ⟨ret, s3, h5, h6⟩ := bind_ok.mp h4
  obtain ⟨d, s4, h7, h8⟩ := bind_ok.mp h6
  refine ⟨s4, ?_, h8⟩
  unfold inferFnBody
  exact bind_ok.mpr ⟨ps, s1, h1, bind_ok.mpr ⟨g, s2, h3, bind_ok.mpr ⟨ret, s3, h5, bind_ok.mpr ⟨d, s4, h7, rfl⟩⟩⟩⟩

def mParams : List (Nat × Ty) → List (Nat × MTy)
  | [] => []
  | (x, t) :: rest => (x, toM t) :: mParams rest

theorem go_ok {env : Env} : ∀ {params : List (Nat × Ty)} {ps : List (Nat × MTy)} {st st' : St},
    inferFn.go env params st = .ok ps st' → st = st' ∧ ps = mParams params ∧
      (params.all fun q => wfTy env q.2) = true
  | [], ps, st, st', h => by
    simp only [inferFn.go] at h
    obtain ⟨rfl, rfl⟩ := pure_ok.mp h
    exact ⟨rfl, rfl, rfl⟩
  | (x, t) :: rest, ps, st, st', h => by
    simp only [inferFn.go] at h
    obtain ⟨t', s1, h1, h2⟩ := bind_ok.mp h
    obtain ⟨rest', s2, h3, h4⟩ := bind_ok.mp h2
    obtain ⟨rfl, rfl⟩ := pure_ok.mp h4
    unfold evalTy at h1
    by_cases hw : wfTy env t = true
    · simp only [hw, if_true] at h1
      obtain ⟨rfl, rfl⟩ := pure_ok.mp h1
      obtain ⟨rfl, rfl, hall⟩ := go_ok h3
      exact ⟨rfl, rfl, by simp only [List.all_cons, hw, hall, Bool.and_self]⟩
    · simp only [hw, Bool.false_eq_true, if_false] at h1
      exact (throw_ok.mp h1).elim

theorem declareAllM_ok : ∀ {ps : List (Nat × Ty)} {g g' : MGamma} {st st' : St},
    declareAllM g (mParams ps) st = .ok g' st' → (ps.all fun q => plain q.2) = true → WTg g →
      st = st' ∧ WTg g' ∧ ∀ σ : Val, declareAll (denG σ g) ps = some (denG σ g')
  | [], g, g', st, st', h, _, hg => by
    simp only [mParams, declareAllM] at h
    obtain ⟨rfl, rfl⟩ := pure_ok.mp h
    exact ⟨rfl, hg, fun σ => rfl⟩
  | (x, t) :: rest, g, g', st, st', h, hp, hg => by
    simp only [mParams, declareAllM] at h
    simp only [List.all_cons, Bool.and_eq_true] at hp
    obtain ⟨g1, s1, h1, h2⟩ := bind_ok.mp h
    obtain ⟨rfl, hd, hWg⟩ := declareM_ok h1
    have hWt : WT (toM t) = true := (den_toM (fun _ => .unit) t hp.1).2.1
    obtain ⟨rfl, hg', hrest⟩ := declareAllM_ok h2 hp.2 (hWg hg hWt)
    refine ⟨rfl, hg', fun σ => ?_⟩
    have := hd σ
    rw [(den_toM σ t hp.1).1] at this
    simp only [declareAll, this]
    exact hrest σ

theorem scopeInst_self (σ : Val) (hσ : GVal σ) : ∀ s : MScope, (∀ p ∈ s, WT p.2 = true) →
    scopeInst (denS σ s) (denS σ s) = true
  | [], _ => rfl
  | (x, t) :: r, h => by
    have h1 := den_ground hσ t (h (x, t) List.mem_cons_self)
    simp only [denS, scopeInst, beq_self_eq_true, inst_self _ h1, h1, Bool.true_and]
    exact scopeInst_self σ hσ r (fun p hp => h p (List.mem_cons_of_mem _ hp))

theorem gammaInst_self (σ : Val) (hσ : GVal σ) : ∀ g : MGamma, WTg g → gammaInst (denG σ g) (denG σ g) = true
  | [], _ => rfl
  | s :: r, h => by
    simp only [denG, gammaInst, Bool.and_eq_true]
    exact ⟨scopeInst_self σ hσ s (h s List.mem_cons_self),
      gammaInst_self σ hσ r (fun s' hs' => h s' (List.mem_cons_of_mem _ hs'))⟩

theorem plain_wf (env : Env) : ∀ t, wfTy env t = true → True := fun _ _ => trivial

/-- **The inference model is sound for function bodies of the core fragment.**
    If `TypeChecker::function` (as modelled) gets through the body of a function
    whose body lies in the fragment `coreB`, and the store it leaves behind has
    a solution in ground types, then the declarative checker accepts the
    function item. -/
theorem inferFn_sound (env : Env) (henv : EnvPlain env) (p : Prog) (n : Nat) (params : List (Nat × Ty))
    (rt : Ty) (body : Block) (hpp : (params.all fun q => plain q.2) = true) (hpr : plain rt = true)
    (hcb : coreB body = true) (st1 : St)
    (h : inferFnBody env params rt body ⟨[], []⟩ = .ok () st1)
    (σ : Val) (hσ : GVal σ) (hs : Sat σ st1.store) :
    checkDecl env p (.fn n params rt body) = .ok () := by
  unfold inferFnBody at h
  obtain ⟨ps, s1, h1, h2⟩ := bind_ok.mp h
  obtain ⟨g, s2, h3, h4⟩ := bind_ok.mp h2
  obtain ⟨ret, s3, h5, h6⟩ := bind_ok.mp h4
  obtain ⟨d, s4, h7, h8⟩ := bind_ok.mp h6
  obtain ⟨_, rfl⟩ := pure_ok.mp h8
  obtain ⟨rfl, rfl, hwp⟩ := go_ok h1
  have hW0 : WTs ([] : Store) := by intro i t h; simp at h
  have hg0 : WTg [[]] := by
    intro s hs p hp
    simp only [List.mem_singleton] at hs; subst hs; cases hp
  obtain ⟨rfl, hg, hdecl⟩ := declareAllM_ok h3 hpp hg0
  unfold evalTy at h5
  by_cases hw : wfTy env rt = true
  · simp only [hw, if_true] at h5
    obtain ⟨rfl, rfl⟩ := pure_ok.mp h5
    obtain ⟨hdr, hWr, hgr⟩ := den_toM σ rt hpr
    have hcx : WTcx ⟨toM rt, some (toM rt)⟩ := ⟨hWr, by intro r hr; cases hr; exact hWr⟩
    obtain ⟨_, hpost⟩ := soundB env henv body hcb ⟨toM rt, some (toM rt)⟩ g _ d s4 hW0 hcx hg h7
    obtain ⟨_, hsyn⟩ := hpost σ hσ hs
    obtain ⟨t, dd, a1, a2, _⟩ := hsyn (denG σ g) (gammaInst_self σ hσ g hg)
    have hctx : denCx σ ⟨toM rt, some (toM rt)⟩ = ⟨some rt⟩ := by simp [denCx, hdr]
    rw [hctx] at a1
    have a2' : inst t rt = true := by
      have : inst t (den σ (toM rt)) = true := a2
      rwa [hdr] at this
    have hd := hdecl σ
    simp only [denG, denS] at hd
    simp only [checkDecl, hwp, hw, hd, a1, expect_ok' (inst_compat t rt hgr a2'), bind, Except.bind, pure, Except.pure,
      Bool.not_true, Bool.or_false, Bool.false_eq_true, if_false]
  · simp only [hw, Bool.false_eq_true, if_false] at h5
    exact (throw_ok.mp h5).elim

end RotoV.TcInfer

namespace RotoV.TcInfer
open RotoV.Typing RotoV.Unify RotoV.Gen

/-! ### checking a proposed solution of a store (executable) -/

theorem satB_sound {σ : List Ty} {s : Store} (h : satB σ s = true) : Sat (valOf σ) s := by
  intro i t hi
  have hlt := lt_of_getElem? hi
  unfold satB at h
  rw [List.all_eq_true] at h
  have := h i (List.mem_range.mpr hlt)
  simp only [hi, Bool.and_eq_true, decide_eq_true_eq] at this
  obtain ⟨h1, h2⟩ := this
  refine ⟨h1, ?_⟩
  cases t with
  | intVar n sg =>
    simp only [kindOkB, Bool.and_eq_true, Bool.or_eq_true, Bool.not_eq_true'] at h2
    simp only [KindOk]
    refine ⟨h2.1, fun hsg => ?_⟩
    rcases h2.2 with h3 | h3
    · rw [hsg] at h3; cases h3
    · exact h3
  | floatVar n => simpa [kindOkB, KindOk] using h2
  | _ => simp [KindOk]

theorem valOf_ground {σ : List Ty} (h : σ.all ground = true) : GVal (valOf σ) := by
  intro i
  unfold valOf
  cases hi : σ[i]? with
  | none => rfl
  | some t =>
    simp only [Option.getD_some]
    rw [List.all_eq_true] at h
    exact h t (List.mem_of_getElem? hi)

end RotoV.TcInfer
