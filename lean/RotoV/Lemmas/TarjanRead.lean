/-
  Lemmas for the read layer of C14 (`Model/TarjanRead`): a lowered body whose
  read sites come from a statement list `lowerSite` gives a meaning to observes
  the stored value at every site, on every path.
-/
import RotoV.Model.TarjanRead

namespace RotoV.Tarjan

theorem lowerSite_cases (acts : List MirReadAct) (f k : Nat) (s : Site)
    (h : lowerSite acts f k = some s) : s = .direct k ∨ s = .viaTemp f k := by
  unfold lowerSite at h
  split at h
  · left; exact (Option.some.inj h).symm
  · split at h
    · right; exact (Option.some.inj h).symm
    · cases h

theorem runSite_lowered (store : Nat → Nat) (acts : List MirReadAct) (f k : Nat) (s : Site)
    (h : lowerSite acts f k = some s) (T : Temps) : (runSite store s T).1 = store k := by
  rcases lowerSite_cases acts f k s h with rfl | rfl <;> rfl

theorem iter_fst (step : Temps → Out × Temps) (o : Out) (hs : ∀ T, (step T).1 = o) :
    ∀ n T, (iter step n T).1 = o.times n := by
  intro n
  induction n with
  | zero => intro T; cases o <;> rfl
  | succ n ih =>
    intro T
    have h1 := hs T
    simp only [iter]
    cases hst : step T with
    | mk o1 T1 =>
      rw [hst] at h1
      simp only at h1
      subst h1
      cases o1 with
      | ret r => rfl
      | val v =>
        simp only
        have h2 := ih T1
        cases hit : iter step n T1 with
        | mk o2 T2 =>
          rw [hit] at h2
          simp only at h2
          cases n with
          | zero =>
            simp only [Out.times] at h2
            subst h2
            simp [Out.times]
          | succ m =>
            simp only [Out.times] at h2
            subst h2
            simp only [Out.times]
            congr 1
            rw [Nat.succ_mul (m + 1) v, Nat.add_comm]

theorem lowerBody_run (store : Nat → Nat) (cond : Nat → Bool) (count : Nat → Nat)
    (acts : List MirReadAct) :
    ∀ (b : Body) (f : Nat) (c : Code) (f' : Nat), lowerBody acts b f = some (c, f') →
      ∀ T, (c.run store cond count T).1 = b.spec store cond count := by
  intro b
  induction b with
  | lit n =>
    intro f c f' h T
    simp only [lowerBody, Option.some.injEq, Prod.mk.injEq] at h
    obtain ⟨rfl, _⟩ := h
    rfl
  | read k =>
    intro f c f' h T
    simp only [lowerBody, Option.map_eq_some_iff, Prod.mk.injEq] at h
    obtain ⟨s, hs, rfl, _⟩ := h
    simp only [Code.run, Body.spec, runSite_lowered store acts f k s hs T]
  | add a b iha ihb =>
    intro f c f' h T
    simp only [lowerBody, bind, Option.bind] at h
    cases ha : lowerBody acts a f with
    | none => rw [ha] at h; cases h
    | some pa =>
      obtain ⟨ca, f1⟩ := pa
      rw [ha] at h
      simp only at h
      cases hb : lowerBody acts b f1 with
      | none => rw [hb] at h; cases h
      | some pb =>
        obtain ⟨cb, f2⟩ := pb
        rw [hb] at h
        simp only [pure, Option.some.injEq, Prod.mk.injEq] at h
        obtain ⟨rfl, _⟩ := h
        simp only [Code.run, Body.spec]
        have h1 := iha f ca f1 ha T
        cases hra : ca.run store cond count T with
        | mk oa T1 =>
          rw [hra] at h1
          simp only at h1
          rw [← h1]
          cases oa with
          | ret r => rfl
          | val v =>
            simp only
            have h2 := ihb f1 cb f2 hb T1
            cases hrb : cb.run store cond count T1 with
            | mk ob T2 =>
              rw [hrb] at h2
              simp only at h2
              rw [← h2]
              cases ob <;> rfl
  | ite cnd t e iht ihe =>
    intro f c f' h T
    simp only [lowerBody, bind, Option.bind] at h
    cases ht : lowerBody acts t f with
    | none => rw [ht] at h; cases h
    | some pt =>
      obtain ⟨ct, f1⟩ := pt
      rw [ht] at h
      simp only at h
      cases he : lowerBody acts e f1 with
      | none => rw [he] at h; cases h
      | some pe =>
        obtain ⟨ce, f2⟩ := pe
        rw [he] at h
        simp only [pure, Option.some.injEq, Prod.mk.injEq] at h
        obtain ⟨rfl, _⟩ := h
        simp only [Code.run, Body.spec]
        cases cond cnd
        · simpa using ihe f1 ce f2 he T
        · simpa using iht f ct f1 ht T
  | loop cnt b ih =>
    intro f c f' h T
    simp only [lowerBody, bind, Option.bind] at h
    cases hb : lowerBody acts b f with
    | none => rw [hb] at h; cases h
    | some pb =>
      obtain ⟨cb, f1⟩ := pb
      rw [hb] at h
      simp only [pure, Option.some.injEq, Prod.mk.injEq] at h
      obtain ⟨rfl, _⟩ := h
      simp only [Code.run, Body.spec]
      exact iter_fst _ _ (fun T => ih f cb f1 hb T) _ _
  | ret r ih =>
    intro f c f' h T
    simp only [lowerBody, bind, Option.bind] at h
    cases hr : lowerBody acts r f with
    | none => rw [hr] at h; cases h
    | some pr =>
      obtain ⟨cr, f1⟩ := pr
      rw [hr] at h
      simp only [pure, Option.some.injEq, Prod.mk.injEq] at h
      obtain ⟨rfl, _⟩ := h
      simp only [Code.run, Body.spec]
      rw [ih f cr f1 hr T]

/-- the lowered body has one store read per read site, for every constant -/
theorem lowerBody_storeReads (acts : List MirReadAct) (k : Nat) :
    ∀ (b : Body) (f : Nat) (c : Code) (f' : Nat), lowerBody acts b f = some (c, f') →
      c.storeReads k = b.sites k := by
  intro b
  induction b with
  | lit n =>
    intro f c f' h
    simp only [lowerBody, Option.some.injEq, Prod.mk.injEq] at h
    obtain ⟨rfl, _⟩ := h
    rfl
  | read k' =>
    intro f c f' h
    simp only [lowerBody, Option.map_eq_some_iff, Prod.mk.injEq] at h
    obtain ⟨s, hs, rfl, _⟩ := h
    rcases lowerSite_cases acts f k' s hs with rfl | rfl <;>
      simp [Code.storeReads, Site.reads, Body.sites]
  | add a b iha ihb =>
    intro f c f' h
    simp only [lowerBody, bind, Option.bind] at h
    cases ha : lowerBody acts a f with
    | none => rw [ha] at h; cases h
    | some pa =>
      obtain ⟨ca, f1⟩ := pa
      rw [ha] at h
      simp only at h
      cases hb : lowerBody acts b f1 with
      | none => rw [hb] at h; cases h
      | some pb =>
        obtain ⟨cb, f2⟩ := pb
        rw [hb] at h
        simp only [pure, Option.some.injEq, Prod.mk.injEq] at h
        obtain ⟨rfl, _⟩ := h
        simp only [Code.storeReads, Body.sites]
        rw [iha f ca f1 ha, ihb f1 cb f2 hb]
  | ite cnd t e iht ihe =>
    intro f c f' h
    simp only [lowerBody, bind, Option.bind] at h
    cases ht : lowerBody acts t f with
    | none => rw [ht] at h; cases h
    | some pt =>
      obtain ⟨ct, f1⟩ := pt
      rw [ht] at h
      simp only at h
      cases he : lowerBody acts e f1 with
      | none => rw [he] at h; cases h
      | some pe =>
        obtain ⟨ce, f2⟩ := pe
        rw [he] at h
        simp only [pure, Option.some.injEq, Prod.mk.injEq] at h
        obtain ⟨rfl, _⟩ := h
        simp only [Code.storeReads, Body.sites]
        rw [iht f ct f1 ht, ihe f1 ce f2 he]
  | loop cnt b ih =>
    intro f c f' h
    simp only [lowerBody, bind, Option.bind] at h
    cases hb : lowerBody acts b f with
    | none => rw [hb] at h; cases h
    | some pb =>
      obtain ⟨cb, f1⟩ := pb
      rw [hb] at h
      simp only [pure, Option.some.injEq, Prod.mk.injEq] at h
      obtain ⟨rfl, _⟩ := h
      simp only [Code.storeReads, Body.sites]
      exact ih f cb f1 hb
  | ret r ih =>
    intro f c f' h
    simp only [lowerBody, bind, Option.bind] at h
    cases hr : lowerBody acts r f with
    | none => rw [hr] at h; cases h
    | some pr =>
      obtain ⟨cr, f1⟩ := pr
      rw [hr] at h
      simp only [pure, Option.some.injEq, Prod.mk.injEq] at h
      obtain ⟨rfl, _⟩ := h
      simp only [Code.storeReads, Body.sites]
      exact ih f cr f1 hr

end RotoV.Tarjan
