/-
  For C10: the *generated* non-dividing codegen arms (`cg_Add`, `cg_Sub`, `cg_Mul`,
  `cg_Negate`, `cg_IntCmp`, `cg_Not`, from src/codegen/mod.rs) complete on same-typed
  integer operands — stated and proved without fixing *which* value they compute
  (that is C01's business), so that only a change that can introduce a trap breaks
  these lemmas.
-/
import RotoV.Lemmas.ScalarDiv

-- the simp sets below deliberately list CLIF lemmas the current arm does not need
set_option linter.unusedSimpArgs false

namespace RotoV
open RotoV.Gen RotoV.Gen.OpTables

theorem cg_IntCmp_completes (dbg : Bool) (cmp : IntCmp) (ty : CTy) (hf : ty.isFloat = false)
    {w : Nat} (hw : ty.bits = w) (a b : BitVec w) :
    ∃ r : Bool, cg_IntCmp dbg cmp (CVal.ofBv ty a) (CVal.ofBv ty b) = .ok (CVal.ofBool r) := by
  cases cmp <;>
    simp only [cg_IntCmp, int_cmp, Cg.operand, Cg.variable_, Cg.def_, icmp_ofBv _ _ hf hw, Res.pure_eq,
      Res.bind_ok] <;> exact ⟨_, rfl⟩

theorem cg_Not_completes (dbg : Bool) (b : Bool) : ∃ r : Bool, cg_Not dbg (CVal.ofBool b) = .ok (CVal.ofBool r) := by
  rw [CVal.ofBool_eq]
  simp only [cg_Not, Cg.operand, Cg.variable_, Cg.def_, icmp_imm_ofBv _ .I8 rfl (w := 8) rfl, Res.pure_eq,
    Res.bind_ok]
  exact ⟨_, rfl⟩

section
variable [FloatOps]

theorem cg_Add_completes (dbg : Bool) (ty : CTy) (hf : ty.isFloat = false) {w : Nat} (hw : ty.bits = w)
    (a b : BitVec w) : ∃ c : BitVec w, cg_Add dbg (CVal.ofBv ty a) (CVal.ofBv ty b) = .ok (CVal.ofBv ty c) := by
  cases ty <;> simp [CTy.isFloat] at hf <;>
    simp [cg_Add, Cg.operand, Cg.variable_, Cg.def_, iadd_ofBv _ rfl hw, isub_ofBv _ rfl hw,
      imul_ofBv _ rfl hw, CVal.ofBv_inj]
theorem cg_Sub_completes (dbg : Bool) (ty : CTy) (hf : ty.isFloat = false) {w : Nat} (hw : ty.bits = w)
    (a b : BitVec w) : ∃ c : BitVec w, cg_Sub dbg (CVal.ofBv ty a) (CVal.ofBv ty b) = .ok (CVal.ofBv ty c) := by
  cases ty <;> simp [CTy.isFloat] at hf <;>
    simp [cg_Sub, Cg.operand, Cg.variable_, Cg.def_, iadd_ofBv _ rfl hw, isub_ofBv _ rfl hw,
      imul_ofBv _ rfl hw, CVal.ofBv_inj]
theorem cg_Mul_completes (dbg : Bool) (ty : CTy) (hf : ty.isFloat = false) {w : Nat} (hw : ty.bits = w)
    (a b : BitVec w) : ∃ c : BitVec w, cg_Mul dbg (CVal.ofBv ty a) (CVal.ofBv ty b) = .ok (CVal.ofBv ty c) := by
  cases ty <;> simp [CTy.isFloat] at hf <;>
    simp [cg_Mul, Cg.operand, Cg.variable_, Cg.def_, iadd_ofBv _ rfl hw, isub_ofBv _ rfl hw,
      imul_ofBv _ rfl hw, CVal.ofBv_inj]
theorem cg_Negate_completes (dbg : Bool) (ty : CTy) (hf : ty.isFloat = false) {w : Nat} (hw : ty.bits = w)
    (a : BitVec w) : ∃ c : BitVec w, cg_Negate dbg (CVal.ofBv ty a) = .ok (CVal.ofBv ty c) := by
  cases ty <;> simp [CTy.isFloat] at hf <;>
    simp [cg_Negate, Cg.operand, Cg.variable_, Cg.def_, ineg_ofBv _ rfl hw, CVal.ofBv_inj]
end

end RotoV
