/-
  C07, rule "recursive constants": what `find_compilation_order` (as written,
  Model/Tarjan.lean) reports, against the documented rule on the reference graph.

  * `ruleRejects_sound`: the executable oracle `TcValueCycle.ruleRejects` only
    fires on a real cycle through a constant (`Edge c d`, `Reach d c`).
  * `reported_of_closed`: if the components `tarjan` emitted are COMPLETE (every
    key is in one) and CLOSED (an edge out of a component leads into it or into an
    earlier one) then every constant on a cycle is reported as recursive.
  The two premises are `Tarjan.tarjan_closed` (Lemmas/TcValueCycleTarjan.lean:
  the invariant of Tarjan's algorithm, for all graphs).
-/
import RotoV.Lemmas.Tarjan
import RotoV.Model.TcValueCycle

namespace RotoV.TcValueCycle
open RotoV.Tarjan

/-! ### the oracle is sound -/

theorem closure_sound (g : Graph) : ∀ (n : Nat) (s : List Nat) (x : Nat),
    x ∈ closure g s n → ∃ y, y ∈ s ∧ Reach g y x := by
  intro n
  induction n with
  | zero => intro s x hx; exact ⟨x, hx, .refl _⟩
  | succ n ih =>
    intro s x hx
    simp only [closure] at hx
    obtain ⟨y, hy, r⟩ := ih _ x hx
    simp only [grow, List.mem_eraseDups, List.mem_append, List.mem_flatMap] at hy
    rcases hy with hy | ⟨z, hz, hzy⟩
    · exact ⟨y, hy, r⟩
    · exact ⟨z, hz, .step hzy r⟩

theorem onCycle_sound (g : Graph) (c : Nat) (h : onCycle g c = true) :
    ∃ d, Edge g c d ∧ Reach g d c := by
  simp only [onCycle, List.contains_eq_mem, decide_eq_true_eq] at h
  obtain ⟨d, hd, r⟩ := closure_sound g _ _ _ h
  exact ⟨d, hd, r⟩

theorem ruleRejects_sound (g : Graph) (h : ruleRejects g = true) :
    ∃ c d, c ∈ g.keys ∧ g.kind c = .const ∧ Edge g c d ∧ Reach g d c := by
  unfold ruleRejects constOnCycle at h
  cases hf : g.keys.find? (fun c => g.isConst c && onCycle g c) with
  | none => rw [hf] at h; cases h
  | some c =>
    have hp := List.find?_some hf
    have hm := List.mem_of_find?_eq_some hf
    simp only [Bool.and_eq_true, Graph.isConst, beq_iff_eq] at hp
    obtain ⟨d, e, r⟩ := onCycle_sound g c hp.2
    exact ⟨c, d, hm, hp.1, e, r⟩

/-! ### complete + closed components ⇒ every cycle through a constant is reported -/

/-- what Tarjan's invariant gives about the emitted components -/
structure Closed (g : Graph) (comps : List (List Nat)) : Prop where
  complete : ∀ k, k ∈ g.keys → k ∈ comps.flatten
  back : ∀ pre c post, comps = pre ++ c :: post →
    ∀ u, u ∈ c → ∀ w, Edge g u w → w ∈ pre.flatten ∨ w ∈ c

/-- the first component that contains `x` -/
theorem first_component : ∀ (comps : List (List Nat)) (x : Nat), x ∈ comps.flatten →
    ∃ pre c post, comps = pre ++ c :: post ∧ x ∈ c ∧ x ∉ pre.flatten := by
  intro comps
  induction comps with
  | nil => intro x h; simp at h
  | cons c0 rest ih =>
    intro x h
    by_cases hx : x ∈ c0
    · exact ⟨[], c0, rest, rfl, hx, by simp⟩
    · have hr : x ∈ rest.flatten := by
        simp only [List.flatten_cons, List.mem_append] at h
        rcases h with h | h
        · exact absurd h hx
        · exact h
      obtain ⟨pre, c, post, he, hc, hn⟩ := ih x hr
      refine ⟨c0 :: pre, c, post, by rw [he]; rfl, hc, ?_⟩
      simp only [List.flatten_cons, List.mem_append]
      rintro (h1 | h1)
      · exact hx h1
      · exact hn h1

/-- the components before any given one are closed under references -/
theorem Closed.pre_closed {g : Graph} {comps : List (List Nat)} (h : Closed g comps)
    (pre : List (List Nat)) (c : List Nat) (post : List (List Nat)) (he : comps = pre ++ c :: post) :
    ∀ x y, x ∈ pre.flatten → Edge g x y → y ∈ pre.flatten := by
  intro x y hx e
  obtain ⟨c', hc', hxc⟩ := List.mem_flatten.1 hx
  obtain ⟨p1, p2, hp⟩ := List.append_of_mem hc'
  have he' : comps = p1 ++ c' :: (p2 ++ c :: post) := by rw [he, hp]; simp
  have := h.back p1 c' _ he' x hxc y e
  rw [hp]
  simp only [List.flatten_append, List.flatten_cons, List.mem_append]
  rcases this with h1 | h1
  · exact Or.inl h1
  · exact Or.inr (Or.inl h1)

theorem key_of_edge {g : Graph} {u v : Nat} (e : Edge g u v) : u ∈ g.keys := by
  obtain ⟨rs, hm, _⟩ := edge_mem_edges e
  exact List.mem_map.2 ⟨(u, rs), hm, rfl⟩

/-- A constant that refers to something that leads back to it is reported as
recursive — given complete and closed components. -/
theorem reported_of_closed (g : Graph) (comps : List (List Nat)) (ht : tarjan g = .ok comps)
    (hc : Closed g comps) (c d : Nat) (hk : g.kind c = .const) (e : Edge g c d) (r : Reach g d c) :
    ∃ c', g.kind c' = .const ∧ findCompilationOrder g = .ok (.recursive c') := by
  cases hs : selfEdge g g.edges with
  | some c' =>
    exact ⟨c', selfEdge_const g _ _ hs, by simp [findCompilationOrder, hs]⟩
  | none =>
    obtain ⟨pre, comp, post, he, hcc, hnp⟩ := first_component comps c (hc.complete c (key_of_edge e))
    have hd : d ∈ comp := by
      rcases hc.back pre comp post he c hcc d e with h1 | h1
      · exact absurd (Reach.closed (S := fun x => x ∈ pre.flatten) (hc.pre_closed pre comp post he) r h1) hnp
      · exact h1
    by_cases hdc : d = c
    · -- a direct self reference: the first loop would have fired
      subst hdc
      obtain ⟨rs, hm, hr⟩ := edge_mem_edges e
      obtain ⟨c', _, hs'⟩ := selfEdge_some g g.edges d rs hm hk hr
      rw [hs] at hs'; cases hs'
    · have hl : comp.length > 1 := two_mem_length hd hcc hdc
      have hmem : comp ∈ comps := by rw [he]; simp
      obtain ⟨c', hk', hx⟩ := mixedComponent_some g comps comp hmem hl c hcc hk
      exact ⟨c', hk', by simp [findCompilationOrder, hs, ht, hx, bind, Except.bind]⟩

end RotoV.TcValueCycle
