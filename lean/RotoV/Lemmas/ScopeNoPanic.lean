/-
  No panics (C13): on the graphs the type checker builds, name resolution, the
  import loop and the whole name-relevant part of `check_module_tree` return a
  result or a compile error — none of the `unwrap` / index / `unreachable!` /
  `ice!` sites on the way is reached, and no loop runs forever.
-/
import RotoV.Model.Scope
import RotoV.Lemmas.Scope
import RotoV.Lemmas.ScopePath
import RotoV.Lemmas.ScopeFrame
import RotoV.Lemmas.ScopeBuild
import RotoV.Lemmas.ScopeImports
import RotoV.Lemmas.ScopeTermination

namespace RotoV.Scope

def NoPanic {α} (r : Res α) : Prop := ∀ p, r ≠ .panic p

theorem resolve_noPanic {g : Graph} (inv : Inv g) (s : Nat) (hs : s < g.scopes.length) (x : Name)
    (r : Bool) : NoPanic (g.resolve s x r) := by
  intro p
  cases r with
  | false => rw [resolve_false]; intro h; cases h
  | true =>
    obtain ⟨chain, hc⟩ := ancestors_exist inv.wf s hs
    rw [show g.resolve s x true = firstHit g x chain from
      resolveName_eq_firstHit inv.wf x (s + 1) s chain (Nat.lt_succ_self s) hc]
    exact firstHit_no_panic inv.iok x chain (ancestors_valid hc) p

/-- `parent_module` returns no module or the declaration of a module that owns a valid scope -/
theorem parentModule_ok {g : Graph} (inv : Inv g) (s : Nat) (hs : s < g.scopes.length) :
    g.parentModule s = .ok none ∨
    ∃ d p, g.parentModule s = .ok (some d) ∧ d.scope = some p ∧ p < g.scopes.length := by
  obtain ⟨chain, hc⟩ := ancestors_exist inv.wf s hs
  rw [parentModule_eq inv.wf hc]
  unfold parentModuleSpec
  cases he : enclosingModule g chain with
  | none => exact Or.inl rfl
  | some t =>
    obtain ⟨m, name, pm⟩ := t
    cases pm with
    | none => exact Or.inl rfl
    | some p =>
      obtain ⟨sc, hsm, hkm⟩ := enclosingModule_spec he
      obtain ⟨_, hpar⟩ := inv.mok m sc name (some p) hsm hkm
      obtain ⟨psc, pn, ppm, hps, hpk⟩ := hpar p rfl
      obtain ⟨⟨d, hd, hds⟩, _⟩ := inv.mok p psc pn ppm hps hpk
      right
      refine ⟨d, p, ?_, hds, getElem?_lt hps⟩
      simp only [hps, hpk, hd]

theorem segments_noPanic {g : Graph} (inv : Inv g) :
    ∀ (rest : List Name) (s : Nat) (id : Name) (rc : Bool), (rc = true → s < g.scopes.length) →
      NoPanic (segments g s id rest rc) := by
  intro rest
  induction rest with
  | nil =>
    intro s id rc hv p
    unfold segments
    by_cases hid : id = SUPER
    · simp [hid]
    · simp only [hid, ↓reduceIte]
      have hnp : NoPanic (g.resolve s id rc) := by
        cases rc with
        | false => intro q; rw [resolve_false]; intro h; cases h
        | true => exact resolve_noPanic inv s (hv rfl) id true
      cases hr : g.resolve s id rc with
      | panic q => exact absurd hr (hnp q)
      | err e => intro h; cases h
      | ok o =>
        cases o with
        | none => intro h; cases h
        | some stub => simp only; cases stub.scope <;> (intro h; cases h)
  | cons i rest' ih =>
    intro s id rc hv p
    unfold segments
    by_cases hid : id = SUPER
    · simp [hid]
    · simp only [hid, ↓reduceIte]
      have hnp : NoPanic (g.resolve s id rc) := by
        cases rc with
        | false => intro q; rw [resolve_false]; intro h; cases h
        | true => exact resolve_noPanic inv s (hv rfl) id true
      cases hr : g.resolve s id rc with
      | panic q => exact absurd hr (hnp q)
      | err e => intro h; cases h
      | ok o =>
        cases o with
        | none => intro h; cases h
        | some stub =>
          simp only
          cases stub.scope with
          | none => intro h; cases h
          | some s' => exact ih s' i false (by intro hc; cases hc) p

theorem supers_noPanic {g : Graph} (inv : Inv g) :
    ∀ (rest : List Name) (s : Nat) (id : Name) (after : Bool), s < g.scopes.length →
      NoPanic (supers g s id rest after) := by
  intro rest
  induction rest with
  | nil =>
    intro s id after hs p
    unfold supers
    by_cases hid : id = SUPER
    · simp only [hid, ↓reduceIte]
      rcases parentModule_ok inv s hs with h | ⟨d, q, h, hds, _⟩
      · rw [h]; intro hc; cases hc
      · rw [h]; simp only [hds]; intro hc; cases hc
    · simp only [hid, ↓reduceIte]
      apply segments_noPanic inv []
      intro _
      split
      · exact inv.root
      · exact hs
  | cons i rest' ih =>
    intro s id after hs p
    unfold supers
    by_cases hid : id = SUPER
    · simp only [hid, ↓reduceIte]
      rcases parentModule_ok inv s hs with h | ⟨d, q, h, hds, hq⟩
      · rw [h]; intro hc; cases hc
      · rw [h]; simp only [hds]; exact ih q i true hq p
    · simp only [hid, ↓reduceIte]
      apply segments_noPanic inv (i :: rest')
      intro _
      split
      · exact inv.root
      · exact hs

theorem importOne_noPanic {g : Graph} (inv : Inv g) (s : Nat) (hs : s < g.scopes.length) (p : Path)
    (hp : p ≠ []) : NoPanic (importOne g s p) := by
  intro q
  unfold importOne
  cases p with
  | nil => exact absurd rfl hp
  | cons id rest =>
    have := supers_noPanic inv rest s id false hs
    simp only [resolveModulePart]
    cases hr : supers g s id rest false with
    | panic x => exact absurd hr (this x)
    | err e => intro h; cases h
    | ok r =>
      simp only
      cases r.rest with
      | cons a b => intro h; cases h
      | nil =>
        simp only [Graph.insertImport]
        have hget : g.scopes[s]? = some g.scopes[s] := List.getElem?_eq_getElem hs
        rw [hget]
        simp only
        cases (g.scopes[s]).imports.lookup r.decl.name.ident <;> (intro h; cases h)

theorem retainPass_noPanic {s : Nat} :
    ∀ (ps : List Path) (g : Graph), Inv g → s < g.scopes.length → (∀ p ∈ ps, p ≠ []) →
      NoPanic (retainPass s g ps) := by
  intro ps
  induction ps with
  | nil => intro g _ _ _ q h; cases h
  | cons p ps ih =>
    intro g inv hs hne q
    unfold retainPass
    have h1 := importOne_noPanic inv s hs p (hne p List.mem_cons_self)
    cases hi : importOne g s p with
    | panic x => exact absurd hi (h1 x)
    | ok g1 =>
      simp only
      have st := step_importOne inv hi
      have := ih g1 st.1 (Nat.lt_of_lt_of_le hs st.2.1) (fun r hr => hne r (List.mem_cons_of_mem _ hr))
      cases hr : retainPass s g1 ps with
      | panic x => exact absurd hr (this x)
      | err e => intro h; cases h
      | ok pr => intro h; cases h
    | err e =>
      simp only
      have := ih g inv hs (fun r hr => hne r (List.mem_cons_of_mem _ hr))
      cases hr : retainPass s g ps with
      | panic x => exact absurd hr (this x)
      | err e => intro h; cases h
      | ok pr => intro h; cases h

theorem retainPass_sub {s : Nat} :
    ∀ (ps : List Path) (g g' : Graph) (rem : List Path),
      retainPass s g ps = .ok (g', rem) → ∀ p ∈ rem, p ∈ ps := by
  intro ps
  induction ps with
  | nil =>
    intro g g' rem h p hp
    simp only [retainPass, Res.ok.injEq, Prod.mk.injEq] at h
    rw [← h.2] at hp; cases hp
  | cons a ps ih =>
    intro g g' rem h p hp
    unfold retainPass at h
    cases hi : importOne g s a with
    | panic x => rw [hi] at h; cases h
    | ok g1 =>
      rw [hi] at h
      simp only at h
      cases hr : retainPass s g1 ps with
      | panic x => rw [hr] at h; cases h
      | err e => rw [hr] at h; cases h
      | ok pr =>
        rw [hr] at h
        obtain ⟨g2, rem2⟩ := pr
        simp only [Res.ok.injEq, Prod.mk.injEq] at h
        rw [← h.2] at hp
        exact List.mem_cons_of_mem _ (ih g1 g2 rem2 hr p hp)
    | err e =>
      rw [hi] at h
      simp only at h
      cases hr : retainPass s g ps with
      | panic x => rw [hr] at h; cases h
      | err e => rw [hr] at h; cases h
      | ok pr =>
        rw [hr] at h
        obtain ⟨g2, rem2⟩ := pr
        simp only [Res.ok.injEq, Prod.mk.injEq] at h
        rw [← h.2] at hp
        simp only [List.mem_cons] at hp
        rcases hp with rfl | hp
        · exact List.mem_cons_self
        · exact List.mem_cons_of_mem _ (ih g g2 rem2 hr p hp)

theorem importAll_noPanic {s : Nat} :
    ∀ (ps : List Path) (g : Graph), Inv g → s < g.scopes.length → (∀ p ∈ ps, p ≠ []) →
      NoPanic (importAll s g ps) := by
  intro ps
  induction ps with
  | nil => intro g _ _ _ q h; cases h
  | cons p ps ih =>
    intro g inv hs hne q
    unfold importAll
    have h1 := importOne_noPanic inv s hs p (hne p List.mem_cons_self)
    cases hi : importOne g s p with
    | panic x => exact absurd hi (h1 x)
    | err e => intro h; cases h
    | ok g1 =>
      have st := step_importOne inv hi
      exact ih g1 st.1 (Nat.lt_of_lt_of_le hs st.2.1) (fun r hr => hne r (List.mem_cons_of_mem _ hr)) q

theorem importsF_noPanic {s : Nat} :
    ∀ (fuel : Nat) (g : Graph) (ps : List Path), Inv g → s < g.scopes.length → (∀ p ∈ ps, p ≠ []) →
      ps.length < fuel → NoPanic (importsF s fuel g ps) := by
  intro fuel
  induction fuel with
  | zero => intro g ps _ _ _ h; omega
  | succ n ih =>
    intro g ps inv hs hne hlen q
    unfold importsF
    have h1 := retainPass_noPanic ps g inv hs hne
    cases hr : retainPass s g ps with
    | panic x => exact absurd hr (h1 x)
    | err e => intro h; cases h
    | ok pr =>
      obtain ⟨g1, rem⟩ := pr
      simp only
      have hle := retainPass_len ps g g1 rem hr
      have s1 := step_retainPass ps g g1 rem inv hr
      have hs1 : s < g1.scopes.length := Nat.lt_of_lt_of_le hs s1.2.1
      have hne1 : ∀ p ∈ rem, p ≠ [] := fun p hp => hne p (retainPass_sub ps g g1 rem hr p hp)
      by_cases h0 : rem.length = 0
      · simp [h0]
      · simp only [h0, ↓reduceIte]
        by_cases heq : rem.length = ps.length
        · simp only [heq, ↓reduceIte]
          obtain ⟨hg, hrem, hall⟩ := retainPass_stuck ps g g1 rem hr heq
          subst hg hrem
          cases rem with
          | nil => simp at h0
          | cons p rest =>
            obtain ⟨e, he⟩ := hall p List.mem_cons_self
            simp [importAll, he]
        · simp only [heq, ↓reduceIte]
          exact ih g1 rem s1.1 hs1 hne1 (by omega) q

theorem imports_noPanic {g : Graph} (inv : Inv g) (s : Nat) (hs : s < g.scopes.length)
    (ps : List Path) (hne : ∀ p ∈ ps, p ≠ []) : NoPanic (imports g s ps) :=
  importsF_noPanic _ g ps inv hs hne (Nat.lt_succ_self _)

/-! ## programs whose import paths are not empty (what the parser produces) -/

mutual
def Block.importsOk : Block → Bool
  | .mk imps stmts => imps.all (fun p => !p.isEmpty) && Stmt.listOk stmts
def Stmt.listOk : List Stmt → Bool
  | [] => true
  | s :: rest => Stmt.importsOk s && Stmt.listOk rest
def Stmt.importsOk : Stmt → Bool
  | .letv _ _ => true
  | .block b => Block.importsOk b
  | .probe _ _ _ => true
  | .param _ _ => true
end

def Item.importsOk : Item → Bool
  | .fn _ _ body => body.importsOk
  | .imports ps => ps.all (fun p => !p.isEmpty)
  | _ => true

def Module.importsOk (m : Module) : Bool := m.items.all Item.importsOk

theorem all_nonempty {ps : List Path} (h : ps.all (fun p => !p.isEmpty) = true) : ∀ p ∈ ps, p ≠ [] := by
  intro p hp hnil
  have := List.all_eq_true.mp h p hp
  subst hnil
  simp at this

mutual
theorem checkBlock_noPanic (s : Nat) :
    ∀ (b : Block) (st : St), Inv st.g → s < st.g.scopes.length → b.importsOk = true →
      NoPanic (checkBlock s b st)
  | .mk imps stmts, st, inv, hs, hok => by
    intro q
    simp only [Block.importsOk, Bool.and_eq_true] at hok
    unfold checkBlock
    have h1 := imports_noPanic inv s hs imps (all_nonempty hok.1)
    cases hi : imports st.g s imps with
    | panic x => exact absurd hi (h1 x)
    | err e => intro h; cases h
    | ok g1 =>
      have s1 := step_imports inv hi
      exact checkStmts_noPanic s stmts { st with g := g1 } s1.1 (Nat.lt_of_lt_of_le hs s1.2.1) hok.2 q
theorem checkStmts_noPanic (s : Nat) :
    ∀ (l : List Stmt) (st : St), Inv st.g → s < st.g.scopes.length → Stmt.listOk l = true →
      NoPanic (checkStmts s l st)
  | [], st, _, _, _ => by intro q h; cases h
  | stmt :: rest, st, inv, hs, hok => by
    intro q
    simp only [Stmt.listOk, Bool.and_eq_true] at hok
    unfold checkStmts
    have h1 := checkStmt_noPanic s stmt st inv hs hok.1
    cases hc : checkStmt s stmt st with
    | panic x => exact absurd hc (h1 x)
    | err e => intro h; cases h
    | ok st1 =>
      have s1 := step_checkStmt s stmt st st1 inv hs hc
      exact checkStmts_noPanic s rest st1 s1.1 (Nat.lt_of_lt_of_le hs s1.2.1) hok.2 q
theorem checkStmt_noPanic (s : Nat) :
    ∀ (stmt : Stmt) (st : St), Inv st.g → s < st.g.scopes.length → stmt.importsOk = true →
      NoPanic (checkStmt s stmt st)
  | .letv x tag, st, _, _, _ => by
    intro q
    unfold checkStmt
    simp only [Graph.insertDecl]
    cases st.g.decl ⟨s, x⟩ <;> (intro h; cases h)
  | .block b, st, inv, hs, hok => by
    intro q
    simp only [Stmt.importsOk] at hok
    unfold checkStmt
    simp only
    have s1 : Step st.g (st.g.wrap s (.block st.blockCounter)).1 :=
      step_wrap_other inv s _ hs (by intro n pm hc; cases hc)
    exact checkBlock_noPanic _ b _ s1.1 (by simp only [wrap_snd, wrap_length]; omega) hok q
  | .probe id k p, st, _, _, _ => by intro q h; cases h
  | .param x tag, st, _, _, _ => by intro q h; cases h
end

theorem declareParams_noPanic (s : Nat) :
    ∀ (ps : List (Name × Nat)) (g : Graph), NoPanic (declareParams s ps g) := by
  intro ps
  induction ps with
  | nil => intro g q h; cases h
  | cons p rest ih =>
    intro g q
    obtain ⟨x, tag⟩ := p
    unfold declareParams
    simp only [Graph.insertDecl]
    cases g.decl ⟨s, x⟩ with
    | some d => intro h; cases h
    | none => exact ih _ q

theorem checkItems_noPanic (s : Nat) :
    ∀ (items : List Item) (st : St), Inv st.g → s < st.g.scopes.length →
      items.all Item.importsOk = true → NoPanic (checkItems s items st) := by
  intro items
  induction items with
  | nil => intro st _ _ _ q h; cases h
  | cons it rest ih =>
    intro st inv hs hok q
    simp only [List.all_cons, Bool.and_eq_true] at hok
    cases it with
    | fn n tag body =>
      unfold checkItems
      simp only
      have s0 : Step st.g (st.g.wrap s (.function n)).1 :=
        step_wrap_other inv s _ hs (by intro a b hc; cases hc)
      have hp := declareParams_noPanic (st.g.wrap s (.function n)).2 (paramsOf body) (st.g.wrap s (.function n)).1
      cases hpar : declareParams (st.g.wrap s (.function n)).2 (paramsOf body) (st.g.wrap s (.function n)).1 with
      | panic x => exact absurd hpar (hp x)
      | err e => intro h; cases h
      | ok gp =>
        simp only
        obtain ⟨sp, hlp⟩ := step_declareParams _ _ _ gp s0.1 hpar
        have hlen : (st.g.wrap s (.function n)).2 < gp.scopes.length := by
          simp only [wrap_snd]; rw [hlp, wrap_length]; omega
        have hb := checkBlock_noPanic (st.g.wrap s (.function n)).2 body { st with g := gp } sp.1 hlen hok.1
        cases hc : checkBlock (st.g.wrap s (.function n)).2 body { st with g := gp } with
        | panic x => exact absurd hc (hb x)
        | err e => intro h; cases h
        | ok st1 =>
          have s1 := step_checkBlock _ body _ st1 sp.1 hlen hc
          have s01 := step_trans s0 (step_trans sp s1)
          exact ih st1 s1.1 (Nat.lt_of_lt_of_le hs s01.2.1) hok.2 q
    | const n tag =>
      unfold checkItems
      simp only
      have s0 : Step st.g (st.g.wrap s (.function n)).1 :=
        step_wrap_other inv s _ hs (by intro a b hc; cases hc)
      exact ih _ s0.1 (Nat.lt_of_lt_of_le hs s0.2.1) hok.2 q
    | sigProbe id k p =>
      unfold checkItems
      simp only
      have s0 : Step st.g (st.g.wrap s (.function (1000 + id))).1 :=
        step_wrap_other inv s _ hs (by intro a b hc; cases hc)
      exact ih _ s0.1 (Nat.lt_of_lt_of_le hs s0.2.1) hok.2 q
    | ty n tag => unfold checkItems; exact ih st inv hs hok.2 q
    | imports ps => unfold checkItems; exact ih st inv hs hok.2 q

theorem checkTree_noPanic :
    ∀ (l : List (Nat × Module)) (st : St), Inv st.g →
      (∀ x ∈ l, x.1 < st.g.scopes.length ∧ x.2.importsOk = true) → NoPanic (checkTree l st) := by
  intro l
  induction l with
  | nil => intro st _ _ q h; cases h
  | cons x rest ih =>
    intro st inv hv q
    obtain ⟨s, m⟩ := x
    unfold checkTree
    obtain ⟨hs, hok⟩ := hv (s, m) List.mem_cons_self
    have h1 := checkItems_noPanic s m.items st inv hs hok
    cases hc : checkItems s m.items st with
    | panic x => exact absurd hc (h1 x)
    | err e => intro h; cases h
    | ok st1 =>
      have s1 := step_checkItems s m.items st st1 inv hs hc
      exact ih st1 s1.1 (fun y hy =>
        ⟨Nat.lt_of_lt_of_le (hv y (List.mem_cons_of_mem _ hy)).1 s1.2.1, (hv y (List.mem_cons_of_mem _ hy)).2⟩) q

theorem importPathsOf_ok : ∀ (items : List Item), items.all Item.importsOk = true →
    ∀ p ∈ importPathsOf items, p ≠ [] := by
  intro items
  induction items with
  | nil => intro _ p hp; cases hp
  | cons it rest ih =>
    intro hok p hp
    simp only [List.all_cons, Bool.and_eq_true] at hok
    cases it with
    | imports ps =>
      simp only [importPathsOf, List.mem_append] at hp
      rcases hp with hp | hp
      · exact all_nonempty hok.1 p hp
      · exact ih hok.2 p hp
    | fn n t b => exact ih hok.2 p hp
    | const n t => exact ih hok.2 p hp
    | ty n t => exact ih hok.2 p hp
    | sigProbe i k q => exact ih hok.2 p hp

theorem declareImports_noPanic :
    ∀ (l : List (Nat × Module)) (g : Graph), Inv g →
      (∀ x ∈ l, x.1 < g.scopes.length ∧ x.2.importsOk = true) → NoPanic (declareImports l g) := by
  intro l
  induction l with
  | nil => intro g _ _ q h; cases h
  | cons x rest ih =>
    intro g inv hv q
    obtain ⟨s, m⟩ := x
    unfold declareImports
    obtain ⟨hs, hok⟩ := hv (s, m) List.mem_cons_self
    have h1 := imports_noPanic inv s hs (importPathsOf m.items) (importPathsOf_ok m.items hok)
    cases hi : imports g s (importPathsOf m.items) with
    | panic x => exact absurd hi (h1 x)
    | err e => intro h; cases h
    | ok g1 =>
      have s1 := step_imports inv hi
      exact ih g1 s1.1 (fun y hy =>
        ⟨Nat.lt_of_lt_of_le (hv y (List.mem_cons_of_mem _ hy)).1 s1.2.1, (hv y (List.mem_cons_of_mem _ hy)).2⟩) q

theorem declareItems_noPanic (s : Nat) :
    ∀ (items : List Item) (g : Graph), NoPanic (declareItems s items g) := by
  intro items
  induction items with
  | nil => intro g q h; cases h
  | cons it rest ih =>
    intro g q
    cases it with
    | fn n tag body =>
      unfold declareItems
      simp only [Graph.insertDecl]
      cases g.decl ⟨s, n⟩ with
      | some d => intro h; cases h
      | none => exact ih _ q
    | const n tag =>
      unfold declareItems
      simp only [Graph.insertDecl]
      cases g.decl ⟨s, n⟩ with
      | some d => intro h; cases h
      | none => exact ih _ q
    | ty n tag =>
      unfold declareItems
      simp only [Graph.insertDecl]
      cases (g.wrap s (.type n)).1.decl ⟨s, n⟩ with
      | some d => intro h; cases h
      | none => exact ih _ q
    | imports ps => unfold declareItems; exact ih g q
    | sigProbe id k p => unfold declareItems; exact ih g q

/-- every module's parent comes earlier in the list (what `FileTree::file_spec`
    and `FileTree::directory` produce) -/
def ParentsBefore (done : Nat) (ms : List Module) : Prop :=
  ∀ (i : Nat) (m : Module), ms[i]? = some m → ∀ p, m.parent = some p → p < done + i

theorem declareModules_noPanic :
    ∀ (ms : List Module) (mods : List Nat) (g : Graph), ParentsBefore mods.length ms →
      NoPanic (declareModules ms mods g) := by
  intro ms
  induction ms with
  | nil => intro mods g _ q h; cases h
  | cons m rest ih =>
    intro mods g hpb q
    unfold declareModules
    simp only
    have hp : NoPanic (parentScopeOf mods m.parent) := by
      intro x
      unfold parentScopeOf
      cases hpar : m.parent with
      | none => intro h; cases h
      | some p =>
        simp only
        have := hpb 0 m rfl p hpar
        have hget : mods[p]? = some mods[p] := List.getElem?_eq_getElem (by omega)
        rw [hget]
        intro h; cases h
    cases hps : parentScopeOf mods m.parent with
    | panic x => exact absurd hps (hp x)
    | err e => intro h; cases h
    | ok pmv =>
      simp only [Graph.insertDecl]
      cases (g.wrap 0 (.module ⟨pmv.getD 0, m.ident⟩ pmv)).1.decl ⟨pmv.getD 0, m.ident⟩ with
      | some d => intro h; cases h
      | none =>
        simp only
        have hit := declareItems_noPanic (g.wrap 0 (.module ⟨pmv.getD 0, m.ident⟩ pmv)).2 m.items
        cases hi : declareItems (g.wrap 0 (.module ⟨pmv.getD 0, m.ident⟩ pmv)).2 m.items _ with
        | panic x => exact absurd hi (hit _ x)
        | err e => intro h; cases h
        | ok g3 =>
          simp only
          apply ih
          intro i mi hmi p hpar
          have := hpb (i + 1) mi (by simpa using hmi) p hpar
          simp only [List.length_append, List.length_cons, List.length_nil]
          omega

/-- **The name-relevant part of `check_module_tree` cannot panic.** -/
theorem checkModuleTree_noPanic {g0 : Graph} (inv : Inv g0) (ms : List Module)
    (hpb : ParentsBefore 0 ms) (hok : ∀ m ∈ ms, m.importsOk = true) :
    NoPanic (checkModuleTree g0 ms) := by
  intro q
  unfold checkModuleTree
  have h1 := declareModules_noPanic ms [] g0 (by simpa using hpb)
  cases hd : declareModules ms [] g0 with
  | panic x => exact absurd hd (h1 x)
  | err e => intro h; cases h
  | ok pr =>
    obtain ⟨g1, mods⟩ := pr
    simp only
    obtain ⟨s1, hm1, _⟩ := step_declareModules ms [] g0 g1 mods inv (by intro x hx; cases hx) hd
    have hv1 : ∀ x ∈ mods.zip ms, x.1 < g1.scopes.length ∧ x.2.importsOk = true := by
      intro x hx
      obtain ⟨hx1, hx2⟩ := List.of_mem_zip hx
      obtain ⟨sc, _, _, hs, _⟩ := hm1 x.1 hx1
      exact ⟨getElem?_lt hs, hok x.2 hx2⟩
    have h2 := declareImports_noPanic _ g1 s1.1 hv1
    cases hi : declareImports (mods.zip ms) g1 with
    | panic x => exact absurd hi (h2 x)
    | err e => intro h; cases h
    | ok g2 =>
      simp only
      have s2 := step_declareImports _ g1 g2 s1.1 hi
      have hv2 : ∀ x ∈ mods.zip ms, x.1 < g2.scopes.length ∧ x.2.importsOk = true :=
        fun x hx => ⟨Nat.lt_of_lt_of_le (hv1 x hx).1 s2.2.1, (hv1 x hx).2⟩
      have h3 := checkTree_noPanic _ ⟨g2, 0, sigProbes g2 (mods.zip ms)⟩ s2.1 hv2
      cases ht : checkTree (mods.zip ms) ⟨g2, 0, sigProbes g2 (mods.zip ms)⟩ with
      | panic x => exact absurd ht (h3 x)
      | err e => intro h; cases h
      | ok st => intro h; cases h

end RotoV.Scope
