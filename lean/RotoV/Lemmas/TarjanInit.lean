/-
  C14, lemmas about the fourth layer (`Model/TarjanInit`): an arm all of whose
  actions are straight-line code does the same for every layout size, and a loop
  whose constant arm is the modelled one traces every initialiser once, in list
  order, whatever the types of the constants.
-/
import RotoV.Model.TarjanInit

namespace RotoV.Tarjan

theorem armActs_of_allAlways (arm : List (CgGuard × CgAct)) (h : allAlways arm = true) (sz : Nat) :
    armActs arm sz = some (arm.map Prod.snd) := by
  induction arm with
  | nil => rfl
  | cons p rest ih =>
    obtain ⟨g, a⟩ := p
    simp only [allAlways, List.all_cons, Bool.and_eq_true, beq_iff_eq] at h
    obtain ⟨hg, hrest⟩ := h
    have ih' := ih (by simpa [allAlways] using hrest)
    subst hg
    simp [armActs, CgGuard.holds, ih']

/-- the modelled arm on a constant all of whose reads are stored -/
theorem iArm_model (i : Nat) (d : CDecl) (st : IState)
    (hreads : d.init.reads.all st.store.contains = true) :
    iArm i d modelConstantArm st
      = .ok ⟨st.trace ++ d.init.effs, st.store ++ [i], st.defined ++ [i]⟩ := by
  simp [modelConstantArm, iArm, iAct, hreads, bind, Except.bind]

/-- the modelled arm stops at `define` when a read constant is not stored -/
theorem iArm_model_panic (i : Nat) (d : CDecl) (st : IState)
    (hreads : d.init.reads.all st.store.contains = false) :
    iArm i d modelConstantArm st = .error .panic := by
  simp [modelConstantArm, iArm, iAct, hreads, bind, Except.bind]

theorem iLoop_model (arm : Nat → Option (List CgAct)) (harm : ∀ sz, arm sz = some modelConstantArm) :
    ∀ (ds : List CDecl) (i : Nat) (st : IState), st.store = List.range i → depsEarlier i ds = true →
      iLoop arm i ds st
        = .ok ⟨st.trace ++ wantTrace ds, List.range (i + ds.length), st.defined ++ List.range' i ds.length⟩ := by
  intro ds
  induction ds with
  | nil =>
    intro i st hs _
    simp [iLoop, wantTrace, ← hs]
  | cons d rest ih =>
    intro i st hs hd
    simp only [depsEarlier, Bool.and_eq_true] at hd
    obtain ⟨hr, hrest⟩ := hd
    have hreads : d.init.reads.all st.store.contains = true := by
      rw [hs]
      simp only [List.all_eq_true, decide_eq_true_eq] at hr ⊢
      intro c hc
      simpa using hr c hc
    simp only [iLoop, harm, iArm_model i d st hreads, bind, Except.bind]
    rw [ih (i + 1) _ (by simp [hs, List.range_succ]) hrest]
    simp [wantTrace, List.range'_succ, Nat.add_assoc, Nat.add_comm 1]

end RotoV.Tarjan
