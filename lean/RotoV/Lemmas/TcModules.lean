/-
  Helper lemmas about `Model/TcModules.lean` (C07, scoping rules for packages of
  several modules); the property theorems are in `Props/C07Scope.lean`.
-/
import RotoV.Model.TcModules

namespace RotoV.TcModules

theorem mem_of_lookup {α β} [BEq α] [LawfulBEq α] (l : List (α × β)) (x : α) (e : β)
    (h : l.lookup x = some e) : (x, e) ∈ l := by
  induction l with
  | nil => simp at h
  | cons hd tl ih =>
    obtain ⟨k, v⟩ := hd
    simp only [List.lookup] at h
    by_cases hk : x == k
    · simp only [hk] at h
      have : x = k := by simpa using hk
      subst this
      simp at h
      subst h
      exact List.mem_cons_self
    · simp only [hk] at h
      exact List.mem_cons_of_mem _ (ih h)

theorem childrenOf_eraseImports (p : Pkg) (i : Nat) : childrenOf (eraseImports p) i = childrenOf p i := by
  unfold childrenOf eraseImports
  simp only [List.length_map, List.getElem?_map]
  congr 1
  funext j
  cases p.mods[j]? <;> rfl

theorem itemsOf_eraseImports (p : Pkg) (i : Nat) : itemsOf (eraseImports p) i = itemsOf p i := by
  unfold itemsOf eraseImports
  simp only [List.getElem?_map]
  cases p.mods[i]? <;> rfl

end RotoV.TcModules
