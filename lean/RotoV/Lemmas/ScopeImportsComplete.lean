/-
  Completeness of the retain-until-no-progress loop of `imports` (C13).

  * `imports_complete`: `imports` gives up only at a fixpoint — when it reports
    an error, a sub-list of the paths has been imported (sequentially) and EVERY
    remaining path fails in the state reached; when it succeeds, all paths were
    imported sequentially in some order.
  * a dependency chain `import cc.dd; import dd.ee; import ee.hh;` is accepted in
    all six orders (and a 5-chain in reversed order), with the same aliases;
  * the two-pass variant (one retain pass, then one reporting pass) is refuted by
    the reversed 3-chain, and by nothing smaller.
-/
import RotoV.Model.Scope
import RotoV.Lemmas.Scope
import RotoV.Lemmas.ScopeBuild
import RotoV.Lemmas.ScopeTermination
import RotoV.Lemmas.ScopeImports
import RotoV.Lemmas.ScopeNoPanic
import RotoV.Lemmas.ScopeWitness
import RotoV.Lemmas.ScopeAlias

namespace RotoV.Scope

/-- a two-pass variant (one retain pass, then one sequential pass that reports errors) -/
def importsTwoPass (g : Graph) (s : Nat) (paths : List Path) : Res Graph :=
  match retainPass s g paths with
  | .panic x => .panic x
  | .err e => .err e
  | .ok (g', rem) => importAll s g' rem

/-! ## the fixpoint is complete -/

theorem importAll_append {s : Nat} :
    ∀ (a : List Path) (g g' : Graph) (b : List Path),
      importAll s g a = .ok g' → importAll s g (a ++ b) = importAll s g' b := by
  intro a
  induction a with
  | nil =>
    intro g g' b h
    simp only [importAll, Res.ok.injEq] at h
    subst h
    rfl
  | cons p a ih =>
    intro g g' b h
    simp only [List.cons_append, importAll] at h ⊢
    cases hi : importOne g s p with
    | ok g1 =>
      rw [hi] at h
      simp only at h ⊢
      exact ih g1 g' b h
    | err e => rw [hi] at h; cases h
    | panic x => rw [hi] at h; cases h

/-- a retain pass never reports an error itself -/
theorem retainPass_not_err {s : Nat} :
    ∀ (ps : List Path) (g : Graph) (e : Err), retainPass s g ps ≠ .err e := by
  intro ps
  induction ps with
  | nil => intro g e h; cases h
  | cons p ps ih =>
    intro g e
    unfold retainPass
    cases hi : importOne g s p with
    | panic x => intro h; cases h
    | ok g1 =>
      simp only
      have := ih g1
      cases hr : retainPass s g1 ps with
      | panic x => intro h; cases h
      | err e' => exact absurd hr (this e')
      | ok pr => intro h; cases h
    | err e0 =>
      simp only
      have := ih g
      cases hr : retainPass s g ps with
      | panic x => intro h; cases h
      | err e' => exact absurd hr (this e')
      | ok pr => intro h; cases h

/-- one retain pass: the paths split (order-preservingly) into those imported,
    one after the other, and those retained -/
theorem retainPass_split {s : Nat} :
    ∀ (ps : List Path) (g g' : Graph) (rem : List Path),
      retainPass s g ps = .ok (g', rem) →
      ∃ done, (done ++ rem).Perm ps ∧ importAll s g done = .ok g' ∧
        rem.Sublist ps ∧ done.Sublist ps := by
  intro ps
  induction ps with
  | nil =>
    intro g g' rem h
    simp only [retainPass, Res.ok.injEq, Prod.mk.injEq] at h
    obtain ⟨hg, hrem⟩ := h
    subst hg hrem
    exact ⟨[], List.Perm.refl _, rfl, List.Sublist.refl _, List.Sublist.refl _⟩
  | cons p ps ih =>
    intro g g' rem h
    unfold retainPass at h
    cases hi : importOne g s p with
    | panic x => rw [hi] at h; cases h
    | ok g1 =>
      rw [hi] at h
      simp only at h
      cases hr : retainPass s g1 ps with
      | panic x => rw [hr] at h; cases h
      | err e => rw [hr] at h; cases h
      | ok pr =>
        rw [hr] at h
        obtain ⟨g2, rem2⟩ := pr
        simp only [Res.ok.injEq, Prod.mk.injEq] at h
        obtain ⟨hg, hrem⟩ := h
        subst hg hrem
        obtain ⟨done, hp, ha, hs1, hs2⟩ := ih g1 g2 rem2 hr
        refine ⟨p :: done, List.Perm.cons p hp, ?_, List.Sublist.cons p hs1, List.Sublist.cons_cons p hs2⟩
        simp only [importAll, hi]
        exact ha
    | err e =>
      rw [hi] at h
      simp only at h
      cases hr : retainPass s g ps with
      | panic x => rw [hr] at h; cases h
      | err e => rw [hr] at h; cases h
      | ok pr =>
        rw [hr] at h
        obtain ⟨g2, rem2⟩ := pr
        simp only [Res.ok.injEq, Prod.mk.injEq] at h
        obtain ⟨hg, hrem⟩ := h
        subst hg hrem
        obtain ⟨done, hp, ha, hs1, hs2⟩ := ih g g2 rem2 hr
        exact ⟨done, List.perm_middle.trans (List.Perm.cons p hp), ha,
          List.Sublist.cons_cons p hs1, List.Sublist.cons p hs2⟩

/-- the outcome specification of the import loop: `r` is the result of importing
    the list `ps` into scope `s` of `g` -/
def Complete (s : Nat) (g : Graph) (ps : List Path) (r : Res Graph) : Prop :=
  (∃ g' qs, qs.Perm ps ∧ importAll s g qs = .ok g' ∧ r = .ok g') ∨
  (∃ g' done p rem e, (done ++ p :: rem).Perm ps ∧ importAll s g done = .ok g' ∧
      (∀ q ∈ p :: rem, ∃ e', importOne g' s q = .err e') ∧ importOne g' s p = .err e ∧
      r = .err e) ∨
  (∃ x, r = .panic x)

theorem importsF_complete {s : Nat} :
    ∀ (fuel : Nat) (g : Graph) (ps : List Path), ps.length < fuel →
      Complete s g ps (importsF s fuel g ps) := by
  intro fuel
  induction fuel with
  | zero => intro g ps h; omega
  | succ n ih =>
    intro g ps hlen
    unfold importsF
    cases hr : retainPass s g ps with
    | panic x => exact Or.inr (Or.inr ⟨x, rfl⟩)
    | err e => exact absurd hr (retainPass_not_err ps g e)
    | ok pr =>
      obtain ⟨g1, rem⟩ := pr
      simp only
      have hle := retainPass_len ps g g1 rem hr
      obtain ⟨done, hperm, hdone, _, _⟩ := retainPass_split ps g g1 rem hr
      by_cases h0 : rem.length = 0
      · rw [if_pos h0]
        have hnil : rem = [] := List.eq_nil_of_length_eq_zero h0
        subst hnil
        refine Or.inl ⟨g1, done, ?_, hdone, rfl⟩
        simpa using hperm
      · rw [if_neg h0]
        by_cases heq : rem.length = ps.length
        · rw [if_pos heq]
          obtain ⟨hg, hrem, hall⟩ := retainPass_stuck ps g g1 rem hr heq
          subst hg hrem
          cases rem with
          | nil => simp at h0
          | cons p rest =>
            obtain ⟨e, he⟩ := hall p List.mem_cons_self
            refine Or.inr (Or.inl ⟨_, [], p, rest, e, List.Perm.refl _, rfl, hall, he, ?_⟩)
            simp [importAll, he]
        · rw [if_neg heq]
          have hrec := ih g1 rem (by omega)
          rcases hrec with ⟨g', qs, hq, ha, hres⟩ | ⟨g', done', p, rem', e, hq, ha, hall, he, hres⟩ | ⟨x, hx⟩
          · refine Or.inl ⟨g', done ++ qs, ?_, ?_, hres⟩
            · exact (List.Perm.append_left done hq).trans hperm
            · rw [importAll_append done g g1 qs hdone]; exact ha
          · refine Or.inr (Or.inl ⟨g', done ++ done', p, rem', e, ?_, ?_, hall, he, hres⟩)
            · rw [List.append_assoc]; exact (List.Perm.append_left done hq).trans hperm
            · rw [importAll_append done g g1 done' hdone]; exact ha
          · exact Or.inr (Or.inr ⟨x, hx⟩)

/-- **`imports` is complete, on every graph.** It gives up only at a fixpoint: when
    it returns an error, some of the paths (`done`, in the order they were
    processed) have been imported one after the other, giving `g'`, and EVERY
    remaining path fails in `g'` — no import that is resolvable in the state
    reached is ever reported as an error; the error reported is that of the
    first remaining path.  When it succeeds, all paths were imported
    sequentially in some order.  (No well-formedness of `g` is needed; the third
    case is a panic of one of the `import`s themselves.) -/
theorem imports_complete_gen (g : Graph) (s : Nat) (ps : List Path) :
    (∃ g' qs, qs.Perm ps ∧ importAll s g qs = .ok g' ∧ imports g s ps = .ok g') ∨
    (∃ g' done p rem e, (done ++ p :: rem).Perm ps ∧ importAll s g done = .ok g' ∧
        (∀ q ∈ p :: rem, ∃ e', importOne g' s q = .err e') ∧ importOne g' s p = .err e ∧
        imports g s ps = .err e) ∨
    (∃ x, imports g s ps = .panic x) :=
  importsF_complete (ps.length + 1) g ps (Nat.lt_succ_self _)

/-- `imports_complete_gen` on the graphs the checker builds: the loop itself never
    runs out of rounds. -/
theorem imports_complete (g : Graph) (inv : Inv g) (s : Nat) (ps : List Path) :
    (∃ g' qs, qs.Perm ps ∧ importAll s g qs = .ok g' ∧ imports g s ps = .ok g') ∨
    (∃ g' done p rem e, (done ++ p :: rem).Perm ps ∧ importAll s g done = .ok g' ∧
        (∀ q ∈ p :: rem, ∃ e', importOne g' s q = .err e') ∧ importOne g' s p = .err e ∧
        imports g s ps = .err e) ∨
    (∃ x, x ≠ Site.fuel ∧ imports g s ps = .panic x) := by
  rcases imports_complete_gen g s ps with h | h | ⟨x, hx⟩
  · exact Or.inl h
  · exact Or.inr (Or.inl h)
  · refine Or.inr (Or.inr ⟨x, ?_, hx⟩)
    intro hf
    subst hf
    exact imports_no_fuel inv s ps hx

/-- … and for an existing scope and non-empty paths (what the parser produces)
    there is no panic at all: success in some order, or a true fixpoint. -/
theorem imports_complete_total (g : Graph) (inv : Inv g) (s : Nat) (hs : s < g.scopes.length)
    (ps : List Path) (hne : ∀ p ∈ ps, p ≠ []) :
    (∃ g' qs, qs.Perm ps ∧ importAll s g qs = .ok g' ∧ imports g s ps = .ok g') ∨
    (∃ g' done p rem e, (done ++ p :: rem).Perm ps ∧ importAll s g done = .ok g' ∧
        (∀ q ∈ p :: rem, ∃ e', importOne g' s q = .err e') ∧ importOne g' s p = .err e ∧
        imports g s ps = .err e) := by
  rcases imports_complete_gen g s ps with h | h | ⟨x, hx⟩
  · exact Or.inl h
  · exact Or.inr h
  · exact absurd hx (imports_noPanic inv s hs ps hne x)

/-- an error of `imports` means that NO remaining path is importable in the state
    reached -/
theorem imports_resolvable_not_rejected (g : Graph) (s : Nat) (ps : List Path) (e : Err)
    (h : imports g s ps = .err e) :
    ∃ g' done rem, (done ++ rem).Perm ps ∧ rem ≠ [] ∧ importAll s g done = .ok g' ∧
      ∀ q ∈ rem, ∀ g'', importOne g' s q ≠ .ok g'' := by
  rcases imports_complete_gen g s ps with ⟨g', qs, _, _, hres⟩ | ⟨g', done, p, rem, e', hq, ha, hall, _, _⟩ | ⟨x, hx⟩
  · rw [h] at hres; cases hres
  · refine ⟨g', done, p :: rem, hq, (by intro hc; cases hc), ha, ?_⟩
    intro q hq g'' hc
    obtain ⟨e'', he⟩ := hall q hq
    rw [he] at hc
    cases hc
  · rw [h] at hx; cases hx

/-! ## the chain witness -/

/-- `pkg { cc { dd { ee { fn hh #105 } } } }` (cc = 5, dd = 10, ee = 11, hh = 12) -/
def chainMods : List Module :=
  [ ⟨PKG, none, []⟩, ⟨5, some 0, []⟩, ⟨10, some 1, []⟩, ⟨11, some 2, [.fn 12 105 (.mk [] [])]⟩ ]

/-- the graph after `declare_modules` (scopes: 0 root, 1 pkg, 2 pkg.cc, 3 pkg.cc.dd,
    4 pkg.cc.dd.ee), plus the scope (5) of a function of `pkg` -/
def chainGraph : Graph :=
  match declareModules chainMods [] Graph.new with
  | .ok (g, _) => (g.wrap 1 (.function 20)).1
  | _ => Graph.new

/-- the function scope the imports are written in -/
def chainS : Nat := 5
/-- `import cc.dd;` -/
def cp1 : Path := [5, 10]
/-- `import dd.ee;` -/
def cp2 : Path := [10, 11]
/-- `import ee.hh;` -/
def cp3 : Path := [11, 12]

theorem chain_inv : Inv chainGraph := by
  unfold chainGraph
  cases h : declareModules chainMods [] Graph.new with
  | ok pr =>
    obtain ⟨g, mods⟩ := pr
    simp only
    obtain ⟨s, _, _⟩ := step_declareModules _ _ _ _ _ inv_new (by intro x hx; cases hx) h
    have hl : (match declareModules chainMods [] Graph.new with
        | .ok (g, _) => decide (1 < g.scopes.length) | _ => false) = true := by decide
    rw [h] at hl
    exact inv_wrap_other s.1 1 _ (by simpa using hl) (by intro n pm hc; cases hc)
  | err e =>
    have : (declareModules chainMods [] Graph.new).isOk = true := by decide
    rw [h] at this; cases this
  | panic p =>
    have : (declareModules chainMods [] Graph.new).isOk = true := by decide
    rw [h] at this; cases this

/-- the entry of alias `x` in the import table of scope `s` -/
def aliasOf (g : Graph) (s : Nat) (x : Name) : Option RName :=
  match g.scopes[s]? with
  | some sc => sc.imports.lookup x
  | none => none

/-- the aliases `xs` of scope `s` after a successful run -/
def aliasesOf (r : Res Graph) (s : Nat) (xs : List Name) : Option (List (Option RName)) :=
  match r with
  | .ok g => some (xs.map (aliasOf g s))
  | _ => none

theorem isOk_ex {α} {r : Res α} (h : r.isOk = true) : ∃ a, r = .ok a := by
  cases r with
  | ok a => exact ⟨a, rfl⟩
  | err e => cases h
  | panic x => cases h

/-- the six orders of the 3-chain -/
def chain3Orders : List (List Path) :=
  [[cp1, cp2, cp3], [cp1, cp3, cp2], [cp2, cp1, cp3], [cp2, cp3, cp1], [cp3, cp1, cp2], [cp3, cp2, cp1]]

/-- **the chain is accepted in every order**, with the same aliases:
    `dd ↦ pkg.cc.dd`, `ee ↦ pkg.cc.dd.ee`, `hh ↦ pkg.cc.dd.ee.hh` -/
theorem chain3_all_orders :
    ∀ ps ∈ chain3Orders,
      aliasesOf (imports chainGraph chainS ps) chainS [10, 11, 12]
        = some [some ⟨2, 10⟩, some ⟨3, 11⟩, some ⟨4, 12⟩] := by
  decide

/-- `chain3_all_orders` with the result graph named -/
theorem chain3_all_orders_ex :
    ∀ ps ∈ chain3Orders, ∃ g', imports chainGraph chainS ps = .ok g' ∧
      aliasOf g' chainS 10 = some ⟨2, 10⟩ ∧ aliasOf g' chainS 11 = some ⟨3, 11⟩ ∧
      aliasOf g' chainS 12 = some ⟨4, 12⟩ := by
  intro ps hps
  have h := chain3_all_orders ps hps
  cases hi : imports chainGraph chainS ps with
  | ok g' =>
    rw [hi] at h
    simp only [aliasesOf, List.map_cons, List.map_nil, Option.some.injEq, List.cons.injEq, and_true] at h
    exact ⟨g', rfl, h⟩
  | err e => rw [hi] at h; cases h
  | panic x => rw [hi] at h; cases h

/-- **the two-pass variant is refuted** by the reversed 3-chain: the real loop
    accepts it, one retain pass plus one reporting pass rejects it
    (`ee` is not yet an alias when `import ee.hh` is retried) … -/
theorem two_pass_refuted :
    (∃ g, imports chainGraph chainS [cp3, cp2, cp1] = .ok g) ∧
    importsTwoPass chainGraph chainS [cp3, cp2, cp1] = .err .notDefined := by
  refine ⟨isOk_ex (by decide), by decide⟩

/-- … and by nothing smaller: on the five other orders of the 3-chain the
    two-pass variant returns exactly what `imports` returns (success), -/
theorem two_pass_other_orders :
    ∀ ps ∈ [[cp1, cp2, cp3], [cp1, cp3, cp2], [cp2, cp1, cp3], [cp2, cp3, cp1], [cp3, cp1, cp2]],
      (importsTwoPass chainGraph chainS ps).isOk = true ∧
      importsTwoPass chainGraph chainS ps = imports chainGraph chainS ps := by
  decide

/-- … as on both orders of every 2-chain inside it, and on single imports. -/
theorem two_pass_two_chain :
    ∀ ps ∈ [[cp1, cp2], [cp2, cp1], [cp1], []],
      (importsTwoPass chainGraph chainS ps).isOk = true ∧
      importsTwoPass chainGraph chainS ps = imports chainGraph chainS ps := by
  decide

/-- the second 2-chain (`import dd.ee; import ee.hh;` once `dd` is imported) -/
theorem two_pass_two_chain' :
    ∃ g1, importOne chainGraph chainS cp1 = .ok g1 ∧
      ∀ ps ∈ [[cp2, cp3], [cp3, cp2]],
        (importsTwoPass g1 chainS ps).isOk = true ∧
        importsTwoPass g1 chainS ps = imports g1 chainS ps := by
  refine ⟨_, rfl, ?_⟩
  decide

/-- **the two-pass variant is incomplete**: it violates the statement of
    `imports_complete` on the witness — it reports an error in a state (reached by
    importing `done = [cc.dd]`) in which a remaining path (`dd.ee`) is importable;
    and the three paths do import one after the other in dependency order. -/
theorem two_pass_incomplete :
    ∃ g' done rem e q g'',
      (done ++ rem).Perm [cp3, cp2, cp1] ∧
      retainPass chainS chainGraph [cp3, cp2, cp1] = .ok (g', rem) ∧
      importAll chainS chainGraph done = .ok g' ∧
      importsTwoPass chainGraph chainS [cp3, cp2, cp1] = .err e ∧
      q ∈ rem ∧ importOne g' chainS q = .ok g'' ∧
      (importAll chainS chainGraph [cp1, cp2, cp3]).isOk = true := by
  refine ⟨_, [cp1], [cp3, cp2], .notDefined, cp2, _, by decide, by decide, rfl, by decide, by decide, rfl, by decide⟩

/-! ## a 5-chain -/

/-- `pkg { cc { dd { ee { gg { kk { fn hh #105 } } } } } }` (gg = 13, kk = 14) -/
def chain5Mods : List Module :=
  [ ⟨PKG, none, []⟩, ⟨5, some 0, []⟩, ⟨10, some 1, []⟩, ⟨11, some 2, []⟩, ⟨13, some 3, []⟩,
    ⟨14, some 4, [.fn 12 105 (.mk [] [])]⟩ ]

/-- scopes 0 root, 1 pkg, 2 … 6 the chain of modules, 7 a function of `pkg` -/
def chain5Graph : Graph :=
  match declareModules chain5Mods [] Graph.new with
  | .ok (g, _) => (g.wrap 1 (.function 20)).1
  | _ => Graph.new

/-- `import kk.hh; import gg.kk; import ee.gg; import dd.ee; import cc.dd;` -/
def chain5Rev : List Path := [[14, 12], [13, 14], [11, 13], [10, 11], [5, 10]]

/-- the reversed 5-chain needs all five rounds of the loop, and gets them -/
theorem chain5_reversed :
    aliasesOf (imports chain5Graph 7 chain5Rev) 7 [10, 11, 13, 14, 12]
      = some [some ⟨2, 10⟩, some ⟨3, 11⟩, some ⟨4, 13⟩, some ⟨5, 14⟩, some ⟨6, 12⟩] ∧
    imports chain5Graph 7 chain5Rev = importAll 7 chain5Graph chain5Rev.reverse ∧
    importsTwoPass chain5Graph 7 chain5Rev = .err .notDefined := by
  decide

/-! ## forced orders: a dependency chain is accepted in every order -/

theorem importAll_cons_ok {s : Nat} {g g' : Graph} {p : Path} {ps : List Path}
    (h : importAll s g (p :: ps) = .ok g') :
    ∃ g1, importOne g s p = .ok g1 ∧ importAll s g1 ps = .ok g' := by
  unfold importAll at h
  cases hi : importOne g s p with
  | ok g1 => rw [hi] at h; exact ⟨g1, rfl, h⟩
  | err e => rw [hi] at h; cases h
  | panic x => rw [hi] at h; cases h

/-- `Forced s g ps`: the paths import one after the other in the order of `ps`,
    and at each step none of the later ones is importable (the order is forced) -/
inductive Forced (s : Nat) : Graph → List Path → Prop
  | nil (g : Graph) : Forced s g []
  | cons (g g1 : Graph) (p : Path) (ps : List Path) :
      importOne g s p = .ok g1 → (∀ q ∈ ps, (importOne g s q).isOk = false) → Forced s g1 ps →
      Forced s g (p :: ps)

/-- whatever part of a forced list has been imported, it is a prefix of it -/
theorem forced_done_prefix {s : Nat} :
    ∀ (done : List Path) (g g' : Graph) (ps rem : List Path), Forced s g ps →
      (done ++ rem).Perm ps → importAll s g done = .ok g' →
      ∃ rem', ps = done ++ rem' ∧ rem'.Perm rem ∧ Forced s g' rem' := by
  intro done
  induction done with
  | nil =>
    intro g g' ps rem hf hp ha
    simp only [importAll, Res.ok.injEq] at ha
    subst ha
    exact ⟨ps, rfl, hp.symm, hf⟩
  | cons d done ih =>
    intro g g' ps rem hf hp ha
    obtain ⟨g1, hd, ha'⟩ := importAll_cons_ok ha
    simp only [List.cons_append] at hp
    have hmem : d ∈ ps := hp.subset List.mem_cons_self
    cases hf with
    | nil => cases hmem
    | cons _ gp p ps' hip hfail hf' =>
      have hdp : d = p := by
        rcases List.mem_cons.mp hmem with h | h
        · exact h
        · have := hfail d h
          rw [hd] at this
          cases this
      subst hdp
      rw [hd] at hip
      cases hip
      obtain ⟨rem', h1, h2, h3⟩ := ih g1 g' ps' rem hf' (List.Perm.cons_inv hp) ha'
      subst h1
      exact ⟨rem', rfl, h2, h3⟩

/-- a forced list never gets stuck: whatever part of it has been imported, one of
    the remaining paths is importable -/
theorem forced_not_stuck {s : Nat} {g g' : Graph} {ps done rem : List Path} {p : Path}
    (hf : Forced s g ps) (hq : (done ++ p :: rem).Perm ps) (ha : importAll s g done = .ok g') :
    ¬ (∀ q ∈ p :: rem, ∃ e', importOne g' s q = .err e') := by
  intro hall
  obtain ⟨rem', h1, h2, h3⟩ := forced_done_prefix done g g' ps (p :: rem) hf hq ha
  cases h3 with
  | nil => have := h2.nil_eq; cases this
  | cons _ g2 r rs hir _ _ =>
    have hmem : r ∈ p :: rem := h2.subset List.mem_cons_self
    obtain ⟨e', he'⟩ := hall r hmem
    rw [he'] at hir
    cases hir

/-- **a forced list is accepted in every order**, with exactly the result of
    importing it sequentially in its own (dependency) order -/
theorem imports_forced_any_order {s : Nat} {g : Graph} {ps : List Path} (hf : Forced s g ps)
    (qs : List Path) (hperm : qs.Perm ps) (hnp : ∀ x, imports g s qs ≠ .panic x) :
    ∃ g', importAll s g ps = .ok g' ∧ imports g s qs = .ok g' := by
  rcases imports_complete_gen g s qs with
    ⟨g', qs', hq, ha, hres⟩ | ⟨g', done, p, rem, e, hq, ha, hall, _, _⟩ | ⟨x, hx⟩
  · obtain ⟨rem', h1, h2, _⟩ :=
      forced_done_prefix qs' g g' ps [] hf (by simpa using hq.trans hperm) ha
    have hnil : rem' = [] := h2.eq_nil
    subst hnil
    rw [List.append_nil] at h1
    subst h1
    exact ⟨g', ha, hres⟩
  · exact absurd hall (forced_not_stuck hf (hq.trans hperm) ha)
  · exact absurd hx (hnp x)

/-- the last segment of a path: the alias an import introduces -/
def lastSeg : Path → Name
  | [] => 0
  | [a] => a
  | _ :: b :: r => lastSeg (b :: r)

theorem lastSeg_eq_getLast : ∀ (l : List Name) (h : l ≠ []), lastSeg l = l.getLast h
  | [], h => absurd rfl h
  | [_], _ => rfl
  | _ :: b :: r, _ => lastSeg_eq_getLast (b :: r) (by simp)

theorem keysOk_importOne {g g' : Graph} (hk : KeysOk g) {s : Nat} {p : Path}
    (h : importOne g s p = .ok g') : KeysOk g' := by
  unfold importOne at h
  cases hr : resolveModulePart g s p with
  | panic x => rw [hr] at h; cases h
  | err e => rw [hr] at h; cases h
  | ok r =>
    rw [hr] at h
    simp only at h
    cases hrest : r.rest with
    | cons a b => rw [hrest] at h; cases h
    | nil => rw [hrest] at h; exact keysOk_insertImport hk h

/-- an import changes nothing but the lookups of its alias, the last segment -/
theorem importOne_sameOn {g g' : Graph} (hk : KeysOk g) {s : Nat} {id : Name} {rest : List Name}
    (hid : id ≠ SUPER) (h : importOne g s (id :: rest) = .ok g') :
    SameOn (· ≠ lastSeg (id :: rest)) g g' := by
  unfold importOne at h
  cases hr : resolveModulePart g s (id :: rest) with
  | panic x => rw [hr] at h; cases h
  | err e => rw [hr] at h; cases h
  | ok r =>
    rw [hr] at h
    simp only at h
    cases hrest : r.rest with
    | cons a b => rw [hrest] at h; cases h
    | nil =>
      rw [hrest] at h
      simp only at h
      have hseg : segments g (if (!false && id = PKG) then 0 else s) id rest (!false) = .ok r := by
        simp only [resolveModulePart] at hr
        unfold supers at hr
        simpa [hid] using hr
      obtain ⟨hn, hlast⟩ := segments_ident hk rest _ id _ r hseg
      have hkey : r.decl.name.ident = lastSeg (id :: rest) := by
        rw [hn, hlast hrest, lastSeg_eq_getLast (id :: rest) (by simp)]
      rw [← hkey]
      exact insertImport_sameExcept h

/-- a path whose first segment is not visible is not importable -/
theorem importOne_head_invisible {g : Graph} {s : Nat} {a : Name} {rest : List Name}
    (h1 : a ≠ SUPER) (h2 : a ≠ PKG) (h3 : g.resolve s a true = .ok none) :
    importOne g s (a :: rest) = .err .notDefined := by
  have hsup : supers g s a rest false = segments g s a rest true := by
    unfold supers
    simp [h1, h2]
  have hseg : segments g s a rest true = .err .notDefined := by
    unfold segments
    simp [h1, h3]
  simp only [importOne, resolveModulePart, hsup, hseg]

/-- `Linked a ps`: the first path of `ps` starts with `a`, every other one with the
    alias (last segment) of the path before it -/
def Linked : Name → List Path → Prop
  | _, [] => True
  | a, p :: ps => (∃ rest, p = a :: rest) ∧ Linked (lastSeg p) ps

theorem linked_head : ∀ (ps : List Path) (b : Name), Linked b ps → ∀ r ∈ ps,
    ∃ rest, r = b :: rest ∨ ∃ r' ∈ ps, r = lastSeg r' :: rest := by
  intro ps
  induction ps with
  | nil => intro b _ r hr; cases hr
  | cons p ps ih =>
    intro b hl r hr
    simp only [Linked] at hl
    obtain ⟨⟨rest, hp⟩, hl'⟩ := hl
    rcases List.mem_cons.mp hr with h | h
    · subst h; exact ⟨rest, Or.inl hp⟩
    · obtain ⟨rest', h'⟩ := ih (lastSeg p) hl' r h
      rcases h' with h' | ⟨r', hr', h'⟩
      · exact ⟨rest', Or.inr ⟨p, List.mem_cons_self, h'⟩⟩
      · exact ⟨rest', Or.inr ⟨r', List.mem_cons_of_mem _ hr', h'⟩⟩

/-- a dependency chain is a forced list -/
theorem forced_of_chain {s : Nat} :
    ∀ (ps : List Path) (g g' : Graph) (id : Name) (rest : List Name), KeysOk g → id ≠ SUPER →
      importAll s g ((id :: rest) :: ps) = .ok g' →
      Linked (lastSeg (id :: rest)) ps →
      (lastSeg (id :: rest) :: ps.map lastSeg).Nodup →
      (∀ q ∈ ps, ∃ a r, q = a :: r ∧ a ≠ SUPER ∧ a ≠ PKG ∧ g.resolve s a true = .ok none) →
      Forced s g ((id :: rest) :: ps) := by
  intro ps
  induction ps with
  | nil =>
    intro g g' id rest hk hid hseq _ _ _
    obtain ⟨g1, hi, _⟩ := importAll_cons_ok hseq
    exact .cons g g1 _ [] hi (by intro q hq; cases hq) (.nil g1)
  | cons q ps ih =>
    intro g g' id rest hk hid hseq hl hnd hinv
    obtain ⟨g1, hi, hseq'⟩ := importAll_cons_ok hseq
    have hsame := importOne_sameOn hk hid hi
    have hk1 := keysOk_importOne hk hi
    refine .cons g g1 _ _ hi ?_ ?_
    · intro r hr
      obtain ⟨a, t, hra, h1, h2, h3⟩ := hinv r hr
      rw [hra, importOne_head_invisible h1 h2 h3] <;> rfl
    · obtain ⟨a, t, hq, ha1, ha2, ha3⟩ := hinv q List.mem_cons_self
      subst hq
      simp only [Linked] at hl
      obtain ⟨_, hl'⟩ := hl
      simp only [List.map_cons] at hnd
      have hnd' := List.nodup_cons.mp hnd
      refine ih g1 g' a t hk1 ha1 hseq' hl' hnd'.2 ?_
      intro r hr
      obtain ⟨b, u, hrb, hb1, hb2, hb3⟩ := hinv r (List.mem_cons_of_mem _ hr)
      refine ⟨b, u, hrb, hb1, hb2, ?_⟩
      have hbm : b ∈ lastSeg (a :: t) :: ps.map lastSeg := by
        obtain ⟨w, hw⟩ := linked_head _ _ hl' r hr
        rcases hw with hw | ⟨r', hr', hw⟩
        · have hb := (List.cons.inj (hrb.symm.trans hw)).1
          rw [hb]; exact List.mem_cons_self
        · have hb := (List.cons.inj (hrb.symm.trans hw)).1
          rw [hb]; exact List.mem_cons_of_mem _ (List.mem_map.mpr ⟨r', hr', rfl⟩)
      have hne : b ≠ lastSeg (id :: rest) := by
        intro hc
        rw [hc] at hbm
        exact hnd'.1 hbm
      have hres : g1.resolve s b true = g.resolve s b true :=
        resolveName_sameExcept hsame (s + 1) s b true (fun _ => hne)
      rw [hres]
      exact hb3

/-- **A dependency chain is accepted by `imports` in every order.**  Let the paths
    `p₀, p₁, …, pₙ` import one after the other (`hseq`), let each `pᵢ₊₁` start with
    the alias — the last segment — of `pᵢ` (`hl`), let these aliases be pairwise
    distinct (`hnd`), not `super`, not `pkg` and not visible from the scope before
    the imports (`hinv`).  Then `imports` succeeds on every permutation of the
    list, with exactly the graph of the sequential import in dependency order. -/
theorem imports_chain_any_order {g : Graph} (inv : Inv g) (hk : KeysOk g) {s : Nat}
    (hs : s < g.scopes.length) (id : Name) (rest : List Name) (ps : List Path) (g₁ : Graph)
    (hid : id ≠ SUPER)
    (hseq : importAll s g ((id :: rest) :: ps) = .ok g₁)
    (hl : Linked (lastSeg (id :: rest)) ps)
    (hnd : (lastSeg (id :: rest) :: ps.map lastSeg).Nodup)
    (hinv : ∀ q ∈ ps, ∃ a r, q = a :: r ∧ a ≠ SUPER ∧ a ≠ PKG ∧ g.resolve s a true = .ok none)
    (qs : List Path) (hperm : qs.Perm ((id :: rest) :: ps)) :
    imports g s qs = .ok g₁ := by
  have hf := forced_of_chain ps g g₁ id rest hk hid hseq hl hnd hinv
  have hne : ∀ p ∈ qs, p ≠ [] := by
    intro p hp
    rcases List.mem_cons.mp (hperm.subset hp) with h | h
    · rw [h]; simp
    · obtain ⟨a, r, h', _⟩ := hinv p h
      rw [h']; simp
  obtain ⟨g', h1, h2⟩ := imports_forced_any_order hf qs hperm (imports_noPanic inv s hs qs hne)
  rw [hseq] at h1
  cases h1
  exact h2

theorem chain_keysOk : KeysOk chainGraph := by
  unfold chainGraph
  cases h : declareModules chainMods [] Graph.new with
  | ok pr =>
    obtain ⟨g, mods⟩ := pr
    exact keysOk_wrap (keysOk_declareModules _ _ _ _ _ keysOk_new h) 1 _
  | err e => exact keysOk_new
  | panic p => exact keysOk_new

/-- the general theorem applies to the witness: every permutation of the 3-chain
    gives exactly the graph of the import in dependency order -/
theorem chain3_any_order (qs : List Path) (h : qs.Perm [cp1, cp2, cp3]) :
    imports chainGraph chainS qs = importAll chainS chainGraph [cp1, cp2, cp3] ∧
    (imports chainGraph chainS qs).isOk = true := by
  obtain ⟨g₁, hseq⟩ : ∃ g₁, importAll chainS chainGraph [cp1, cp2, cp3] = .ok g₁ :=
    isOk_ex (by decide)
  have hinv : ∀ q ∈ [cp2, cp3], ∃ a r, q = a :: r ∧ a ≠ SUPER ∧ a ≠ PKG ∧
      chainGraph.resolve chainS a true = .ok none := by
    intro q hq
    simp only [List.mem_cons, List.not_mem_nil, or_false] at hq
    rcases hq with rfl | rfl
    · exact ⟨10, [11], rfl, by decide, by decide, by decide⟩
    · exact ⟨11, [12], rfl, by decide, by decide, by decide⟩
  have hres := imports_chain_any_order chain_inv chain_keysOk (s := chainS) (by decide) 5 [10]
    [cp2, cp3] g₁ (by decide) hseq ⟨⟨[11], rfl⟩, ⟨[12], rfl⟩, trivial⟩ (by decide) hinv qs h
  rw [hseq, hres]
  exact ⟨rfl, rfl⟩

/-- `Forced`, executable -/
def forcedb (s : Nat) : Graph → List Path → Bool
  | _, [] => true
  | g, p :: ps =>
    match importOne g s p with
    | .ok g1 => ps.all (fun q => !(importOne g s q).isOk) && forcedb s g1 ps
    | _ => false

theorem forced_of_forcedb {s : Nat} :
    ∀ (ps : List Path) (g : Graph), forcedb s g ps = true → Forced s g ps := by
  intro ps
  induction ps with
  | nil => intro g _; exact .nil g
  | cons p ps ih =>
    intro g h
    unfold forcedb at h
    cases hi : importOne g s p with
    | ok g1 =>
      rw [hi] at h
      simp only [Bool.and_eq_true, List.all_eq_true, Bool.not_eq_true'] at h
      exact .cons g g1 p ps hi h.1 (ih g1 h.2)
    | err e => rw [hi] at h; cases h
    | panic x => rw [hi] at h; cases h

/-- the 3-chain is a forced list -/
theorem chain3_forced : Forced chainS chainGraph [cp1, cp2, cp3] :=
  forced_of_forcedb _ _ (by decide)

/-- **the two-pass variant does not satisfy the specification `imports` satisfies**
    (`imports_complete_gen`): on the reversed 3-chain its result is not a
    success, not a panic, and not an error at a fixpoint. -/
theorem two_pass_violates_complete :
    ¬ Complete chainS chainGraph [cp3, cp2, cp1] (importsTwoPass chainGraph chainS [cp3, cp2, cp1]) := by
  have hres : importsTwoPass chainGraph chainS [cp3, cp2, cp1] = .err .notDefined := by decide
  rw [hres]
  have hperm : [cp3, cp2, cp1].Perm [cp1, cp2, cp3] := by decide
  rintro (⟨g', qs, _, _, h⟩ | ⟨g', done, p, rem, e, hq, ha, hall, _, _⟩ | ⟨x, h⟩)
  · cases h
  · exact forced_not_stuck chain3_forced (hq.trans hperm) ha hall
  · cases h

/-- … whereas `imports` satisfies it on every input -/
theorem imports_satisfies_complete (g : Graph) (s : Nat) (ps : List Path) :
    Complete s g ps (imports g s ps) :=
  imports_complete_gen g s ps

/-! ## the witness is minimal, on every graph -/

theorem importsF_single (s n : Nat) (g : Graph) (r : Path) :
    importsF s (n + 1) g [r] = importAll s g [r] := by
  cases hi : importOne g s r <;> simp [importsF, retainPass, importAll, hi]

/-- **two passes suffice for at most two imports** (on every graph, in every scope):
    the two-pass variant and `imports` can differ only from three paths on —
    `two_pass_refuted` is a smallest counterexample. -/
theorem two_pass_eq_short (g : Graph) (s : Nat) (ps : List Path) (h : ps.length ≤ 2) :
    importsTwoPass g s ps = imports g s ps := by
  unfold importsTwoPass imports
  unfold importsF
  cases hr : retainPass s g ps with
  | panic x => rfl
  | err e => rfl
  | ok pr =>
    obtain ⟨g1, rem⟩ := pr
    simp only
    have hle := retainPass_len ps g g1 rem hr
    by_cases h0 : rem.length = 0
    · rw [if_pos h0]
      have hnil : rem = [] := List.eq_nil_of_length_eq_zero h0
      subst hnil
      rfl
    · rw [if_neg h0]
      by_cases heq : rem.length = ps.length
      · rw [if_pos heq]
        obtain ⟨hg, hrem, hall⟩ := retainPass_stuck ps g g1 rem hr heq
        subst hg hrem
        cases rem with
        | nil => simp at h0
        | cons p rest =>
          obtain ⟨e, he⟩ := hall p List.mem_cons_self
          simp [importAll, he]
      · rw [if_neg heq]
        have h1 : rem.length = 1 := by omega
        have h2 : ps.length = 2 := by omega
        cases rem with
        | nil => simp at h1
        | cons r t =>
          cases t with
          | cons a b => simp only [List.length_cons] at h1; omega
          | nil =>
            rw [h2]
            exact (importsF_single s 1 g1 r).symm

/-! ## the 5-chain, in all 120 orders, by the general theorem -/

theorem chain5_inv : Inv chain5Graph := by
  unfold chain5Graph
  cases h : declareModules chain5Mods [] Graph.new with
  | ok pr =>
    obtain ⟨g, mods⟩ := pr
    simp only
    obtain ⟨s, _, _⟩ := step_declareModules _ _ _ _ _ inv_new (by intro x hx; cases hx) h
    have hl : (match declareModules chain5Mods [] Graph.new with
        | .ok (g, _) => decide (1 < g.scopes.length) | _ => false) = true := by decide
    rw [h] at hl
    exact inv_wrap_other s.1 1 _ (by simpa using hl) (by intro n pm hc; cases hc)
  | err e =>
    have : (declareModules chain5Mods [] Graph.new).isOk = true := by decide
    rw [h] at this; cases this
  | panic p =>
    have : (declareModules chain5Mods [] Graph.new).isOk = true := by decide
    rw [h] at this; cases this

theorem chain5_keysOk : KeysOk chain5Graph := by
  unfold chain5Graph
  cases h : declareModules chain5Mods [] Graph.new with
  | ok pr =>
    obtain ⟨g, mods⟩ := pr
    exact keysOk_wrap (keysOk_declareModules _ _ _ _ _ keysOk_new h) 1 _
  | err e => exact keysOk_new
  | panic p => exact keysOk_new

/-- every permutation of the 5-chain is accepted, with exactly the graph of the
    import in dependency order -/
theorem chain5_any_order (qs : List Path) (h : qs.Perm chain5Rev) :
    imports chain5Graph 7 qs = importAll 7 chain5Graph chain5Rev.reverse ∧
    (imports chain5Graph 7 qs).isOk = true := by
  obtain ⟨g₁, hseq⟩ : ∃ g₁, importAll 7 chain5Graph chain5Rev.reverse = .ok g₁ :=
    isOk_ex (by decide)
  have hinv : ∀ q ∈ [[10, 11], [11, 13], [13, 14], [14, 12]], ∃ a r, q = a :: r ∧ a ≠ SUPER ∧
      a ≠ PKG ∧ chain5Graph.resolve 7 a true = .ok none := by
    intro q hq
    simp only [List.mem_cons, List.not_mem_nil, or_false] at hq
    rcases hq with rfl | rfl | rfl | rfl
    · exact ⟨10, [11], rfl, by decide, by decide, by decide⟩
    · exact ⟨11, [13], rfl, by decide, by decide, by decide⟩
    · exact ⟨13, [14], rfl, by decide, by decide, by decide⟩
    · exact ⟨14, [12], rfl, by decide, by decide, by decide⟩
  have hperm : qs.Perm [[5, 10], [10, 11], [11, 13], [13, 14], [14, 12]] :=
    h.trans (by decide)
  have hres := imports_chain_any_order chain5_inv chain5_keysOk (s := 7) (by decide) 5 [10]
    [[10, 11], [11, 13], [13, 14], [14, 12]] g₁ (by decide) hseq
    ⟨⟨[11], rfl⟩, ⟨[13], rfl⟩, ⟨[14], rfl⟩, ⟨[12], rfl⟩, trivial⟩ (by decide) hinv qs hperm
  rw [hseq, hres]
  exact ⟨rfl, rfl⟩

end RotoV.Scope
