/-
  C05 — the parameter list Roto declares equals the parameter list Rust calls
  through, for every boundary signature.
-/
import RotoV.Lemmas.BoundaryLayout
set_option linter.unusedSimpArgs false

namespace RotoV.Boundary
open RotoV RotoV.Gen.BoundaryTables

/-- How a parameter of a boundary type is passed, stated independently of both sides:
    `()` is not passed, scalars in their own class, everything else as a pointer. -/
def paramIr : BTy → Option IrType
  | .unit => none
  | .prim p => some ((lowerPrim p).getD .Pointer)
  | _ => some .Pointer

/-- what a function returns in a register -/
def retIr : BTy → Option IrType
  | .prim p => lowerPrim p
  | _ => none

/-- whether the result is written through a hidden first pointer parameter -/
def retByRef : BTy → Bool
  | .unit => false
  | .prim p => (lowerPrim p).isNone
  | _ => true

theorem primitiveLayout_size_pos (h : HostLayouts) (hh : h.WF) (p : Primitive) :
    0 < (primitiveLayout h p).size := by
  cases p with
  | Int k s => cases s <;> simp [primitiveLayout, Layout.new, IntSize.int]
  | Float s => cases s <;> simp [primitiveLayout, Layout.new, FloatSize.int]
  | String => exact hh.string_pos
  | Char => exact hh.char_pos
  | Bool => simp [primitiveLayout, Layout.new]
  | Asn => simp [primitiveLayout, Layout.new]
  | IpAddr => exact hh.ipaddr_pos
  | Prefix => exact hh.prefix_pos

theorem size_ne_zero {l : Layout} (h : 0 < l.size) : (l.size == 0) = false := by
  simp; omega

theorem lowerType_current (h : HostLayouts) (t : MTy) :
    lowerType Cfg.current h t = lowerSteps Cfg.current h t lowerTypeSteps := rfl

/-- `is_reference_type` of an inhabited, non-zero-sized type depends only on its constructor. -/
theorem isReferenceType_of_pos (h : HostLayouts) (t : MTy) (l : Layout) (hl : layoutOf h t = some l)
    (hpos : 0 < l.size) : isReferenceType Cfg.current h t = isReferenceKind t.kind := by
  simp [isReferenceType, hl, size_ne_zero hpos]

theorem lowerType_prim (h : HostLayouts) (hh : h.WF) (p : Primitive) :
    lowerType Cfg.current h (.prim p) = .ok (paramIr (.prim p)) := by
  have hpos := primitiveLayout_size_pos h hh p
  have hl : layoutOf h (.prim p) = some (primitiveLayout h p) := by simp [layoutOf]
  have hr := isReferenceType_of_pos h (.prim p) _ hl hpos
  rw [lowerType_current]
  cases p with
  | Int k s =>
    cases k <;> cases s <;>
      simp [lowerTypeSteps, lowerSteps, lowerStep, hl, size_ne_zero hpos, MTy.kind, lowerPrim, paramIr]
  | Float s =>
    cases s <;>
      simp [lowerTypeSteps, lowerSteps, lowerStep, hl, size_ne_zero hpos, MTy.kind, lowerPrim, paramIr]
  | String | IpAddr | Prefix =>
    simp [lowerTypeSteps, lowerSteps, lowerStep, hl, size_ne_zero hpos, MTy.kind, lowerPrim, paramIr, hr,
      isReferenceKind]
  | Char | Bool | Asn =>
    simp [lowerTypeSteps, lowerSteps, lowerStep, hl, size_ne_zero hpos, MTy.kind, lowerPrim, paramIr]

/-- `layout_of` of a boundary type (restated from `Lemmas/BoundaryLayout` for all types at once) -/
theorem layout_agrees' (h : HostLayouts) (hh : h.WF) (t : BTy) (ht : t.WF) :
    layoutOf h (toMTy t) = some (rustLayout h t) := by
  have ho : rotoOptionVariants = defaultOption := by decide
  have hr : rotoResultVariants = defaultResult := by decide
  have hv : verdictVariants = defaultVerdict := by decide
  induction t with
  | prim p => simp [toMTy, layoutOf, rustLayout, primitiveLayout_eq]
  | unit => rfl
  | val l => rfl
  | list t _ => rfl
  | option t ih =>
    have := enum_layout_agrees h hh defaultOption (by decide) [t] (by simp [defaultOption])
      (by intro a ha; simp only [List.mem_singleton] at ha; subst ha; exact ht)
      (by intro a ha; simp only [List.mem_singleton] at ha; subst ha; exact ih ht)
    simpa [toMTy, rustLayout, ho] using this
  | result a b iha ihb =>
    have := enum_layout_agrees h hh defaultResult (by decide) [a, b] (by simp [defaultResult])
      (by intro x hx; simp only [List.mem_cons, List.not_mem_nil, or_false] at hx
          rcases hx with rfl | rfl; exact ht.1; exact ht.2)
      (by intro x hx; simp only [List.mem_cons, List.not_mem_nil, or_false] at hx
          rcases hx with rfl | rfl; exact iha ht.1; exact ihb ht.2)
    simpa [toMTy, rustLayout, hr] using this
  | verdict a b iha ihb =>
    have := enum_layout_agrees h hh defaultVerdict (by decide) [a, b] (by simp [defaultVerdict])
      (by intro x hx; simp only [List.mem_cons, List.not_mem_nil, or_false] at hx
          rcases hx with rfl | rfl; exact ht.1; exact ht.2)
      (by intro x hx; simp only [List.mem_cons, List.not_mem_nil, or_false] at hx
          rcases hx with rfl | rfl; exact iha ht.1; exact ihb ht.2)
    simpa [toMTy, rustLayout, hv] using this

/-- the three enums occupy at least their tag -/
theorem enum_size_pos (h : HostLayouts) (hh : h.WF) (t : BTy) (ht : t.WF) :
    (∀ a, t = .option a → 0 < (rustLayout h t).size)
    ∧ (∀ a b, t = .result a b → 0 < (rustLayout h t).size)
    ∧ (∀ a b, t = .verdict a b → 0 < (rustLayout h t).size) := by
  refine ⟨?_, ?_, ?_⟩
  · rintro a rfl
    apply reprU8_size_pos _ (by simp [instVariants, rotoOptionVariants, rotoResultVariants, verdictVariants])
    apply instVariants_mem_wf
    intro l hl; simp only [List.mem_singleton] at hl; subst hl; exact rustLayout_wf h hh a ht
  · rintro a b rfl
    apply reprU8_size_pos _ (by simp [instVariants, rotoOptionVariants, rotoResultVariants, verdictVariants])
    apply instVariants_mem_wf
    intro l hl; simp only [List.mem_cons, List.not_mem_nil, or_false] at hl
    rcases hl with rfl | rfl
    · exact rustLayout_wf h hh a ht.1
    · exact rustLayout_wf h hh b ht.2
  · rintro a b rfl
    apply reprU8_size_pos _ (by simp [instVariants, rotoOptionVariants, rotoResultVariants, verdictVariants])
    apply instVariants_mem_wf
    intro l hl; simp only [List.mem_cons, List.not_mem_nil, or_false] at hl
    rcases hl with rfl | rfl
    · exact rustLayout_wf h hh a ht.1
    · exact rustLayout_wf h hh b ht.2

theorem lowerType_enum (h : HostLayouts) (vs : List (List MTy)) (l : Layout)
    (hl : layoutOf h (.enum vs) = some l) (hpos : 0 < l.size) :
    lowerType Cfg.current h (.enum vs) = .ok (some .Pointer) := by
  have hr := isReferenceType_of_pos h _ _ hl hpos
  rw [lowerType_current]
  simp [lowerTypeSteps, lowerSteps, lowerStep, hl, size_ne_zero hpos, MTy.kind, hr, isReferenceKind]

theorem isReferenceType_enum (h : HostLayouts) (vs : List (List MTy)) (l : Layout)
    (hl : layoutOf h (.enum vs) = some l) (hpos : 0 < l.size) :
    isReferenceType Cfg.current h (.enum vs) = some true := by
  rw [isReferenceType_of_pos h _ _ hl hpos]; rfl

/-- **`lower_type` of every boundary type** (current tree). -/
theorem lowerType_boundary (h : HostLayouts) (hh : h.WF) (t : BTy) (ht : t.WF) :
    lowerType Cfg.current h (toMTy t) = .ok (paramIr t) := by
  have hl := layout_agrees' h hh t ht
  obtain ⟨e1, e2, e3⟩ := enum_size_pos h hh t ht
  cases t with
  | prim p => exact lowerType_prim h hh p
  | unit =>
    rw [lowerType_current]
    simp [toMTy, lowerTypeSteps, lowerSteps, lowerStep, layoutOf, unitLayout, Layout.new, MTy.kind, paramIr]
  | val l =>
    rw [lowerType_current]
    simp [toMTy, lowerTypeSteps, lowerSteps, lowerStep, MTy.kind, paramIr]
  | list t =>
    rw [lowerType_current]
    simp [toMTy, lowerTypeSteps, lowerSteps, lowerStep, layoutOf, listLayout, size_ne_zero hh.list_pos,
      MTy.kind, paramIr]
  | option a => exact lowerType_enum h _ _ hl (e1 a rfl)
  | result a b => exact lowerType_enum h _ _ hl (e2 a b rfl)
  | verdict a b => exact lowerType_enum h _ _ hl (e3 a b rfl)

/-- **`is_reference_type` of every boundary type** (current tree): exactly the types whose result
    travels through the hidden return pointer. -/
theorem isReferenceType_boundary (h : HostLayouts) (hh : h.WF) (t : BTy) (ht : t.WF) :
    isReferenceType Cfg.current h (toMTy t) = some (retByRef t) := by
  have hl := layout_agrees' h hh t ht
  obtain ⟨e1, e2, e3⟩ := enum_size_pos h hh t ht
  cases t with
  | prim p =>
    rw [isReferenceType_of_pos h _ _ hl (by show 0 < (rustPrimLayout h p).size; rw [← primitiveLayout_eq]; exact primitiveLayout_size_pos h hh p)]
    cases p with
    | Int k s => cases k <;> cases s <;> rfl
    | Float s => cases s <;> rfl
    | _ => rfl
  | unit => simp [toMTy, isReferenceType, layoutOf, unitLayout, Layout.new, zeroSizedApplies, Cfg.current,
      isReferenceZeroSized, MTy.kind, retByRef]
  | val l => simp [toMTy, isReferenceType, layoutOf, zeroSizedApplies, Cfg.current, isReferenceZeroSized,
      MTy.kind, retByRef, isReferenceKind]
  | list t =>
    rw [isReferenceType_of_pos h _ _ hl hh.list_pos]; rfl
  | option a => exact isReferenceType_enum h _ _ hl (e1 a rfl)
  | result a b => exact isReferenceType_enum h _ _ hl (e2 a b rfl)
  | verdict a b => exact isReferenceType_enum h _ _ hl (e3 a b rfl)

theorem keepArgs_boundary (h : HostLayouts) (hh : h.WF) (ps : List BTy) (hps : ∀ p ∈ ps, p.WF) :
    keepArgs Cfg.current h .lowerType (ps.map toMTy) = .ok (ps.filterMap paramIr) := by
  induction ps with
  | nil => rfl
  | cons p ps ih =>
    have h1 := lowerType_boundary h hh p (hps p (List.mem_cons_self ..))
    have h2 := ih fun x hx => hps x (List.mem_cons_of_mem _ hx)
    simp only [List.map_cons, keepArgs, keepArg, h1, h2, List.filterMap_cons]
    cases paramIr p <;> rfl

/-- `T::AsParam` in the platform C ABI, for every boundary type. -/
theorem asParamAbi_boundary (t : BTy) : asParamAbi t = .ok ((paramIr t).map craneliftType) := by
  cases t with
  | prim p =>
    cases p with
    | Int k s => cases k <;> cases s <;> rfl
    | Float s => cases s <;> rfl
    | _ => rfl
  | _ => rfl

theorem asParamAbis_boundary (ps : List BTy) :
    asParamAbis ps = .ok ((ps.filterMap paramIr).map craneliftType) := by
  induction ps with
  | nil => rfl
  | cons p ps ih =>
    simp only [asParamAbis, asParamAbi_boundary, ih, List.filterMap_cons]
    cases paramIr p <;> rfl

theorem returnRule_boundary (h : HostLayouts) (hh : h.WF) (r : BTy) (hr : r.WF) :
    returnRule Cfg.current h (toMTy r) = .ok (retIr r, retByRef r) := by
  have h1 := isReferenceType_boundary h hh r hr
  have h2 := lowerType_boundary h hh r hr
  rw [returnRule, h1]
  cases r with
  | prim p =>
    cases p with
    | Int k s => cases k <;> cases s <;> simp [retByRef, lowerPrim, h2, paramIr, retIr]
    | Float s => cases s <;> simp [retByRef, lowerPrim, h2, paramIr, retIr]
    | _ => simp [retByRef, lowerPrim, h2, paramIr, retIr]
  | unit => simp [retByRef, h2, paramIr, retIr]
  | _ => simp [retByRef, retIr]

/-- what Rust returns in a register when there is no return pointer -/
theorem transformedRetAbi_boundary (h : HostLayouts) (hh : h.WF) (r : BTy) (hb : retByRef r = false) :
    transformedRetAbi h r = .ok ((retIr r).map craneliftType) := by
  cases r with
  | prim p =>
    have hpos : 0 < (rustLayout h (.prim p)).size := by
      show 0 < (rustPrimLayout h p).size; rw [← primitiveLayout_eq]; exact primitiveLayout_size_pos h hh p
    have hne : (rustLayout h (.prim p)).size ≠ 0 := by omega
    cases p with
    | Int k s => cases k <;> cases s <;> simp [transformedRetAbi, hne] <;> rfl
    | Float s => cases s <;> simp [transformedRetAbi, hne] <;> rfl
    | String | IpAddr | Prefix => simp [retByRef, lowerPrim] at hb
    | Char | Bool | Asn => simp [transformedRetAbi, hne] <;> rfl
  | unit => rfl
  | _ => simp [retByRef] at hb

end RotoV.Boundary
