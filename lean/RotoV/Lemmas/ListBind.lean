/-
  ListBind lemmas (property C15): soundness of the checker `Binding.ok` that is
  run over the regenerated table of script bindings — a row that passes it makes
  the script call the operation `scriptMeaning` names, for ALL actual
  parameters below 2^64 (what a script can pass), and hands every length /
  capacity / index below 2^64 back unchanged.
-/
import RotoV.Model.ListBind
import RotoV.Lemmas.ListRefine

namespace RotoV.ListM
open RotoV

theorem castArg_id {c : Option CastTy} {v : Nat} (hc : castOk c = true) (hv : v < 2 ^ 64) :
    castArg c v = v := by
  cases c with
  | none => rfl
  | some t =>
    cases t <;> simp [castOk, CastTy.keepsIndices] at hc <;>
      simp only [castArg, castTo, CastTy.bits] <;> exact Nat.mod_eq_of_lt hv

theorem getD_small {l : List Nat} (h : ∀ v ∈ l, v < 2 ^ 64) (k : Nat) : l.getD k 0 < 2 ^ 64 := by
  induction l generalizing k with
  | nil => simp
  | cons x xs ih =>
    cases k with
    | zero => simpa using h x (by simp)
    | succ k => simpa using ih (fun v hv => h v (by simp [hv])) k

theorem passed_eq (b : Binding) (actuals : List Nat)
    (hc : b.args.all (fun a => castOk a.2) = true) (h : ∀ v ∈ actuals, v < 2 ^ 64) :
    b.passed actuals = (b.args.map (·.1)).map (fun k => actuals.getD k 0) := by
  unfold Binding.passed
  rw [List.map_map]
  apply List.map_congr_left
  intro a ha
  have hk := List.all_eq_true.mp hc a ha
  simp only [Function.comp]
  exact castArg_id hk (getD_small h a.1)

/-- SOUNDNESS of the checker, arguments: a row that passes performs the
    operation the specification names, whatever the script passes -/
theorem ok_toOp (b : Binding) (hok : b.ok = true) (hn : b.name ≠ .other) (d : Nat)
    (actuals : List Nat) (h : ∀ v ∈ actuals, v < 2 ^ 64) :
    b.toOp d actuals = scriptMeaning b.name d actuals := by
  unfold Binding.ok at hok
  have hne : (b.name == BName.other) = false := by simpa using hn
  simp only [hne, Bool.false_or, Bool.and_eq_true, beq_iff_eq] at hok
  obtain ⟨⟨⟨h1, h2⟩, h3⟩, _⟩ := hok
  unfold Binding.toOp scriptMeaning
  rw [passed_eq b actuals h3 h, h1, h2]

/-- a result a list of fewer than 2^64 elements can give -/
def OutSmall : Out → Prop
  | .nat n => n < 2 ^ 64
  | .opt (some n) => n < 2 ^ 64
  | _ => True

theorem castTo_id {t : CastTy} {v : Nat} (ht : t.keepsIndices = true) (hv : v < 2 ^ 64) :
    castTo t v = v := castArg_id (c := some t) ht hv

theorem retFits_keeps {nm : BName} {r : RetConv} (h : retFits nm r = true) : r.keeps = true := by
  cases nm <;> cases r <;> simp_all [retFits, RetConv.keeps]

theorem convOut_asIs {b : Binding} (h : b.ret = .asIs) (o : Out) : b.convOut o = o := by
  cases o <;> simp [Binding.convOut, h]

/-- SOUNDNESS of the checker, result: a row that passes hands the result back unchanged -/
theorem ok_convOut (b : Binding) (hok : b.ok = true) (hn : b.name ≠ .other) (o : Out)
    (ho : OutSmall o) : b.convOut o = o := by
  unfold Binding.ok at hok
  have hne : (b.name == BName.other) = false := by simpa using hn
  simp only [hne, Bool.false_or, Bool.and_eq_true] at hok
  obtain ⟨_, h4'⟩ := hok
  have h4 := retFits_keeps h4'
  cases o with
  | nat n =>
    unfold Binding.convOut
    cases hr : b.ret with
    | cast t =>
      rw [hr] at h4
      simp only [castTo_id (t := t) h4 ho]
    | asIs => rfl
    | mapCast t => rfl
  | opt o =>
    unfold Binding.convOut
    cases hr : b.ret with
    | mapCast t =>
      rw [hr] at h4
      cases o with
      | none => rfl
      | some n => simp only [Option.map, castTo_id (t := t) h4 ho]
    | asIs => rfl
    | cast t => rfl
  | unit => rfl
  | bool _ => rfl
  | vals _ => rfl
  | str _ => rfl
  | fault _ => rfl

/-! ### the results of a reachable state are small -/

theorem firstIdx_lt {v : Nat} : ∀ (xs : List Nat) (i k : Nat), firstIdx v xs i = some k → k < i + xs.length
  | [], _, _, h => by simp [firstIdx] at h
  | x :: xs, i, k, h => by
    unfold firstIdx at h
    split at h
    · simp only [Option.some.injEq] at h; subst h; simp
    · have := firstIdx_lt xs (i + 1) k h
      simp only [List.length_cons]; omega

theorem step_of_ok {sz : Nat} {s : St} {op : Op} {r : Out × St} (h : stepE sz s op = .ok r) :
    step sz s op = r := by unfold step; rw [h]

theorem step_of_err {sz : Nat} {s : St} {op : Op} {f : Fault} (h : stepE sz s op = .error f) :
    step sz s op = (.fault f, s) := by unfold step; rw [h]

/-- in every state that satisfies the store invariant a length, a capacity and a
    found index are below 2^64 (`len ≤ cap ≤ usize::MAX`, an index is below the length) -/
theorem observers_small {sz : Nat} {s : St} (inv : Inv sz s) (h v : Nat) :
    OutSmall (step sz s (.len h)).1 ∧ OutSmall (step sz s (.capacity h)).1 ∧
      OutSmall (step sz s (.index h v)).1 := by
  rcases slot_dec s h with ⟨a, hs⟩ | hs
  · have ⟨l, hl⟩ := inv.slot h a hs
    have ok := (inv.raw a l hl).1
    have e1 : stepE sz s (.len h) = .ok (.nat l.len, s) :=
      withLock_read' (f := fun l => .ok (.nat l.len, l)) inv hs hl rfl
    have e2 : stepE sz s (.capacity h) = .ok (.nat l.cap, s) :=
      withLock_read' (f := fun l => .ok (.nat l.cap, l)) inv hs hl rfl
    have e3 : stepE sz s (.index h v) = .ok (.opt (firstIdx v l.elems 0), s) :=
      withLock_read' inv hs hl (by simp only [rawIndex_eq ok.wf])
    have hb := ok.bound
    have hle := ok.le
    have hwf := ok.wf
    unfold usizeMax at hb
    refine ⟨?_, ?_, ?_⟩
    · rw [step_of_ok e1]; show l.len < 2 ^ 64; omega
    · rw [step_of_ok e2]; show l.cap < 2 ^ 64; omega
    · rw [step_of_ok e3]
      cases hf : firstIdx v l.elems 0 with
      | none => trivial
      | some k =>
        have := firstIdx_lt _ _ _ hf
        show k < 2 ^ 64
        omega
  · have b1 : stepE sz s (.len h) = .error .badHandle := withLock_bad hs (fun l => .ok (.nat l.len, l))
    have b2 : stepE sz s (.capacity h) = .error .badHandle := withLock_bad hs (fun l => .ok (.nat l.cap, l))
    have b3 : stepE sz s (.index h v) = .error .badHandle := withLock_bad hs _
    refine ⟨?_, ?_, ?_⟩
    · rw [step_of_err b1]; trivial
    · rw [step_of_err b2]; trivial
    · rw [step_of_err b3]; trivial

/-- SOUNDNESS of the checker, result, without a hypothesis on the result: in a
    state that satisfies the store invariant the script sees exactly what the
    operation the row performs returned -/
theorem ok_result (b : Binding) (hok : b.ok = true) (hn : b.name ≠ .other) {sz : Nat} {s : St}
    (inv : Inv sz s) (d : Nat) (actuals : List Nat) (op : Op) (h : ∀ v ∈ actuals, v < 2 ^ 64)
    (hop : b.toOp d actuals = some op) :
    b.convOut (step sz s op).1 = (step sz s op).1 := by
  rw [ok_toOp b hok hn d actuals h] at hop
  have hfit : retFits b.name b.ret = true := by
    unfold Binding.ok at hok
    have hne : (b.name == BName.other) = false := by simpa using hn
    simp only [hne, Bool.false_or, Bool.and_eq_true] at hok
    exact hok.2
  cases hnm : b.name <;> rw [hnm] at hop hfit <;>
    simp only [scriptMeaning, canon, opOf, List.map, Option.some.injEq, reduceCtorEq] at hop
  case len => subst hop; exact ok_convOut b hok hn _ (observers_small inv _ 0).1
  case capacity => subst hop; exact ok_convOut b hok hn _ (observers_small inv _ 0).2.1
  case index => subst hop; exact ok_convOut b hok hn _ (observers_small inv _ _).2.2
  all_goals exact convOut_asIs (by simpa [retFits] using hfit) _

theorem bindingOf_mem {nm : BName} {b : Binding} (h : bindingOf nm = some b) :
    b ∈ Gen.ListBind.bindings ∧ b.name = nm := by
  unfold bindingOf at h
  exact ⟨List.mem_of_find?_eq_some h, by simpa using List.find?_some h⟩

end RotoV.ListM
