/-
  ListBind lemmas (property C15): soundness of the checker `Binding.ok` that is
  run over the regenerated table of script bindings — a row that passes it makes
  the script call the operation `scriptMeaning` names, for ALL actual
  parameters below 2^64 (what a script can pass), and hands every length /
  capacity / index below 2^64 back unchanged.
-/
import RotoV.Model.ListBind

namespace RotoV.ListM
open RotoV

theorem castArg_id {c : Option CastTy} {v : Nat} (hc : castOk c = true) (hv : v < 2 ^ 64) :
    castArg c v = v := by
  cases c with
  | none => rfl
  | some t =>
    cases t <;> simp [castOk, CastTy.keepsIndices] at hc <;>
      simp only [castArg, castTo, CastTy.bits] <;> exact Nat.mod_eq_of_lt hv

theorem getD_small {l : List Nat} (h : ∀ v ∈ l, v < 2 ^ 64) (k : Nat) : l.getD k 0 < 2 ^ 64 := by
  induction l generalizing k with
  | nil => simp
  | cons x xs ih =>
    cases k with
    | zero => simpa using h x (by simp)
    | succ k => simpa using ih (fun v hv => h v (by simp [hv])) k

theorem passed_eq (b : Binding) (actuals : List Nat)
    (hc : b.args.all (fun a => castOk a.2) = true) (h : ∀ v ∈ actuals, v < 2 ^ 64) :
    b.passed actuals = (b.args.map (·.1)).map (fun k => actuals.getD k 0) := by
  unfold Binding.passed
  rw [List.map_map]
  apply List.map_congr_left
  intro a ha
  have hk := List.all_eq_true.mp hc a ha
  simp only [Function.comp]
  exact castArg_id hk (getD_small h a.1)

/-- SOUNDNESS of the checker, arguments: a row that passes performs the
    operation the specification names, whatever the script passes -/
theorem ok_toOp (b : Binding) (hok : b.ok = true) (hn : b.name ≠ .other) (d : Nat)
    (actuals : List Nat) (h : ∀ v ∈ actuals, v < 2 ^ 64) :
    b.toOp d actuals = scriptMeaning b.name d actuals := by
  unfold Binding.ok at hok
  have hne : (b.name == BName.other) = false := by simpa using hn
  simp only [hne, Bool.false_or, Bool.and_eq_true, beq_iff_eq] at hok
  obtain ⟨⟨⟨h1, h2⟩, h3⟩, _⟩ := hok
  unfold Binding.toOp scriptMeaning
  rw [passed_eq b actuals h3 h, h1, h2]

/-- a result a list of fewer than 2^64 elements can give -/
def OutSmall : Out → Prop
  | .nat n => n < 2 ^ 64
  | .opt (some n) => n < 2 ^ 64
  | _ => True

theorem castTo_id {t : CastTy} {v : Nat} (ht : t.keepsIndices = true) (hv : v < 2 ^ 64) :
    castTo t v = v := castArg_id (c := some t) ht hv

/-- SOUNDNESS of the checker, result: a row that passes hands the result back unchanged -/
theorem ok_convOut (b : Binding) (hok : b.ok = true) (hn : b.name ≠ .other) (o : Out)
    (ho : OutSmall o) : b.convOut o = o := by
  unfold Binding.ok at hok
  have hne : (b.name == BName.other) = false := by simpa using hn
  simp only [hne, Bool.false_or, Bool.and_eq_true] at hok
  obtain ⟨_, h4⟩ := hok
  cases o with
  | nat n =>
    unfold Binding.convOut
    cases hr : b.ret with
    | cast t =>
      rw [hr] at h4
      simp only [castTo_id (t := t) h4 ho]
    | asIs => rfl
    | mapCast t => rfl
  | opt o =>
    unfold Binding.convOut
    cases hr : b.ret with
    | mapCast t =>
      rw [hr] at h4
      cases o with
      | none => rfl
      | some n => simp only [Option.map, castTo_id (t := t) h4 ho]
    | asIs => rfl
    | cast t => rfl
  | unit => rfl
  | bool _ => rfl
  | vals _ => rfl
  | str _ => rfl
  | fault _ => rfl

theorem bindingOf_mem {nm : BName} {b : Binding} (h : bindingOf nm = some b) :
    b ∈ Gen.ListBind.bindings ∧ b.name = nm := by
  unfold bindingOf at h
  exact ⟨List.mem_of_find?_eq_some h, by simpa using List.find?_some h⟩

end RotoV.ListM
